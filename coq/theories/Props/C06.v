(* C06 - formatting a parsed document preserves its meaning and is idempotent.
   Only statements closed by [exact]; models: Fmt/Render.v (the renderers of the repaired crate, faithful),
   Fmt/LitParse.v (specification parsers); proofs: Fmt/RenderProofs.v.  Theorems named _partial carry the full statement
   in the comment above them and have a _refuted companion with a concrete witness (replayed on the real crate by ./check C06). *)
From Cddl Require Import Base.Bytes Fmt.Render Fmt.LitParse Fmt.RenderProofs.
Open Scope N_scope.

(* unsigned integers: every usize value *)
Theorem C06_render_uint_rt : forall n, n < two64 -> parse_lit (render_lit (LUint n)) = Some (LUint n).
Proof. exact render_uint_rt. Qed.

(* FULL: forall z in isize, parse_lit (render_lit (LInt z)) = Some (LInt z) - false: IntValue 0 (source "-0") prints "0" *)
Theorem C06_render_int_rt_partial : forall z, (- Z.of_N two63 <= z < 0)%Z -> parse_lit (render_lit (LInt z)) = Some (LInt z).
Proof. exact render_int_rt_partial. Qed.
Theorem C06_render_int_rt_refuted :
  exists z, (- Z.of_N two63 <= z < Z.of_N two63)%Z /\ parse_lit (render_lit (LInt z)) <> Some (LInt z).
Proof. exact render_int_rt_refuted. Qed.

(* floats: every finite value in decimal normal form (integral values keep ".0"; infinities/NaN have no CDDL spelling and
   cannot come out of the parser) *)
Theorem C06_render_float_rt : forall neg m e, fl_canon m e ->
  parse_lit (render_lit (LFloat (FFin neg m e))) = Some (LFloat (FFin neg m e)).
Proof. exact render_float_rt. Qed.

(* text: every stored value, quotes and backslashes included *)
Theorem C06_render_text_rt : forall s, parse_lit (render_lit (LText s)) = Some (LText s).
Proof. exact render_text_rt. Qed.

(* byte strings: h'..' and b64'..' for every byte string; '..' when the value has no apostrophe *)
Theorem C06_render_bytes_hex_rt : forall bs, wf_bytes bs -> parse_lit (render_lit (LBytes BH bs)) = Some (LBytes BH bs).
Proof. exact render_bytes_hex_rt. Qed.
Theorem C06_render_bytes_b64_rt : forall bs, wf_bytes bs -> parse_lit (render_lit (LBytes BB bs)) = Some (LBytes BB bs).
Proof. exact render_bytes_b64_rt. Qed.
Theorem C06_render_bytes_utf8_rt_partial : forall bs, no_squote bs = true ->
  parse_lit (render_lit (LBytes BU bs)) = Some (LBytes BU bs).
Proof. exact render_bytes_utf8_rt_partial. Qed.
Theorem C06_render_bytes_utf8_rt_refuted : exists bs, parse_lit (render_lit (LBytes BU bs)) <> Some (LBytes BU bs).
Proof. exact render_bytes_utf8_rt_refuted. Qed.

(* occurrence indicators with their bounds *)
Theorem C06_render_occur_rt_partial : forall o, occur_bounded o -> o <> OExact None None ->
  parse_occur (render_occur o) = Some o.
Proof. exact render_occur_rt_partial. Qed.
Theorem C06_render_occur_rt_refuted : parse_occur (render_occur (OExact None None)) = Some OStar.
Proof. exact render_occur_rt_refuted. Qed.

(* tag heads: #6.n  #m  #m.n  # *)
Theorem C06_render_tag_head_rt : forall t, taghead_ok t -> parse_tag_head (render_tag_head t) = Some t.
Proof. exact render_tag_head_rt. Qed.
Theorem C06_render_tagged_no_type_rt : forall c, (match c with Some n => n < two64 | None => True end) ->
  parse_tag_head (render_tagged c None) = Some (TTagged c).
Proof. exact render_tagged_no_type_rt. Qed.

(* control operators: name table, and the grammar's ordered choice *)
Theorem C06_render_ctl_rt : forall c, parse_ctl (render_ctl c) = Some c.
Proof. exact render_ctl_rt. Qed.
(* at the level of the grammar (ordered choice with token boundary, 8d55c20): all 37 operators, .cborseq included *)
Theorem C06_render_ctl_peg_rt : forall c rest, peg_ctl (render_ctl c ++ 32 :: rest) = Some (c, 32 :: rest).
Proof. exact render_ctl_peg_rt. Qed.
(* Type1::fmt separates a control operator from its controller by a blank: it is read back as itself whatever follows *)
Theorem C06_render_type1_ctl : forall name_like left c right,
  exists pre, render_type1 name_like left (render_ctl c) true right = pre ++ render_ctl c ++ 32 :: right /\
              peg_ctl (render_ctl c ++ 32 :: right) = Some (c, 32 :: right).
Proof. exact render_type1_ctl. Qed.

(* identifiers with socket prefixes; unwrap, group-to-choice and cut markers; range operators *)
Theorem C06_render_ident_rt : forall s id, ident_ok id -> parse_ident (render_ident s id) = Some (s, id).
Proof. exact render_ident_rt. Qed.
Theorem C06_render_marked_rt : forall m s id, ident_ok id -> hd 0 id <> 126 -> hd 0 id <> 38 ->
  parse_marked (render_marked m s id) = Some (m, s, id).
Proof. exact render_marked_rt. Qed.
Theorem C06_render_cut_rt : forall b, parse_cut (render_cut b) = Some b.
Proof. exact render_cut_rt. Qed.
Theorem C06_render_rangeop_rt : forall b, parse_rangeop (render_rangeop b) = Some b.
Proof. exact render_rangeop_rt. Qed.

(* non-vacuity *)
Example C06_example_float : parse_lit (render_lit (LFloat (FFin true 123456789 (-3)))) = Some (LFloat (FFin true 123456789 (-3))).
Proof. vm_compute. reflexivity. Qed.
Example C06_example_b64 : render_lit (LBytes BB [251; 255; 191]) = [98; 54; 52; 39; 45; 95; 45; 95; 39].
Proof. vm_compute. reflexivity. Qed.
Example C06_example_integral_float : render_lit (LFloat (FFin false 15 2)) = [49; 53; 48; 48; 46; 48].
Proof. vm_compute. reflexivity. Qed.
Example C06_example_text : render_lit (LText [113; 34; 92]) = [34; 113; 92; 34; 92; 92; 34].
Proof. vm_compute. reflexivity. Qed.
Example C06_example_occur : parse_occur (render_occur (OExact (Some 2) (Some 18446744073709551615))) = Some (OExact (Some 2) (Some 18446744073709551615)).
Proof. vm_compute. reflexivity. Qed.
