(* C09 - type operators, occurrences and prelude names obey their defining identities (over Sem.v),
   and the occurrence tables of both array matchers (regenerated from the source on every run) are the RFC's. *)
From Cddl Require Import Sem.Syntax Sem.Validator Sem.Sem Sem.Identities Sem.OccSugar Generated.OccTable.
Open Scope Z_scope.

Theorem C09_choice_or : forall jm e a b v, MatchT jm e (TOr a b) v <-> MatchT jm e a v \/ MatchT jm e b v.
Proof. exact choice_or. Qed.
Theorem C09_choice_fail : forall jm e a b v, FailT jm e (TOr a b) v <-> FailT jm e a v /\ FailT jm e b v.
Proof. exact choice_fail. Qed.
Theorem C09_choice_comm : forall jm e a b v, MatchT jm e (TOr a b) v <-> MatchT jm e (TOr b a) v.
Proof. exact choice_comm. Qed.
Theorem C09_and_within_conj : forall jm e c a b v, is_and c = true ->
  (MatchT jm e (TCtl c a b) v <-> MatchT jm e a v /\ MatchT jm e b v).
Proof. exact and_conj. Qed.
Theorem C09_ne_is_complement_in_T : forall jm e t l v,
  MatchT jm e (TCtl CNe t (TLit l)) v <-> MatchT jm e t v /\ ~ MatchT jm e (TCtl CEq t (TLit l)) v.
Proof. exact ne_is_complement_in_T. Qed.
Theorem C09_range_excl_vs_incl : forall jm e lo hi v,
  MatchT jm e (TRange lo hi false) v <-> MatchT jm e (TRange lo hi true) v /\ v <> VInt hi.
Proof. exact range_excl_vs_incl. Qed.
Theorem C09_prelude_unfold : forall jm e n t v,
  lookup e n = None -> lookup prelude n = Some (DType t) -> (MatchT jm e (TRef n) v <-> MatchT jm e t v).
Proof. exact prelude_unfold. Qed.
Theorem C09_occ_sugar_json : occ_table_json = rfc_occ_table /\ occ_exact_lower_default_json = 0%N.
Proof. exact occ_sugar_json. Qed.
Theorem C09_occ_sugar_cbor : occ_table_cbor = rfc_occ_table /\ occ_exact_lower_default_cbor = 0%N.
Proof. exact occ_sugar_cbor. Qed.

Example C09_example : MatchT true [] (TCtl CNe (TRef 1003%N) (TLit (LInt 3))) (VInt 4).
Proof.
  apply ne_is_complement_in_T. split.
  - eapply M_ref; [reflexivity|]. apply M_or1. eapply M_ref; [reflexivity|]. apply M_leaf. reflexivity.
  - intros H. inversion H; subst; try discriminate.
Qed.
