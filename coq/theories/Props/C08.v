(* C08 - naming and rule order are semantically transparent (over Sem.v). Generics, sockets and
   parentheses are resolved by the parser before validation: for those the check is metamorphic on the code. *)
From Cddl Require Import Sem.Syntax Sem.Validator Sem.Sem Sem.Transparent.
From Coq Require Import Permutation.
Open Scope Z_scope.

(* replacing an expression by a reference to a rule defined as that expression / inlining a rule *)
Theorem C08_ref_unfold : forall jm e n t v, lookup_all e n = Some (DType t) ->
  (MatchT jm e (TRef n) v <-> MatchT jm e t v) /\ (FailT jm e (TRef n) v <-> FailT jm e t v).
Proof. exact ref_unfold. Qed.

Theorem C08_gref_unfold : forall jm e n g vs r, lookup_all e n = Some (DGroup g) ->
  (SeqOk jm e (GRef n) vs r <-> SeqOk jm e g vs r).
Proof. exact gref_unfold. Qed.

(* the verdict depends on the rule set only through what each name resolves to: consistent renaming of
   unrelated rules, adding or removing rules that are never looked up *)
Theorem C08_env_ext : forall jm e e' t v, (forall n, lookup_all e n = lookup_all e' n) ->
  (MatchT jm e t v <-> MatchT jm e' t v) /\ (FailT jm e t v <-> FailT jm e' t v).
Proof. exact env_ext. Qed.

(* reordering rules *)
Theorem C08_rule_order_irrelevant : forall jm e e' t v, NoDup (map fst e) -> Permutation e e' ->
  (MatchT jm e t v <-> MatchT jm e' t v) /\ (FailT jm e t v <-> FailT jm e' t v).
Proof. exact rule_order_irrelevant. Qed.

Example C08_example :
  MatchT true [(0%N, DType (TRef 1%N)); (1%N, DType (TRef 1001%N))] (TRef 0%N) (VInt 5)
  <-> MatchT true [(1%N, DType (TRef 1001%N)); (0%N, DType (TRef 1%N))] (TRef 0%N) (VInt 5).
Proof. apply rule_order_irrelevant; [repeat constructor; cbn; intuition discriminate|apply perm_swap]. Qed.
