(* C08 - naming and rule order are semantically transparent (over Sem.v). Generics, sockets and
   parentheses are resolved by the parser before validation: for those the check is metamorphic on the code. *)
From Cddl Require Import Sem.Syntax Sem.Validator Sem.Sem Sem.Transparent Sem.Reach Sem.Rename Sem.AgreeAll Sem.Congr Sem.Subst.
From Coq Require Import Permutation.
Open Scope Z_scope.

(* replacing an expression by a reference to a rule defined as that expression / inlining a rule *)
Theorem C08_ref_unfold : forall jm e n t v, lookup_all e n = Some (DType t) ->
  (MatchT jm e (TRef n) v <-> MatchT jm e t v) /\ (FailT jm e (TRef n) v <-> FailT jm e t v).
Proof. exact ref_unfold. Qed.

Theorem C08_gref_unfold : forall jm e n g vs r, lookup_all e n = Some (DGroup g) ->
  (SeqOk jm e (GRef n) vs r <-> SeqOk jm e g vs r).
Proof. exact gref_unfold. Qed.

(* the verdict depends on the rule set only through what each name resolves to: consistent renaming of
   unrelated rules, adding or removing rules that are never looked up *)
Theorem C08_env_ext : forall jm e e' t v, (forall n, lookup_all e n = lookup_all e' n) ->
  (MatchT jm e t v <-> MatchT jm e' t v) /\ (FailT jm e t v <-> FailT jm e' t v).
Proof. exact env_ext. Qed.

(* reordering rules *)
Theorem C08_rule_order_irrelevant : forall jm e e' t v, NoDup (map fst e) -> Permutation e e' ->
  (MatchT jm e t v <-> MatchT jm e' t v) /\ (FailT jm e t v <-> FailT jm e' t v).
Proof. exact rule_order_irrelevant. Qed.

Example C08_example :
  MatchT true [(0%N, DType (TRef 1%N)); (1%N, DType (TRef 1001%N))] (TRef 0%N) (VInt 5)
  <-> MatchT true [(1%N, DType (TRef 1001%N)); (0%N, DType (TRef 1%N))] (TRef 0%N) (VInt 5).
Proof. apply rule_order_irrelevant; [repeat constructor; cbn; intuition discriminate|apply perm_swap]. Qed.

(* adding, removing or changing rules that are not reachable: R is any set of names that contains the
   references of the type and is closed under the rules' own references; rule sets that resolve the names
   of R alike give the same verdicts (Sem/Reach.v; proved on the decider at every fuel, then lifted) *)
Theorem C08_unreachable_rules_irrelevant : forall R jm e e' t v,
  (forall n, R n = true -> lookup_all e n = lookup_all e' n) ->
  (forall n d, R n = true -> lookup_all e n = Some d -> def_refs_in R d = true) ->
  refs_in R t = true ->
  (MatchT jm e t v <-> MatchT jm e' t v) /\ (FailT jm e t v <-> FailT jm e' t v).
Proof. exact reach_sem. Qed.

(* renaming rules consistently: an injective renaming that leaves the prelude names alone (Sem/Rename.v) *)
Theorem C08_renaming : forall s jm e t v,
  (forall a b, s a = s b -> a = b) -> (forall n, N.le 1000 n -> s n = n) ->
  (MatchT jm (eren s e) (ren s t) v <-> MatchT jm e t v) /\ (FailT jm (eren s e) (ren s t) v <-> FailT jm e t v).
Proof. exact rename_sem. Qed.

Theorem C08_renaming_decider : forall s jm e f t v,
  (forall a b, s a = s b -> a = b) -> (forall n, N.le 1000 n -> s n = n) ->
  vt f jm (eren s e) (ren s t) v = vt f jm e t v.
Proof. exact rename_vt. Qed.

(* non-vacuity: swapping the names 0 and 1 of a two-rule schema; a dead rule added to it *)
Definition swap01 (n : name) : name := if N.eqb n 0 then 1%N else if N.eqb n 1 then 0%N else n.
Lemma swap01_inj : forall a b, swap01 a = swap01 b -> a = b.
Proof.
  intros a b. unfold swap01.
  destruct (N.eqb a 0) eqn:A0; destruct (N.eqb b 0) eqn:B0; destruct (N.eqb a 1) eqn:A1; destruct (N.eqb b 1) eqn:B1;
    repeat match goal with H : N.eqb _ _ = true |- _ => apply N.eqb_eq in H | H : N.eqb _ _ = false |- _ => apply N.eqb_neq in H end;
    intros; subst; try reflexivity; try lia; try contradiction; try congruence.
Qed.
Lemma swap01_fix : forall n, N.le 1000 n -> swap01 n = n.
Proof.
  intros n Hn. unfold swap01. destruct (N.eqb n 0) eqn:A0; [apply N.eqb_eq in A0; lia|].
  destruct (N.eqb n 1) eqn:A1; [apply N.eqb_eq in A1; lia|reflexivity].
Qed.
Example C08_renaming_example :
  let e := [(0%N, DType (TArr (GOcc 0 None (GEnt None false (TRef 1%N))))); (1%N, DType (TOr (TRef 1001%N) (TRef 0%N)))] in
  eren swap01 e = [(1%N, DType (TArr (GOcc 0 None (GEnt None false (TRef 0%N))))); (0%N, DType (TOr (TRef 1001%N) (TRef 1%N)))] /\
  (MatchT true (eren swap01 e) (TRef 1%N) (VArr [VInt 1; VArr []]) <-> MatchT true e (TRef 0%N) (VArr [VInt 1; VArr []])).
Proof. split; [reflexivity|]. exact (proj1 (rename_sem swap01 true _ (TRef 0%N) _ swap01_inj swap01_fix)). Qed.

Example C08_dead_rule_example :
  let e := [(0%N, DType (TRef 1%N)); (1%N, DType (TRef 1001%N))] in
  let e' := [(0%N, DType (TRef 1%N)); (7%N, DType (TRef 7%N)); (1%N, DType (TRef 1001%N))] in
  MatchT true e (TRef 0%N) (VInt 5) <-> MatchT true e' (TRef 0%N) (VInt 5).
Proof.
  cbv zeta.
  refine (proj1 (reach_sem (fun n => N.eqb n 0 || N.eqb n 1 || N.eqb n 1001) true _ _ (TRef 0%N) (VInt 5) _ _ eq_refl)).
  - intros n Hn. apply orb_true_iff in Hn. destruct Hn as [Hn|Hn]; [apply orb_true_iff in Hn; destruct Hn as [Hn|Hn]|];
      apply N.eqb_eq in Hn; subst n; reflexivity.
  - intros n d Hn L. apply orb_true_iff in Hn. destruct Hn as [Hn|Hn]; [apply orb_true_iff in Hn; destruct Hn as [Hn|Hn]|];
      apply N.eqb_eq in Hn; subst n; vm_compute in L; injection L as <-; reflexivity.
Qed.

(* AT ANY POSITION (Sem/Congr.v, Sem/Subst.v).  Cg B is the congruence generated by the pairs B: the
   related types differ by exchanging B-related sub-expressions under tags, choices, control targets,
   .and/.within operands, array groups at any nesting and map member keys / values.  If the pairs are
   equivalent, so are the wholes (congruence of the specification, by induction over its 55 rules). *)
Theorem C08_congruence : forall jm e (B : ty -> ty -> Prop) t t',
  (forall p q, B p q -> Eqv jm e p q) -> Cg B t t' -> Eqv jm e t t'.
Proof. exact congruence. Qed.

(* replacing a type expression by a reference to a rule defined as that expression, or inlining a rule,
   at any position *)
Theorem C08_naming_anywhere : forall jm e t t' v, Cg (RefPair e) t t' ->
  (MatchT jm e t v <-> MatchT jm e t' v) /\ (FailT jm e t v <-> FailT jm e t' v).
Proof. exact naming_anywhere. Qed.

(* instantiating a generic rule (parameter x bound to the argument a) versus substituting the argument by
   hand; the parameter may occur anywhere except inside the literal argument of a comparison-like control *)
Theorem C08_generic_is_substitution : forall jm e x a t v,
  (forall n d, other x n = true -> lookup_all e n = Some d -> def_refs_in (other x) d = true) ->
  refs_in (other x) (subst x a t) = true ->
  (MatchT jm ((x, DType a) :: e) t v <-> MatchT jm e (subst x a t) v) /\
  (FailT jm ((x, DType a) :: e) t v <-> FailT jm e (subst x a t) v).
Proof. exact generic_is_substitution. Qed.

(* non-vacuity: pair<t> = [t, {"k" => t .size 2}] instantiated with tstr, against the hand-written type *)
Example C08_generic_example :
  let body := TArr (GSeq (GEnt None false (TRef 5%N))
                         (GEnt None false (TMap (GEnt (Some (TLit (LText [107%N]))) true (TCtl CSize (TRef 5%N) (TLit (LInt 2))))))) in
  subst 5%N (TRef 1006%N) body =
    TArr (GSeq (GEnt None false (TRef 1006%N))
               (GEnt None false (TMap (GEnt (Some (TLit (LText [107%N]))) true (TCtl CSize (TRef 1006%N) (TLit (LInt 2))))))) /\
  (MatchT false [(5%N, DType (TRef 1006%N))] body (VArr [VText [97%N]; VMap [(VText [107%N], VText [97%N; 98%N])]]) <->
   MatchT false [] (subst 5%N (TRef 1006%N) body) (VArr [VText [97%N]; VMap [(VText [107%N], VText [97%N; 98%N])]])).
Proof.
  cbv zeta. split; [reflexivity|].
  apply generic_is_substitution; [|reflexivity].
  intros n d Hn L. unfold lookup_all in L. cbn [lookup] in L.
  pose proof (AgreeAll.lookup_forallb (fun _ d => def_refs_in (other 5%N) d) prelude n d ltac:(vm_compute; reflexivity) L) as X.
  exact X.
Qed.

(* a choice spelled as a base rule plus "/=" increments, or as the plugs of a $socket, in document order,
   is the choice of all of them: it matches when one of them does and fails when all of them do *)
Theorem C08_increments : forall jm e incs base v,
  (MatchT jm e (increments base incs) v <-> MatchT jm e base v \/ Exists (fun a => MatchT jm e a v) incs) /\
  (FailT jm e (increments base incs) v <-> FailT jm e base v /\ Forall (fun a => FailT jm e a v) incs).
Proof. intros. split; [apply increments_match|apply increments_fail]. Qed.
