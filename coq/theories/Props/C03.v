(* C03 - the parser accepts exactly the RFC 8610 / RFC 9682 grammar and mirrors it in the AST.
   Only statements closed by [exact]; proofs are in Grammar/CfgProofs.v, Grammar/PegProofs.v, Grammar/TokenProofs.v.

   Objects:  cddl_pest   the PEG translated from /repo/cddl.pest on this run (Generated/CddlPest.v)
             peg_parse   pest's semantics (Grammar/PegRun.v), checked against the real parser by pair-tree comparison
             conv_cddl   the pair-tree -> AST bridge reduced to the AST shape (Grammar/Bridge.v), checked against the real AST
             abnf_spec   RFC 8610 App. B + RFC 9682 + the four documented leniencies, names/numbers as maximal tokens
             variant m   abnf_spec with the known deviations of mask m switched on (Grammar/Deviations.v)

   THE FULL STATEMENT (language part) is

     C03_language :  forall w, model_accepts w = Some true <-> Der abnf_spec (ARef n_cddl) w [].

   It is FALSE of the faithful model and of the crate: see C03_language_refuted and C03_deviation_witnesses below
   (every witness is replayed on the real parser by the check).  What is proved instead: the recogniser used as
   oracle is correct for every grammar (so a differential run against it is a run against the derivation relation);
   the token classes of the generated grammar equal the ABNF's up to stated bounds, modulo the listed deviations;
   the control-operator table equals the registered list; on a small scope the crate model accepts exactly the ABNF
   language with all listed deviations.  Phrase-level equality beyond that scope is tied by the differential run
   of the check, not by a theorem. *)
From Coq Require Import String.
From Cddl Require Import Grammar.PegSyn Grammar.PegRun Grammar.PegProofs Grammar.Cfg Grammar.CfgProofs Grammar.Abnf8610
  Grammar.Deviations Generated.CddlPest Grammar.Bridge Grammar.Tokens Grammar.TokenProofs.
Open Scope N_scope.

(* ---- (i) the ABNF recogniser is correct, for every grammar and every fuel ---- *)
Theorem C03_recogniser_sound : forall (g : cfg) f e w r,
  In r (fst (ls g f e w)) -> exists u, w = u ++ r /\ Der g e u r.
Proof. exact ls_sound. Qed.

Theorem C03_recogniser_complete : forall (g : cfg) f e w u r,
  snd (ls g f e w) = false -> Der g e u r -> w = u ++ r -> In r (fst (ls g f e w)).
Proof. exact ls_complete. Qed.

Theorem C03_recogniser_decides : forall (g : cfg) s w b,
  recognise g s w = Some b -> (b = true <-> Der g (ARef s) w []).
Proof. exact recognise_correct. Qed.

(* ---- (ii) the pest interpreter: more fuel never changes an answer; pair trees are well formed ---- *)
Theorem C03_peg_fuel_mono : forall (g : pgrammar) f f' e a p w r,
  (f <= f')%nat -> eval g f e a p w = r -> r <> OutOfFuel -> eval g f' e a p w = r.
Proof. exact eval_fuel_mono. Qed.

Theorem C03_peg_tree_wf : forall (g : pgrammar) start w ts p' w',
  peg_parse g start w = Ok ts p' w' ->
  fwf 0 p' ts /\ spans_in 0 (blen w) ts /\ p' + blen w' = blen w.
Proof. exact peg_tree_wf. Qed.

(* ---- (iii) token classes of the generated grammar vs the ABNF (all strings over the alphabet up to the bound) ----
   Grammars (Tokens.v):  g_number = variant {d_radix_float}      g_id    = variant {d_id_runs, d_dollar}
                         g_text   = variant {d_ctrl_chars, d_escapes}   g_bytes = variant {d_bytes_raw, d_bsqual_case}
                         g_blank  = variant {d_ctrl_chars}       g_ctl   = abnf_spec (no deviation since 8d55c20)
   i.e. the specification grammar with exactly the named deviations switched on; the *_refuted theorems show that the
   deviations are real (the RFC rule itself differs from the PEG rule). *)
Theorem C03_uint_lang_eq_upto3 : forall w, Forall (fun c => In c sig_uint) w -> (length w <= 3)%nat ->
  (peg_matches cddl_pest r_uint_value w = Some true <-> Der abnf_spec (ARef n_uint) w []).
Proof. exact uint_lang_eq_bounded. Qed.

Theorem C03_occur_lang_eq_upto3 : forall w, Forall (fun c => In c sig_occur) w -> (length w <= 3)%nat ->
  (peg_matches cddl_pest r_occur w = Some true <-> Der abnf_spec (ARef n_occur) w []).
Proof. exact occur_lang_eq_bounded. Qed.

Theorem C03_number_lang_eq_upto3 : forall w, Forall (fun c => In c sig_number) w -> (length w <= 3)%nat ->
  (peg_matches cddl_pest r_number w = Some true <-> Der g_number (ARef n_number) w []).
Proof. exact number_lang_eq_bounded. Qed.

Theorem C03_id_lang_eq_upto3 : forall w, Forall (fun c => In c sig_id) w -> (length w <= 3)%nat ->
  (peg_matches cddl_pest r_id w = Some true <-> Der g_id (ARef n_idns) w []).
Proof. exact id_lang_eq_bounded. Qed.

Theorem C03_text_lang_eq_upto3 : forall w, Forall (fun c => In c sig_text) w -> (length w <= 3)%nat ->
  (peg_matches cddl_pest r_text_value w = Some true <-> Der g_text (ARef n_text) w []).
Proof. exact text_lang_eq_bounded. Qed.

Theorem C03_text_escapes_lang_eq : forall w, In w text_probe ->
  (peg_matches cddl_pest r_text_value w = Some true <-> Der g_text (ARef n_text) w []).
Proof. exact text_escapes_lang_eq. Qed.

Theorem C03_bytes_lang_eq_upto3 : forall w, Forall (fun c => In c sig_bytes) w -> (length w <= 3)%nat ->
  (peg_matches cddl_pest r_bytes_value w = Some true <-> Der g_bytes (ARef n_bytes) w []).
Proof. exact bytes_lang_eq_bounded. Qed.

Theorem C03_blank_comment_lang_eq_upto3 : forall w, Forall (fun c => In c sig_blank) w -> (length w <= 3)%nat ->
  (peg_matches cddl_pest r_cddl w = Some true <-> Der g_blank (ARef n_cddl) w []).
Proof. exact blank_lang_eq_bounded. Qed.

Theorem C03_id_lang_refuted : exists w, peg_matches cddl_pest r_id w = Some false /\ Der abnf_spec (ARef n_id) w [].
Proof. exact id_lang_refuted. Qed.

Theorem C03_text_lang_refuted : exists w, peg_matches cddl_pest r_text_value w = Some true /\ ~ Der abnf_spec (ARef n_text) w [].
Proof. exact text_lang_refuted. Qed.

Theorem C03_bytes_lang_refuted : exists w, peg_matches cddl_pest r_bytes_value w = Some false /\ Der abnf_spec (ARef n_bytes) w [].
Proof. exact bytes_lang_refuted. Qed.

Theorem C03_number_lang_refuted : exists w, peg_matches cddl_pest r_number w = Some false /\ Der abnf_spec (ARef n_number) w [].
Proof. exact number_lang_refuted. Qed.

(* ---- (iv) control operators: the grammar's names are exactly the registered names ---- *)
Theorem C03_control_names_ok : same_set generated_control_names (map s2n registered_controls) = true.
Proof. exact control_names_ok. Qed.

Theorem C03_control_op_lang_eq : forall w, In w ctl_probe ->
  (peg_matches cddl_pest r_control_op w = Some true <-> Der g_ctl (ARef n_ctlop) w []).
Proof. exact control_op_lang_eq. Qed.

(* every registered name is matched as a whole control operator (the ".cborseq" defect was repaired in 8d55c20) *)
Theorem C03_control_names_reachable :
  forallb (fun n => match peg_matches cddl_pest r_control_op (46 :: s2n n) with
                    | Some b => b
                    | None => false
                    end) registered_controls = true.
Proof. exact control_names_reachable. Qed.

(* ---- (v) whole documents ---- *)
Theorem C03_language_refuted :
  (exists w, model_accepts w = Some true /\ ~ Der abnf_spec (ARef n_cddl) w []) /\
  (exists w, model_accepts w = Some false /\ Der abnf_spec (ARef n_cddl) w []).
Proof. exact language_refuted. Qed.

(* one witness per open finding: model and specification disagree, the single deviation explains it *)
Theorem C03_deviation_witnesses : forallb witness_ok deviation_witnesses = true.
Proof. exact deviation_witnesses_ok. Qed.

(* partial: in a small scope the crate model accepts exactly the ABNF language with all listed deviations *)
Theorem C03_language_upto3_partial : forall w, Forall (fun c => In c sig_doc) w -> (length w <= 3)%nat ->
  (model_accepts w = Some true <-> Der (variant all_deviations) (ARef n_cddl) w []).
Proof. exact language_small_scope. Qed.

(* non-vacuity *)
Example C03_example : model_accepts example_doc = Some true /\ Der abnf_spec (ARef n_cddl) example_doc [].
Proof. exact example_accepted. Qed.
