(* C05 - no entry point panics, aborts, overflows the stack or hangs.
   Only statements closed by [exact]; models in Robust/{Chase,Alloc,Arith}.v and Cbor/Wire.v,
   proofs in Robust/RobustProofs.v and Cbor/DecodeProofs.v.

   What is proven is the LOGIC of termination, allocation and partial operations of the
   modelled code.  Stack exhaustion, allocator aborts and panics inside dependencies are
   runtime behaviour observed by running the real crate (lib/props/c05.py), not proven. *)
From Cddl Require Import Base.Bytes Cbor.Wire Cbor.DecodeProofs Generated.RobustConsts
  Robust.Chase Robust.Alloc Robust.Arith Robust.Occur Robust.RobustProofs.
Open Scope N_scope.

(* ---------- cyclic rule references terminate: the guarded is_ident_* recursion (d9284e7) ---------- *)
(* full statement: every environment, every helper, every start name *)
Theorem C05_chase_terminates : forall e hit n f, (chase_fuel e <= f)%nat -> chase hit f e n <> OutOfFuel.
Proof. exact chase_terminates. Qed.

Theorem C05_chase_seq_terminates : forall e hits n f, (chase_fuel e <= f)%nat -> chase_seq hits f e n <> OutOfFuel.
Proof. exact chase_seq_terminates. Qed.

(* termination is not a polynomial bound: acyclic, 41 rules, more than 2^40 calls (`any` has no memo) *)
Theorem C05_calls_exponential_refuted :
  exists e n, acyclic_alias e = true /\ length e = 41%nat /\ 2 ^ 40 <= calls e n.
Proof. exact calls_exponential_refuted. Qed.

(* ---------- occurrence bounds written in the schema do not drive the number of steps ---------- *)
(* seq_match_entry (json.rs / cbor.rs) with its zero-width stop as found in the source: at most one step per
   remaining element plus one, for every lower and upper bound and every entry that only consumes elements *)
Theorem C05_occurrence_loop_terminates : forall (A : Type) (once : list A -> option (list A)), consumes once ->
  forall f min max count cur, (length cur < f)%nat ->
  occ_loop (json_zero_width_stop && cbor_zero_width_stop) once f min max count cur <> OFuel.
Proof. exact @occ_loop_code_terminates. Qed.

(* why the stop must not depend on the bound: restricted to unbounded occurrences, every fuel is exhausted by some bound *)
Theorem C05_occurrence_loop_unstopped_refuted :
  exists once : list N -> option (list N), consumes once /\
    forall f, exists m, occ_loop false once f 0 (Some m) 0 [] = OFuel.
Proof. exact occ_loop_unstopped_refuted. Qed.

(* ---------- a length announced in a CBOR head is never trusted for allocation ---------- *)
Theorem C05_alloc_bounded : forall n inp r,
  In r (fst (read_len n inp)) -> r <= lenN inp + MAX_PREALLOC.
Proof. exact alloc_bounded. Qed.

Theorem C05_prealloc_capped : forall n r, In r (prealloc_requests n) -> r <= MAX_PREALLOC.
Proof. exact prealloc_capped. Qed.

Theorem C05_max_prealloc_small : MAX_PREALLOC <= 65536.
Proof. exact max_prealloc_small. Qed.

(* the chunked read returns exactly what the one-shot read of the C11 decoder model returns *)
Theorem C05_read_len_is_takeN : forall n inp,
  snd (read_len n inp) = match takeN n inp with Some (p, t) => Ok (p, t) | None => Err EEof end.
Proof. exact read_len_is_takeN. Qed.

(* ---------- the decoder model terminates within linear fuel (re-export of C11) ---------- *)
Theorem C05_decode_terminates : forall bs, wf_bytes bs ->
  (forall f, (2 * length bs + 1 <= f)%nat -> dec_item f bs <> Err EFuel) /\
  ((exists v, decode_cbor bs = Ok v) \/ (exists k, decode_cbor bs = Err k /\ k <> EFuel)).
Proof. exact decode_terminates. Qed.

(* ---------- checked arithmetic on the validation paths (fe9328d, 9c012db) ---------- *)
(* json.rs: n.checked_mul(1000) for prelude type `time` is None exactly on this class (-> validation error) *)
Theorem C05_mul1000_none_iff : forall n, in_i64 n = true ->
  (mul1000_checked n = None <-> mul1000_overflows n = true).
Proof. exact mul1000_none_iff. Qed.

(* cbor.rs: i64::try_from(value) for tag 1 under prelude type `time` *)
Theorem C05_try_into_i64_total : forall z, in_i64 z = true -> try_into_i64 z = Some z.
Proof. exact try_into_i64_total. Qed.

Theorem C05_try_into_i64_none_iff : forall z, try_into_i64 z = None <-> in_i64 z = false.
Proof. exact try_into_i64_none_iff. Qed.

(* json.rs / cbor.rs: `v as u32` of a .size argument *)
Theorem C05_as_u32_exact_iff : forall v, (0 <= v)%Z -> (as_u32 v = v <-> (v < 2 ^ 32)%Z).
Proof. exact as_u32_exact_iff. Qed.

Theorem C05_size_uint_exact : forall v i, (0 <= v < 16)%Z -> (size_uint_accepts v i = true <-> (i < 256 ^ v)%Z).
Proof. exact size_uint_exact. Qed.

Theorem C05_size_uint_refuted : exists v v', in_u64 v = true /\ in_u64 v' = true /\ (8 <= v)%Z /\ (8 <= v')%Z /\
  as_u32 v <> v /\ size_uint_accepts v 5 = false /\ as_u32 v' = v' /\ size_uint_accepts v' 5 = false.
Proof. exact size_uint_refuted. Qed.

(* control.rs plus_operation: checked_add on two literals of the schema; None -> Err *)
Theorem C05_plus_checked_total : forall a b, (0 <= a < 2 ^ 62)%Z -> (0 <= b < 2 ^ 62)%Z -> plus_checked a b = Some (a + b)%Z.
Proof. exact plus_checked_total. Qed.

Theorem C05_plus_checked_uint_none_iff : forall a b, (0 <= a)%Z -> (0 <= b)%Z ->
  (plus_checked a b = None <-> (2 ^ 64 <= a + b)%Z).
Proof. exact plus_checked_uint_none_iff. Qed.

(* ---------- non-vacuity ---------- *)
(* an alias environment with a choice, a chain and an undefined name *)
Example C05_chase_example :
  chase [100] 6 [(0, [Alias 1; Other]); (1, [Alias 2; Alias 3]); (2, [Other]); (3, [Alias 100])] 0 = Yes
  /\ chase [100] 6 [(0, [Alias 1; Other]); (1, [Alias 2; Alias 3]); (2, [Other]); (3, [Alias 9])] 0 = No.
Proof. vm_compute. split; reflexivity. Qed.

(* a = b .size 3 / b = a : overflowed the stack before the guard, answers "no" now; a cycle behind a hit is not reached *)
Example C05_cycle_example :
  acyclic_alias cyc2 = false /\ chase_seq size_hits (chase_fuel cyc2) cyc2 1 = No
  /\ chase [100] 3 [(0, [Alias 100; Alias 0])] 0 = Yes /\ chase [100] 3 [(0, [Alias 0; Alias 100])] 0 = Yes.
Proof. vm_compute. repeat split. Qed.

(* [0*18446744073709551615 (), int] against [1]: the empty group stops after one zero-width step *)
Example C05_occurrence_example :
  occ_loop true (fun l : list N => Some l) 3 0 (Some 18446744073709551615) 0 [1] = Matched [1]
  /\ occ_loop true (fun l : list N => match l with [] => None | _ :: r => Some r end) 4 2 (Some 5) 0 [7; 8; 9] = Matched []
  /\ occ_loop true (fun l : list N => Some l) 3 9999999999999 None 0 [] = Matched [].
Proof. vm_compute. repeat split. Qed.

(* a hostile head: 2^36 bytes announced, 3 present: one capped request, one failed chunk *)
Example C05_alloc_example :
  read_len 68719476736 [1; 2; 3] = ([4096; 4096], Err EEof)
  /\ read_len 3 [1; 2; 3; 4] = ([3; 3], Ok ([1; 2; 3], [4])).
Proof. vm_compute. split; reflexivity. Qed.
