(* C05 - no entry point panics, aborts, overflows the stack or hangs.
   Only statements closed by [exact]; models in Robust/{Chase,Alloc,Arith}.v and Cbor/Wire.v,
   proofs in Robust/RobustProofs.v and Cbor/DecodeProofs.v.

   What is proven is the LOGIC of termination, allocation and partial operations of the
   modelled code.  Stack exhaustion, allocator aborts and panics inside dependencies are
   runtime behaviour observed by running the real crate (lib/props/c05.py), not proven.

   Full statement for alias chasing (false of the code, see C05_chase_refuted):
     forall e hit n, exists f0, forall f, f0 <= f -> chase hit f e n <> OutOfFuel.
   The proven part carries the excluded class as the boolean predicate [acyclic_alias]. *)
From Cddl Require Import Base.Bytes Cbor.Wire Cbor.DecodeProofs Generated.RobustConsts
  Robust.Chase Robust.Alloc Robust.Arith Robust.RobustProofs.
Open Scope N_scope.

(* ---------- cyclic rule references: the un-guarded is_ident_* recursion ---------- *)
Theorem C05_chase_terminates_partial : forall e, acyclic_alias e = true ->
  exists f0, f0 = chase_fuel e /\ forall hit n f, (f0 <= f)%nat -> chase hit f e n <> OutOfFuel.
Proof. exact chase_terminates. Qed.

Theorem C05_chase_seq_terminates_partial : forall e, acyclic_alias e = true ->
  forall hits n f, (chase_fuel e <= f)%nat -> chase_seq hits f e n <> OutOfFuel.
Proof. exact chase_seq_terminates. Qed.

(* a = b .size 3 / b = a : the call never returns (stack overflow of the real validator) *)
Theorem C05_chase_refuted :
  exists e n, acyclic_alias e = false /\ forall f, chase_seq size_hits f e n = OutOfFuel.
Proof. exact chase_refuted. Qed.

(* acyclic is not enough for a polynomial bound: 41 rules, more than 2^40 calls *)
Theorem C05_calls_exponential_refuted :
  exists e n, acyclic_alias e = true /\ length e = 41%nat /\ 2 ^ 40 <= calls e n.
Proof. exact calls_exponential_refuted. Qed.

(* ---------- a length announced in a CBOR head is never trusted for allocation ---------- *)
Theorem C05_alloc_bounded : forall n inp r,
  In r (fst (read_len n inp)) -> r <= lenN inp + MAX_PREALLOC.
Proof. exact alloc_bounded. Qed.

Theorem C05_prealloc_capped : forall n r, In r (prealloc_requests n) -> r <= MAX_PREALLOC.
Proof. exact prealloc_capped. Qed.

Theorem C05_max_prealloc_small : MAX_PREALLOC <= 65536.
Proof. exact max_prealloc_small. Qed.

(* the chunked read returns exactly what the one-shot read of the C11 decoder model returns *)
Theorem C05_read_len_is_takeN : forall n inp,
  snd (read_len n inp) = match takeN n inp with Some (p, t) => Ok (p, t) | None => Err EEof end.
Proof. exact read_len_is_takeN. Qed.

(* ---------- the decoder model terminates within linear fuel (re-export of C11) ---------- *)
Theorem C05_decode_terminates : forall bs, wf_bytes bs ->
  (forall f, (2 * length bs + 1 <= f)%nat -> dec_item f bs <> Err EFuel) /\
  ((exists v, decode_cbor bs = Ok v) \/ (exists k, decode_cbor bs = Err k /\ k <> EFuel)).
Proof. exact decode_terminates. Qed.

(* ---------- partial arithmetic on the validation paths ---------- *)
(* json.rs: n * 1000 for prelude type `time` (debug builds panic exactly on this class) *)
Theorem C05_mul1000_panics_iff : forall n, in_i64 n = true ->
  (mul1000_checked n = None <-> mul1000_overflows n = true).
Proof. exact mul1000_panics_iff. Qed.

Theorem C05_mul1000_refuted : exists n, in_i64 n = true /\ mul1000_checked n = None.
Proof. exact mul1000_refuted. Qed.

(* cbor.rs: value.try_into().unwrap() for tag 1 under prelude type `time` *)
Theorem C05_try_into_i64_total : forall z, in_i64 z = true -> try_into_i64 z = Some z.
Proof. exact try_into_i64_total. Qed.

Theorem C05_try_into_i64_refuted : exists z, in_cbor_int z = true /\ try_into_i64 z = None.
Proof. exact try_into_i64_refuted. Qed.

(* json.rs / cbor.rs: `v as u32` of a .size argument *)
Theorem C05_as_u32_exact_iff : forall v, (0 <= v)%Z -> (as_u32 v = v <-> (v < 2 ^ 32)%Z).
Proof. exact as_u32_exact_iff. Qed.

Theorem C05_size_uint_exact : forall v i, (0 <= v < 16)%Z -> (size_uint_accepts v i = true <-> (i < 256 ^ v)%Z).
Proof. exact size_uint_exact. Qed.

Theorem C05_size_uint_refuted : exists v v', in_u64 v = true /\ in_u64 v' = true /\ (8 <= v)%Z /\ (8 <= v')%Z /\
  as_u32 v <> v /\ size_uint_accepts v 5 = false /\ as_u32 v' = v' /\ size_uint_accepts v' 5 = false.
Proof. exact size_uint_refuted. Qed.

(* control.rs plus_operation: `.plus` on two literals of the schema (debug builds panic on overflow) *)
Theorem C05_plus_checked_total : forall a b, (0 <= a < 2 ^ 62)%Z -> (0 <= b < 2 ^ 62)%Z -> plus_checked a b = Some (a + b)%Z.
Proof. exact plus_checked_total. Qed.

Theorem C05_plus_checked_refuted : exists a b a' b', in_u64 a = true /\ in_u64 b = true /\ plus_checked a b = None /\
  in_i64 a' = true /\ in_i64 b' = true /\ plus_checked a' b' = None.
Proof. exact plus_checked_refuted. Qed.

(* ---------- non-vacuity ---------- *)
(* an acyclic alias environment with a choice, a chain and an undefined name *)
Example C05_acyclic_example :
  acyclic_alias [(0, [Alias 1; Other]); (1, [Alias 2; Alias 3]); (2, [Other]); (3, [Alias 9])] = true
  /\ chase [100] 5 [(0, [Alias 1; Other]); (1, [Alias 2; Alias 3]); (2, [Other]); (3, [Alias 100])] 0 = Yes
  /\ chase [100] 5 [(0, [Alias 1; Other]); (1, [Alias 2; Alias 3]); (2, [Other]); (3, [Alias 9])] 0 = No.
Proof. vm_compute. repeat split. Qed.

(* a self-reference hidden behind a choice that answers first is not reached (`any` stops) *)
Example C05_short_circuit_example :
  acyclic_alias [(0, [Alias 100; Alias 0])] = false /\ chase [100] 2 [(0, [Alias 100; Alias 0])] 0 = Yes.
Proof. vm_compute. split; reflexivity. Qed.

(* a hostile head: 2^36 bytes announced, 3 present: one capped request, one failed chunk *)
Example C05_alloc_example :
  read_len 68719476736 [1; 2; 3] = ([4096; 4096], Err EEof)
  /\ read_len 3 [1; 2; 3; 4] = ([3; 3], Ok ([1; 2; 3], [4])).
Proof. vm_compute. split; reflexivity. Qed.
