(* C10 - map validation does not depend on entry order; no physical pair is collapsed (over Sem.v). *)
From Cddl Require Import Sem.Syntax Sem.Validator Sem.Sem Sem.Perm Sem.MemberPerm.
From Coq Require Import Permutation.
Open Scope Z_scope.

Theorem C10_map_perm_doc : forall jm e g ps ps', Permutation ps ps' ->
  (MatchT jm e (TMap g) (VMap ps) <-> MatchT jm e (TMap g) (VMap ps')).
Proof. exact map_perm_doc. Qed.

Theorem C10_alts_perm : forall jm e alts ps ps', Permutation ps ps' -> AltsOk jm e alts ps -> AltsOk jm e alts ps'.
Proof. exact alts_ok_perm. Qed.

(* duplicate or equivalent keys are never collapsed: an accepting assignment assigns every physical pair *)
Theorem C10_no_collapse : forall jm e es ps cols a,
  ColsR jm e es ps cols -> valid_assign es cols a = true -> length a = length ps.
Proof. exact no_collapse. Qed.

(* non-vacuity / the duplicate-key case: {a: int} does not admit two pairs with key "a" *)
Example C10_duplicate_key_rejected :
  vt 40 false [] (TMap (GEnt (Some (TLit (LText [97%N]))) true (TRef 1003%N)))
     (VMap [(VText [97%N], VInt 1); (VText [97%N], VInt 2)]) = Some false.
Proof. vm_compute. reflexivity. Qed.

(* schema side (Sem/MemberPerm.v): exchanging two neighbouring members of a member list whose key sets are
   pairwise disjoint (no data item is a key of two members: keys_disjoint) changes neither verdict; every
   permutation of the members is a product of such exchanges.  swap2 n exchanges positions n and n+1. *)
Theorem C10_member_swap : forall jm e n es ps, (S n < length es)%nat -> keys_disjoint jm e es ->
  (AltsOk jm e [es] ps <-> AltsOk jm e [swap2 n es] ps) /\ (AltsFail jm e [es] ps <-> AltsFail jm e [swap2 n es] ps).
Proof. exact member_swap. Qed.

(* the assignment-level statement it rests on: with at most one matching member per pair (disjoint_col) an
   accepting assignment exists for the members in one order iff one exists in the other *)
Theorem C10_assignment_swap : forall n es cols, (S n < length es)%nat -> good_cols es cols ->
  ((exists a, valid_assign es cols a = true) <-> (exists a, valid_assign (swap2 n es) (map (swap2 n) cols) a = true)).
Proof. exact assignment_exists_swap. Qed.

(* non-vacuity: a literal-keyed member with a cut and a table over unsigned keys, in both orders *)
Example C10_member_swap_example :
  let ea := {| e_lo := 1; e_hi := Some 1%N; e_key := TLit (LText [97%N]); e_cut := true; e_val := TRef 1003%N |} in
  let eb := {| e_lo := 0; e_hi := None; e_key := TRef 1001%N; e_cut := false; e_val := TRef 1006%N |} in
  swap2 0 [ea; eb] = [eb; ea] /\
  vt 30 false [] (TMap (GSeq (GEnt (Some (TLit (LText [97%N]))) true (TRef 1003%N)) (GOcc 0 None (GEnt (Some (TRef 1001%N)) false (TRef 1006%N)))))
     (VMap [(VInt 5, VText [120%N]); (VText [97%N], VInt 1)]) = Some true /\
  vt 30 false [] (TMap (GSeq (GOcc 0 None (GEnt (Some (TRef 1001%N)) false (TRef 1006%N))) (GEnt (Some (TLit (LText [97%N]))) true (TRef 1003%N))))
     (VMap [(VInt 5, VText [120%N]); (VText [97%N], VInt 1)]) = Some true.
Proof. vm_compute. repeat split; reflexivity. Qed.
