(* C10 - map validation does not depend on entry order; no physical pair is collapsed (over Sem.v). *)
From Cddl Require Import Sem.Syntax Sem.Validator Sem.Sem Sem.Perm.
From Coq Require Import Permutation.
Open Scope Z_scope.

Theorem C10_map_perm_doc : forall jm e g ps ps', Permutation ps ps' ->
  (MatchT jm e (TMap g) (VMap ps) <-> MatchT jm e (TMap g) (VMap ps')).
Proof. exact map_perm_doc. Qed.

Theorem C10_alts_perm : forall jm e alts ps ps', Permutation ps ps' -> AltsOk jm e alts ps -> AltsOk jm e alts ps'.
Proof. exact alts_ok_perm. Qed.

(* duplicate or equivalent keys are never collapsed: an accepting assignment assigns every physical pair *)
Theorem C10_no_collapse : forall jm e es ps cols a,
  ColsR jm e es ps cols -> valid_assign es cols a = true -> length a = length ps.
Proof. exact no_collapse. Qed.

(* non-vacuity / the duplicate-key case: {a: int} does not admit two pairs with key "a" *)
Example C10_duplicate_key_rejected :
  vt 40 false [] (TMap (GEnt (Some (TLit (LText [97%N]))) true (TRef 1003%N)))
     (VMap [(VText [97%N], VInt 1); (VText [97%N], VInt 2)]) = Some false.
Proof. vm_compute. reflexivity. Qed.
