(* C01 - JSON validation verdicts equal RFC 8610 semantics on the core language.
   The specification is Sem/Sem.v (MatchT / FailT, arrays as the documented PEG sequence match);
   the decider vt (Sem/Validator.v) is what the correspondence check runs against the real validator.
   Only statements closed by [exact]; proofs are in Sem/Sound.v, Sem/Excl.v, Sem/Decides.v. *)
From Cddl Require Import Sem.Syntax Sem.Validator Sem.Sem Sem.Sound Sem.Excl Sem.Decides Sem.Mono Sem.Complete Sem.Total.
Open Scope Z_scope.

(* whenever the decider answers, the answer is the RFC verdict (jm = true: JSON reading of numbers) *)
Theorem C01_json : forall jm e f t v b,
  vt f jm e t v = Some b ->
  (b = true <-> MatchT jm e t v) /\ (b = false <-> FailT jm e t v).
Proof. exact vmodel_decides. Qed.

(* the decider is EXACTLY the specification: a derivation exists iff some amount of fuel finds it, for both
   verdicts, and more fuel never changes an answer (so "?" only ever means: no derivation of either kind
   exists - the schema loops without consuming data - or the fuel was too small) *)
Theorem C01_exact : forall jm e t v,
  (MatchT jm e t v <-> exists f, vt f jm e t v = Some true) /\
  (FailT jm e t v <-> exists f, vt f jm e t v = Some false).
Proof. exact vmodel_exact. Qed.

Theorem C01_fuel_mono : forall jm e f f' t v b, (f <= f')%nat -> vt f jm e t v = Some b -> vt f' jm e t v = Some b.
Proof. exact vt_fuel_mono. Qed.

(* the cursor algorithm for arrays - ordered "//", greedy occurrences, zero-width guard - is the PEG semantics,
   and that semantics is deterministic *)
Theorem C01_peg : forall jm e f g vs,
  match vseq f jm e g vs with
  | SOk r => SeqOk jm e g vs r /\ (forall r', SeqOk jm e g vs r' -> r' = r) /\ ~ SeqFail jm e g vs
  | SFail => SeqFail jm e g vs /\ forall r, ~ SeqOk jm e g vs r
  | SFuel => True
  end.
Proof. exact vseq_decides. Qed.

(* the specification itself is consistent *)
Theorem C01_sem_exclusive : forall jm e t v, MatchT jm e t v -> FailT jm e t v -> False.
Proof. exact sem_exclusive. Qed.

Theorem C01_seq_deterministic : forall jm e g vs r1 r2, SeqOk jm e g vs r1 -> SeqOk jm e g vs r2 -> r1 = r2.
Proof. exact seq_det. Qed.

(* non-vacuity: a schema with a nested array (occurrence inside a choice) and a map with a cut and a wildcard
   table; the decider answers and therefore both derivations exist *)
Definition ex_env : env :=
  [ (0%N, DType (TArr (GSeq (GEnt None false (TRef 1006%N))
                          (GSeq (GOcc 0%N None (GOr (GEnt None false (TRef 1001%N)) (GEnt None false (TRef 1015%N))))
                                (GEnt None false (TRef 1%N))))))
  ; (1%N, DType (TMap (GSeq (GEnt (Some (TLit (LText [97%N]))) true (TRef 1003%N))
                          (GOcc 0%N None (GEnt (Some (TRef 1006%N)) false TAny)))))
  ].
Definition ex_doc_ok : value :=
  VArr [VText [120%N]; VInt 1; VBool true; VInt 2; VMap [(VText [97%N], VInt (-3)); (VText [98%N], VNull)]].
Definition ex_doc_bad : value :=
  VArr [VText [120%N]; VInt 1; VMap [(VText [97%N], VText [120%N])]].    (* cut: "a" must be an int *)

Example C01_example_match : MatchT true ex_env (TRef 0%N) ex_doc_ok.
Proof. exact (proj1 (proj1 (vmodel_decides true ex_env 60 (TRef 0%N) ex_doc_ok true eq_refl)) eq_refl). Qed.
Example C01_example_fail : FailT true ex_env (TRef 0%N) ex_doc_bad.
Proof. exact (proj1 (proj2 (vmodel_decides true ex_env 60 (TRef 0%N) ex_doc_bad false eq_refl)) eq_refl). Qed.

(* totality (Sem/Total.v): on every well-founded schema - a rank on rule names under which every reference
   outside an array, map or tag goes down, flat map groups, controls applied to targets on which RFC 8610
   defines them; all of it one boolean, wf_env_b - the decider answers for EVERY value (the fuel is
   constructed, not assumed), hence the specification assigns every value exactly one verdict. *)
Theorem C01_decider_total : forall jm e rho B mg t v,
  wf_env_b e rho B mg = true -> wf_ty e rho B mg B t = true -> exists f r, vt f jm e t v = Some r.
Proof. intros jm e rho B mg t v He Ht. exact (decider_total jm e rho B mg He t v Ht). Qed.

Theorem C01_semantics_total : forall jm e rho B mg t v,
  wf_env_b e rho B mg = true -> wf_ty e rho B mg B t = true -> MatchT jm e t v \/ FailT jm e t v.
Proof. exact semantics_total. Qed.

(* non-vacuity: the example schema above and a recursive one (a tree whose leaves are sized strings or
   bounded numbers, `t = [* t] / { * tstr => t } / tstr .size (1..3) / uint .lt 10`) are well-founded *)
Definition ex_rec_env : env :=
  [ (0%N, DType (TOr (TArr (GOcc 0%N None (GEnt None false (TRef 0%N))))
                 (TOr (TMap (GOcc 0%N None (GEnt (Some (TRef 1006%N)) false (TRef 0%N))))
                 (TOr (TCtl CSize (TRef 1006%N) (TRange 1 3 true))
                      (TCtl CLt (TRef 1001%N) (TLit (LInt 10))))))) ].
Example C01_total_examples :
  wf_env_b ex_env (rank_of ((0%N, 3%nat) :: (1%N, 3%nat) :: prelude_ranks)) 4 (in_names []) = true /\
  wf_ty ex_env (rank_of ((0%N, 3%nat) :: (1%N, 3%nat) :: prelude_ranks)) 4 (in_names []) 4 (TRef 0%N) = true /\
  wf_env_b ex_rec_env (rank_of ((0%N, 3%nat) :: prelude_ranks)) 4 (in_names []) = true /\
  wf_ty ex_rec_env (rank_of ((0%N, 3%nat) :: prelude_ranks)) 4 (in_names []) 4 (TRef 0%N) = true.
Proof. vm_compute. repeat split; reflexivity. Qed.

(* ... and the hypothesis is needed: `a = a` has no verdict at any fuel *)
Theorem C01_left_recursion_undecided : forall f jm v, vt f jm [(0%N, DType (TRef 0%N))] (TRef 0%N) v = None.
Proof. induction f as [|f IH]; intros jm v; [reflexivity|]. cbn [vt]. exact (IH jm v). Qed.
