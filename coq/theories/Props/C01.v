From Cddl Require Import Sem.Syntax Sem.Validator.
Theorem C01_placeholder : True. Proof. exact I. Qed.
