(* C04 - the JSON and the CBOR validator give the same verdict on the same data.
   In the model both validators are ONE decider (Sem/Validator.v: vt) over one value type; the JSON reading
   differs only in the leaf for floats (a JSON number without a fraction is integer and float alike).
   The property itself is about the two separate implementations: it is decided by the differential run
   of the code (JSON text vs CBOR encoding of the same value), with this model as the arbiter. *)
From Cddl Require Import Sem.Syntax Sem.Validator Sem.Sem Sem.Decides Sem.Agree Sem.AgreeAll.
Open Scope Z_scope.

(* the only point where the two readings differ *)
Theorem C04_modes_differ_only_at_float_leaf : forall t v,
  (t <> TFloat \/ forall z, v <> VInt z) -> leaf true t v = leaf false t v.
Proof. exact modes_differ_only_at_float_leaf. Qed.

(* both readings are decided by the same function and each is the RFC verdict of its reading *)
Theorem C04_both_decided : forall e f t v bj bc,
  vt f true e t v = Some bj -> vt f false e t v = Some bc ->
  (bj = true <-> MatchT true e t v) /\ (bc = true <-> MatchT false e t v).
Proof. exact both_decided. Qed.

(* whole-decider agreement (Sem/AgreeAll.v): when no float type is reachable - the schema's own rules
   are float-free (nofloat_env, a boolean) and do not refer to float16/32/64, float or number of the
   prelude - the JSON reading and the CBOR reading give the same answer on EVERY value at EVERY fuel,
   "undecided" included.  So on such schemas a difference between validate_json_from_str and
   validate_cbor_from_slice is a departure of one of them from the model (C01 / C02). *)
Theorem C04_agree_float_free : forall e f t v,
  nofloat_env e = true -> nofloat t = true -> vt f true e t v = vt f false e t v.
Proof. exact agree_float_free. Qed.

Theorem C04_verdict_float_free : forall e f v,
  nofloat_env e = true -> verdict f true e v = verdict f false e v.
Proof. exact verdict_float_free. Qed.

(* the hypothesis is satisfiable by a schema with arrays, maps, choices, controls and references ... *)
Example C04_float_free_example :
  let e := [ (1%N, DType (TMap (GSeq (GEnt (Some (TLit (LText [97%N]))) true (TRef 2%N))
                                      (GOcc 0 None (GEnt (Some (TRef 1006%N)) false (TArr (GOcc 1 (Some 3%N) (GEnt None false (TRef 1003%N))))))))) ;
             (2%N, DType (TOr (TCtl CSize (TRef 1006%N) (TRange 1 3 true)) (TRef 1015%N))) ] in
  nofloat_env e = true /\
  verdict 40 true e (VMap [(VText [97%N], VText [120%N; 121%N]); (VText [98%N], VArr [VInt 1; VInt (-2)])]) = [84%N] /\
  verdict 40 false e (VMap [(VText [97%N], VText [120%N; 121%N]); (VText [98%N], VArr [VInt 1; VInt (-2)])]) = [84%N] /\
  verdict 40 true e (VMap [(VText [97%N], VInt 3)]) = [70%N].
Proof. vm_compute. repeat split; reflexivity. Qed.

(* ... and it is needed: with a float type the two readings differ on an integer *)
Theorem C04_float_leaf_differs :
  exists e v, verdict 10 true e v = [84%N] /\ verdict 10 false e v = [70%N].
Proof. exists [(1%N, DType (TRef 1011%N))], (VInt 2). vm_compute. split; reflexivity. Qed.
