(* C04 - the JSON and the CBOR validator give the same verdict on the same data.
   In the model both validators are ONE decider (Sem/Validator.v: vt) over one value type; the JSON reading
   differs only in the leaf for floats (a JSON number without a fraction is integer and float alike).
   The property itself is about the two separate implementations: it is decided by the differential run
   of the code (JSON text vs CBOR encoding of the same value), with this model as the arbiter. *)
From Cddl Require Import Sem.Syntax Sem.Validator Sem.Sem Sem.Decides Sem.Agree.
Open Scope Z_scope.

(* the only point where the two readings differ *)
Theorem C04_modes_differ_only_at_float_leaf : forall t v,
  (t <> TFloat \/ forall z, v <> VInt z) -> leaf true t v = leaf false t v.
Proof. exact modes_differ_only_at_float_leaf. Qed.

(* both readings are decided by the same function and each is the RFC verdict of its reading *)
Theorem C04_both_decided : forall e f t v bj bc,
  vt f true e t v = Some bj -> vt f false e t v = Some bc ->
  (bj = true <-> MatchT true e t v) /\ (bc = true <-> MatchT false e t v).
Proof. exact both_decided. Qed.
