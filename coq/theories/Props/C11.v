(* C11 - CBOR decoding implements RFC 8949 well-formedness and values.
   Only statements closed by [exact]; proofs are in Cbor/DecodeProofs.v and Cbor/Float.v. *)
From Cddl Require Import Base.Bytes Base.Utf8 Cbor.Wire Cbor.Wf Cbor.DecodeProofs Cbor.Float Cbor.Float32.
Open Scope N_scope.

(* the decoder model returns a value exactly when the bytes begin with a well-formed item *)
Theorem C11_decode_spec : forall bs v, wf_bytes bs ->
  (decode_cbor bs = Ok v <-> exists x e r, bs = e ++ r /\ Enc x e /\ v = to_value x).
Proof. exact decode_spec. Qed.

Theorem C11_decode_item_spec : forall bs i r, wf_bytes bs ->
  (decode_item bs = Ok (i, r) <-> exists e, bs = e ++ r /\ Enc i e).
Proof. exact decode_item_spec. Qed.

(* it always answers: a value or an error, never "out of fuel" *)
Theorem C11_decode_total : forall bs, wf_bytes bs ->
  (exists v, decode_cbor bs = Ok v) \/ (exists k, decode_cbor bs = Err k /\ k <> EFuel).
Proof. exact decode_total. Qed.

(* RFC 8949 encodings are uniquely parseable *)
Theorem C11_Enc_prefix_free : forall x e r x' e' r',
  wf_bytes (e ++ r) -> Enc x e -> Enc x' e' -> e ++ r = e' ++ r' -> x = x' /\ e = e'.
Proof. exact Enc_prefix_free. Qed.

Theorem C11_encoding_independent : forall x e1 e2,
  wf_bytes e1 -> wf_bytes e2 -> Enc x e1 -> Enc x e2 ->
  decode_cbor e1 = Ok (to_value x) /\ decode_cbor e2 = Ok (to_value x).
Proof. exact encoding_independent. Qed.

(* binary16 -> binary64 widening is exact on all 65536 patterns *)
Theorem C11_widen16_exact : forall x, x < 65536 -> widen16_ok x = true.
Proof. exact widen16_exact. Qed.

(* binary32 -> binary64 widening is exact on all 2^32 patterns (symbolic proof: zeros, subnormals via log2,
   normals, infinities, NaNs): same class, same sign, same value *)
Theorem C11_widen32_exact : forall x, x < 2 ^ 32 -> widen32_ok x = true.
Proof. exact widen32_exact. Qed.

(* known finding: the crate's Value cannot tell undefined (simple 23) from null (simple 22) *)
Theorem C11_to_value_injective_refuted : exists x x', x <> x' /\ to_value x = to_value x'.
Proof. exact to_value_injective_refuted. Qed.

(* non-vacuity: a nested item with indefinite containers and chunks is an encoding and decodes *)
Example C11_example :
  decode_item [159; 1; 95; 65; 7; 255; 191; 97; 97; 249; 60; 0; 255; 255; 9]
  = Ok (IArr [IUint 1; IBytes [7]; IMap [(IText [97], IFloat 4607182418800017408)]], [9]).
Proof. vm_compute. reflexivity. Qed.
