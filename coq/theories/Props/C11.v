From Cddl Require Import Base.Bytes Cbor.Wire.
Theorem placeholder : True. Proof. exact I. Qed.
