(* C20 - ParentVisitor returns the syntactic parent of every AST node.
   Only statements closed by [exact]; the model is Parent/Arena.v (faithful to src/ast/parent.rs), the
   specification Parent/Tree.v ([node_at], [parent_of]: the parent BY POSITION), proofs in Parent/ArenaProofs.v.

   The model carries a switch [fx] for the Type2::Unwrap arm of visit_type2. [fx = true] is the code as it is
   (since /repo commit 2a3eb9a the generic arguments of `~name<args>` are registered like those of Typename and
   ChoiceFromGroup); [fx = false] is the code before that repair and is kept only to document the fixed finding
   (C20_unwrap_args_indexed). Every statement below is about [fx = true]; the check runs the extracted model with
   [fx = true] only, so the old behaviour coming back is a VIOLATION.

   FULL statement of the property (together with C20_build_succeeds and C20_root_no_parent):
       forall t p n, node_at t p = Some n ->
         query_tree true t (label n) = option_map label (parent_of t p).
   It is FALSE of the faithful model, and of the code (the witness is replayed on the real crate by the check):
     - C20_parent_refuted: two nodes that are equal under the crate's == but sit under different parents
       (`a = [int, int]`): the arena keeps one entry per equivalence class and the first registered parent wins
       (open finding kf-c20-equal-nodes-share-first-parent).
   What holds: the full statement whenever no two nodes of the document are equal (C20_parent_correct: the excluded
   class is [NoDup (labels_preorder t)] failing), the exact answer of the algorithm in general
   (C20_query_is_first_registered) and the exact class of wrong answers (C20_collision_iff). *)
From Coq Require Import List NArith.
From Cddl Require Import Parent.Tree Parent.Arena Parent.ArenaProofs.
Import ListNotations.
Open Scope N_scope.

(* HEADLINE: in a document without two equal nodes, the parent query at EVERY node (by position) returns its
   syntactic parent, and None at the root *)
Theorem C20_parent_correct : forall t, NoDup (labels_preorder t) ->
  forall p n, node_at t p = Some n -> query_tree true t (label n) = option_map label (parent_of t p).
Proof. exact parent_correct_fixed. Qed.

(* building the index never fails: no Err (Error::Overwrite is never constructed) and no index out of range *)
Theorem C20_build_succeeds : forall t, exists a, build true t = Some a.
Proof. exact (build_succeeds true). Qed.

(* the registrations performed by the traversal are exactly the syntactic (parent, child) edges of the document:
   nothing is attached to a grandparent or a sibling, and no node is forgotten *)
Theorem C20_visit_spec : forall t p lp lc,
  In (Ev p lp lc) (visit true [] t) <->
  p <> [] /\ exists n q, node_at t p = Some n /\ parent_of t p = Some q /\ label n = lc /\ label q = lp.
Proof. exact visit_spec_now. Qed.

(* what a query returns, always: the parent of the FIRST registered node whose value is equal *)
Theorem C20_query_is_first_registered : forall t l,
  (first_reg true t l = None /\ query_tree true t l = None) \/
  (exists p' n' q', first_reg true t l = Some p' /\ p' <> [] /\ node_at t p' = Some n' /\
                    label n' = l /\ parent_of t p' = Some q' /\ query_tree true t l = Some (label q')).
Proof. exact query_is_first_registered_now. Qed.

Theorem C20_first_reg_earliest : forall t l p', first_reg true t l = Some p' ->
  exists pre e post, visit true [] t = pre ++ e :: post /\ ev_path e = p' /\ ev_child e = l /\
                     forall x, In x pre -> ev_child x <> l.
Proof. exact (first_reg_earliest true). Qed.

(* the root has no parent (no other node can be equal to it: it is the only CDDLType::CDDL value) *)
Theorem C20_root_no_parent : forall t,
  ~ In (label t) (flat_map labels_preorder (children t)) -> query_tree true t (label t) = None.
Proof. exact (root_no_parent true). Qed.

(* a node gets a wrong answer exactly when the first registered node with an equal value has a parent that is
   not equal to this node's parent *)
Theorem C20_collision_iff : forall t p n q,
  node_at t p = Some n -> parent_of t p = Some q ->
  (query_tree true t (label n) <> Some (label q) <->
   exists p' n' q', first_reg true t (label n) = Some p' /\ node_at t p' = Some n' /\ label n' = label n /\
                    parent_of t p' = Some q' /\ label q' <> label q).
Proof. exact collision_iff_now. Qed.

(* open finding kf-c20-equal-nodes-share-first-parent *)
Theorem C20_parent_refuted : exists t p n,
  node_at t p = Some n /\ query_tree true t (label n) <> option_map label (parent_of t p).
Proof. exact parent_refuted_fixed. Qed.

(* fixed finding (commit 2a3eb9a), regression witness `a = ~b<int>`: the GenericArgs node (label 9) had no parent
   before the repair and reports the Type2::Unwrap node (label 7) now *)
Theorem C20_unwrap_args_indexed :
  query_tree false doc_unwrap_args 9 = None /\ query_tree true doc_unwrap_args 9 = Some 7 /\
  option_map label (parent_of doc_unwrap_args path_unwrap_args) = Some 7.
Proof. exact unwrap_args_indexed_now. Qed.

(* non-vacuity: `a = ~b<int>` has pairwise distinct nodes, so C20_parent_correct applies to it, e.g. at the
   identifier `int` inside the generic argument; the second TypeGroupnameEntry of `a = [int, int]` (parent: the
   GroupEntry labelled 13) gets the first GroupEntry (label 10), the first registration of its label being the first entry *)
Example C20_example_correct :
  NoDup (labels_preorder doc_unwrap_args) /\
  node_at doc_unwrap_args [0; 0; 1; 0; 0; 0; 1; 0; 0; 0; 0]%nat = Some (Node 11 13 []) /\
  query_tree true doc_unwrap_args 13 = Some 12 /\
  option_map label (parent_of doc_unwrap_args [0; 0; 1; 0; 0; 0; 1; 0; 0; 0; 0]%nat) = Some 12.
Proof. split; [apply nodupb_NoDup; vm_compute; reflexivity|]. vm_compute. repeat split. Qed.

Example C20_example_collision :
  query_tree true doc_int_int 11 = Some 10 /\
  option_map label (parent_of doc_int_int path_second_tge) = Some 13 /\
  first_reg true doc_int_int 11 = Some [0; 0; 1; 0; 0; 0; 0; 0; 0; 0]%nat /\
  query_tree true doc_int_int 12 = Some 11.
Proof. vm_compute. repeat split. Qed.
