(* C20 - ParentVisitor returns the syntactic parent of every AST node.
   Only statements closed by [exact]; the model is Parent/Arena.v (faithful to src/ast/parent.rs), the
   specification Parent/Tree.v ([node_at], [parent_of]: the parent BY POSITION), proofs in Parent/ArenaProofs.v.

   [fx : bool] selects the variant of the code that is modelled: false = /repo as it is, true = /repo with the
   proposed repair of Type2::Unwrap (design.d/C20-fix-unwrap-generic-args.patch). The check decides which one the
   working tree implements by replaying `a = ~b<int>`, and compares the crate with that variant exactly.

   FULL statement of the property (together with C20_build_succeeds and C20_root_no_parent):
       forall t p n, node_at t p = Some n ->
         query_tree false t (label n) = option_map label (parent_of t p).
   It is FALSE of the faithful model, and of the code (both witnesses are replayed on the real crate by the check):
     - C20_parent_refuted:           two nodes that are equal under the crate's == but sit under different parents
                                     (`a = [int, int]`): the arena keeps one entry per equivalence class and the first
                                     registered parent wins (also after the repair: C20_parent_refuted_fixed);
     - C20_parent_unindexed_refuted: the generic arguments of `~name<args>` are never registered
                                     (visit_type2, Type2::Unwrap).
   What does hold is proved below: the exact answer of the algorithm (C20_query_is_first_registered), the exact
   class of wrong answers (C20_collision_iff), and the property itself outside the two classes
   (C20_parent_correct_partial: the excluded classes are [NoDup (labels_preorder t)] failing and
   [reg_path fx t p = false]; C20_parent_correct_fixed: with the repair only the first class remains). *)
From Coq Require Import List NArith.
From Cddl Require Import Parent.Tree Parent.Arena Parent.ArenaProofs.
Import ListNotations.
Open Scope N_scope.

(* building the index never fails: no Err (Error::Overwrite is never constructed) and no index out of range *)
Theorem C20_build_succeeds : forall fx t, exists a, build fx t = Some a.
Proof. exact build_succeeds. Qed.

(* the registrations performed by the traversal are exactly the syntactic (parent, child) edges of the nodes it
   reaches: nothing is attached to a grandparent or a sibling, and no reached child is forgotten *)
Theorem C20_visit_spec : forall fx t p lp lc,
  In (Ev p lp lc) (visit fx [] t) <->
  p <> [] /\ reg_path fx t p = true /\
  exists n q, node_at t p = Some n /\ parent_of t p = Some q /\ label n = lc /\ label q = lp.
Proof. exact visit_spec. Qed.

(* what a query returns, always: the parent of the FIRST registered node whose value is equal *)
Theorem C20_query_is_first_registered : forall fx t l,
  (first_reg fx t l = None /\ query_tree fx t l = None) \/
  (exists p' n' q', first_reg fx t l = Some p' /\ p' <> [] /\ reg_path fx t p' = true /\
                    node_at t p' = Some n' /\ label n' = l /\ parent_of t p' = Some q' /\
                    query_tree fx t l = Some (label q')).
Proof. exact query_is_first_registered. Qed.

Theorem C20_first_reg_earliest : forall fx t l p', first_reg fx t l = Some p' ->
  exists pre e post, visit fx [] t = pre ++ e :: post /\ ev_path e = p' /\ ev_child e = l /\
                     forall x, In x pre -> ev_child x <> l.
Proof. exact first_reg_earliest. Qed.

(* the property, where no two nodes of the document are equal and the node is reached by the registrations *)
Theorem C20_parent_correct_partial : forall fx t, NoDup (labels_preorder t) ->
  forall p n, node_at t p = Some n -> reg_path fx t p = true ->
  query_tree fx t (label n) = option_map label (parent_of t p).
Proof. exact parent_correct. Qed.

Theorem C20_parent_correct_fixed : forall t, NoDup (labels_preorder t) ->
  forall p n, node_at t p = Some n -> query_tree true t (label n) = option_map label (parent_of t p).
Proof. exact parent_correct_fixed. Qed.

Theorem C20_unindexed_none : forall fx t, NoDup (labels_preorder t) ->
  forall p n, node_at t p = Some n -> reg_path fx t p = false -> query_tree fx t (label n) = None.
Proof. exact unindexed_none. Qed.

(* the root has no parent (no other node can be equal to it: it is the only CDDLType::CDDL value) *)
Theorem C20_root_no_parent : forall fx t,
  ~ In (label t) (flat_map labels_preorder (children t)) -> query_tree fx t (label t) = None.
Proof. exact root_no_parent. Qed.

(* a reached node gets a wrong answer exactly when the first registered node with an equal value has a
   parent that is not equal to this node's parent *)
Theorem C20_collision_iff : forall fx t p n q,
  node_at t p = Some n -> parent_of t p = Some q -> reg_path fx t p = true ->
  (query_tree fx t (label n) <> Some (label q) <->
   exists p' n' q', first_reg fx t (label n) = Some p' /\ node_at t p' = Some n' /\ label n' = label n /\
                    parent_of t p' = Some q' /\ label q' <> label q).
Proof. exact collision_iff. Qed.

(* known finding kf-c20-equal-nodes-share-first-parent *)
Theorem C20_parent_refuted : exists t p n,
  node_at t p = Some n /\ reg_path false t p = true /\
  query_tree false t (label n) <> option_map label (parent_of t p).
Proof. exact parent_refuted. Qed.

Theorem C20_parent_refuted_fixed : exists t p n,
  node_at t p = Some n /\ query_tree true t (label n) <> option_map label (parent_of t p).
Proof. exact parent_refuted_fixed. Qed.

(* known finding kf-c20-unwrap-generic-args-not-indexed *)
Theorem C20_parent_unindexed_refuted : exists t p n,
  NoDup (labels_preorder t) /\ node_at t p = Some n /\
  query_tree false t (label n) <> option_map label (parent_of t p).
Proof. exact parent_unindexed_refuted. Qed.

(* non-vacuity: `a = ~b<int>` has pairwise distinct nodes; the identifier b below the unwrap is reached and
   its query returns the Type2 (label 7); the second TypeGroupnameEntry of `a = [int, int]` (parent: the GroupEntry
   labelled 13) gets the first GroupEntry (label 10), the first registration of its label being the first entry *)
Example C20_example_correct :
  NoDup (labels_preorder doc_unwrap_args) /\
  node_at doc_unwrap_args [0; 0; 1; 0; 0; 0; 0]%nat = Some (Node 11 8 []) /\
  reg_path false doc_unwrap_args [0; 0; 1; 0; 0; 0; 0]%nat = true /\
  query_tree false doc_unwrap_args 8 = Some 7 /\
  option_map label (parent_of doc_unwrap_args [0; 0; 1; 0; 0; 0; 0]%nat) = Some 7 /\
  query_tree false doc_unwrap_args 9 = None /\ query_tree true doc_unwrap_args 9 = Some 7.
Proof. split; [apply nodupb_NoDup; vm_compute; reflexivity|]. vm_compute. repeat split. Qed.

Example C20_example_collision :
  query_tree false doc_int_int 11 = Some 10 /\
  option_map label (parent_of doc_int_int path_second_tge) = Some 13 /\
  first_reg false doc_int_int 11 = Some [0; 0; 1; 0; 0; 0; 0; 0; 0; 0]%nat /\
  query_tree false doc_int_int 12 = Some 11.
Proof. vm_compute. repeat split. Qed.
