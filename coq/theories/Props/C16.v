(* C16 - comments are recognised only as comments and survive formatting intact.
   Only statements closed by [exact]; models: Comments/Merge.v (faithful model of pest_bridge::merge),
   Comments/Lex.v (lexical model of cddl.pest's text / bytes / COMMENT rules and a model renderer);
   proofs: Comments/MergeProofs.v, Comments/LexProofs.v. *)
From Cddl Require Import Base.Bytes Comments.Merge Comments.MergeProofs Comments.Lex Comments.LexProofs.
From Coq Require Import Permutation.
Open Scope N_scope.

(* every comment ends in exactly one place: one anchor's list, the orphans, or the dropped ones *)
Theorem C16_merge_partition : forall cs anchors conts,
  Permutation (flat (merge cs anchors conts)) (map c_id cs).
Proof. exact merge_partition. Qed.

(* no comment is attached to two nodes, nor twice to one *)
Theorem C16_merge_at_most_one : forall cs anchors conts,
  NoDup (map c_id cs) -> NoDup (concat (m_assigned (merge cs anchors conts))).
Proof. exact merge_at_most_one. Qed.

(* what is attached is a source comment, by identity: the text is never altered *)
Theorem C16_merge_text_unchanged : forall cs anchors conts x,
  In x (concat (m_assigned (merge cs anchors conts))) -> In x (map c_id cs).
Proof. exact merge_text_unchanged. Qed.

(* attached comments are a sub-multiset of the source comments *)
Theorem C16_merge_subset : forall cs anchors conts x,
  (count_occ N.eq_dec (concat (m_assigned (merge cs anchors conts))) x <= count_occ N.eq_dec (map c_id cs) x)%nat.
Proof. exact merge_subset. Qed.

Theorem C16_merge_shape : forall cs anchors conts, length (m_assigned (merge cs anchors conts)) = length anchors.
Proof. exact merge_shape. Qed.

(* lexical model: rendering (every comment ended by a line break) then lexing is the identity *)
Theorem C16_lex_render : forall ts, forallb wf_token ts = true -> lex (render ts) = ts.
Proof. exact lex_render. Qed.

(* a rendered comment cannot absorb the code that follows, nor is code turned into comment text *)
Theorem C16_strip_comments_render : forall ts, forallb wf_token ts = true ->
  strip_comments (lex (render ts)) = strip_comments ts.
Proof. exact strip_comments_render. Qed.

(* each comment exactly once, as a comment, text unchanged *)
Theorem C16_comments_render : forall ts, forallb wf_token ts = true ->
  comments_of (lex (render ts)) = comments_of ts.
Proof. exact comments_render. Qed.

(* a ';' inside a text literal or a byte string literal is not a comment *)
Theorem C16_comment_only_outside_literals : forall raw before after,
  forallb wf_token before = true -> forallb wf_token after = true ->
  (wf_text_raw false raw = true ->
     comments_of (lex (render (before ++ TText raw :: after))) = comments_of before ++ comments_of after) /\
  (forallb (fun c => negb (c =? 39)) raw = true ->
     comments_of (lex (render (before ++ TBytes raw :: after))) = comments_of before ++ comments_of after).
Proof. exact comment_only_outside_literals. Qed.

(* non-vacuity *)
Example C16_example_lex :
  lex (render [TWord [97]; TText [120; 59; 92; 34; 59]; TComment [32; 34; 99]; TBytes [59; 59]; TWord [98]])
  = [TWord [97]; TText [120; 59; 92; 34; 59]; TComment [32; 34; 99]; TBytes [59; 59]; TWord [98]].
Proof. exact lex_example. Qed.
Example C16_example_absorb :
  lex ([97; 32; 59; 99] ++ [32; 47; 32; 98]) = [TWord [97]; TComment [99; 32; 47; 32; 98]].
Proof. exact comment_without_newline_absorbs. Qed.
