(* C13 - CSV validation equals JSON validation of the draft's data-model mapping.
   Only statements closed by [exact]; the model is in Csv/Reader.v and Csv/Coerce.v, the
   specification (RFC 4180 writer, number spellings, finiteness) in Csv/Spec.v, the proofs in
   Csv/ReaderProofs.v and Csv/CoerceProofs.v. *)
From Cddl Require Import Base.Bytes Csv.Reader Csv.Coerce Csv.Spec Csv.ReaderProofs Csv.CoerceProofs.
Open Scope N_scope.

(* ---------- the record reader ---------- *)

(* the reader model always answers (the epsilon-closure bound is never hit) *)
Theorem C13_read_total : forall bs, read_csv bs <> None.
Proof. exact read_csv_total. Qed.

(* Full statement (FALSE of the faithful model, see C13_csv_roundtrip_refuted):
     forall st rows, nonempty_records rows = true -> read_csv (write_csv4180 st rows) = Some rows.
   It holds for all rows of all fields (any bytes: quotes, commas, CR, LF, non-ASCII), ragged
   or not, CRLF or LF, with or without the final line break, minimal or full quoting, outside
   the class excluded by the boolean [rt_ok]: a record made of one empty field must be
   written quoted, and the text must not begin with the UTF-8 signature. *)
Theorem C13_csv_roundtrip_partial : forall st rows, rt_ok st rows = true ->
  read_csv (write_csv4180 st rows) = Some rows.
Proof. exact csv_roundtrip_partial. Qed.

Theorem C13_csv_roundtrip_refuted :
  (exists st rows, nonempty_records rows = true /\ read_csv (write_csv4180 st rows) <> Some rows)
  /\ read_csv (write_csv4180 style_min [[[]]]) = Some []
  /\ read_csv (write_csv4180 style_min [[[239; 187; 191; 97]]]) = Some [[[97]]].
Proof. exact csv_roundtrip_refuted. Qed.

(* ---------- the coercion ---------- *)

(* a field becomes a number exactly when it is a number spelling with a finite value *)
Theorem C13_coerce_number_iff : forall f,
  is_number (coerce_field f) = true <-> exists neg D e, spells f neg D e /\ dec_finite D e.
Proof. exact coerce_number_iff. Qed.

(* ... and stays the same text otherwise *)
Theorem C13_coerce_text_otherwise : forall f,
  is_number (coerce_field f) = false -> coerce_field f = JStr f.
Proof. exact coerce_text_otherwise. Qed.

(* integer spellings in [-2^63, 2^64) become that integer, exactly (u64 first, then i64) *)
Theorem C13_coerce_int_value : forall f z, int_spelling f z -> (- 2 ^ 63 <= z < 2 ^ 64)%Z ->
  coerce_field f = json_int z.
Proof. exact coerce_int_value. Qed.

Theorem C13_coerce_int_sound : forall f,
  (forall n, coerce_field f = JU n -> int_spelling f (Z.of_N n) /\ n < 2 ^ 64) /\
  (forall z, coerce_field f = JI z -> int_spelling f z /\ (- 2 ^ 63 <= z < 0)%Z).
Proof. exact coerce_int_sound. Qed.

(* a float carries the decimal the field spells; it is finite; the field is not an integer
   spelling in the u64/i64 range *)
Theorem C13_coerce_float_sound : forall f neg D e, coerce_field f = JF neg D e ->
  spells f neg D e /\ dec_finite D e /\
  ~ (exists z, int_spelling f z /\ (- 2 ^ 63 <= z < 2 ^ 64)%Z).
Proof. exact coerce_float_sound. Qed.

(* any byte outside 0-9 + - . e E keeps the field textual: hexadecimal and binary prefixes,
   inf / infinity / nan in any case, digit separators, blanks, non-ASCII digits *)
Theorem C13_coerce_foreign_char_text : forall f,
  forallb num_char f = false -> coerce_field f = JStr f.
Proof. exact coerce_foreign_char_text. Qed.

(* the grammar is decidable, by the model's own float parser *)
Theorem C13_number_spelling_dec : forall f, number_spelling f <-> number_spellingb f = true.
Proof. exact number_spelling_dec. Qed.

(* the model's finiteness test is the rational comparison with (2^54 - 1) * 2^970 *)
Theorem C13_finite_guard : forall nd D e, (Z.of_N D < 10 ^ Z.of_nat nd)%Z ->
  (f64_finiteb nd D e = true <-> dec_finite D e).
Proof. exact f64_finiteb_spec. Qed.

(* ---------- the mapping ---------- *)

Theorem C13_header_textual : forall r rs,
  map_csv true (r :: rs) = JArr (text_row r :: map coerce_row rs).
Proof. exact header_textual. Qed.

Theorem C13_no_header_all_coerced : forall rows, map_csv false rows = JArr (map coerce_row rows).
Proof. exact no_header_all_coerced. Qed.

Theorem C13_map_csv_shape : forall hdr rows, exists l : list (list json),
  map_csv hdr rows = JArr (map JArr l) /\ map (@length _) l = map (@length _) rows /\
  forallb (forallb scalar) l = true.
Proof. exact map_csv_shape. Qed.

(* ---------- validation ---------- *)
(* validate_csv is, by definition of the model (as in the code), the JSON validator applied to
   the mapped document with the same schema and the same options; the reader never fails *)
Theorem C13_csv_is_json_of_map :
  forall (schema options : Type) (validate_json : schema -> options -> json -> bool)
         (sc : schema) (opts : options) (text : list N) (hdr : bool),
  exists rows, read_csv text = Some rows /\
    validate_csv schema options validate_json sc opts text hdr = validate_json sc opts (map_csv hdr rows).
Proof. exact csv_is_json_of_map. Qed.

(* ================= Examples (non-vacuity, interpretive decisions) ================= *)

(* rows with quotes, commas, CR, LF, CRLF, non-ASCII, empty fields, ragged widths, a quoted
   lone empty field: hypotheses of the round trip hold, in the four line-break styles *)
Definition ex_rows : list (list (list N)) :=
  [ [[110; 97; 109; 101]; [113; 34; 117; 111; 116; 101]; []];
    [[97; 44; 98]; [108; 49; 13; 10; 108; 50]; [195; 169]; [49; 48]];
    [[]; []];
    [[13]; [10]; [34; 34]] ].
Example C13_ex_rt_ok :
  rt_ok {| crlf := true; final_break := true; quote_all := false |} ex_rows = true /\
  rt_ok {| crlf := false; final_break := false; quote_all := false |} ex_rows = true /\
  rt_ok {| crlf := false; final_break := true; quote_all := true |} (ex_rows ++ [[[]]]) = true.
Proof. vm_compute. repeat split. Qed.
Example C13_ex_roundtrip :
  read_csv (write_csv4180 {| crlf := false; final_break := false; quote_all := false |} ex_rows)
  = Some ex_rows.
Proof. vm_compute. reflexivity. Qed.
Example C13_ex_lone_empty_quoted : read_csv (write_csv4180 style_quoted [[[]]]) = Some [[[]]].
Proof. vm_compute. reflexivity. Qed.

(* borderline spellings: all of these ARE number spellings (follows the code; the property
   text is silent).  "+3" "007" ".5" "5." "-0" "1e5" "1E+5" "1.e3" *)
Example C13_ns_plus3 : number_spelling [43; 51] /\ coerce_field [43; 51] = JU 3.
Proof. split; [apply number_spelling_dec|]; vm_compute; reflexivity. Qed.
Example C13_ns_007 : number_spelling [48; 48; 55] /\ coerce_field [48; 48; 55] = JU 7.
Proof. split; [apply number_spelling_dec|]; vm_compute; reflexivity. Qed.
Example C13_ns_dot5 : number_spelling [46; 53] /\ coerce_field [46; 53] = JF false 5 (-1).
Proof. split; [apply number_spelling_dec|]; vm_compute; reflexivity. Qed.
Example C13_ns_5dot : number_spelling [53; 46] /\ coerce_field [53; 46] = JF false 5 0.
Proof. split; [apply number_spelling_dec|]; vm_compute; reflexivity. Qed.
Example C13_ns_minus0 : number_spelling [45; 48] /\ coerce_field [45; 48] = JU 0.
Proof. split; [apply number_spelling_dec|]; vm_compute; reflexivity. Qed.
Example C13_ns_1e5 : number_spelling [49; 101; 53] /\ coerce_field [49; 101; 53] = JF false 1 5.
Proof. split; [apply number_spelling_dec|]; vm_compute; reflexivity. Qed.
Example C13_ns_1Eplus5 : number_spelling [49; 69; 43; 53] /\ coerce_field [49; 69; 43; 53] = JF false 1 5.
Proof. split; [apply number_spelling_dec|]; vm_compute; reflexivity. Qed.
Example C13_ns_1dote3 : number_spelling [49; 46; 101; 51] /\ coerce_field [49; 46; 101; 51] = JF false 1 3.
Proof. split; [apply number_spelling_dec|]; vm_compute; reflexivity. Qed.
(* a derivation written out by hand, independent of the model: "-.5e-3" *)
Example C13_ns_derivation : spells [45; 46; 53; 101; 45; 51] true 5 (-4).
Proof.
  apply (Spells [45] true [] [46; 53] [53] [101; 45; 51] (-3)%Z).
  - constructor.
  - reflexivity.
  - constructor. reflexivity.
  - discriminate.
  - apply (exp_some 101 [45] true [51]); [left; reflexivity | constructor | reflexivity | discriminate].
Qed.

(* NOT number spellings: "" "0x10" "NaN" "inf" "-inf" "Infinity" "1_0" "e5" "-" "+" "." "1e"
   "1e+" "0b1" " 7" "1,5" ; each stays the same text *)
Example C13_not_numbers :
  forallb (fun f => negb (number_spellingb f) && match coerce_field f with JStr g => eq_bytes f g | _ => false end)
    [ []; [48; 120; 49; 48]; [78; 97; 78]; [105; 110; 102]; [45; 105; 110; 102];
      [73; 110; 102; 105; 110; 105; 116; 121]; [49; 95; 48]; [101; 53]; [45]; [43]; [46];
      [49; 101]; [49; 101; 43]; [48; 98; 49]; [32; 55]; [49; 44; 53];
      [217; 161; 217; 162; 217; 163] ] = true.
Proof. vm_compute. reflexivity. Qed.

(* number spellings whose value is not finite stay text: "1e400"; tiny values are finite: "1e-400" *)
Example C13_1e400_text : number_spelling [49; 101; 52; 48; 48] /\ coerce_field [49; 101; 52; 48; 48] = JStr [49; 101; 52; 48; 48].
Proof. split; [apply number_spelling_dec|]; vm_compute; reflexivity. Qed.
Example C13_1em400_float : coerce_field [49; 101; 45; 52; 48; 48] = JF false 1 (-400).
Proof. vm_compute. reflexivity. Qed.

(* integer boundaries: 2^64-1 is a u64, 2^64 a float; -2^63 an i64, -2^63-1 a float *)
Example C13_u64_max :
  coerce_field [49;56;52;52;54;55;52;52;48;55;51;55;48;57;53;53;49;54;49;53] = JU 18446744073709551615 /\
  coerce_field [49;56;52;52;54;55;52;52;48;55;51;55;48;57;53;53;49;54;49;54] = JF false 18446744073709551616 0.
Proof. vm_compute. split; reflexivity. Qed.
Example C13_i64_min :
  coerce_field [45;57;50;50;51;51;55;50;48;51;54;56;53;52;55;55;53;56;48;56] = JI (-9223372036854775808) /\
  coerce_field [45;57;50;50;51;51;55;50;48;51;54;56;53;52;55;55;53;56;48;57] = JF true 9223372036854775809 0.
Proof. vm_compute. split; reflexivity. Qed.

(* end to end: "n,v" CRLF "007,1e5" CRLF with the header flag: the header row stays text *)
Example C13_ex_header :
  parse_csv_to_json [110; 44; 118; 13; 10; 48; 48; 55; 44; 49; 101; 53; 13; 10] true
  = Some (JArr [JArr [JStr [110]; JStr [118]]; JArr [JU 7; JF false 1 5]]) /\
  parse_csv_to_json [48; 48; 55; 13; 10; 48; 48; 55] true
  = Some (JArr [JArr [JStr [48; 48; 55]]; JArr [JU 7]]) /\
  parse_csv_to_json [48; 48; 55; 13; 10; 48; 48; 55] false
  = Some (JArr [JArr [JU 7]; JArr [JU 7]]).
Proof. vm_compute. repeat split. Qed.
