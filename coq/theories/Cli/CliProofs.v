(* Proofs about the decision model of cli.rs (Cli.v). *)
From Coq Require Import List NArith Bool.
From Cddl Require Import Cli.Cli.
Import ListNotations.
Open Scope N_scope.

Section Proofs.
Variable lib : call -> bool.

Notation step := (step lib).
Notation run := (run lib).
Notation validate := (validate lib).
Notation reaches := (reaches lib).
Notation passes := (passes lib).

Definition expected (a : vargs) (x : item) : bool := lib (expected_call a (it_route x) (it_src x)).

(* ---------- the shape of [run] ---------- *)

Lemma run_reports_step : forall a l x o,
  In (x, o) (fst (run a l)) -> o = step a x /\ In x l.
Proof.
  intros a l; induction l as [|y t IH]; intros x o Hin; cbn [Cli.run fst] in Hin.
  - contradiction.
  - destruct (step a y) eqn:Hs.
    + destruct (run a t) as [rs e] eqn:Hr. cbn [fst] in *.
      destruct Hin as [Heq|Hin].
      * inversion Heq; subst. split; [symmetry; exact Hs | left; reflexivity].
      * destruct (IH _ _ Hin) as [H1 H2]. split; [exact H1 | right; exact H2].
    + destruct (v_ci a).
      * cbn [fst] in Hin. destruct Hin as [Heq|[]]. inversion Heq; subst.
        split; [symmetry; exact Hs | left; reflexivity].
      * destruct (run a t) as [rs e] eqn:Hr. cbn [fst] in *.
        destruct Hin as [Heq|Hin].
        -- inversion Heq; subst. split; [symmetry; exact Hs | left; reflexivity].
        -- destruct (IH _ _ Hin) as [H1 H2]. split; [exact H1 | right; exact H2].
    + destruct (v_ci a).
      * cbn [fst] in Hin. destruct Hin as [Heq|[]]. inversion Heq; subst.
        split; [symmetry; exact Hs | left; reflexivity].
      * destruct (run a t) as [rs e] eqn:Hr. cbn [fst] in *.
        destruct Hin as [Heq|Hin].
        -- inversion Heq; subst. split; [symmetry; exact Hs | left; reflexivity].
        -- destruct (IH _ _ Hin) as [H1 H2]. split; [exact H1 | right; exact H2].
    + cbn [fst] in Hin. destruct Hin as [Heq|[]]. inversion Heq; subst.
      split; [symmetry; exact Hs | left; reflexivity].
Qed.

Lemma run_reached : forall a pre x post,
  reaches a pre = true -> In (x, step a x) (fst (run a (pre ++ x :: post))).
Proof.
  intros a pre; induction pre as [|y t IH]; intros x post Hre.
  - cbn [app Cli.run]. destruct (step a x) eqn:Hs.
    + destruct (run a post); left; reflexivity.
    + destruct (v_ci a); [left; reflexivity | destruct (run a post); left; reflexivity].
    + destruct (v_ci a); [left; reflexivity | destruct (run a post); left; reflexivity].
    + left; reflexivity.
  - cbn [Cli.reaches forallb] in Hre. apply andb_true_iff in Hre. destruct Hre as [Hp Hre].
    specialize (IH x post Hre). cbn [app Cli.run]. unfold Cli.passes in Hp.
    destruct (step a y) eqn:Hs.
    + destruct (run a (t ++ x :: post)); right; exact IH.
    + destruct (v_ci a); [discriminate | destruct (run a (t ++ x :: post)); right; exact IH].
    + destruct (v_ci a); [discriminate | destruct (run a (t ++ x :: post)); right; exact IH].
    + discriminate.
Qed.

(* reports are the documents of a prefix of the work list, in order, each with its own outcome:
   nothing is skipped, reordered or reported twice *)
Lemma run_prefix : forall a l, exists k,
  fst (run a l) = map (fun x => (x, step a x)) (firstn k l).
Proof.
  intros a l; induction l as [|y t [k IH]].
  - exists 0%nat. reflexivity.
  - cbn [Cli.run]. destruct (step a y) eqn:Hs.
    + exists (S k). destruct (run a t). cbn [fst firstn map] in *. rewrite Hs, IH. reflexivity.
    + destruct (v_ci a).
      * exists 1%nat. cbn [fst firstn map]. rewrite Hs. reflexivity.
      * exists (S k). destruct (run a t). cbn [fst firstn map] in *. rewrite Hs, IH. reflexivity.
    + destruct (v_ci a).
      * exists 1%nat. cbn [fst firstn map]. rewrite Hs. reflexivity.
      * exists (S k). destruct (run a t). cbn [fst firstn map] in *. rewrite Hs, IH. reflexivity.
    + exists 1%nat. cbn [fst firstn map]. rewrite Hs. reflexivity.
Qed.

Lemma run_fail_ci : forall a l, v_ci a = true ->
  (snd (run a l) = true <-> exists x, In x l /\ step a x <> OSucc).
Proof.
  intros a l Hci; induction l as [|y t IH].
  - cbn. split; [discriminate | intros [x [[] _]]].
  - cbn [Cli.run]. rewrite Hci. destruct (step a y) eqn:Hs.
    + destruct (run a t) as [rs e]. cbn [snd] in *. rewrite IH. split.
      * intros [x [Hin Hx]]. exists x. split; [right; exact Hin | exact Hx].
      * intros [x [[Heq|Hin] Hx]]; [subst; congruence | exists x; split; assumption].
    + cbn [snd]. split; [intros _ | reflexivity]. exists y. split; [left; reflexivity | congruence].
    + cbn [snd]. split; [intros _ | reflexivity]. exists y. split; [left; reflexivity | congruence].
    + cbn [snd]. split; [intros _ | reflexivity]. exists y. split; [left; reflexivity | congruence].
Qed.

Lemma run_fail_noci : forall a l, v_ci a = false ->
  (snd (run a l) = true <-> exists x, In x l /\ step a x = OIoErr).
Proof.
  intros a l Hci; induction l as [|y t IH].
  - cbn. split; [discriminate | intros [x [[] _]]].
  - cbn [Cli.run]. rewrite Hci. destruct (step a y) eqn:Hs.
    + destruct (run a t) as [rs e]. cbn [snd] in *. rewrite IH. split.
      * intros [x [Hin Hx]]. exists x. split; [right; exact Hin | exact Hx].
      * intros [x [[Heq|Hin] Hx]]; [subst; congruence | exists x; split; assumption].
    + destruct (run a t) as [rs e]. cbn [snd] in *. rewrite IH. split.
      * intros [x [Hin Hx]]. exists x. split; [right; exact Hin | exact Hx].
      * intros [x [[Heq|Hin] Hx]]; [subst; congruence | exists x; split; assumption].
    + destruct (run a t) as [rs e]. cbn [snd] in *. rewrite IH. split.
      * intros [x [Hin Hx]]. exists x. split; [right; exact Hin | exact Hx].
      * intros [x [[Heq|Hin] Hx]]; [subst; congruence | exists x; split; assumption].
    + cbn [snd]. split; [intros _ | reflexivity]. exists y. split; [left; reflexivity | exact Hs].
Qed.

Lemma run_all_noci : forall a l, v_ci a = false ->
  (forall x, In x l -> step a x <> OIoErr) ->
  fst (run a l) = map (fun x => (x, step a x)) l.
Proof.
  intros a l Hci; induction l as [|y t IH]; intros Hno.
  - reflexivity.
  - assert (Ht : forall x, In x t -> step a x <> OIoErr) by (intros x Hx; apply Hno; right; exact Hx).
    specialize (IH Ht). cbn [Cli.run map]. rewrite Hci.
    destruct (step a y) eqn:Hs.
    + destruct (run a t). cbn [fst] in *. rewrite IH. reflexivity.
    + destruct (run a t). cbn [fst] in *. rewrite IH. reflexivity.
    + destruct (run a t). cbn [fst] in *. rewrite IH. reflexivity.
    + exfalso. apply (Hno y); [left; reflexivity | exact Hs].
Qed.

Lemma run_ci_first_failure : forall a pre x post, v_ci a = true ->
  (forall y, In y pre -> step a y = OSucc) -> step a x <> OSucc ->
  run a (pre ++ x :: post) = (map (fun y => (y, step a y)) pre ++ [(x, step a x)], true).
Proof.
  intros a pre x post Hci; induction pre as [|y t IH]; intros Hpre Hx.
  - cbn [app Cli.run map]. rewrite Hci. destruct (step a x); try reflexivity. congruence.
  - cbn [app Cli.run map]. rewrite (Hpre y (or_introl eq_refl)).
    rewrite IH; [reflexivity | intros z Hz; apply Hpre; right; exact Hz | exact Hx].
Qed.

(* ---------- [validate] ---------- *)

Lemma validate_ok : forall a, schema_ok (v_schema a) = true ->
  r_reports (validate a) = fst (run a (todo a)) /\ r_fail (validate a) = snd (run a (todo a))
  /\ exists i, schema_root (v_schema a) = Some i /\ r_schema (validate a) = EvRoot i.
Proof.
  intros a Hs. unfold schema_ok, schema_root in *. unfold Cli.validate.
  destruct (v_schema a) as [| | |rs]; try discriminate.
  destruct (root_index rs) as [i|]; [|discriminate].
  destruct (run a (todo a)). cbn. repeat split; auto. exists i; auto.
Qed.

Lemma validate_not_ok : forall a, schema_ok (v_schema a) = false ->
  r_reports (validate a) = [] /\
  r_fail (validate a) = match v_schema a with SMissing => v_ci a | _ => true end.
Proof.
  intros a Hs. unfold schema_ok, schema_root in *. unfold Cli.validate.
  destruct (v_schema a) as [| | |rs]; cbn; auto.
  destruct (root_index rs); [discriminate | cbn; auto].
Qed.

(* every route makes exactly the call the property asks for *)
Lemma made_is_expected : forall a x,
  lib (made_call a (it_route x) (it_src x)) = expected a x.
Proof.
  intros a x. unfold expected, Cli.made_call, expected_call. destruct (it_route x); reflexivity.
Qed.

Lemma step_succ : forall a x, step a x = OSucc <->
  usable x = true /\ lib (made_call a (it_route x) (it_src x)) = true.
Proof.
  intros a x. unfold Cli.step, usable.
  destruct (present (it_route x) (it_src x)); cbn [negb andb].
  - destruct (readable (it_route x) (it_src x)); cbn [negb].
    + destruct (lib _); split; intros H; try discriminate; auto. destruct H; discriminate.
    + split; [discriminate | intros [H _]; discriminate].
  - split; [discriminate | intros [H _]; discriminate].
Qed.

Lemma step_not_succ : forall a x, step a x <> OSucc <->
  usable x = false \/ lib (made_call a (it_route x) (it_src x)) = false.
Proof.
  intros a x. rewrite step_succ. destruct (usable x), (lib _); split; intros H; auto.
  - exfalso; apply H; auto.
  - destruct H; discriminate.
  - intros [_ H']; discriminate.
  - intros [H' _]; discriminate.
  - intros [H' _]; discriminate.
Qed.

(* soundness of a success report needs no reachability premise *)
Theorem report_sound : forall a x,
  In (x, OSucc) (r_reports (validate a)) ->
  In x (todo a) /\ usable x = true /\ expected a x = true.
Proof.
  intros a x Hin. destruct (schema_ok (v_schema a)) eqn:Hs.
  - destruct (validate_ok a Hs) as [Hrep _]. rewrite Hrep in Hin.
    destruct (run_reports_step a (todo a) x OSucc Hin) as [Hst Hin'].
    symmetry in Hst. apply step_succ in Hst. destruct Hst as [Hu Hl].
    rewrite made_is_expected in Hl. auto.
  - destruct (validate_not_ok a Hs) as [Hrep _]. rewrite Hrep in Hin. contradiction.
Qed.

Theorem report_iff_lib : forall a pre x post,
  schema_ok (v_schema a) = true -> todo a = pre ++ x :: post -> reaches a pre = true -> usable x = true ->
  (In (x, OSucc) (r_reports (validate a)) <-> expected a x = true).
Proof.
  intros a pre x post Hs Htodo Hre Hu. split.
  - intros Hin. destruct (report_sound a x Hin) as [_ [_ H]]. exact H.
  - intros He. destruct (validate_ok a Hs) as [Hrep _]. rewrite Hrep, Htodo.
    assert (Hst : step a x = OSucc).
    { apply step_succ. split; [exact Hu|]. rewrite made_is_expected. exact He. }
    rewrite <- Hst. apply run_reached. exact Hre.
Qed.

Theorem reports_prefix : forall a, exists k,
  r_reports (validate a) = map (fun x => (x, step a x)) (firstn k (todo a)).
Proof.
  intros a. destruct (schema_ok (v_schema a)) eqn:Hs.
  - destruct (validate_ok a Hs) as [Hrep _]. rewrite Hrep. apply run_prefix.
  - destruct (validate_not_ok a Hs) as [Hrep _]. rewrite Hrep. exists 0%nat. reflexivity.
Qed.

Theorem noci_all_reported : forall a, v_ci a = false -> schema_ok (v_schema a) = true ->
  (forall x, In x (todo a) -> step a x <> OIoErr) ->
  r_reports (validate a) = map (fun x => (x, step a x)) (todo a).
Proof.
  intros a Hci Hs Hno. destruct (validate_ok a Hs) as [Hrep _]. rewrite Hrep.
  apply run_all_noci; assumption.
Qed.

Theorem ci_stops_at_first_failure : forall a pre x post, v_ci a = true -> schema_ok (v_schema a) = true ->
  todo a = pre ++ x :: post -> (forall y, In y pre -> step a y = OSucc) -> step a x <> OSucc ->
  r_reports (validate a) = map (fun y => (y, step a y)) pre ++ [(x, step a x)]
  /\ r_fail (validate a) = true.
Proof.
  intros a pre x post Hci Hs Htodo Hpre Hx. destruct (validate_ok a Hs) as [Hrep [Hf _]].
  rewrite Hrep, Hf, Htodo, (run_ci_first_failure a pre x post Hci Hpre Hx). auto.
Qed.

Theorem ci_exit_iff_made : forall a, v_ci a = true ->
  (r_fail (validate a) = true <->
   schema_ok (v_schema a) = false \/ exists x, In x (todo a) /\ step a x <> OSucc).
Proof.
  intros a Hci. destruct (schema_ok (v_schema a)) eqn:Hs.
  - destruct (validate_ok a Hs) as [_ [Hf _]]. rewrite Hf, run_fail_ci by exact Hci.
    split; [intros H; right; exact H | intros [H|H]; [discriminate | exact H]].
  - destruct (validate_not_ok a Hs) as [_ Hf]. rewrite Hf. split; [intros _; left; reflexivity | intros _].
    destruct (v_schema a); auto.
Qed.

Theorem ci_exit_iff : forall a, v_ci a = true ->
  (r_fail (validate a) = true <->
   schema_ok (v_schema a) = false \/ exists x, In x (todo a) /\ (usable x = false \/ expected a x = false)).
Proof.
  intros a Hci. rewrite ci_exit_iff_made by exact Hci. split.
  - intros [H|[x [Hin Hx]]]; [left; exact H | right]. exists x. split; [exact Hin|].
    apply step_not_succ in Hx. rewrite made_is_expected in Hx. exact Hx.
  - intros [H|[x [Hin Hx]]]; [left; exact H | right]. exists x. split; [exact Hin|].
    apply step_not_succ. rewrite made_is_expected. exact Hx.
Qed.

Theorem noci_exit_iff : forall a, v_ci a = false ->
  (r_fail (validate a) = true <->
   (schema_ok (v_schema a) = false /\ v_schema a <> SMissing) \/
   (schema_ok (v_schema a) = true /\ exists x, In x (todo a) /\ step a x = OIoErr)).
Proof.
  intros a Hci. destruct (schema_ok (v_schema a)) eqn:Hs.
  - destruct (validate_ok a Hs) as [_ [Hf _]]. rewrite Hf, run_fail_noci by exact Hci.
    split; [intros H; right; auto | intros [[H _]|[_ H]]; [discriminate | exact H]].
  - destruct (validate_not_ok a Hs) as [_ Hf]. rewrite Hf.
    destruct (v_schema a); rewrite ?Hci; split; intros H; auto;
      try (left; split; [reflexivity | discriminate]);
      try discriminate.
    destruct H as [[_ H]|[H _]]; [congruence | discriminate].
Qed.

(* ---------- which rule is the root ---------- *)

Lemma root_from_spec : forall pre post i,
  (forall k, In k pre -> is_root k = false) ->
  root_from i (pre ++ KType false :: post) = Some (i + N.of_nat (length pre)).
Proof.
  induction pre as [|k t IH]; intros post i Hpre.
  - cbn. rewrite N.add_0_r. reflexivity.
  - cbn [app root_from length]. rewrite (Hpre k (or_introl eq_refl)).
    rewrite IH by (intros k' Hk'; apply Hpre; right; exact Hk').
    f_equal. rewrite Nat2N.inj_succ. rewrite <- N.add_1_l, N.add_assoc. reflexivity.
Qed.

Lemma root_from_none : forall rs i,
  root_from i rs = None <-> (forall k, In k rs -> is_root k = false).
Proof.
  induction rs as [|k t IH]; intros i.
  - cbn. split; [intros _ k [] | reflexivity].
  - cbn [root_from]. destruct (is_root k) eqn:Hk.
    + split; [discriminate | intros H; rewrite (H k (or_introl eq_refl)) in Hk; discriminate].
    + rewrite IH. split.
      * intros H k' [Heq|Hin]; [subst; exact Hk | apply H; exact Hin].
      * intros H k' Hin. apply H. right. exact Hin.
Qed.

End Proofs.

(* the root is the first type rule without generic parameters, wherever it stands *)
Theorem root_is_first_plain_type_rule : forall pre post,
  (forall k, In k pre -> is_root k = false) ->
  root_index (pre ++ KType false :: post) = Some (N.of_nat (length pre)).
Proof. intros pre post H. unfold root_index. rewrite root_from_spec by exact H. reflexivity. Qed.

Theorem no_root_iff : forall rs,
  has_root rs = false <-> (forall k, In k rs -> is_root k = false).
Proof.
  intros rs. unfold has_root, root_index. rewrite <- (root_from_none rs 0).
  destruct (root_from 0 rs); split; intros H; congruence.
Qed.

(* ---------- compile-cddl ---------- *)

Theorem compile_iff_parse : forall ci f,
  (c_conformant (compile_cddl ci f) = true /\ c_fail (compile_cddl ci f) = false) <-> f = FParses.
Proof.
  intros ci f. destruct f; cbn; split; intros H; try discriminate; auto;
    destruct H; discriminate.
Qed.

Theorem compile_conformant_iff_parse : forall ci f,
  c_conformant (compile_cddl ci f) = true <-> f = FParses.
Proof. intros ci f. destruct f; cbn; split; intros H; try discriminate; auto. Qed.

Theorem compile_exit_iff_parse : forall ci f, ci = true \/ f <> FMissing ->
  (c_fail (compile_cddl ci f) = false <-> f = FParses).
Proof.
  intros ci f [Hci|Hf].
  - subst. destruct f; cbn; split; intros H; try discriminate; auto.
  - destruct f; cbn; split; intros H; try discriminate; auto. congruence.
Qed.
