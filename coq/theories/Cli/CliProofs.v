(* Proofs about the decision model of cli.rs (Cli.v). *)
From Coq Require Import List NArith Bool.
From Cddl Require Import Cli.Cli.
Import ListNotations.
Open Scope N_scope.

Section Proofs.
Variable lib : call -> bool.

Notation step := (step lib).
Notation run := (run lib).
Notation validate := (validate lib).
Notation reaches := (reaches lib).
Notation passes := (passes lib).

Definition expected (a : vargs) (x : item) : bool := lib (expected_call a (it_route x) (it_src x)).

(* ---------- the shape of [run] ---------- *)

Lemma run_reports_step : forall a l x o,
  In (x, o) (fst (run a l)) -> o = step a x /\ In x l.
Proof.
  intros a l; induction l as [|y t IH]; intros x o Hin; cbn [Cli.run fst] in Hin.
  - contradiction.
  - destruct (step a y) eqn:Hs.
    + destruct (run a t) as [rs e] eqn:Hr. cbn [fst] in *.
      destruct Hin as [Heq|Hin].
      * inversion Heq; subst. split; [symmetry; exact Hs | left; reflexivity].
      * destruct (IH _ _ Hin) as [H1 H2]. split; [exact H1 | right; exact H2].
    + destruct (v_ci a).
      * cbn [fst] in Hin. destruct Hin as [Heq|[]]. inversion Heq; subst.
        split; [symmetry; exact Hs | left; reflexivity].
      * destruct (run a t) as [rs e] eqn:Hr. cbn [fst] in *.
        destruct Hin as [Heq|Hin].
        -- inversion Heq; subst. split; [symmetry; exact Hs | left; reflexivity].
        -- destruct (IH _ _ Hin) as [H1 H2]. split; [exact H1 | right; exact H2].
    + destruct (v_ci a).
      * cbn [fst] in Hin. destruct Hin as [Heq|[]]. inversion Heq; subst.
        split; [symmetry; exact Hs | left; reflexivity].
      * destruct (run a t) as [rs e] eqn:Hr. cbn [fst] in *.
        destruct Hin as [Heq|Hin].
        -- inversion Heq; subst. split; [symmetry; exact Hs | left; reflexivity].
        -- destruct (IH _ _ Hin) as [H1 H2]. split; [exact H1 | right; exact H2].
    + cbn [fst] in Hin. destruct Hin as [Heq|[]]. inversion Heq; subst.
      split; [symmetry; exact Hs | left; reflexivity].
Qed.

Lemma run_reached : forall a pre x post,
  reaches a pre = true -> In (x, step a x) (fst (run a (pre ++ x :: post))).
Proof.
  intros a pre; induction pre as [|y t IH]; intros x post Hre.
  - cbn [app Cli.run]. destruct (step a x) eqn:Hs.
    + destruct (run a post); left; reflexivity.
    + destruct (v_ci a); [left; reflexivity | destruct (run a post); left; reflexivity].
    + destruct (v_ci a); [left; reflexivity | destruct (run a post); left; reflexivity].
    + left; reflexivity.
  - cbn [Cli.reaches forallb] in Hre. apply andb_true_iff in Hre. destruct Hre as [Hp Hre].
    specialize (IH x post Hre). cbn [app Cli.run]. unfold Cli.passes in Hp.
    destruct (step a y) eqn:Hs.
    + destruct (run a (t ++ x :: post)); right; exact IH.
    + destruct (v_ci a); [discriminate | destruct (run a (t ++ x :: post)); right; exact IH].
    + destruct (v_ci a); [discriminate | destruct (run a (t ++ x :: post)); right; exact IH].
    + discriminate.
Qed.

(* reports are the documents of a prefix of the work list, in order, each with its own outcome:
   nothing is skipped, reordered or reported twice *)
Lemma run_prefix : forall a l, exists k,
  fst (run a l) = map (fun x => (x, step a x)) (firstn k l).
Proof.
  intros a l; induction l as [|y t [k IH]].
  - exists 0%nat. reflexivity.
  - cbn [Cli.run]. destruct (step a y) eqn:Hs.
    + exists (S k). destruct (run a t). cbn [fst firstn map] in *. rewrite Hs, IH. reflexivity.
    + destruct (v_ci a).
      * exists 1%nat. cbn [fst firstn map]. rewrite Hs. reflexivity.
      * exists (S k). destruct (run a t). cbn [fst firstn map] in *. rewrite Hs, IH. reflexivity.
    + destruct (v_ci a).
      * exists 1%nat. cbn [fst firstn map]. rewrite Hs. reflexivity.
      * exists (S k). destruct (run a t). cbn [fst firstn map] in *. rewrite Hs, IH. reflexivity.
    + exists 1%nat. cbn [fst firstn map]. rewrite Hs. reflexivity.
Qed.

Lemma run_fail_ci : forall a l, v_ci a = true ->
  (snd (run a l) = true <-> exists x, In x l /\ step a x <> OSucc).
Proof.
  intros a l Hci; induction l as [|y t IH].
  - cbn. split; [discriminate | intros [x [[] _]]].
  - cbn [Cli.run]. rewrite Hci. destruct (step a y) eqn:Hs.
    + destruct (run a t) as [rs e]. cbn [snd] in *. rewrite IH. split.
      * intros [x [Hin Hx]]. exists x. split; [right; exact Hin | exact Hx].
      * intros [x [[Heq|Hin] Hx]]; [subst; congruence | exists x; split; assumption].
    + cbn [snd]. split; [intros _ | reflexivity]. exists y. split; [left; reflexivity | congruence].
    + cbn [snd]. split; [intros _ | reflexivity]. exists y. split; [left; reflexivity | congruence].
    + cbn [snd]. split; [intros _ | reflexivity]. exists y. split; [left; reflexivity | congruence].
Qed.

Lemma run_fail_noci : forall a l, v_ci a = false ->
  (snd (run a l) = true <-> exists x, In x l /\ step a x = OIoErr).
Proof.
  intros a l Hci; induction l as [|y t IH].
  - cbn. split; [discriminate | intros [x [[] _]]].
  - cbn [Cli.run]. rewrite Hci. destruct (step a y) eqn:Hs.
    + destruct (run a t) as [rs e]. cbn [snd] in *. rewrite IH. split.
      * intros [x [Hin Hx]]. exists x. split; [right; exact Hin | exact Hx].
      * intros [x [[Heq|Hin] Hx]]; [subst; congruence | exists x; split; assumption].
    + destruct (run a t) as [rs e]. cbn [snd] in *. rewrite IH. split.
      * intros [x [Hin Hx]]. exists x. split; [right; exact Hin | exact Hx].
      * intros [x [[Heq|Hin] Hx]]; [subst; congruence | exists x; split; assumption].
    + destruct (run a t) as [rs e]. cbn [snd] in *. rewrite IH. split.
      * intros [x [Hin Hx]]. exists x. split; [right; exact Hin | exact Hx].
      * intros [x [[Heq|Hin] Hx]]; [subst; congruence | exists x; split; assumption].
    + cbn [snd]. split; [intros _ | reflexivity]. exists y. split; [left; reflexivity | exact Hs].
Qed.

Lemma run_all_noci : forall a l, v_ci a = false ->
  (forall x, In x l -> step a x <> OIoErr) ->
  fst (run a l) = map (fun x => (x, step a x)) l.
Proof.
  intros a l Hci; induction l as [|y t IH]; intros Hno.
  - reflexivity.
  - assert (Ht : forall x, In x t -> step a x <> OIoErr) by (intros x Hx; apply Hno; right; exact Hx).
    specialize (IH Ht). cbn [Cli.run map]. rewrite Hci.
    destruct (step a y) eqn:Hs.
    + destruct (run a t). cbn [fst] in *. rewrite IH. reflexivity.
    + destruct (run a t). cbn [fst] in *. rewrite IH. reflexivity.
    + destruct (run a t). cbn [fst] in *. rewrite IH. reflexivity.
    + exfalso. apply (Hno y); [left; reflexivity | exact Hs].
Qed.

Lemma run_ci_first_failure : forall a pre x post, v_ci a = true ->
  (forall y, In y pre -> step a y = OSucc) -> step a x <> OSucc ->
  run a (pre ++ x :: post) = (map (fun y => (y, step a y)) pre ++ [(x, step a x)], true).
Proof.
  intros a pre x post Hci; induction pre as [|y t IH]; intros Hpre Hx.
  - cbn [app Cli.run map]. rewrite Hci. destruct (step a x); try reflexivity. congruence.
  - cbn [app Cli.run map]. rewrite (Hpre y (or_introl eq_refl)).
    rewrite IH; [reflexivity | intros z Hz; apply Hpre; right; exact Hz | exact Hx].
Qed.

(* ---------- [validate] ---------- *)

Lemma validate_ok : forall a, v_schema a = SOk ->
  r_reports (validate a) = fst (run a (todo a)) /\ r_fail (validate a) = snd (run a (todo a))
  /\ r_schema (validate a) = EvNone.
Proof.
  intros a Hs. unfold Cli.validate. rewrite Hs. destruct (run a (todo a)). cbn. auto.
Qed.

(* every route makes exactly the call the property asks for *)
Lemma made_is_expected : forall a x,
  lib (made_call a (it_route x) (it_src x)) = expected a x.
Proof.
  intros a x. unfold expected, Cli.made_call, expected_call. destruct (it_route x); reflexivity.
Qed.

Lemma step_succ : forall a x, step a x = OSucc <->
  usable x = true /\ lib (made_call a (it_route x) (it_src x)) = true.
Proof.
  intros a x. unfold Cli.step, usable.
  destruct (present (it_route x) (it_src x)); cbn [negb andb].
  - destruct (readable (it_route x) (it_src x)); cbn [negb].
    + destruct (lib _); split; intros H; try discriminate; auto. destruct H; discriminate.
    + split; [discriminate | intros [H _]; discriminate].
  - split; [discriminate | intros [H _]; discriminate].
Qed.

Lemma step_not_succ : forall a x, step a x <> OSucc <->
  usable x = false \/ lib (made_call a (it_route x) (it_src x)) = false.
Proof.
  intros a x. rewrite step_succ. destruct (usable x), (lib _); split; intros H; auto.
  - exfalso; apply H; auto.
  - destruct H; discriminate.
  - intros [_ H']; discriminate.
  - intros [H' _]; discriminate.
  - intros [H' _]; discriminate.
Qed.

(* soundness of a success report needs no reachability premise *)
Theorem report_sound : forall a x,
  In (x, OSucc) (r_reports (validate a)) ->
  In x (todo a) /\ usable x = true /\ expected a x = true.
Proof.
  intros a x Hin. unfold Cli.validate in Hin. destruct (v_schema a) eqn:Hs; try contradiction.
  destruct (run a (todo a)) as [rs e] eqn:Hrun. cbn [r_reports] in Hin.
  assert (H := run_reports_step a (todo a) x OSucc). rewrite Hrun in H. cbn [fst] in H.
  destruct (H Hin) as [Hst Hin']. symmetry in Hst. apply step_succ in Hst. destruct Hst as [Hu Hl].
  rewrite made_is_expected in Hl. auto.
Qed.

Theorem report_iff_lib : forall a pre x post,
  v_schema a = SOk -> todo a = pre ++ x :: post -> reaches a pre = true -> usable x = true ->
  (In (x, OSucc) (r_reports (validate a)) <-> expected a x = true).
Proof.
  intros a pre x post Hs Htodo Hre Hu. split.
  - intros Hin. destruct (report_sound a x Hin) as [_ [_ H]]. exact H.
  - intros He. destruct (validate_ok a Hs) as [Hrep _]. rewrite Hrep, Htodo.
    assert (Hst : step a x = OSucc).
    { apply step_succ. split; [exact Hu|]. rewrite made_is_expected. exact He. }
    rewrite <- Hst. apply run_reached. exact Hre.
Qed.

Theorem reports_prefix : forall a, exists k,
  r_reports (validate a) = map (fun x => (x, step a x)) (firstn k (todo a)).
Proof.
  intros a. unfold Cli.validate. destruct (v_schema a);
    try (exists 0%nat; reflexivity).
  destruct (run_prefix a (todo a)) as [k Hk]. exists k.
  destruct (run a (todo a)). cbn [r_reports fst] in *. exact Hk.
Qed.

Theorem noci_all_reported : forall a, v_ci a = false -> v_schema a = SOk ->
  (forall x, In x (todo a) -> step a x <> OIoErr) ->
  r_reports (validate a) = map (fun x => (x, step a x)) (todo a).
Proof.
  intros a Hci Hs Hno. destruct (validate_ok a Hs) as [Hrep _]. rewrite Hrep.
  apply run_all_noci; assumption.
Qed.

Theorem ci_stops_at_first_failure : forall a pre x post, v_ci a = true -> v_schema a = SOk ->
  todo a = pre ++ x :: post -> (forall y, In y pre -> step a y = OSucc) -> step a x <> OSucc ->
  r_reports (validate a) = map (fun y => (y, step a y)) pre ++ [(x, step a x)]
  /\ r_fail (validate a) = true.
Proof.
  intros a pre x post Hci Hs Htodo Hpre Hx. destruct (validate_ok a Hs) as [Hrep [Hf _]].
  rewrite Hrep, Hf, Htodo, (run_ci_first_failure a pre x post Hci Hpre Hx). auto.
Qed.

Lemma schema_cases : forall a, v_schema a = SOk \/ v_schema a <> SOk.
Proof. intros a. destruct (v_schema a); auto; right; discriminate. Qed.

Theorem ci_exit_iff_made : forall a, v_ci a = true ->
  (r_fail (validate a) = true <->
   v_schema a <> SOk \/ exists x, In x (todo a) /\ step a x <> OSucc).
Proof.
  intros a Hci. destruct (schema_cases a) as [Hs|Hs].
  - destruct (validate_ok a Hs) as [_ [Hf _]]. rewrite Hf, run_fail_ci by exact Hci.
    split; [intros H; right; exact H | intros [H|H]; [congruence | exact H]].
  - split; [intros _; left; exact Hs | intros _].
    unfold Cli.validate. destruct (v_schema a); try reflexivity; [congruence | exact Hci].
Qed.

Theorem ci_exit_iff : forall a, v_ci a = true ->
  (r_fail (validate a) = true <->
   v_schema a <> SOk \/ exists x, In x (todo a) /\ (usable x = false \/ expected a x = false)).
Proof.
  intros a Hci. rewrite ci_exit_iff_made by exact Hci. split.
  - intros [H|[x [Hin Hx]]]; [left; exact H | right]. exists x. split; [exact Hin|].
    apply step_not_succ in Hx. rewrite made_is_expected in Hx. exact Hx.
  - intros [H|[x [Hin Hx]]]; [left; exact H | right]. exists x. split; [exact Hin|].
    apply step_not_succ. rewrite made_is_expected. exact Hx.
Qed.

Theorem noci_exit_iff : forall a, v_ci a = false ->
  (r_fail (validate a) = true <->
   In (v_schema a) [SUnreadable; SNoParse; SNoRoot] \/
   (v_schema a = SOk /\ exists x, In x (todo a) /\ step a x = OIoErr)).
Proof.
  intros a Hci. destruct (schema_cases a) as [Hs|Hs].
  - destruct (validate_ok a Hs) as [_ [Hf _]]. rewrite Hf, run_fail_noci by exact Hci.
    split.
    + intros H; right; split; [exact Hs | exact H].
    + intros [H|[_ H]]; [|exact H]. rewrite Hs in H. cbn in H.
      destruct H as [H|[H|[H|[]]]]; discriminate.
  - unfold Cli.validate. destruct (v_schema a) eqn:E; cbn [r_fail In]; try congruence.
    + rewrite Hci. split; [discriminate|].
      intros [[H|[H|[H|[]]]]|[H _]]; discriminate.
    + split; [intros _; left; auto | reflexivity].
    + split; [intros _; left; auto | reflexivity].
    + split; [intros _; left; auto | reflexivity].
Qed.

End Proofs.

(* ---------- compile-cddl ---------- *)

Theorem compile_iff_parse : forall ci f,
  (c_conformant (compile_cddl ci f) = true /\ c_fail (compile_cddl ci f) = false) <-> f = FParses.
Proof.
  intros ci f. destruct f; cbn; split; intros H; try discriminate; auto;
    destruct H; discriminate.
Qed.

Theorem compile_conformant_iff_parse : forall ci f,
  c_conformant (compile_cddl ci f) = true <-> f = FParses.
Proof. intros ci f. destruct f; cbn; split; intros H; try discriminate; auto. Qed.

Theorem compile_exit_iff_parse : forall ci f, ci = true \/ f <> FMissing ->
  (c_fail (compile_cddl ci f) = false <-> f = FParses).
Proof.
  intros ci f [Hci|Hf].
  - subst. destruct f; cbn; split; intros H; try discriminate; auto.
  - destruct f; cbn; split; intros H; try discriminate; auto. congruence.
Qed.
