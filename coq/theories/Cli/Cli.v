(* Decision model of /repo/src/bin/cli.rs (fn main, lines 108-339): the `validate` and
   `compile-cddl` commands.  No proofs in this file.

   What is modelled: which library function each input route calls and with which
   `enabled_features` / `has_header` argument, what happens for a missing or unreadable
   file, the `error!` macro (log, and under --ci `return Err`), `?` on I/O and on
   `root_type_name_from_cddl_str`, the fixed processing order json -> cbor -> csv -> stdin,
   the UTF-8 sniffing of stdin, and the resulting (per-document reports, exit status).

   What is NOT modelled (exercised on the real binary by lib/props/c18.py): clap argument
   parsing, file-system access, the logger, the process exit code produced by returning
   `Err` from `main`.

   The library is a parameter: [lib : call -> bool] (true = the call returned Ok).  It is a
   Section variable / function argument, never an axiom. *)
From Coq Require Import List NArith Bool.
Import ListNotations.
Open Scope N_scope.

(* --features: None = option absent, Some l = the (comma separated) list; names are abstract *)
Definition feats := option (list N).

(* one call into the library; documents are identified by a number *)
Inductive call :=
| CallJson (d : N) (f : feats)                       (* validate_json_from_str(cddl, doc, f) *)
| CallCbor (d : N) (f : feats)                       (* validate_cbor_from_slice(cddl, doc, f) *)
| CallCsv (d : N) (h : option bool) (f : feats).     (* validate_csv_from_str(cddl, doc, h, f) *)

Inductive route := RJson | RCbor | RCsv | RStdin.

(* a document source: a path given to --json/--cbor/--csv, or the bytes on stdin *)
Record src := {
  s_id : N;            (* which document (argument of [lib]) *)
  s_exists : bool;     (* Path::exists *)
  s_isfile : bool;     (* its bytes can be read (false: a directory, ...) *)
  s_utf8 : bool }.     (* the bytes are valid UTF-8 *)

(* one rule of the parsed schema, as far as the choice of the root looks at it *)
Inductive rkind :=
| KType (generic : bool)   (* ast::Rule::Type; generic = rule.generic_params.is_some() *)
| KGroup.                  (* ast::Rule::Group *)

(* the root is the first type rule without generic parameters: validator/json.rs and cbor.rs
   validate(), and root_type_name_from_cddl_str (parser.rs:255-268), which only cli.rs uses *)
Definition is_root (k : rkind) : bool := match k with KType false => true | _ => false end.

Fixpoint root_from (i : N) (rs : list rkind) : option N :=
  match rs with
  | [] => None
  | k :: t => if is_root k then Some i else root_from (i + 1) t
  end.
Definition root_index (rs : list rkind) : option N := root_from 0 rs.
Definition has_root (rs : list rkind) : bool :=
  match root_index rs with Some _ => true | None => false end.

(* the schema file given to -d/--cddl, as seen by cli.rs:169-181.  For a schema that parses the
   model is given the rule kinds of the AST (from the library) and decides itself whether
   root_type_name_from_cddl_str(..)? succeeds *)
Inductive sstatus :=
| SMissing                        (* !p.exists() *)
| SUnreadable                     (* fs::read_to_string(..)? fails *)
| SNoParse                        (* cddl_from_str rejects *)
| SParsed (rules : list rkind).   (* cddl_from_str accepts *)

Definition schema_root (st : sstatus) : option N :=
  match st with SParsed rs => root_index rs | _ => None end.
Definition schema_ok (st : sstatus) : bool :=
  match schema_root st with Some _ => true | None => false end.

Inductive outcome :=
| OSucc           (* info!("Validation of {:?} is successful") *)
| OFail           (* error!("Validation of {:?} failed: ..") *)
| OMissing        (* error!(".. does not exist") *)
| OIoErr.         (* `?` on reading the document: main returns Err, nothing is logged for it *)

(* `cddl [--ci] validate -d <schema> [-f a,b] [--csv-header] [-j ..]* [-c ..]* [--csv ..]* [--stdin]` after clap *)
Record vargs := {
  v_ci : bool;
  v_schema : sstatus;
  v_feats : feats;
  v_hdr : bool;
  v_json : list src;
  v_cbor : list src;
  v_csv : list src;
  v_stdin : option src }.

(* a document to process: route, position within its flag, source *)
Definition item := (route * N * src)%type.
Definition it_route (x : item) : route := fst (fst x).
Definition it_src (x : item) : src := snd x.

Inductive sevent :=
| EvRoot (i : N)       (* info!("Root type for validation: {}") names rule number i *)
| EvSchemaMissing | EvSchemaErr.

Record result := {
  r_schema : sevent;
  r_reports : list (item * outcome);
  r_fail : bool }.       (* process exit status is non-zero *)

Fixpoint number (r : route) (i : N) (l : list src) : list item :=
  match l with
  | [] => []
  | s :: t => (r, i, s) :: number r (i + 1) t
  end.

(* processing order is fixed by the code, not by the command line: cli.rs:183, 217, 250, 291 *)
Definition todo (a : vargs) : list item :=
  number RJson 0 (v_json a) ++ number RCbor 0 (v_cbor a) ++ number RCsv 0 (v_csv a)
  ++ match v_stdin a with Some s => [(RStdin, 0, s)] | None => [] end.

(* cli.rs:251-255 *)
Definition has_header (hdr : bool) : option bool := if hdr then Some true else None.

(* the call the property expects: the route's validator with the same features *)
Definition expected_call (a : vargs) (r : route) (s : src) : call :=
  match r with
  | RJson => CallJson (s_id s) (v_feats a)
  | RCbor => CallCbor (s_id s) (v_feats a)
  | RCsv => CallCsv (s_id s) (has_header (v_hdr a)) (v_feats a)
  | RStdin => if s_utf8 s then CallJson (s_id s) (v_feats a) else CallCbor (s_id s) (v_feats a)
  end.

Section Model.
Variable lib : call -> bool.

(* the call cli.rs makes; every route threads the enabled features (since 8c0094b also the
   --cbor loop, :230, and the JSON branch of --stdin, :299) *)
Definition made_call (a : vargs) (r : route) (s : src) : call :=
  match r with
  | RJson => CallJson (s_id s) (v_feats a)                                         (* :193-197 *)
  | RCbor => CallCbor (s_id s) (v_feats a)                                         (* :230 *)
  | RCsv => CallCsv (s_id s) (has_header (v_hdr a)) (v_feats a)                    (* :266-271 *)
  | RStdin =>
      if s_utf8 s                                                                  (* :297 from_utf8 *)
      then CallJson (s_id s) (v_feats a)                                           (* :299 *)
      else CallCbor (s_id s) (v_feats a)                                           (* :317 *)
  end.

Definition present (r : route) (s : src) : bool :=
  match r with RStdin => true | _ => s_exists s end.

Definition readable (r : route) (s : src) : bool :=
  match r with
  | RJson | RCsv => s_isfile s && s_utf8 s      (* fs::read_to_string(file)? *)
  | RCbor => s_isfile s                         (* File::open(p)?; read_to_end(..)? *)
  | RStdin => true                              (* stdin.lock().read_to_end(..)? *)
  end.

Definition step (a : vargs) (x : item) : outcome :=
  let r := it_route x in let s := it_src x in
  if negb (present r s) then OMissing
  else if negb (readable r s) then OIoErr
  else if lib (made_call a r s) then OSucc else OFail.

(* the loops of cli.rs:183-334 flattened; `error!(ci, ..)` returns Err exactly when ci *)
Fixpoint run (a : vargs) (l : list item) : list (item * outcome) * bool :=
  match l with
  | [] => ([], false)
  | x :: t =>
      let o := step a x in
      match o with
      | OSucc => let (rs, e) := run a t in ((x, o) :: rs, e)
      | OIoErr => ([(x, o)], true)
      | OFail | OMissing =>
          if v_ci a then ([(x, o)], true)
          else let (rs, e) := run a t in ((x, o) :: rs, e)
      end
  end.

Definition validate (a : vargs) : result :=
  match v_schema a with
  | SMissing => {| r_schema := EvSchemaMissing; r_reports := []; r_fail := v_ci a |}   (* :170-174 *)
  | SUnreadable | SNoParse =>
      {| r_schema := EvSchemaErr; r_reports := []; r_fail := true |}                   (* :176-181 `?` *)
  | SParsed rs =>
      match root_index rs with
      | None => {| r_schema := EvSchemaErr; r_reports := []; r_fail := true |}         (* "no root type" `?` *)
      | Some i => let (l, e) := run a (todo a) in {| r_schema := EvRoot i; r_reports := l; r_fail := e |}
      end
  end.

Definition usable (x : item) : bool :=
  present (it_route x) (it_src x) && readable (it_route x) (it_src x).

(* processing reaches the document after [pre]: no earlier `return Err` *)
Definition passes (a : vargs) (x : item) : bool :=
  match step a x with
  | OSucc => true
  | OIoErr => false
  | OFail | OMissing => negb (v_ci a)
  end.
Definition reaches (a : vargs) (pre : list item) : bool := forallb (passes a) pre.

End Model.

(* ---------- compile-cddl (cli.rs:121-132) ---------- *)
Inductive fstatus := FMissing | FUnreadable | FNoParse | FParses.

Record cresult := { c_conformant : bool;   (* info!("{} is conformant") *)
                    c_fail : bool }.       (* non-zero exit status *)

Definition compile_cddl (ci : bool) (f : fstatus) : cresult :=
  match f with
  | FMissing => {| c_conformant := false; c_fail := ci |}        (* error!(ci, ..); return Ok(()) *)
  | FUnreadable => {| c_conformant := false; c_fail := true |}   (* fs::read_to_string(file)? *)
  | FNoParse => {| c_conformant := false; c_fail := true |}      (* cddl_from_str(..).map(|_| ())? *)
  | FParses => {| c_conformant := true; c_fail := false |}
  end.

(* ---------- canonical rendering shared with lib/props/c18.py ----------
   "<schema> <report>* X<0|1>"   schema: 'r<digit>' root is rule number <digit>, 'm' missing, 'e' error
   report: <j|c|s|i><index digit><+ ok | - fail | ? missing>, or "!" for an I/O abort *)
Definition route_code (r : route) : N :=
  match r with RJson => 106 | RCbor => 99 | RCsv => 115 | RStdin => 105 end.

Definition render_report (p : item * outcome) : list N :=
  let '((r, i, _), o) := p in
  match o with
  | OSucc => [route_code r; 48 + i; 43; 32]
  | OFail => [route_code r; 48 + i; 45; 32]
  | OMissing => [route_code r; 48 + i; 63; 32]
  | OIoErr => [33; 32]
  end.

Definition render (res : result) : list N :=
  match r_schema res with EvRoot i => [114; 48 + i] | EvSchemaMissing => [109] | EvSchemaErr => [101] end ++ [32]
  ++ flat_map render_report (r_reports res)
  ++ [88; if r_fail res then 49 else 48].

Definition render_compile (c : cresult) : list N :=
  [if c_conformant c then 67 else 45; 32; 88; if c_fail c then 49 else 48].

(* ---------- table-driven instance used by the oracle and by vm_compute ----------
   A document is given with its flags and the eight library verdicts the Rust driver computed:
   [J(F); J(None); C(F); C(None); S(hdr,F); S(nohdr,F); S(hdr,None); S(nohdr,None)]
   where F is the invocation's --features list (when the option is absent F = None). *)
Record dsrc := { d_exists : bool; d_isfile : bool; d_utf8 : bool; d_bits : list bool }.

Definition bit (l : list bool) (k : nat) : bool := nth k l false.

Fixpoint lookup (t : list (N * list bool)) (d : N) : list bool :=
  match t with
  | [] => []
  | (k, b) :: r => if N.eqb k d then b else lookup r d
  end.

Definition is_none {A} (o : option A) : bool := match o with None => true | Some _ => false end.

Definition lib_of_table (t : list (N * list bool)) (c : call) : bool :=
  match c with
  | CallJson d f => bit (lookup t d) (if is_none f then 1 else 0)
  | CallCbor d f => bit (lookup t d) (if is_none f then 3 else 2)
  | CallCsv d h f =>
      bit (lookup t d) (match h, is_none f with
                        | Some true, false => 4 | _, false => 5
                        | Some true, true => 6 | _, true => 7 end)
  end.

Fixpoint mk_srcs (base : N) (l : list dsrc) : list src * list (N * list bool) :=
  match l with
  | [] => ([], [])
  | d :: t =>
      let (ss, tb) := mk_srcs (base + 1) t in
      ({| s_id := base; s_exists := d_exists d; s_isfile := d_isfile d; s_utf8 := d_utf8 d |} :: ss,
       (base, d_bits d) :: tb)
  end.

Definition rkind_of_code (c : N) : rkind :=
  match c with 0 => KType false | 1 => KType true | _ => KGroup end.
Definition schema_of_code (c : N) (rules : list N) : sstatus :=
  match c with 0 => SParsed (map rkind_of_code rules) | 1 => SMissing | 2 => SUnreadable | _ => SNoParse end.

(* one `validate` case.  [f]: None = no --features, Some l = the list (names abstracted to numbers) *)
Definition case_validate (ci hdr : bool) (f : feats) (schema : N) (rules : list N)
           (js cs ss : list dsrc) (stdin : option dsrc) : list N :=
  let '(j, tj) := mk_srcs 0 js in
  let '(c, tc) := mk_srcs 100 cs in
  let '(s, ts) := mk_srcs 200 ss in
  let '(i, ti) := mk_srcs 300 (match stdin with Some d => [d] | None => [] end) in
  let a := {| v_ci := ci; v_schema := schema_of_code schema rules; v_feats := f; v_hdr := hdr;
              v_json := j; v_cbor := c; v_csv := s; v_stdin := hd_error i |} in
  render (validate (lib_of_table (tj ++ tc ++ ts ++ ti)) a).

Definition fstatus_of_code (c : N) : fstatus :=
  match c with 0 => FParses | 1 => FMissing | 2 => FUnreadable | _ => FNoParse end.

Definition case_compile (ci : bool) (f : N) : list N :=
  render_compile (compile_cddl ci (fstatus_of_code f)).
