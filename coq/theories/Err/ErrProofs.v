(* C14 - proofs about Err/Loc.v, Err/Discipline.v, Err/Walk.v and the generated kind table. *)
From Coq Require Import List NArith Bool Arith Lia Decimal DecimalN.
From Coq Require String.
From Cddl Require Import Err.Loc Err.Discipline Err.Walk Err.Kinds Generated.ErrorKinds.
Import ListNotations.
Open Scope N_scope.

(* ====================================================================== *)
(* result construction                                                     *)
(* ====================================================================== *)

Lemma finish_ok_iff : forall (E : Type) (errs : list E), finish errs = ROk <-> errs = [].
Proof.
  intros E errs. destruct errs as [|e r]; cbn [finish]; split; intro H; try reflexivity; discriminate H.
Qed.

Lemma finish_err : forall (E : Type) (errs l : list E), finish errs = RErrValidation l -> l <> [] /\ l = errs.
Proof.
  intros E errs l H. destruct errs as [|e r]; cbn [finish] in H; [discriminate H|].
  injection H as <-. split; [discriminate|reflexivity].
Qed.

(* ====================================================================== *)
(* the checkpoint / truncate discipline                                    *)
(* ====================================================================== *)

Section Choice.
  Context {E : Type}.
  Implicit Types (alts : list (@visit E)) (errs base acc : list E).

  Definition suffixes alts : list E := concat (map (fun f => f []) alts).

  Lemma succeeds_nil : forall (f : @visit E), succeeds f = true <-> f [] = [].
  Proof.
    intro f. unfold succeeds. destruct (f []); split; intro H; try reflexivity; discriminate H.
  Qed.

  Lemma choice_loop_spec : forall alts base acc,
    Forall appender alts ->
    choice_loop (length base) alts (base ++ acc) =
      if existsb succeeds alts then base else base ++ acc ++ suffixes alts.
  Proof.
    induction alts as [|f rest IH]; intros base acc Happ.
    - cbn. now rewrite app_nil_r.
    - inversion Happ as [|f' rest' Hf Hrest]; subst.
      cbn [choice_loop existsb]. unfold checkpoint, truncate.
      rewrite (Hf (base ++ acc)). rewrite !app_length.
      destruct (f []) as [|e s] eqn:Hs.
      + assert (Hsu : succeeds f = true) by (apply succeeds_nil; exact Hs).
        rewrite Hsu. cbn [orb length]. rewrite Nat.add_0_r, Nat.eqb_refl.
        rewrite app_nil_r. rewrite firstn_app, Nat.sub_diag, firstn_all. cbn. now rewrite app_nil_r.
      + assert (Hsu : succeeds f = false) by (unfold succeeds; now rewrite Hs).
        rewrite Hsu. cbn [orb].
        replace (Nat.eqb (length base + length acc + length (e :: s)) (length base + length acc)) with false
          by (symmetry; apply Nat.eqb_neq; cbn [length]; lia).
        rewrite <- app_assoc. rewrite (IH base (acc ++ e :: s) Hrest).
        destruct (existsb succeeds rest); [reflexivity|].
        unfold suffixes. cbn [map concat]. rewrite Hs. now rewrite <- !app_assoc.
  Qed.

  Lemma choice_success : forall alts errs,
    Forall appender alts -> existsb succeeds alts = true -> choice alts errs = errs.
  Proof.
    intros alts errs Happ Hex. unfold choice, checkpoint.
    pose proof (choice_loop_spec alts errs [] Happ) as H. rewrite app_nil_r in H. now rewrite H, Hex.
  Qed.

  Lemma choice_failure : forall alts errs,
    Forall appender alts -> existsb succeeds alts = false -> choice alts errs = errs ++ suffixes alts.
  Proof.
    intros alts errs Happ Hex. unfold choice, checkpoint.
    pose proof (choice_loop_spec alts errs [] Happ) as H. rewrite app_nil_r in H. now rewrite H, Hex.
  Qed.

  Lemma choice_appender : forall alts, Forall appender alts -> appender (choice alts).
  Proof.
    intros alts Happ errs. destruct (existsb succeeds alts) eqn:Hex.
    - rewrite (choice_success alts errs Happ Hex), (choice_success alts [] Happ Hex). now rewrite app_nil_r.
    - now rewrite (choice_failure alts errs Happ Hex), (choice_failure alts [] Happ Hex).
  Qed.

  (* when every alternative fails, something is reported *)
  Lemma suffixes_nonempty : forall alts, alts <> [] -> existsb succeeds alts = false -> suffixes alts <> [].
  Proof.
    intros [|f rest] Hne Hex; [now elim Hne|].
    cbn [existsb] in Hex. apply orb_false_iff in Hex as [Hf _].
    unfold suffixes. cbn [map concat]. unfold succeeds in Hf. destruct (f []); [discriminate Hf|discriminate].
  Qed.
End Choice.

(* ====================================================================== *)
(* rendering and reading back                                              *)
(* ====================================================================== *)

Lemma split_slash_nonempty : forall s, exists p ps, split_slash s = p :: ps.
Proof.
  induction s as [|c r [p [ps IH]]]; cbn [split_slash].
  - now exists [], [].
  - destruct (c =? slash); [now exists [], (split_slash r)|]. rewrite IH. now exists (c :: p), ps.
Qed.

Lemma split_slash_app : forall a b, split_slash (a ++ slash :: b) = split_slash a ++ split_slash b.
Proof.
  induction a as [|c a IH]; intro b.
  - reflexivity.
  - change ((c :: a) ++ slash :: b) with (c :: (a ++ slash :: b)).
    cbn [split_slash]. destruct (c =? slash) eqn:Hc.
    + now rewrite IH.
    + rewrite IH. destruct (split_slash_nonempty a) as [p [ps Hp]]. now rewrite Hp.
Qed.

Lemma split_slash_noslash : forall k, no_slash_str k = true -> split_slash k = [k].
Proof.
  induction k as [|c k IH]; intro H; [reflexivity|].
  cbn [no_slash_str forallb] in H. apply andb_true_iff in H as [Hc Hk].
  cbn [split_slash]. apply negb_true_iff in Hc. rewrite Hc. now rewrite (IH Hk).
Qed.

Lemma uint_codes_no_slash : forall d, no_slash_str (uint_codes d) = true.
Proof. induction d; cbn [uint_codes no_slash_str forallb]; try reflexivity; exact IHd. Qed.

Lemma dec_no_slash : forall i, no_slash_str (dec i) = true.
Proof. intro i. apply uint_codes_no_slash. Qed.

Lemma seg_text_no_slash : forall s, no_slash_seg s = true -> no_slash_str (seg_text s) = true.
Proof. intros [k|i] H; [exact H|apply dec_no_slash]. Qed.

(* the pieces of the rendering of a non-empty location *)
Lemma split_slash_render : forall r s, no_slash (s :: r) = true ->
  split_slash (seg_text s ++ render r) = map seg_text (s :: r).
Proof.
  induction r as [|s' r IH]; intros s H; cbn [no_slash forallb] in H; apply andb_true_iff in H as [Hs Hr].
  - cbn [render map]. rewrite app_nil_r. now apply split_slash_noslash, seg_text_no_slash.
  - cbn [render]. rewrite split_slash_app. rewrite (IH s' Hr).
    rewrite (split_slash_noslash _ (seg_text_no_slash _ Hs)). reflexivity.
Qed.

Lemma render_split : forall l, no_slash l = true -> split (render l) = Some (map seg_text l).
Proof.
  intros [|s r] H; [reflexivity|].
  cbn [render split]. rewrite N.eqb_refl. now rewrite split_slash_render.
Qed.

Definition key_x_slash_y : str := [120; 47; 121].

Lemma render_split_refuted :
  exists l, split (render l) <> Some (map seg_text l) /\
  exists l', l <> l' /\ render l = render l'.
Proof.
  exists [SKey key_x_slash_y]. split; [vm_compute; discriminate|].
  exists [SKey [120]; SKey [121]]. split; [discriminate|reflexivity].
Qed.

(* decimal indices *)
Lemma codes_uint_codes : forall d, codes_uint (uint_codes d) = Some d.
Proof. induction d; cbn [uint_codes codes_uint]; try reflexivity; rewrite IHd; reflexivity. Qed.

Lemma parse_dec : forall i, parse_idx (dec i) = Some i.
Proof.
  intro i. unfold parse_idx, dec. rewrite codes_uint_codes.
  assert (Hn : unorm (N.to_uint i) = N.to_uint i).
  { rewrite <- (Unsigned.to_of (N.to_uint i)). now rewrite Unsigned.of_to. }
  rewrite Hn. rewrite (internal_uint_dec_lb _ _ eq_refl). now rewrite Unsigned.of_to.
Qed.

(* ====================================================================== *)
(* resolution                                                              *)
(* ====================================================================== *)

Lemma focus_app : forall a b d, focus d (a ++ b) = match focus d a with Some c => focus c b | None => None end.
Proof.
  induction a as [|s a IH]; intros b d; [reflexivity|].
  rewrite <- app_comm_cons. cbn [focus]. destruct (child d s); [apply IH|reflexivity].
Qed.

Lemma resolves_prefix : forall d a b, resolves d (a ++ b) = true -> resolves d a = true.
Proof.
  intros d a b. unfold resolves. rewrite focus_app. destruct (focus d a); [reflexivity|discriminate].
Qed.

Lemma child_raw_of_child : forall d s c, child d s = Some c -> child_raw d (seg_text s) = Some c.
Proof.
  intros d [k|i] c H; destruct d; cbn [child] in H; try discriminate H; cbn [child_raw seg_text].
  - exact H.
  - now rewrite parse_dec.
Qed.

Lemma focus_raw_of_focus : forall l d c, focus d l = Some c -> focus_raw d (map seg_text l) = Some c.
Proof.
  induction l as [|s l IH]; intros d c H; [exact H|].
  cbn [focus] in H. destruct (child d s) as [c1|] eqn:Hc; [|discriminate H].
  cbn [map focus_raw]. rewrite (child_raw_of_child _ _ _ Hc). now apply IH.
Qed.

Lemma resolves_string_render : forall d l,
  no_slash l = true -> resolves d l = true -> resolves_string d (render l) = true.
Proof.
  intros d l Hns H. unfold resolves in H. destruct (focus d l) as [c|] eqn:Hf; [|discriminate H].
  unfold resolves_string. rewrite (render_split l Hns). now rewrite (focus_raw_of_focus _ _ _ Hf).
Qed.

Definition doc_slash_key : json := JObj [(key_x_slash_y, JNum)].

Lemma resolves_string_refuted :
  exists d l, resolves d l = true /\ resolves_string d (render l) = false.
Proof. exists doc_slash_key, [SKey key_x_slash_y]. split; vm_compute; reflexivity. Qed.

(* ---- the tolerant reading holds for every location, slashes or not ---- *)

Definition join_of (m : list (str * json)) :=
  fix join (rest : list str) (acc : str) {struct rest} : bool :=
    if match lookup acc m with Some c => amb_pieces rest c | None => false end then true
    else match rest with
         | q :: rest' => join rest' (acc ++ slash :: q)
         | [] => false
         end.

Lemma amb_obj : forall p rest m, amb_pieces (p :: rest) (JObj m) = join_of m rest p.
Proof. reflexivity. Qed.

Lemma amb_arr : forall p rest l,
  amb_pieces (p :: rest) (JArr l) =
  match parse_idx p with
  | Some i => match nthN l i with Some c => amb_pieces rest c | None => false end
  | None => false
  end.
Proof. reflexivity. Qed.

Fixpoint joinacc (acc : str) (ps : list str) : str :=
  match ps with
  | [] => acc
  | q :: r => joinacc (acc ++ slash :: q) r
  end.

Lemma joinacc_prefix : forall ps x acc, joinacc (x ++ acc) ps = x ++ joinacc acc ps.
Proof.
  induction ps as [|q ps IH]; intros x acc; [reflexivity|].
  cbn [joinacc]. rewrite <- app_assoc. apply IH.
Qed.

Lemma join_split_slash : forall k p ps, split_slash k = p :: ps -> joinacc p ps = k.
Proof.
  induction k as [|c k IH]; intros p ps H; cbn [split_slash] in H.
  - injection H as <- <-. reflexivity.
  - destruct (c =? slash) eqn:Hc.
    + injection H as <- <-. apply N.eqb_eq in Hc. subst c.
      destruct (split_slash_nonempty k) as [p' [ps' Hp]]. rewrite Hp. cbn [joinacc].
      change ([] ++ slash :: p') with ([slash] ++ p'). rewrite joinacc_prefix.
      change ([slash] ++ joinacc p' ps') with (slash :: joinacc p' ps'). f_equal. now apply IH.
    + destruct (split_slash_nonempty k) as [p' [ps' Hp]]. rewrite Hp in H. injection H as <- <-.
      change (c :: p') with ([c] ++ p'). rewrite joinacc_prefix.
      change ([c] ++ joinacc p' ps') with (c :: joinacc p' ps'). f_equal. now apply IH.
Qed.

Lemma join_of_eq : forall m rest acc,
  join_of m rest acc =
  if match lookup acc m with Some c => amb_pieces rest c | None => false end then true
  else match rest with
       | q :: rest' => join_of m rest' (acc ++ slash :: q)
       | [] => false
       end.
Proof. intros m [|q rest] acc; reflexivity. Qed.

Lemma join_of_reaches : forall m c rest ps acc,
  lookup (joinacc acc ps) m = Some c -> amb_pieces rest c = true -> join_of m (ps ++ rest) acc = true.
Proof.
  intros m c rest. induction ps as [|q ps IH]; intros acc Hl Ha.
  - cbn [joinacc] in Hl. change ([] ++ rest) with rest. rewrite join_of_eq, Hl, Ha. reflexivity.
  - cbn [joinacc] in Hl. rewrite <- app_comm_cons. rewrite join_of_eq.
    destruct (match lookup acc m with Some c0 => amb_pieces (q :: ps ++ rest) c0 | None => false end); [reflexivity|].
    apply (IH _ Hl Ha).
Qed.

Definition pcs (l : loc) : list str := concat (map (fun s => split_slash (seg_text s)) l).

Lemma split_slash_render_any : forall r s, split_slash (seg_text s ++ render r) = pcs (s :: r).
Proof.
  induction r as [|s' r IH]; intro s.
  - cbn [render]. rewrite app_nil_r. unfold pcs. cbn [map concat]. now rewrite app_nil_r.
  - cbn [render]. rewrite split_slash_app, IH. reflexivity.
Qed.

Lemma split_render_any : forall l, split (render l) = Some (pcs l).
Proof.
  intros [|s r]; [reflexivity|]. cbn [render split]. rewrite N.eqb_refl. now rewrite split_slash_render_any.
Qed.

Lemma amb_of_focus : forall l d c rest,
  focus d l = Some c -> amb_pieces rest c = true -> amb_pieces (pcs l ++ rest) d = true.
Proof.
  induction l as [|s l IH]; intros d c rest Hf Ha.
  - cbn in Hf. injection Hf as <-. exact Ha.
  - cbn [focus] in Hf. destruct (child d s) as [c1|] eqn:Hc; [|discriminate Hf].
    specialize (IH c1 c rest Hf Ha).
    unfold pcs in *. cbn [map concat]. rewrite <- app_assoc.
    set (tail := concat (map (fun s0 => split_slash (seg_text s0)) l) ++ rest) in *.
    destruct s as [k|i]; destruct d; cbn [child] in Hc; try discriminate Hc; cbn [seg_text].
    + (* object member *)
      destruct (split_slash_nonempty k) as [p [ps Hp]]. rewrite Hp. rewrite <- app_comm_cons. rewrite amb_obj.
      apply (join_of_reaches m c1 tail ps p); [|exact IH]. now rewrite (join_split_slash k p ps Hp).
    + (* array element *)
      rewrite (split_slash_noslash _ (dec_no_slash i)). change ([dec i] ++ tail) with (dec i :: tail).
      rewrite amb_arr, parse_dec, Hc. exact IH.
Qed.

Lemma resolves_amb_render : forall d l, resolves d l = true -> resolves_amb d (render l) = true.
Proof.
  intros d l H. unfold resolves in H. destruct (focus d l) as [c|] eqn:Hf; [|discriminate H].
  unfold resolves_amb. rewrite split_render_any.
  rewrite <- (app_nil_r (pcs l)). now apply (amb_of_focus l d c []).
Qed.

(* ====================================================================== *)
(* the descent                                                             *)
(* ====================================================================== *)

Lemma run_appender : forall w cur l, appender (run w cur l).
Proof.
  induction w as [|r|a IHa b IHb|k body IH|i body IH|a IHa b IHb]; intros cur l errs; cbn [run].
  - now rewrite app_nil_r.
  - reflexivity.
  - rewrite (IHb cur l (run a cur l errs)), (IHa cur l errs), (IHb cur l (run a cur l [])). now rewrite app_assoc.
  - destruct (child cur (SKey k)); reflexivity.
  - destruct (child cur (SIdx i)); [reflexivity|now rewrite app_nil_r].
  - apply choice_appender. repeat constructor; [apply IHa|apply IHb].
Qed.

Lemma alt_appenders : forall a b cur l, Forall appender [run a cur l; run b cur l].
Proof. intros. repeat constructor; apply run_appender. Qed.

(* a successful alternative leaves no trace of a failed one *)
Lemma alt_no_leak : forall a b cur l errs,
  run a cur l [] = [] \/ run b cur l [] = [] -> run (WAlt a b) cur l errs = errs.
Proof.
  intros a b cur l errs H. cbn [run]. apply choice_success; [apply alt_appenders|].
  cbn [existsb]. destruct H as [H|H]; unfold succeeds; rewrite H; cbn; [reflexivity|now rewrite orb_true_r].
Qed.

(* when both fail, both reports are kept, in order, and nothing else changes *)
Lemma alt_all_fail : forall a b cur l errs,
  run a cur l [] <> [] -> run b cur l [] <> [] ->
  run (WAlt a b) cur l errs = errs ++ run a cur l [] ++ run b cur l [].
Proof.
  intros a b cur l errs Ha Hb. cbn [run]. rewrite choice_failure; [|apply alt_appenders|].
  - unfold suffixes. cbn [map concat]. now rewrite app_nil_r.
  - cbn [existsb]. unfold succeeds. destruct (run a cur l []); [now elim Ha|].
    destruct (run b cur l []); [now elim Hb|]. reflexivity.
Qed.

(* every recorded location is the location of the node being validated, hence exists in the document *)
Lemma run_resolves : forall root w cur l errs,
  focus root l = Some cur ->
  Forall (fun e : entry => resolves root (fst e) = true) errs ->
  Forall (fun e : entry => resolves root (fst e) = true) (run w cur l errs).
Proof.
  intros root. induction w as [|r|a IHa b IHb|k body IH|i body IH|a IHa b IHb]; intros cur l errs Hf He; cbn [run].
  - exact He.
  - unfold push. apply Forall_app. split; [exact He|]. constructor; [|constructor].
    cbn [fst]. unfold resolves. now rewrite Hf.
  - apply IHb; [exact Hf|]. now apply IHa.
  - destruct (child cur (SKey k)) as [c|] eqn:Hc.
    + unfold extend. apply Forall_app. split; [exact He|]. apply IH; [|constructor].
      rewrite focus_app, Hf. cbn [focus]. now rewrite Hc.
    + unfold push. apply Forall_app. split; [exact He|]. constructor; [|constructor].
      cbn [fst]. unfold resolves. now rewrite Hf.
  - destruct (child cur (SIdx i)) as [c|] eqn:Hc; [|exact He].
    unfold extend. apply Forall_app. split; [exact He|]. apply IH; [|constructor].
    rewrite focus_app, Hf. cbn [focus]. now rewrite Hc.
  - destruct (existsb succeeds [run a cur l; run b cur l]) eqn:Hex.
    + rewrite (choice_success _ errs (alt_appenders a b cur l) Hex). exact He.
    + rewrite (choice_failure _ errs (alt_appenders a b cur l) Hex).
      unfold suffixes. cbn [map concat]. rewrite app_nil_r.
      apply Forall_app. split; [exact He|]. apply Forall_app. split.
      * apply IHa; [exact Hf|constructor].
      * apply IHb; [exact Hf|constructor].
Qed.

Lemma run_no_slash : forall w cur l errs,
  walk_no_slash w = true -> no_slash l = true ->
  Forall (fun e : entry => no_slash (fst e) = true) errs ->
  Forall (fun e : entry => no_slash (fst e) = true) (run w cur l errs).
Proof.
  induction w as [|r|a IHa b IHb|k body IH|i body IH|a IHa b IHb]; intros cur l errs Hw Hl He;
    cbn [run]; cbn [walk_no_slash] in Hw.
  - exact He.
  - unfold push. apply Forall_app. split; [exact He|]. now repeat constructor.
  - apply andb_true_iff in Hw as [Hwa Hwb]. apply IHb; [exact Hwb|exact Hl|]. now apply IHa.
  - apply andb_true_iff in Hw as [Hk Hwb]. destruct (child cur (SKey k)) as [c|].
    + unfold extend. apply Forall_app. split; [exact He|]. apply IH; [exact Hwb| |constructor].
      unfold no_slash. rewrite forallb_app. cbn [forallb no_slash_seg]. fold (no_slash l). now rewrite Hl, Hk.
    + unfold push. apply Forall_app. split; [exact He|]. now repeat constructor.
  - destruct (child cur (SIdx i)) as [c|]; [|exact He].
    unfold extend. apply Forall_app. split; [exact He|]. apply IH; [exact Hw| |constructor].
    unfold no_slash. rewrite forallb_app. cbn [forallb no_slash_seg]. fold (no_slash l). now rewrite Hl.
  - apply andb_true_iff in Hw as [Hwa Hwb].
    destruct (existsb succeeds [run a cur l; run b cur l]) eqn:Hex.
    + rewrite (choice_success _ errs (alt_appenders a b cur l) Hex). exact He.
    + rewrite (choice_failure _ errs (alt_appenders a b cur l) Hex).
      unfold suffixes. cbn [map concat]. rewrite app_nil_r.
      apply Forall_app. split; [exact He|]. apply Forall_app. split.
      * apply IHa; [exact Hwa|exact Hl|constructor].
      * apply IHb; [exact Hwb|exact Hl|constructor].
Qed.

Theorem loc_invariant : forall w doc es,
  validate w doc = RErrValidation es ->
  Forall (fun e : entry => resolves doc (fst e) = true) es.
Proof.
  intros w doc es H. apply finish_err in H as [_ ->].
  apply run_resolves; [reflexivity|constructor].
Qed.

Theorem loc_invariant_string : forall w doc es,
  walk_no_slash w = true ->
  validate w doc = RErrValidation es ->
  Forall (fun e : entry => resolves_string doc (render (fst e)) = true) es.
Proof.
  intros w doc es Hw H. pose proof (loc_invariant w doc es H) as Hr.
  apply finish_err in H as [_ ->].
  pose proof (run_no_slash w doc [] [] Hw eq_refl (Forall_nil _)) as Hn.
  rewrite Forall_forall in *. intros e He. apply resolves_string_render; [now apply Hn|now apply Hr].
Qed.

Theorem loc_invariant_amb : forall w doc es,
  validate w doc = RErrValidation es ->
  Forall (fun e : entry => resolves_amb doc (render (fst e)) = true) es.
Proof.
  intros w doc es H. pose proof (loc_invariant w doc es H) as Hr.
  rewrite Forall_forall in *. intros e He. apply resolves_amb_render. now apply Hr.
Qed.

(* the full-strength string statement fails for a key containing '/' *)
Definition walk_slash_key : walk := WKey key_x_slash_y (WEmit 1).

Lemma loc_invariant_string_refuted :
  exists w doc es, validate w doc = RErrValidation es /\
  exists e, In e es /\ resolves_string doc (render (fst e)) = false.
Proof.
  exists walk_slash_key, doc_slash_key, [([SKey key_x_slash_y], 1)].
  split; [vm_compute; reflexivity|]. eexists. split; [left; reflexivity|vm_compute; reflexivity].
Qed.

(* purity: a call is a function of (schema trace, document) *)
Lemma validate_deterministic : forall w doc r1 r2, validate w doc = r1 -> validate w doc = r2 -> r1 = r2.
Proof. intros w doc r1 r2 <- <-. reflexivity. Qed.

(* ====================================================================== *)
(* error kinds (table translated from the code)                            *)
(* ====================================================================== *)

(* both public entry points keep the three failure classes apart *)
Lemma kinds_distinct_both : kinds_distinct json_kind = true /\ kinds_distinct cbor_kind = true.
Proof. split; vm_compute; reflexivity. Qed.

(* hence no class can be confused with another one by looking at the constructor *)
Lemma kinds_not_confused : forall c, confused_with json_kind c = [] /\ confused_with cbor_kind c = [].
Proof. intros [| |]; split; vm_compute; reflexivity. Qed.

Lemma kinds_are_variants :
  forallb (fun c => existsb (String.eqb (json_kind c)) json_variants) all_classes = true /\
  forallb (fun c => existsb (String.eqb (cbor_kind c)) cbor_variants) all_classes = true.
Proof. split; vm_compute; reflexivity. Qed.
