(* C14 - failure classes of a validation call and what "distinguishable error kinds" means.
   Specification only; the table itself (Generated/ErrorKinds.v) is translated from the code on every run. *)
From Coq Require Import String List Bool NArith Ascii.
Import ListNotations.

(* the three ways a call `validate_*(schema, document)` can fail *)
Inductive fclass := SchemaParse | DocParse | Invalid.

Definition all_classes : list fclass := [SchemaParse; DocParse; Invalid].

Definition fclass_eqb (a b : fclass) : bool :=
  match a, b with
  | SchemaParse, SchemaParse | DocParse, DocParse | Invalid, Invalid => true
  | _, _ => false
  end.

(* a table (failure class -> constructor name) keeps the classes apart when it is injective *)
Definition kinds_distinct (k : fclass -> string) : bool :=
  negb (String.eqb (k SchemaParse) (k DocParse))
  && negb (String.eqb (k SchemaParse) (k Invalid))
  && negb (String.eqb (k DocParse) (k Invalid)).

(* the classes a caller can tell from a given one by looking at the constructor only *)
Definition confused_with (k : fclass -> string) (c : fclass) : list fclass :=
  filter (fun c' => negb (fclass_eqb c c') && String.eqb (k c) (k c')) all_classes.

(* canonical rendering for the oracle: constructor name as character codes *)
Fixpoint codes_of_string (s : string) : list N :=
  match s with
  | EmptyString => []
  | String a r => N_of_ascii a :: codes_of_string r
  end.

Definition class_of_code (n : N) : fclass :=
  if N.eqb n 0 then SchemaParse else if N.eqb n 1 then DocParse else Invalid.
