(* C14 - a small model of the validators' descent through the document (model; no proofs here).

   A [walk] is the trace of what a schema makes the validator do at a node: record an error here, go into the member
   [k] / the element [i] with a child validator (whose location is the current one plus one segment and whose errors
   are appended to the parent's afterwards; the parent's own location is restored: json.rs:2973/3045), try
   alternatives speculatively. It abstracts from *why* an error is recorded (that is C01) and keeps exactly the
   mechanisms C14 is about: where the recorded location comes from and which errors survive. *)
From Coq Require Import List NArith.
From Cddl Require Import Err.Loc Err.Discipline.
Import ListNotations.
Open Scope N_scope.

Inductive walk :=
| WSkip
| WEmit (reason : N)                 (* add_error(reason) at the current location *)
| WSeq (a b : walk)
| WKey (k : str) (body : walk)       (* member k: child validator on its value; absent -> "object missing key" here *)
| WIdx (i : N) (body : walk)         (* element i: child validator on it; past the end -> nothing recorded here *)
| WAlt (a b : walk).                 (* a / b with the checkpoint-truncate discipline *)

Definition entry := (loc * N)%type.

Definition missing_key : N := 0.

Fixpoint run (w : walk) (cur : json) (l : loc) (errs : list entry) : list entry :=
  match w with
  | WSkip => errs
  | WEmit r => push errs (l, r)
  | WSeq a b => run b cur l (run a cur l errs)
  | WKey k body =>
      match child cur (SKey k) with
      | Some c => extend errs (run body c (l ++ [SKey k]) [])
      | None => push errs (l, missing_key)
      end
  | WIdx i body =>
      match child cur (SIdx i) with
      | Some c => extend errs (run body c (l ++ [SIdx i]) [])
      | None => errs
      end
  | WAlt a b => choice [run a cur l; run b cur l] errs
  end.

(* validate(): start at the root with the empty location and no errors *)
Definition validate (w : walk) (doc : json) : result :=
  finish (run w doc [] []).

Fixpoint walk_no_slash (w : walk) : bool :=
  match w with
  | WSkip | WEmit _ => true
  | WSeq a b | WAlt a b => walk_no_slash a && walk_no_slash b
  | WKey k body => no_slash_str k && walk_no_slash body
  | WIdx _ body => walk_no_slash body
  end.
