(* C14 - entry points of the extracted oracle (canonical outputs as character codes). *)
From Coq Require Import List NArith String.
From Cddl Require Import Err.Loc Err.Kinds Generated.ErrorKinds.
Import ListNotations.
Open Scope N_scope.

(* entry point 0 = validate_json_from_str, 1 = validate_cbor_from_slice; class 0/1/2 = schema parse / document parse / invalid *)
Definition kind_table (entry : N) : fclass -> string := if entry =? 0 then json_kind else cbor_kind.

Definition kind_codes (entry cls : N) : list N := codes_of_string (kind_table entry (class_of_code cls)).

Definition distinct_codes (entry : N) : list N := [bit (kinds_distinct (kind_table entry))].
