(* C14 - data locations of validation errors (model; no proofs here).

   The validators keep one string, [state.data_location], and append to it when they descend:
     json.rs:376, :2861     write!(data_location, "/{}", key)            object member (key : &str, Display, nothing escaped)
     json.rs:941            write!(child.data_location, "{}/{}", data_location, cursor)   array element (cursor : usize, Display)
     json.rs:3009           write!(child.data_location, "{}/{}", data_location, key)      candidate member of a repeating entry
   and snapshot it into every error (json.rs:984 add_error: json_location = data_location.clone()).
   Strings are modelled as lists of UTF-8 bytes ([N] below 256); '/' is the byte 47 and never occurs inside a
   multi-byte character, so cutting at 47 is cutting at the character '/'. *)
From Coq Require Import List NArith Bool Decimal DecimalN.
Import ListNotations.
Open Scope N_scope.

Definition str := list N.

Fixpoint str_eqb (a b : str) : bool :=
  match a, b with
  | [], [] => true
  | x :: a', y :: b' => (x =? y) && str_eqb a' b'
  | _, _ => false
  end.

(* the document: serde_json::Value without the payload of numbers (irrelevant to locations) *)
Inductive json :=
| JNull
| JBool (b : bool)
| JNum
| JStr (s : str)
| JArr (l : list json)
| JObj (m : list (str * json)).

Inductive segment :=
| SKey (k : str)     (* object member *)
| SIdx (i : N).      (* array element, 0-based *)

Definition loc := list segment.

(* ---- rendering (what the code writes) ---------------------------------- *)

Definition slash : N := 47.

Fixpoint uint_codes (d : uint) : str :=
  match d with
  | Nil => []
  | D0 u => 48 :: uint_codes u | D1 u => 49 :: uint_codes u | D2 u => 50 :: uint_codes u
  | D3 u => 51 :: uint_codes u | D4 u => 52 :: uint_codes u | D5 u => 53 :: uint_codes u
  | D6 u => 54 :: uint_codes u | D7 u => 55 :: uint_codes u | D8 u => 56 :: uint_codes u
  | D9 u => 57 :: uint_codes u
  end.

(* Display of a usize: canonical decimal *)
Definition dec (n : N) : str := uint_codes (N.to_uint n).

Definition seg_text (s : segment) : str :=
  match s with SKey k => k | SIdx i => dec i end.

Fixpoint render (l : loc) : str :=
  match l with
  | [] => []
  | s :: r => slash :: seg_text s ++ render r
  end.

(* ---- reading a location back ------------------------------------------- *)

(* cut at every '/':  "a/b" -> ["a"; "b"],  "" -> [""],  "a//b" -> ["a"; ""; "b"] *)
Fixpoint split_slash (s : str) : list str :=
  match s with
  | [] => [[]]
  | c :: r =>
      if c =? slash then [] :: split_slash r
      else match split_slash r with
           | p :: ps => (c :: p) :: ps
           | [] => [[c]]
           end
  end.

(* "" is the root; every other location starts with '/' *)
Definition split (s : str) : option (list str) :=
  match s with
  | [] => Some []
  | c :: r => if c =? slash then Some (split_slash r) else None
  end.

Fixpoint codes_uint (s : str) : option uint :=
  match s with
  | [] => Some Nil
  | c :: r =>
      match codes_uint r with
      | None => None
      | Some u =>
          if c =? 48 then Some (D0 u) else if c =? 49 then Some (D1 u) else if c =? 50 then Some (D2 u)
          else if c =? 51 then Some (D3 u) else if c =? 52 then Some (D4 u) else if c =? 53 then Some (D5 u)
          else if c =? 54 then Some (D6 u) else if c =? 55 then Some (D7 u) else if c =? 56 then Some (D8 u)
          else if c =? 57 then Some (D9 u) else None
      end
  end.

(* an array index is a canonical decimal numeral: digits only, not empty, no leading zero except "0" *)
Definition parse_idx (s : str) : option N :=
  match codes_uint s with
  | Some d => if uint_beq (unorm d) d then Some (N.of_uint d) else None
  | None => None
  end.

(* ---- resolution in the document ----------------------------------------- *)

Fixpoint lookup (k : str) (m : list (str * json)) : option json :=
  match m with
  | [] => None
  | (k', v) :: r => if str_eqb k k' then Some v else lookup k r
  end.

Fixpoint nthN {A} (l : list A) (i : N) : option A :=
  match l with
  | [] => None
  | x :: r => if i =? 0 then Some x else nthN r (N.pred i)
  end.

Definition child (d : json) (s : segment) : option json :=
  match s, d with
  | SKey k, JObj m => lookup k m
  | SIdx i, JArr l => nthN l i
  | _, _ => None
  end.

Fixpoint focus (d : json) (l : loc) : option json :=
  match l with
  | [] => Some d
  | s :: r => match child d s with Some c => focus c r | None => None end
  end.

(* the location names a node that exists in the document *)
Definition resolves (d : json) (l : loc) : bool :=
  match focus d l with Some _ => true | None => false end.

(* the same on the pieces of a location string: a piece is a key at an object, an index at an array *)
Definition child_raw (d : json) (p : str) : option json :=
  match d with
  | JObj m => lookup p m
  | JArr l => match parse_idx p with Some i => nthN l i | None => None end
  | _ => None
  end.

Fixpoint focus_raw (d : json) (ps : list str) : option json :=
  match ps with
  | [] => Some d
  | p :: r => match child_raw d p with Some c => focus_raw c r | None => None end
  end.

Definition resolves_string (d : json) (s : str) : bool :=
  match split s with
  | Some ps => match focus_raw d ps with Some _ => true | None => false end
  | None => false
  end.

(* Keys are written unescaped, so a key containing '/' is cut into several pieces. The tolerant reading below
   lets an object key span any number of consecutive pieces (re-joined with '/'); it is what the code's
   locations satisfy for every document (ErrProofs.resolves_amb_render) and it is the classifier of the known
   finding: [resolves_string d s = false /\ resolves_amb d s = true] holds only when a key containing '/'
   lies on the path. *)
Fixpoint amb_pieces (ps : list str) (d : json) {struct ps} : bool :=
  match ps with
  | [] => true
  | p :: rest0 =>
      match d with
      | JArr l =>
          match parse_idx p with
          | Some i => match nthN l i with Some c => amb_pieces rest0 c | None => false end
          | None => false
          end
      | JObj m =>
          (fix join (rest : list str) (acc : str) {struct rest} : bool :=
             if match lookup acc m with Some c => amb_pieces rest c | None => false end then true
             else match rest with
                  | q :: rest' => join rest' (acc ++ slash :: q)
                  | [] => false
                  end) rest0 p
      | _ => false
      end
  end.

Definition resolves_amb (d : json) (s : str) : bool :=
  match split s with
  | Some ps => amb_pieces ps d
  | None => false
  end.

(* a key or index text without '/' *)
Definition no_slash_str (s : str) : bool := forallb (fun c => negb (c =? slash)) s.
Definition no_slash_seg (s : segment) : bool :=
  match s with SKey k => no_slash_str k | SIdx _ => true end.
Definition no_slash (l : loc) : bool := forallb no_slash_seg l.

(* ---- canonical output for the oracle / vm_compute slice ------------------ *)
(* two characters: strict resolution, tolerant resolution *)
Definition bit (b : bool) : N := if b then 49 else 48.
Definition check_render (d : json) (s : str) : list N :=
  [bit (resolves_string d s); bit (resolves_amb d s)].
