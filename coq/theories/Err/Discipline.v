(* C14 - the error-list discipline of the validators and the construction of the result (model; no proofs here).

   Both validators own one vector [errors]; everything they report goes through these operations:
     add_error (json.rs:980, cbor.rs:1276)            errors.push(ValidationError { json_location = data_location.clone(), reason, .. })
     child validator                                  a fresh validator starts with errors = []; afterwards
                                                      self.errors.append(&mut child.errors)      (json.rs:3047)
     speculation over alternatives, two equivalent forms in the code:
       in place (named type choices json.rs:326-333; group choices json.rs:1207-1222):
         let start = self.errors.len();
         for alt in alts { let cur = self.errors.len(); visit(alt);
                           if self.errors.len() == cur { self.errors.truncate(start)  /  pop down to start;  return } }
       on a clone (type choices json.rs:1054-1150): the alternative runs on a copy with errors = []; if the copy recorded
         nothing, the errors accumulated since `start` are popped and the choice returns; otherwise
         self.errors.extend(copy.errors) and the next alternative is tried.
       - an alternative "succeeds" when it recorded nothing; the errors of the failed alternatives before it are dropped;
       - when every alternative fails, all their errors stay, in order.
     validate() (json.rs:973, cbor.rs:1269)           if !errors.is_empty() { Err(Validation(errors.clone())) } else { Ok(()) } *)
From Coq Require Import List Arith.
Import ListNotations.

Section Discipline.
  Context {E : Type}.

  Definition push (errs : list E) (e : E) : list E := errs ++ [e].
  Definition extend (errs more : list E) : list E := errs ++ more.
  Definition checkpoint (errs : list E) : nat := length errs.
  Definition truncate (n : nat) (errs : list E) : list E := firstn n errs.

  (* one alternative = what visiting it does to the error list *)
  Definition visit := list E -> list E.

  Fixpoint choice_loop (start : nat) (alts : list visit) (errs : list E) : list E :=
    match alts with
    | [] => errs
    | f :: rest =>
        let cur := checkpoint errs in
        let errs' := f errs in
        if Nat.eqb (checkpoint errs') cur then truncate start errs'
        else choice_loop start rest errs'
    end.

  Definition choice (alts : list visit) (errs : list E) : list E :=
    choice_loop (checkpoint errs) alts errs.

  (* the visits of the validators only ever append (they never look at or remove what is already there) *)
  Definition appender (f : visit) : Prop := forall errs, f errs = errs ++ f [].

  Definition succeeds (f : visit) : bool :=
    match f [] with [] => true | _ => false end.

  Inductive result :=
  | ROk
  | RErrValidation (l : list E).

  Definition finish (errs : list E) : result :=
    match errs with
    | [] => ROk
    | _ => RErrValidation errs
    end.
End Discipline.
