(* C06 - small self-contained SPECIFICATION parsers for CDDL literals and markers (RFC 8610 Appendix B as implemented by
   cddl.pest's token rules), used as the reading side of the round-trip theorems about Fmt/Render.v.
   Values are what the literal denotes: integers as N/Z, floats as decimal (sign, mantissa, exponent) in normal form,
   text and bytes as byte lists.  No proofs in this file. *)
From Cddl Require Import Base.Bytes Fmt.Render.
Open Scope N_scope.

Definition is_digit (c : N) : bool := (48 <=? c) && (c <=? 57).
Definition is_ws (c : N) : bool := (c =? 32) || (c =? 9) || (c =? 10) || (c =? 13).

Fixpoint dec_val (acc : N) (l : list N) : N :=
  match l with
  | [] => acc
  | c :: r => dec_val (acc * 10 + (c - 48)) r
  end.

(* uint = "0" / DIGIT1 *DIGIT  (the decimal alternative of cddl.pest's uint_value) *)
Definition dec_syntax (l : list N) : bool :=
  match l with
  | [] => false
  | [c] => is_digit c
  | c :: r => (49 <=? c) && (c <=? 57) && forallb is_digit r
  end.

Definition two64 : N := 18446744073709551616.
Definition two63 : N := 9223372036854775808.

(* parse_u64_lit + usize::try_from on a 64-bit target *)
Definition parse_uint (l : list N) : option N :=
  if dec_syntax l then (let v := dec_val 0 l in if v <? two64 then Some v else None) else None.

Fixpoint span_digits (l : list N) : list N * list N :=
  match l with
  | c :: r => if is_digit c then (let (a, b) := span_digits r in (c :: a, b)) else ([], l)
  | [] => ([], [])
  end.

(* decimal normal form: mantissa not divisible by ten (or zero with exponent zero) *)
Fixpoint strip_zeros (fuel : nat) (m : N) (e : Z) : N * Z :=
  match fuel with
  | O => (m, e)
  | S f => if m =? 0 then (0, 0%Z) else if m mod 10 =? 0 then strip_zeros f (m / 10) (e + 1)%Z else (m, e)
  end.

Definition parse_exp (l : list N) : option Z :=
  match l with
  | 43 :: r => if forallb is_digit r && negb (lenN r =? 0) then Some (Z.of_N (dec_val 0 r)) else None
  | 45 :: r => if forallb is_digit r && negb (lenN r =? 0) then Some (- Z.of_N (dec_val 0 r))%Z else None
  | r => if forallb is_digit r && negb (lenN r =? 0) then Some (Z.of_N (dec_val 0 r)) else None
  end.

(* float_value = ["-"] int ( "." 1*DIGIT ["e" exponent] / "e" exponent ); `body` is the text after the optional sign *)
Definition parse_float_body (neg : bool) (body : list N) : option fl :=
  let (ip, r) := span_digits body in
  if negb (dec_syntax ip) then None else
  match r with
  | 46 :: r1 =>
      let (fp, r2) := span_digits r1 in
      if lenN fp =? 0 then None else
      let mk (ex : Z) :=
        let (m, e) := strip_zeros (S (length (ip ++ fp))) (dec_val 0 (ip ++ fp)) (ex - Z.of_N (lenN fp))%Z in
        Some (FFin neg m e) in
      match r2 with
      | [] => mk 0%Z
      | c :: r3 => if (c =? 101) || (c =? 69) then match parse_exp r3 with Some ex => mk ex | None => None end else None
      end
  | c :: r3 =>
      if (c =? 101) || (c =? 69) then
        match parse_exp r3 with
        | Some ex => let (m, e) := strip_zeros (S (length ip)) (dec_val 0 ip) ex in Some (FFin neg m e)
        | None => None
        end
      else None
  | [] => None
  end.

Definition has_float_mark (l : list N) : bool := existsb (fun c => (c =? 46) || (c =? 101) || (c =? 69)) l.

(* number = float / int / uint (decimal spellings) *)
Definition parse_neg_number (body : list N) : option lit :=
  if has_float_mark body then option_map LFloat (parse_float_body true body)
  else if dec_syntax body then (let v := dec_val 0 body in if v <=? two63 then Some (LInt (- Z.of_N v)) else None) else None.

Definition parse_pos_number (body : list N) : option lit :=
  if has_float_mark body then option_map LFloat (parse_float_body false body)
  else option_map LUint (parse_uint body).

Definition parse_number (l : list N) : option lit :=
  match l with
  | c :: body => if c =? 45 then parse_neg_number body else parse_pos_number l
  | [] => None
  end.

(* ---------------------------------------------------------------------- text *)
Definition hexval (c : N) : option N :=
  if is_digit c then Some (c - 48)
  else if (97 <=? c) && (c <=? 102) then Some (c - 87)
  else if (65 <=? c) && (c <=? 70) then Some (c - 55)
  else None.

Definition hex4 (a b c d : N) : option N :=
  match hexval a, hexval b, hexval c, hexval d with
  | Some x, Some y, Some z, Some w => Some (((x * 16 + y) * 16 + z) * 16 + w)
  | _, _, _, _ => None
  end.

Fixpoint hex_run (acc : N) (n : nat) (l : list N) : option (N * list N) :=
  match l with
  | 125 :: r => match n with O => None | _ => Some (acc, r) end           (* "}" *)
  | c :: r => match hexval c with Some v => hex_run (acc * 16 + v) (S n) r | None => None end
  | [] => None
  end.

(* UTF-8 encoding of a Unicode scalar value *)
Definition utf8_enc (cp : N) : option (list N) :=
  if cp <? 128 then Some [cp]
  else if cp <? 2048 then Some [192 + cp / 64; 128 + cp mod 64]
  else if cp <? 65536 then
    (if (55296 <=? cp) && (cp <=? 57343) then None
     else Some [224 + cp / 4096; 128 + (cp / 64) mod 64; 128 + cp mod 64])
  else if cp <? 1114112 then Some [240 + cp / 262144; 128 + (cp / 4096) mod 64; 128 + (cp / 64) mod 64; 128 + cp mod 64]
  else None.

Definition simple_escape (c : N) : option N :=
  if c =? 34 then Some 34 else if c =? 92 then Some 92 else if c =? 47 then Some 47
  else if c =? 98 then Some 8 else if c =? 102 then Some 12 else if c =? 110 then Some 10
  else if c =? 114 then Some 13 else if c =? 116 then Some 9 else None.

(* one escape sequence (the text after the backslash): decoded bytes and the unread rest *)
Definition escape (l : list N) : option (list N * list N) :=
  match l with
  | 117 :: 123 :: r =>                                                               (* \u{H+} *)
      match hex_run 0 O r with
      | Some (cp, r') => option_map (fun e => (e, r')) (utf8_enc cp)
      | None => None
      end
  | 117 :: a :: b :: c :: d :: r =>
      match hex4 a b c d with
      | None => None
      | Some hi =>
          if (55296 <=? hi) && (hi <=? 56319) then
            match r with
            | 92 :: 117 :: a' :: b' :: c' :: d' :: r' =>
                match hex4 a' b' c' d' with
                | Some lo =>
                    if (56320 <=? lo) && (lo <=? 57343)
                    then option_map (fun e => (e, r')) (utf8_enc (65536 + (hi - 55296) * 1024 + (lo - 56320)))
                    else None
                | None => None
                end
            | _ => None
            end
          else option_map (fun e => (e, r)) (utf8_enc hi)
      end
  | c :: r => option_map (fun v => ([v], r)) (simple_escape c)
  | [] => None
  end.

(* body of a text literal up to and including the closing quote, which must be the last character *)
Fixpoint text_body (fuel : nat) (l : list N) : option (list N) :=
  match fuel with
  | O => None
  | S f =>
      match l with
      | [] => None
      | c :: r =>
          if c =? 34 then (match r with [] => Some [] | _ => None end)
          else if c =? 92 then
            match escape r with
            | Some (e, r') => match text_body f r' with Some t => Some (e ++ t) | None => None end
            | None => None
            end
          else match text_body f r with Some t => Some (c :: t) | None => None end
      end
  end.

Definition parse_text (l : list N) : option (list N) :=
  match l with
  | 34 :: r => text_body (S (length r)) r
  | _ => None
  end.

(* ---------------------------------------------------------------------- byte strings *)
(* '...' : no escapes in cddl.pest's bytes_utf8; the closing quote must be the last character *)
Fixpoint quoted_body (l : list N) : option (list N) :=
  match l with
  | [] => None
  | c :: r =>
      if c =? 39 then (match r with [] => Some [] | _ => None end)
      else match quoted_body r with Some t => Some (c :: t) | None => None end
  end.

(* h'...' : pairs of hex digits, blanks ignored (HEXLOWER_PERMISSIVE after clean_prefixed_byte_string) *)
Fixpoint hex_body (pending : option N) (l : list N) : option (list N) :=
  match l with
  | [] => None
  | c :: r =>
      if c =? 39 then (match r, pending with [], None => Some [] | _, _ => None end)
      else if is_ws c then hex_body pending r else
      match hexval c with
      | None => None
      | Some v =>
          match pending with
          | None => hex_body (Some v) r
          | Some h => match hex_body None r with Some t => Some (h * 16 + v :: t) | None => None end
          end
      end
  end.

(* base64url (and the classic alphabet), no padding, trailing bits must be zero *)
Definition b64_val (c : N) : option N :=
  if (65 <=? c) && (c <=? 90) then Some (c - 65)
  else if (97 <=? c) && (c <=? 122) then Some (c - 71)
  else if is_digit c then Some (c + 4)
  else if (c =? 45) || (c =? 43) then Some 62
  else if (c =? 95) || (c =? 47) then Some 63
  else None.

Definition is_nil {A} (l : list A) : bool := match l with [] => true | _ => false end.

Fixpoint b64_body (l : list N) : option (list N) :=
  match l with
  | [] => None
  | c1 :: r1 =>
      if c1 =? 39 then (if is_nil r1 then Some [] else None) else
      match r1 with
      | [] => None
      | c2 :: r2 =>
          match r2 with
          | [] => None
          | c3 :: r3 =>
              if c3 =? 39 then
                (if is_nil r3 then
                   match b64_val c1, b64_val c2 with
                   | Some s1, Some s2 => if s2 mod 16 =? 0 then Some [s1 * 4 + s2 / 16] else None
                   | _, _ => None
                   end
                 else None)
              else
              match r3 with
              | [] => None
              | c4 :: r4 =>
                  if c4 =? 39 then
                    (if is_nil r4 then
                       match b64_val c1, b64_val c2, b64_val c3 with
                       | Some s1, Some s2, Some s3 =>
                           if s3 mod 4 =? 0 then Some [s1 * 4 + s2 / 16; (s2 mod 16) * 16 + s3 / 4] else None
                       | _, _, _ => None
                       end
                     else None)
                  else
                  match b64_val c1, b64_val c2, b64_val c3, b64_val c4, b64_body r4 with
                  | Some s1, Some s2, Some s3, Some s4, Some t =>
                      Some (s1 * 4 + s2 / 16 :: (s2 mod 16) * 16 + s3 / 4 :: (s3 mod 4) * 64 + s4 :: t)
                  | _, _, _, _, _ => None
                  end
              end
          end
      end
  end.

Definition parse_lit (l : list N) : option lit :=
  match l with
  | 34 :: _ => option_map LText (parse_text l)
  | 39 :: r => option_map (LBytes BU) (quoted_body r)
  | 104 :: 39 :: r => option_map (LBytes BH) (hex_body None r)
  | 98 :: 54 :: 52 :: 39 :: r => option_map (LBytes BB) (b64_body r)
  | _ => parse_number l
  end.

(* ---------------------------------------------------------------------- occurrence *)
Fixpoint split_star (l : list N) : option (list N * list N) :=
  match l with
  | [] => None
  | c :: r => if c =? 42 then Some ([], r) else match split_star r with Some (a, b) => Some (c :: a, b) | None => None end
  end.

Definition opt_uint (l : list N) : option (option N) :=
  match l with
  | [] => Some None
  | _ => match parse_uint l with Some n => Some (Some n) | None => None end
  end.

(* cddl.pest: "?" / "+" / "*" alone are the three named forms; everything else with a star is a range *)
Fixpoint list_eqb (a b : list N) : bool :=
  match a, b with
  | [], [] => true
  | x :: a', y :: b' => (x =? y) && list_eqb a' b'
  | _, _ => false
  end.

Definition parse_occur (l : list N) : option occur :=
  if list_eqb l [63] then Some OOpt
  else if list_eqb l [43] then Some OPlus
  else if list_eqb l [42] then Some OStar
  else
      match split_star l with
      | Some (a, b) =>
          match opt_uint a, opt_uint b with
          | Some lo, Some hi => Some (OExact lo hi)
          | _, _ => None
          end
      | None => None
      end.

(* ---------------------------------------------------------------------- tag heads *)
Definition parse_dot_uint (l : list N) : option (option N) :=
  match l with
  | [] => Some None
  | 46 :: r => match parse_uint r with Some n => Some (Some n) | None => None end
  | _ => None
  end.

(* "#" [ DIGIT [ "." uint ] ] ; major type 6 is the tag form *)
Definition parse_tag_head (l : list N) : option taghead :=
  match l with
  | [35] => Some TAny
  | 35 :: d :: r =>
      if is_digit d then
        match parse_dot_uint r with
        | Some c => if d =? 54 then Some (TTagged c) else Some (TMajor (d - 48) c)
        | None => None
        end
      else None
  | _ => None
  end.

(* ---------------------------------------------------------------------- control operators *)
(* token::lookup_control_from_str: exact name lookup *)
Definition lookup_ctl (name : list N) : option ctl := find (fun c => list_eqb (ctl_name c) name) all_ctl.
Definition parse_ctl (l : list N) : option ctl := match l with 46 :: name => lookup_ctl name | _ => None end.

(* cddl.pest's control_name (since 8d55c20): an atomic ORDERED choice of string literals - the first alternative that is a
   prefix is taken, longer names are listed before their prefixes - followed by a negative lookahead for an identifier
   continuation  !(("-" | ".")* (EALPHA | DIGIT)) : a registered name is not accepted as a mere prefix *)
Definition peg_order : list ctl :=
  [CSize; CBits; CRegexp; CPcre; CIregexp; CCborseq; CCbor; CWithin; CAnd; CLt; CLe; CGt; CGe; CEq; CNe; CDefault; CCat; CDet;
   CPlus; CAbnfb; CAbnf; CFeature; CB64uSloppy; CB64cSloppy; CB64u; CB64c; CHexuc; CHexlc; CHex; CBase10; CPrintf; CJson; CJoin;
   CB32; CH32; CB45; CBitfield].

Fixpoint strip_prefix (p l : list N) : option (list N) :=
  match p, l with
  | [], _ => Some l
  | x :: p', y :: l' => if x =? y then strip_prefix p' l' else None
  | _, [] => None
  end.

Fixpoint peg_ctl_in (cs : list ctl) (l : list N) : option (ctl * list N) :=
  match cs with
  | [] => None
  | c :: r => match strip_prefix (ctl_name c) l with Some rest => Some (c, rest) | None => peg_ctl_in r l end
  end.

(* EALPHA | DIGIT *)
Definition is_id_char (c : N) : bool :=
  ((65 <=? c) && (c <=? 90)) || ((97 <=? c) && (c <=? 122)) || (c =? 64) || (c =? 95) || (c =? 36) || is_digit c.

(* ("-" | ".")* (EALPHA | DIGIT) at the front of l *)
Fixpoint id_continues (l : list N) : bool :=
  match l with
  | [] => false
  | c :: r => if (c =? 45) || (c =? 46) then id_continues r else is_id_char c
  end.

(* control_op = "." control_name, result: operator and the unread rest *)
Definition peg_ctl (l : list N) : option (ctl * list N) :=
  match l with
  | 46 :: r =>
      match peg_ctl_in peg_order r with
      | Some (c, rest) => if id_continues rest then None else Some (c, rest)
      | None => None
      end
  | _ => None
  end.

(* ---------------------------------------------------------------------- identifiers and markers *)
Definition parse_ident (l : list N) : option (socket * list N) :=
  match l with
  | 36 :: 36 :: id => match id with [] => None | _ => Some (SGroup, id) end
  | 36 :: id => match id with [] => None | _ => Some (SType, id) end
  | [] => None
  | id => Some (SNone, id)
  end.

Inductive mark := MName | MUnwrap | MGname.

Definition render_marked (m : mark) (s : socket) (id : list N) : list N :=
  match m with
  | MName => render_ident s id
  | MUnwrap => render_unwrap s id
  | MGname => render_gname s id
  end.

Definition parse_marked (l : list N) : option (mark * socket * list N) :=
  match l with
  | c :: r =>
      if c =? 126 then option_map (fun p => (MUnwrap, fst p, snd p)) (parse_ident r)
      else if c =? 38 then option_map (fun p => (MGname, fst p, snd p)) (parse_ident r)
      else option_map (fun p => (MName, fst p, snd p)) (parse_ident l)
  | [] => None
  end.

(* the part of an arrow member key after the key: blanks, optional "^", blanks, "=>" *)
Fixpoint skip_ws (l : list N) : list N :=
  match l with
  | c :: r => if is_ws c then skip_ws r else l
  | [] => []
  end.

Definition parse_cut (l : list N) : option bool :=
  match skip_ws l with
  | 94 :: r => match skip_ws r with [61; 62] => Some true | _ => None end
  | [61; 62] => Some false
  | _ => None
  end.

Definition parse_rangeop (l : list N) : option bool :=
  match l with
  | [46; 46; 46] => Some false
  | [46; 46] => Some true
  | _ => None
  end.
