(* C06 - faithful models of the LITERAL and MARKER renderers of anweiss/cddl's AST pretty-printer, as REPAIRED in /repo
   (commits f413e66 float fraction, 030ea7c text re-escaping, 5fdde4e unwrap marker, 39ac196 tag without type,
   36b2064 operator spacing).  (no proofs in this file; proofs are in Fmt/RenderProofs.v)

   What is modelled, function by function:
     Type2::{UintValue,IntValue}::fmt, token::Value::{UINT,INT}   write!(f, {}, n)               -> render_uint / render_int
     token::fmt_float (Type2::FloatValue, Value::FLOAT, RangeValue::FLOAT)                       -> render_float
     token::fmt_text  (Type2::TextValue, Value::TEXT): quotes and backslashes re-escaped         -> render_text
     Type2::UTF8ByteString::fmt, ByteValue::UTF8                  the bytes between apostrophes  -> render_bytes BU
     ByteValue::B16  h' HEXLOWER '    ByteValue::B64  b64' BASE64URL_NOPAD '                     -> render_bytes BH / BB
     ast::Occur::fmt (ast/mod.rs)                                                                -> render_occur
     TagConstraint::fmt, Type2::{TaggedData,DataMajorType,Any}::fmt                              -> render_tag_head, render_tagged
     ControlOperator::fmt (token.rs)                                                             -> render_ctl
     Identifier::fmt, SocketPlug::fmt                                                            -> render_ident
     Type2::Unwrap::fmt ('~'), Type2::ChoiceFromGroup::fmt ('&'), MemberKey::Type1 cut           -> render_unwrap / render_gname / render_cut
     RangeCtlOp::RangeOp::fmt, Type1::fmt (blanks around operators)                              -> render_rangeop, render_type1

   Floats. Rust's Display for f64 prints the shortest decimal digit string that reads back to the same binary64, WITHOUT an
   exponent; fmt_float appends ".0" when the value is integral.  The digit generation (Grisu/Dragon) is taken as given: a
   finite float enters the model as sign, decimal mantissa m (not divisible by 10, or 0 with exponent 0) and decimal exponent
   e, value = (-1)^s * m * 10^e.  What is modelled exactly is the layout: digits, zero padding, a '.' inside the digits when
   e < 0 and the suffix ".0" otherwise. The correspondence run takes the digits from the crate's own `{:e}` rendering of
   the value and compares this model with the real output for a catalogue of binary64 values. *)
From Cddl Require Import Base.Bytes.
Open Scope N_scope.

(* ---------------------------------------------------------------------- decimal *)
Fixpoint dec_fuel (fuel : nat) (n : N) (acc : list N) : list N :=
  match fuel with
  | O => acc
  | S f => if n <? 10 then (48 + n) :: acc else dec_fuel f (n / 10) ((48 + n mod 10) :: acc)
  end.
(* fuel: the number of binary digits of n bounds the number of its decimal digits *)
Definition render_uint (n : N) : list N := dec_fuel (S (N.to_nat (N.size n))) n [].

Definition render_int (z : Z) : list N :=
  match z with
  | Zneg p => 45 :: render_uint (Npos p)
  | Z0 => [48]
  | Zpos p => render_uint (Npos p)
  end.

(* ---------------------------------------------------------------------- floats *)
Inductive fl := FFin (neg : bool) (m : N) (e : Z) | FInf (neg : bool) | FNaN.

Definition zeros (k : N) : list N := N.iter k (cons 48) [].
Definition sign (neg : bool) : list N := if neg then [45] else [].

Definition render_float (x : fl) : list N :=
  match x with
  | FNaN => [78; 97; 78]                                  (* "NaN" *)
  | FInf neg => sign neg ++ [105; 110; 102]                (* "inf" *)
  | FFin neg m e =>
      let ds := render_uint m in
      match e with
      | Zneg p =>
          let k := Npos p in
          let len := lenN ds in
          if k <? len
          then let j := N.to_nat (len - k) in sign neg ++ firstn j ds ++ [46] ++ skipn j ds
          else sign neg ++ [48; 46] ++ zeros (k - len) ++ ds
      | _ => sign neg ++ ds ++ zeros (Z.to_N e) ++ [46; 48]       (* integral: fmt_float appends ".0" *)
      end
  end.

(* ---------------------------------------------------------------------- text and byte strings *)
(* fmt_text: the double quote (34) and the backslash (92) are written with a backslash in front, everything else as it is *)
Definition escape_text (utf8 : list N) : list N :=
  flat_map (fun c => if (c =? 34) || (c =? 92) then [92; c] else [c]) utf8.
Definition render_text (utf8 : list N) : list N := [34] ++ escape_text utf8 ++ [34].

Inductive bkind := BU | BH | BB.   (* '..'   h'..'   b64'..' *)

(* base64url alphabet (RFC 4648 section 5), no padding *)
Definition b64url_char (s : N) : N :=
  if s <? 26 then 65 + s else if s <? 52 then 71 + s else if s <? 62 then s - 4 else if s =? 62 then 45 else 95.

Fixpoint b64_enc (bs : list N) : list N :=
  match bs with
  | [] => []
  | [a] => [b64url_char (a / 4); b64url_char ((a mod 4) * 16)]
  | [a; b] => [b64url_char (a / 4); b64url_char ((a mod 4) * 16 + b / 16); b64url_char ((b mod 16) * 4)]
  | a :: b :: c :: r =>
      b64url_char (a / 4) :: b64url_char ((a mod 4) * 16 + b / 16) :: b64url_char ((b mod 16) * 4 + c / 64)
      :: b64url_char (c mod 64) :: b64_enc r
  end.

Definition render_bytes (k : bkind) (bs : list N) : list N :=
  match k with
  | BU => [39] ++ bs ++ [39]
  | BH => [104; 39] ++ hexbytes bs ++ [39]
  | BB => [98; 54; 52; 39] ++ b64_enc bs ++ [39]
  end.

(* ---------------------------------------------------------------------- literals as one type *)
Inductive lit :=
| LUint (n : N)
| LInt (z : Z)
| LFloat (x : fl)
| LText (utf8 : list N)
| LBytes (k : bkind) (bs : list N).

Definition render_lit (v : lit) : list N :=
  match v with
  | LUint n => render_uint n
  | LInt z => render_int z
  | LFloat x => render_float x
  | LText s => render_text s
  | LBytes k bs => render_bytes k bs
  end.

(* ---------------------------------------------------------------------- occurrence indicators *)
Inductive occur := OOpt | OStar | OPlus | OExact (lo hi : option N).

Definition render_occur (o : occur) : list N :=
  match o with
  | OOpt => [63]
  | OStar => [42]
  | OPlus => [43]
  | OExact (Some l) (Some u) => render_uint l ++ [42] ++ render_uint u
  | OExact (Some l) None => render_uint l ++ [42]
  | OExact None (Some u) => [42] ++ render_uint u
  | OExact None None => [42]
  end.

(* ---------------------------------------------------------------------- tags *)
(* head of a tag expression, i.e. everything before an optional "(type)":
   TTagged c   : Type2::TaggedData     "#6" [ "." n ]           (followed by "(" type ")")
   TMajor m c  : Type2::DataMajorType  "#" m [ "." n ]
   TAny        : Type2::Any            "#"                                             *)
Inductive taghead := TTagged (c : option N) | TMajor (mt : N) (c : option N) | TAny.

Definition render_tag_head (t : taghead) : list N :=
  match t with
  | TTagged None => [35; 54]
  | TTagged (Some n) => [35; 54; 46] ++ render_uint n
  | TMajor m None => 35 :: render_uint m
  | TMajor m (Some n) => 35 :: render_uint m ++ [46] ++ render_uint n
  | TAny => [35]
  end.

(* Type2::TaggedData::fmt: the head, then "(" type ")" only when there is a content type (`#6`, `#6.n` have none) *)
Definition render_tagged (c : option N) (content : option (list N)) : list N :=
  render_tag_head (TTagged c) ++ match content with Some t => [40] ++ t ++ [41] | None => [] end.

(* ---------------------------------------------------------------------- control operators *)
Inductive ctl :=
| CSize | CBits | CRegexp | CPcre | CIregexp | CBitfield | CCbor | CCborseq | CWithin | CCat | CDet | CPlus | CAbnf | CAbnfb
| CFeature | CB64u | CB64c | CB64uSloppy | CB64cSloppy | CHex | CHexlc | CHexuc | CB32 | CH32 | CB45 | CBase10 | CPrintf
| CJson | CJoin | CAnd | CLt | CLe | CGt | CGe | CEq | CNe | CDefault.

Definition all_ctl : list ctl :=
  [CSize; CBits; CRegexp; CPcre; CIregexp; CBitfield; CCbor; CCborseq; CWithin; CCat; CDet; CPlus; CAbnf; CAbnfb;
   CFeature; CB64u; CB64c; CB64uSloppy; CB64cSloppy; CHex; CHexlc; CHexuc; CB32; CH32; CB45; CBase10; CPrintf;
   CJson; CJoin; CAnd; CLt; CLe; CGt; CGe; CEq; CNe; CDefault].

(* names without the dot, as character codes *)
Definition ctl_name (c : ctl) : list N :=
  match c with
  | CSize => [115;105;122;101] | CBits => [98;105;116;115] | CRegexp => [114;101;103;101;120;112]
  | CPcre => [112;99;114;101] | CIregexp => [105;114;101;103;101;120;112] | CBitfield => [98;105;116;102;105;101;108;100]
  | CCbor => [99;98;111;114] | CCborseq => [99;98;111;114;115;101;113] | CWithin => [119;105;116;104;105;110]
  | CCat => [99;97;116] | CDet => [100;101;116] | CPlus => [112;108;117;115] | CAbnf => [97;98;110;102]
  | CAbnfb => [97;98;110;102;98] | CFeature => [102;101;97;116;117;114;101] | CB64u => [98;54;52;117]
  | CB64c => [98;54;52;99] | CB64uSloppy => [98;54;52;117;45;115;108;111;112;112;121]
  | CB64cSloppy => [98;54;52;99;45;115;108;111;112;112;121] | CHex => [104;101;120] | CHexlc => [104;101;120;108;99]
  | CHexuc => [104;101;120;117;99] | CB32 => [98;51;50] | CH32 => [104;51;50] | CB45 => [98;52;53]
  | CBase10 => [98;97;115;101;49;48] | CPrintf => [112;114;105;110;116;102] | CJson => [106;115;111;110]
  | CJoin => [106;111;105;110] | CAnd => [97;110;100] | CLt => [108;116] | CLe => [108;101] | CGt => [103;116]
  | CGe => [103;101] | CEq => [101;113] | CNe => [110;101] | CDefault => [100;101;102;97;117;108;116]
  end.

Definition render_ctl (c : ctl) : list N := 46 :: ctl_name c.

(* ---------------------------------------------------------------------- identifiers and markers *)
Inductive socket := SNone | SType | SGroup.
Definition render_socket (s : socket) : list N := match s with SNone => [] | SType => [36] | SGroup => [36; 36] end.
Definition render_ident (s : socket) (id : list N) : list N := render_socket s ++ id.

Definition render_unwrap (s : socket) (id : list N) : list N := 126 :: render_ident s id.       (* "~" name *)
Definition render_gname (s : socket) (id : list N) : list N := 38 :: render_ident s id.          (* "&" name *)
(* MemberKey::Type1::fmt: key ++ " " ++ ("^ " when cut) ++ "=>" ; here the part after the key *)
Definition render_cut (cut : bool) : list N := (if cut then [32; 94; 32] else [32]) ++ [61; 62].
Definition render_rangeop (inclusive : bool) : list N := if inclusive then [46; 46] else [46; 46; 46].

(* Type1::fmt: a blank before the operator when the left operand ends in an identifier (type name, ~name, &name), and a
   blank after it in that case and after every control operator *)
Definition render_type1 (name_like : bool) (left : list N) (op : list N) (is_ctl : bool) (right : list N) : list N :=
  left ++ (if name_like then [32] else []) ++ op ++ (if name_like || is_ctl then [32] else []) ++ right.
