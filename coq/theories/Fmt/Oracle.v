(* C06 / C16 - canonical one-line answers of the models for the extracted oracle (and for the vm_compute slice).
   No proofs. Every answer is a list of character codes so that coqc and the extracted program print the same. *)
From Cddl Require Import Base.Bytes Fmt.Render Fmt.LitParse Comments.Merge Comments.Lex.
Open Scope N_scope.

Definition fl_eqb (a b : fl) : bool :=
  match a, b with
  | FFin n1 m1 e1, FFin n2 m2 e2 => Bool.eqb n1 n2 && (m1 =? m2) && (e1 =? e2)%Z
  | FInf n1, FInf n2 => Bool.eqb n1 n2
  | FNaN, FNaN => true
  | _, _ => false
  end.

Definition bkind_eqb (a b : bkind) : bool :=
  match a, b with BU, BU | BH, BH | BB, BB => true | _, _ => false end.

Definition lit_eqb (a b : lit) : bool :=
  match a, b with
  | LUint x, LUint y => x =? y
  | LInt x, LInt y => (x =? y)%Z
  | LFloat x, LFloat y => fl_eqb x y
  | LText x, LText y => list_eqb x y
  | LBytes k x, LBytes j y => bkind_eqb k j && list_eqb x y
  | _, _ => false
  end.

Definition flag (b : bool) : list N := if b then [49] else [48].

(* rendering TAB (does the model literal round-trip through the specification parser?) *)
Definition lit_line (v : lit) : list N :=
  render_lit v ++ [9] ++ flag (match parse_lit (render_lit v) with Some w => lit_eqb v w | None => false end).

Definition opt_eqb (a b : option N) : bool :=
  match a, b with Some x, Some y => x =? y | None, None => true | _, _ => false end.

Definition occur_eqb (a b : occur) : bool :=
  match a, b with
  | OOpt, OOpt | OStar, OStar | OPlus, OPlus => true
  | OExact l1 u1, OExact l2 u2 => opt_eqb l1 l2 && opt_eqb u1 u2
  | _, _ => false
  end.

Definition occur_line (o : occur) : list N :=
  render_occur o ++ [9] ++ flag (match parse_occur (render_occur o) with Some p => occur_eqb o p | None => false end).

Definition taghead_eqb (a b : taghead) : bool :=
  match a, b with
  | TTagged c1, TTagged c2 => opt_eqb c1 c2
  | TMajor m1 c1, TMajor m2 c2 => (m1 =? m2) && opt_eqb c1 c2
  | TAny, TAny => true
  | _, _ => false
  end.

Definition tag_line (t : taghead) : list N :=
  render_tag_head t ++ [9] ++ flag (match parse_tag_head (render_tag_head t) with Some p => taghead_eqb t p | None => false end).

(* control operator looked up by its name (without the dot); "?" when the name is unknown *)
Definition ctl_line (name : list N) : list N :=
  match lookup_ctl name with
  | Some c => render_ctl c ++ [9] ++ flag (match peg_ctl (render_ctl c ++ [32]) with
                                           | Some (c', rest) => list_eqb (ctl_name c) (ctl_name c') && list_eqb rest [32]
                                           | None => false end)
  | None => [63]
  end.

Definition socket_of (n : N) : socket := if n =? 1 then SType else if n =? 2 then SGroup else SNone.
Definition mark_of (n : N) : mark := if n =? 1 then MUnwrap else if n =? 2 then MGname else MName.
Definition mark_eqb (a b : mark) : bool := match a, b with MName, MName | MUnwrap, MUnwrap | MGname, MGname => true | _, _ => false end.
Definition socket_eqb (a b : socket) : bool := match a, b with SNone, SNone | SType, SType | SGroup, SGroup => true | _, _ => false end.

Definition marked_line (m s : N) (id : list N) : list N :=
  let mk := mark_of m in let so := socket_of s in
  render_marked mk so id ++ [9] ++
  flag (match parse_marked (render_marked mk so id) with
        | Some (m', s', id') => mark_eqb mk m' && socket_eqb so s' && list_eqb id id'
        | None => false end).

Definition cut_line (b : bool) : list N := render_cut b.

(* Type1 `x <op> y` (name_like) resp. `1 <op> y`; op is the printed operator; control operators start with a dot followed by a letter *)
Definition type1_line (name_like : bool) (op : list N) : list N :=
  let is_ctl := match op with 46 :: c :: _ => negb (c =? 46) | _ => false end in
  render_type1 name_like (if name_like then [120] else [49]) op is_ctl [121].
Definition rangeop_line (b : bool) : list N := render_rangeop b.
