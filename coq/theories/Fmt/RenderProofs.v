(* C06 - proofs about the literal renderers (Fmt/Render.v) against the specification parsers (Fmt/LitParse.v). *)
From Cddl Require Import Base.Bytes Fmt.Render Fmt.LitParse.
From Coq Require Import ZifyBool ZifyNat ZifyN.
Open Scope N_scope.
Ltac Zify.zify_post_hook ::= Z.div_mod_to_equations.
Arguments N.add : simpl never.
Arguments N.mul : simpl never.
Arguments N.div : simpl never.
Arguments N.modulo : simpl never.
Arguments N.pow : simpl never.
Arguments N.ltb : simpl never.
Arguments N.leb : simpl never.
Arguments N.eqb : simpl never.
Arguments N.sub : simpl never.

(* ------------------------------------------------------------------ decimal digits *)
Lemma dec_val_app : forall l a c, dec_val a (l ++ [c]) = dec_val a l * 10 + (c - 48).
Proof. induction l as [|x l IH]; intros a c; cbn [app dec_val]; [reflexivity|apply IH]. Qed.

Lemma dec_val_app2 : forall l1 l2 a, dec_val a (l1 ++ l2) = dec_val (dec_val a l1) l2.
Proof. induction l1 as [|x l IH]; intros l2 a; cbn [app dec_val]; [reflexivity|apply IH]. Qed.

Definition digits_ok (n : N) (ds : list N) : Prop :=
  forallb is_digit ds = true /\ ds <> [] /\ dec_val 0 ds = n /\ (0 < n -> hd 0 ds <> 48) /\ (n = 0 -> ds = [48]).

Lemma dec_fuel_S : forall f n acc,
  dec_fuel (S f) n acc = if n <? 10 then (48 + n) :: acc else dec_fuel f (n / 10) ((48 + n mod 10) :: acc).
Proof. reflexivity. Qed.

Lemma dec_fuel_ex : forall f n acc, n < 2 ^ N.of_nat f ->
  exists ds, dec_fuel (S f) n acc = ds ++ acc /\ digits_ok n ds.
Proof.
  induction f as [|f IH]; intros n acc Hn.
  - assert (n = 0) by (cbn in Hn; lia). subst. exists [48]. split; [reflexivity|].
    unfold digits_ok. repeat split; try reflexivity; try discriminate; try (intros; lia).
  - rewrite dec_fuel_S. destruct (n <? 10) eqn:E.
    + exists [48 + n]. split; [reflexivity|]. unfold digits_ok. cbn [forallb hd dec_val]. unfold is_digit.
      repeat split; try lia; try discriminate. intros ->. reflexivity.
    + assert (Hd : n / 10 < 2 ^ N.of_nat f).
      { rewrite Nnat.Nat2N.inj_succ, N.pow_succ_r' in Hn. lia. }
      destruct (IH (n / 10) ((48 + n mod 10) :: acc) Hd) as [ds [E1 [A [B [C [D F]]]]]].
      exists (ds ++ [48 + n mod 10]). split.
      * rewrite E1, <- app_assoc. reflexivity.
      * unfold digits_ok. repeat split.
        -- rewrite forallb_app, A. cbn. unfold is_digit. lia.
        -- destruct ds; discriminate.
        -- rewrite dec_val_app, C. lia.
        -- intros _. destruct ds as [|x ds]; [congruence|]. cbn [app hd]. apply D. lia.
        -- intros ->. discriminate.
Qed.

Lemma render_uint_digits : forall n, digits_ok n (render_uint n).
Proof.
  intros n. unfold render_uint.
  destruct (dec_fuel_ex (N.to_nat (N.size n)) n []) as [ds [E H]].
  - rewrite Nnat.N2Nat.id. apply N.size_gt.
  - rewrite E, app_nil_r. exact H.
Qed.

Lemma dec_syntax_of : forall n ds, digits_ok n ds -> dec_syntax ds = true.
Proof.
  intros n ds [A [B [C [D F]]]]. destruct ds as [|c r]; [congruence|].
  cbn [forallb] in A. apply andb_prop in A as [A1 A2].
  destruct r as [|c2 r]; [exact A1|].
  unfold dec_syntax. rewrite A2.
  assert (0 < n).
  { destruct (N.eq_dec n 0) as [->|]; [|lia]. specialize (F eq_refl). discriminate. }
  specialize (D H). cbn [hd] in D. unfold is_digit in A1. lia.
Qed.

Lemma parse_uint_render : forall n, n < two64 -> parse_uint (render_uint n) = Some n.
Proof.
  intros n Hn. pose proof (render_uint_digits n) as H. unfold parse_uint.
  rewrite (dec_syntax_of _ _ H). destruct H as [_ [_ [C _]]]. rewrite C.
  cbv zeta. destruct (n <? two64) eqn:E; [reflexivity|lia].
Qed.

Lemma digits_no_mark : forall l, forallb is_digit l = true -> has_float_mark l = false.
Proof.
  induction l as [|c l IH]; intros H; [reflexivity|].
  cbn [forallb] in H. apply andb_prop in H as [H1 H2]. cbn [has_float_mark existsb].
  unfold has_float_mark in IH. rewrite (IH H2). unfold is_digit in H1. lia.
Qed.

Lemma digit_cases : forall c, is_digit c = true ->
  c = 48 \/ c = 49 \/ c = 50 \/ c = 51 \/ c = 52 \/ c = 53 \/ c = 54 \/ c = 55 \/ c = 56 \/ c = 57.
Proof. intros c H. unfold is_digit in H. lia. Qed.

Lemma parse_lit_digit : forall c r, is_digit c = true -> parse_lit (c :: r) = parse_pos_number (c :: r).
Proof.
  intros c r H. apply digit_cases in H.
  repeat (destruct H as [->|H]; [reflexivity|]). subst. reflexivity.
Qed.

Lemma digits_hd : forall n ds, digits_ok n ds -> exists c r, ds = c :: r /\ is_digit c = true.
Proof.
  intros n ds [A [B _]]. destruct ds as [|c r]; [congruence|]. exists c, r. split; [reflexivity|].
  cbn [forallb] in A. apply andb_prop in A as [A _]. exact A.
Qed.

Theorem render_uint_rt : forall n, n < two64 -> parse_lit (render_lit (LUint n)) = Some (LUint n).
Proof.
  intros n Hn. cbn [render_lit]. pose proof (render_uint_digits n) as H.
  destruct (digits_hd _ _ H) as [c [r [E Hc]]]. rewrite E, (parse_lit_digit _ _ Hc), <- E.
  unfold parse_pos_number. destruct H as [A _]. rewrite (digits_no_mark _ A), (parse_uint_render _ Hn). reflexivity.
Qed.

(* FULL STATEMENT (false of the code): forall z, -2^63 <= z < 2^63 -> parse_lit (render_lit (LInt z)) = Some (LInt z).
   An IntValue that is not negative prints without a sign and is read back as an unsigned literal
   (`-0` is stored as IntValue 0 and printed `0`). *)
Theorem render_int_rt_partial : forall z, (- Z.of_N two63 <= z < 0)%Z -> parse_lit (render_lit (LInt z)) = Some (LInt z).
Proof.
  intros z Hz. destruct z as [|p|p]; try lia. cbn [render_lit render_int].
  change (parse_lit (45 :: render_uint (N.pos p))) with (parse_neg_number (render_uint (N.pos p))).
  pose proof (render_uint_digits (N.pos p)) as H. unfold parse_neg_number.
  destruct H as [A [B [C D]]]. rewrite (digits_no_mark _ A).
  rewrite (dec_syntax_of (N.pos p) _ (conj A (conj B (conj C D)))). rewrite C. cbv zeta.
  destruct (N.pos p <=? two63) eqn:E; [reflexivity|]. unfold two63 in *. lia.
Qed.

Theorem render_int_rt_refuted : exists z, (- Z.of_N two63 <= z < Z.of_N two63)%Z /\ parse_lit (render_lit (LInt z)) <> Some (LInt z).
Proof. exists 0%Z. split; [unfold two63; lia|]. vm_compute. discriminate. Qed.

(* ------------------------------------------------------------------ text *)
Lemma text_body_escaped : forall s f, (length (escape_text s) < f)%nat ->
  text_body f (escape_text s ++ [34]) = Some s.
Proof.
  induction s as [|c s IH]; intros f Hf.
  - destruct f; [cbn in Hf; lia|]. reflexivity.
  - unfold escape_text in *. cbn [flat_map] in *. fold (escape_text s) in *.
    destruct (c =? 34) eqn:E1.
    + apply N.eqb_eq in E1. subst c. cbn [orb app] in *. cbn [length] in Hf.
      destruct f; [lia|]. cbn [text_body]. change (92 =? 34) with false. change (92 =? 92) with true. cbv iota.
      change (escape (34 :: escape_text s ++ [34])) with (Some ([34], escape_text s ++ [34])). cbv iota beta.
      rewrite (IH f) by lia. reflexivity.
    + destruct (c =? 92) eqn:E2.
      * apply N.eqb_eq in E2. subst c. cbn [orb app] in *. cbn [length] in Hf.
        destruct f; [lia|]. cbn [text_body]. change (92 =? 34) with false. change (92 =? 92) with true. cbv iota.
        change (escape (92 :: escape_text s ++ [34])) with (Some ([92], escape_text s ++ [34])). cbv iota beta.
        rewrite (IH f) by lia. reflexivity.
      * cbn [orb app] in *. cbn [length] in Hf. destruct f; [lia|]. cbn [text_body]. rewrite E1, E2.
        rewrite (IH f) by lia. reflexivity.
Qed.

(* every stored text value (any byte string) is read back unchanged: quotes and backslashes are re-escaped *)
Theorem render_text_rt : forall s, parse_lit (render_lit (LText s)) = Some (LText s).
Proof.
  intros s. cbn [render_lit render_text app]. cbn [parse_lit parse_text].
  rewrite (text_body_escaped s); [reflexivity|]. rewrite app_length. cbn. lia.
Qed.

(* ------------------------------------------------------------------ '...' byte strings *)
Definition no_squote (s : list N) : bool := forallb (fun c => negb (c =? 39)) s.

Lemma quoted_body_plain : forall s, no_squote s = true -> quoted_body (s ++ [39]) = Some s.
Proof.
  induction s as [|c s IH]; intros H; [reflexivity|].
  cbn [no_squote forallb] in H. apply andb_prop in H as [H1 H2]. cbn [app quoted_body].
  destruct (c =? 39) eqn:E; [cbn in H1; discriminate|]. rewrite (IH H2). reflexivity.
Qed.

(* FULL STATEMENT (false of the code): forall bs, parse_lit (render_lit (LBytes BU bs)) = Some (LBytes BU bs).
   A value containing an apostrophe (source form h"it's") prints as 'it's'. *)
Theorem render_bytes_utf8_rt_partial : forall bs, no_squote bs = true ->
  parse_lit (render_lit (LBytes BU bs)) = Some (LBytes BU bs).
Proof.
  intros bs H. cbn [render_lit render_bytes app]. cbn [parse_lit]. rewrite (quoted_body_plain _ H). reflexivity.
Qed.

Theorem render_bytes_utf8_rt_refuted : exists bs, parse_lit (render_lit (LBytes BU bs)) <> Some (LBytes BU bs).
Proof. exists [105; 116; 39; 115]. vm_compute. discriminate. Qed.

(* ------------------------------------------------------------------ h'...' *)
Lemma small_cases16 : forall d, d < 16 ->
  In d [0;1;2;3;4;5;6;7;8;9;10;11;12;13;14;15].
Proof. intros d H. cbn [In]. lia. Qed.

Lemma hexdigit_ok : forall d, d < 16 ->
  hexval (hexdigit d) = Some d /\ is_ws (hexdigit d) = false /\ (hexdigit d =? 39) = false.
Proof.
  intros d H. apply small_cases16 in H. cbn [In] in H.
  repeat (destruct H as [<-|H]; [vm_compute; auto|]). contradiction.
Qed.

Lemma hex_body_render : forall bs, wf_bytes bs -> hex_body None (hexbytes bs ++ [39]) = Some bs.
Proof.
  induction bs as [|b bs IH]; intros H; [reflexivity|].
  inversion H as [|? ? Hb Hr]; subst. unfold hexbytes. cbn [flat_map]. unfold hexbyte at 1. cbn [app].
  destruct (hexdigit_ok (b / 16)) as [A1 [A2 A3]]; [lia|].
  destruct (hexdigit_ok (b mod 16)) as [B1 [B2 B3]]; [lia|].
  cbn [hex_body]. rewrite A3, A2, A1. cbn [hex_body]. rewrite B3, B2, B1.
  fold (hexbytes bs). rewrite (IH Hr). f_equal. f_equal. lia.
Qed.

Theorem render_bytes_hex_rt : forall bs, wf_bytes bs -> parse_lit (render_lit (LBytes BH bs)) = Some (LBytes BH bs).
Proof.
  intros bs H. cbn [render_lit render_bytes app]. cbn [parse_lit]. rewrite (hex_body_render _ H). reflexivity.
Qed.

(* ------------------------------------------------------------------ b64'...' *)
Fixpoint upto (n : nat) : list N := match n with O => [] | S k => upto k ++ [N.of_nat k] end.

Lemma upto_in : forall n d, d < N.of_nat n -> In d (upto n).
Proof.
  induction n as [|n IH]; intros d H; [lia|]. cbn [upto]. apply in_or_app.
  destruct (N.eq_dec d (N.of_nat n)) as [->|Hne]; [right; left; reflexivity|left; apply IH; lia].
Qed.

Definition b64_char_ok (s : N) : bool :=
  match b64_val (b64url_char s) with Some v => (v =? s) && negb (b64url_char s =? 39) | None => false end.

Lemma b64_char_all : forallb b64_char_ok (upto 64) = true.
Proof. vm_compute. reflexivity. Qed.

Lemma b64url_char_ok : forall s, s < 64 -> b64_val (b64url_char s) = Some s /\ (b64url_char s =? 39) = false.
Proof.
  intros s H. pose proof b64_char_all as A. rewrite forallb_forall in A.
  specialize (A s (upto_in 64 s H)). unfold b64_char_ok in A.
  destruct (b64_val (b64url_char s)) as [v|]; [|discriminate].
  apply andb_prop in A as [A1 A2]. split; [f_equal; lia|]. destruct (b64url_char s =? 39); [discriminate|reflexivity].
Qed.

Lemma b64_body_render : forall n bs, (length bs <= n)%nat -> wf_bytes bs -> b64_body (b64_enc bs ++ [39]) = Some bs.
Proof.
  induction n as [|n IH]; intros bs Hl H.
  - destruct bs; [reflexivity|cbn in Hl; lia].
  - destruct bs as [|a [|b [|c r]]].
    + reflexivity.
    + inversion H as [|? ? Ha _]; subst. cbn [b64_enc app].
      destruct (b64url_char_ok (a / 4)) as [A1 A2]; [lia|].
      destruct (b64url_char_ok (a mod 4 * 16)) as [B1 B2]; [lia|].
      cbn [b64_body]. rewrite A2. cbn [is_nil]. rewrite N.eqb_refl. cbn [is_nil]. rewrite A1, B1.
      replace (a mod 4 * 16 mod 16 =? 0) with true by lia. f_equal. f_equal. lia.
    + inversion H as [|? ? Ha H2]; subst. inversion H2 as [|? ? Hb _]; subst. cbn [b64_enc app].
      destruct (b64url_char_ok (a / 4)) as [A1 A2]; [lia|].
      destruct (b64url_char_ok (a mod 4 * 16 + b / 16)) as [B1 B2]; [lia|].
      destruct (b64url_char_ok (b mod 16 * 4)) as [C1 C2]; [lia|].
      cbn [b64_body]. rewrite A2, C2. rewrite N.eqb_refl. cbn [is_nil]. rewrite A1, B1, C1.
      replace (b mod 16 * 4 mod 4 =? 0) with true by lia. f_equal. f_equal; [lia|]. f_equal. lia.
    + inversion H as [|? ? Ha H2]; subst. inversion H2 as [|? ? Hb H3]; subst. inversion H3 as [|? ? Hc Hr]; subst.
      cbn [b64_enc app].
      destruct (b64url_char_ok (a / 4)) as [A1 A2]; [lia|].
      destruct (b64url_char_ok (a mod 4 * 16 + b / 16)) as [B1 B2]; [lia|].
      destruct (b64url_char_ok (b mod 16 * 4 + c / 64)) as [C1 C2]; [lia|].
      destruct (b64url_char_ok (c mod 64)) as [D1 D2]; [lia|].
      cbn [b64_body]. rewrite A2, C2, D2, A1, B1, C1, D1.
      rewrite (IH r); [|cbn [length] in Hl; lia|exact Hr].
      f_equal. f_equal; [lia|]. f_equal; [lia|]. f_equal. lia.
Qed.

Theorem render_bytes_b64_rt : forall bs, wf_bytes bs -> parse_lit (render_lit (LBytes BB bs)) = Some (LBytes BB bs).
Proof.
  intros bs H. cbn [render_lit render_bytes app]. cbn [parse_lit].
  rewrite (b64_body_render (length bs) bs (le_n _) H). reflexivity.
Qed.

(* ------------------------------------------------------------------ floats *)
Lemma span_digits_app : forall a r, forallb is_digit a = true ->
  match r with [] => True | c :: _ => is_digit c = false end -> span_digits (a ++ r) = (a, r).
Proof.
  induction a as [|c a IH]; intros r H Hr.
  - cbn [app]. destruct r as [|c r]; [reflexivity|]. cbn [span_digits]. rewrite Hr. reflexivity.
  - cbn [forallb] in H. apply andb_prop in H as [H1 H2]. cbn [app span_digits]. rewrite H1, (IH r H2 Hr). reflexivity.
Qed.

Lemma zeros_succ : forall n, zeros (N.succ n) = 48 :: zeros n.
Proof. intros n. unfold zeros. rewrite N.iter_succ. reflexivity. Qed.

Lemma zeros_props : forall n, forallb is_digit (zeros n) = true /\ lenN (zeros n) = n /\ forall l, dec_val 0 (zeros n ++ l) = dec_val 0 l.
Proof.
  induction n as [|n [A [B C]]] using N.peano_ind.
  - repeat split.
  - rewrite zeros_succ. repeat split.
    + cbn [forallb]. rewrite A. reflexivity.
    + unfold lenN in *. cbn [length]. lia.
    + intros l. cbn [app dec_val]. change (0 * 10 + (48 - 48)) with 0. apply C.
Qed.

Lemma has_mark_dot : forall a b, has_float_mark (a ++ 46 :: b) = true.
Proof. intros a b. unfold has_float_mark. rewrite existsb_app. cbn [existsb]. rewrite orb_true_r. reflexivity. Qed.

Lemma dec_syntax_nz : forall l, forallb is_digit l = true -> l <> [] -> hd 0 l <> 48 -> dec_syntax l = true.
Proof.
  intros l A B C. destruct l as [|c r]; [congruence|]. cbn [forallb] in A. apply andb_prop in A as [A1 A2].
  destruct r as [|c2 r]; [exact A1|]. unfold dec_syntax. rewrite A2. cbn [hd] in C. unfold is_digit in A1. lia.
Qed.

Lemma strip_zeros_canon : forall f m e, m mod 10 <> 0 -> strip_zeros (S f) m e = (m, e).
Proof.
  intros f m e H. cbn [strip_zeros]. destruct (m =? 0) eqn:E1; [apply N.eqb_eq in E1; subst; exfalso; apply H; reflexivity|].
  destruct (m mod 10 =? 0) eqn:E2; [lia|reflexivity].
Qed.

Lemma parse_float_body_render : forall neg m p, m mod 10 <> 0 ->
  let ds := render_uint m in
  let k := N.pos p in
  let body := if k <? lenN ds
              then firstn (N.to_nat (lenN ds - k)) ds ++ [46] ++ skipn (N.to_nat (lenN ds - k)) ds
              else [48; 46] ++ zeros (k - lenN ds) ++ ds in
  parse_float_body neg body = Some (FFin neg m (Z.neg p)) /\ has_float_mark body = true /\
  exists c r, body = c :: r /\ is_digit c = true.
Proof.
  intros neg m p Hm ds k body. pose proof (render_uint_digits m) as [A [B [C [D F]]]]. fold ds in A, B, C, D, F.
  assert (Hpos : 0 < m) by (destruct (N.eq_dec m 0) as [->|]; [exfalso; apply Hm; reflexivity|lia]).
  specialize (D Hpos). unfold body. destruct (k <? lenN ds) eqn:Ek.
  - set (j := N.to_nat (lenN ds - k)).
    assert (Hj : (0 < j < length ds)%nat) by (unfold j, lenN in *; lia).
    pose proof (firstn_skipn j ds) as Hsplit.
    assert (A' : forallb is_digit (firstn j ds) = true /\ forallb is_digit (skipn j ds) = true).
    { rewrite <- Hsplit, forallb_app in A. apply andb_prop in A. exact A. }
    destruct A' as [A1 A2].
    assert (Hip : dec_syntax (firstn j ds) = true).
    { apply dec_syntax_nz; [exact A1| |].
      - destruct ds as [|c r]; [congruence|]. destruct j; [lia|]. discriminate.
      - destruct ds as [|c r]; [congruence|]. destruct j; [lia|]. exact D. }
    assert (Hlen : lenN (skipn j ds) = k).
    { unfold lenN. rewrite skipn_length. unfold j, lenN in *. lia. }
    split; [|split].
    + unfold parse_float_body. rewrite (span_digits_app (firstn j ds) ([46] ++ skipn j ds) A1 eq_refl).
      rewrite Hip. cbn [negb app].
      replace (skipn j ds) with (skipn j ds ++ []) at 1 by apply app_nil_r.
      rewrite (span_digits_app (skipn j ds) [] A2 I). rewrite Hlen.
      rewrite Hsplit, C. rewrite strip_zeros_canon by exact Hm.
      replace (k =? 0) with false by reflexivity. reflexivity.
    + apply has_mark_dot.
    + destruct ds as [|c r]; [congruence|]. destruct j as [|j']; [lia|]. cbn [firstn app]. exists c. eexists. split; [reflexivity|].
      cbn [forallb] in A. apply andb_prop in A as [A _]. exact A.
  - destruct (zeros_props (k - lenN ds)) as [Z1 [Z2 Z3]].
    assert (A2 : forallb is_digit (zeros (k - lenN ds) ++ ds) = true) by (rewrite forallb_app, Z1, A; reflexivity).
    assert (Hlen : lenN (zeros (k - lenN ds) ++ ds) = k).
    { unfold lenN in *. rewrite app_length. lia. }
    split; [|split].
    + unfold parse_float_body.
      change ([48; 46] ++ zeros (k - lenN ds) ++ ds) with ([48] ++ 46 :: zeros (k - lenN ds) ++ ds).
      rewrite (span_digits_app [48] (46 :: zeros (k - lenN ds) ++ ds) eq_refl eq_refl).
      change (dec_syntax [48]) with true. cbn [negb].
      replace (zeros (k - lenN ds) ++ ds) with ((zeros (k - lenN ds) ++ ds) ++ []) at 1 by apply app_nil_r.
      rewrite (span_digits_app _ [] A2 I). rewrite Hlen.
      cbn [app dec_val]. change (0 * 10 + (48 - 48)) with 0.
      rewrite Z3, C. rewrite strip_zeros_canon by exact Hm.
      replace (k =? 0) with false by reflexivity. reflexivity.
    + exact (has_mark_dot [48] (zeros (k - lenN ds) ++ ds)).
    + exists 48. eexists. split; reflexivity.
Qed.

Lemma dec_val_zeros : forall n a, dec_val a (zeros n) = a * 10 ^ n.
Proof.
  induction n as [|n IH] using N.peano_ind; intros a.
  - cbn. lia.
  - rewrite zeros_succ. cbn [dec_val]. rewrite IH, N.pow_succ_r'. lia.
Qed.

Lemma strip_zeros_pow : forall k f m e, m mod 10 <> 0 -> (k < f)%nat ->
  strip_zeros f (m * 10 ^ N.of_nat k) e = (m, (e + Z.of_nat k)%Z).
Proof.
  induction k as [|k IH]; intros f m e Hm Hf.
  - destruct f; [lia|]. change (10 ^ N.of_nat 0) with 1. rewrite N.mul_1_r, strip_zeros_canon by exact Hm.
    f_equal. lia.
  - destruct f; [lia|]. rewrite Nnat.Nat2N.inj_succ, N.pow_succ_r'.
    assert (Hpos : 0 < m) by (destruct (N.eq_dec m 0) as [->|]; [exfalso; apply Hm; reflexivity|lia]).
    assert (Hp : 0 < 10 ^ N.of_nat k) by (apply N.neq_0_lt_0, N.pow_nonzero; lia).
    cbn [strip_zeros].
    replace (m * (10 * 10 ^ N.of_nat k)) with (m * 10 ^ N.of_nat k * 10) by lia.
    destruct (m * 10 ^ N.of_nat k * 10 =? 0) eqn:E1; [nia|].
    rewrite N.mod_mul by lia. change (0 =? 0) with true. cbv iota.
    rewrite N.div_mul by lia. rewrite IH by (try exact Hm; lia). f_equal. lia.
Qed.

Definition fl_canon (m : N) (e : Z) : Prop := m mod 10 <> 0 \/ (m = 0 /\ e = 0%Z).

Lemma parse_float_body_integral : forall neg m e, (0 <= e)%Z -> fl_canon m e ->
  let body := render_uint m ++ zeros (Z.to_N e) ++ [46; 48] in
  parse_float_body neg body = Some (FFin neg m e) /\ has_float_mark body = true /\
  exists c r, body = c :: r /\ is_digit c = true.
Proof.
  intros neg m e He Hc body. pose proof (render_uint_digits m) as [A [B [C [D F]]]].
  set (ds := render_uint m) in *. set (n := Z.to_N e) in *.
  destruct (zeros_props n) as [Z1 [Z2 Z3]].
  assert (Aip : forallb is_digit (ds ++ zeros n) = true) by (rewrite forallb_app, A, Z1; reflexivity).
  assert (Hip : dec_syntax (ds ++ zeros n) = true).
  { destruct Hc as [Hm|[Hm0 He0]].
    - assert (Hpos : 0 < m) by (destruct (N.eq_dec m 0) as [->|]; [exfalso; apply Hm; reflexivity|lia]).
      apply dec_syntax_nz; [exact Aip| |].
      + destruct ds; [congruence|discriminate].
      + destruct ds as [|c r]; [congruence|]. cbn [app hd]. exact (D Hpos).
    - subst m. rewrite (F eq_refl). unfold n. rewrite He0. reflexivity. }
  assert (Ebody : body = (ds ++ zeros n) ++ 46 :: [48]) by (unfold body; rewrite <- app_assoc; reflexivity).
  split; [|split].
  - rewrite Ebody. unfold parse_float_body.
    rewrite (span_digits_app (ds ++ zeros n) (46 :: [48]) Aip eq_refl). rewrite Hip. cbn [negb].
    change (span_digits [48]) with ([48], @nil N). cbv iota beta. change (lenN [48] =? 0) with false. cbv iota.
    rewrite <- app_assoc, dec_val_app2, dec_val_app2, C, dec_val_zeros. cbn [dec_val].
    destruct Hc as [Hm|[Hm0 He0]].
    + replace (m * 10 ^ n * 10 + (48 - 48)) with (m * 10 ^ N.of_nat (S (N.to_nat n))).
      2:{ rewrite Nnat.Nat2N.inj_succ, Nnat.N2Nat.id, N.pow_succ_r'. lia. }
      rewrite strip_zeros_pow; [|exact Hm|].
      * f_equal. f_equal. unfold n. change (lenN [48]) with 1. lia.
      * rewrite !app_length. unfold lenN in Z2. cbn [length]. lia.
    + subst m. replace (0 * 10 ^ n * 10 + (48 - 48)) with 0 by lia.
      cbn [strip_zeros]. change (0 =? 0) with true. cbv iota. rewrite He0. reflexivity.
  - rewrite Ebody. apply has_mark_dot.
  - destruct ds as [|c r] eqn:Eds; [congruence|]. exists c. eexists. split; [unfold body; reflexivity|].
    cbn [forallb] in A. apply andb_prop in A as [A1 _]. exact A1.
Qed.

(* every finite float value (decimal normal form) is read back as the same float: integral values keep a ".0".
   Not covered: infinities and NaN have no CDDL spelling; since 4743917 the parser rejects literals that overflow,
   so an accepted document cannot contain them. *)
Theorem render_float_rt : forall neg m e, fl_canon m e ->
  parse_lit (render_lit (LFloat (FFin neg m e))) = Some (LFloat (FFin neg m e)).
Proof.
  intros neg m e Hc. destruct (Z_lt_ge_dec e 0) as [He|He].
  - destruct Hc as [Hm|[_ He0]]; [|lia].
    destruct e as [|p|p]; try lia. cbn [render_lit render_float].
    destruct (parse_float_body_render neg m p Hm) as [P [M [c [r [E Hd]]]]]. cbv zeta in P, M, E.
    set (body := if N.pos p <? lenN (render_uint m)
                 then firstn (N.to_nat (lenN (render_uint m) - N.pos p)) (render_uint m) ++ [46]
                      ++ skipn (N.to_nat (lenN (render_uint m) - N.pos p)) (render_uint m)
                 else [48; 46] ++ zeros (N.pos p - lenN (render_uint m)) ++ render_uint m) in *.
    assert (G : (if N.pos p <? lenN (render_uint m)
        then sign neg ++ firstn (N.to_nat (lenN (render_uint m) - N.pos p)) (render_uint m) ++ [46]
             ++ skipn (N.to_nat (lenN (render_uint m) - N.pos p)) (render_uint m)
        else sign neg ++ [48; 46] ++ zeros (N.pos p - lenN (render_uint m)) ++ render_uint m) = sign neg ++ body).
    { unfold body. destruct (N.pos p <? lenN (render_uint m)); reflexivity. }
    rewrite G. destruct neg; cbn [sign app].
    + change (parse_lit (45 :: body)) with (parse_neg_number body). unfold parse_neg_number. rewrite M, P. reflexivity.
    + rewrite E, (parse_lit_digit _ _ Hd), <- E. unfold parse_pos_number. rewrite M, P. reflexivity.
  - assert (He' : (0 <= e)%Z) by lia.
    destruct (parse_float_body_integral neg m e He' Hc) as [P [M [c [r [E Hd]]]]]. cbv zeta in P, M, E.
    assert (G : render_lit (LFloat (FFin neg m e)) = sign neg ++ render_uint m ++ zeros (Z.to_N e) ++ [46; 48]).
    { cbn [render_lit render_float]. destruct e as [|p|p]; try lia; reflexivity. }
    rewrite G. destruct neg; cbn [sign app].
    + change (parse_lit (45 :: render_uint m ++ zeros (Z.to_N e) ++ [46; 48]))
        with (parse_neg_number (render_uint m ++ zeros (Z.to_N e) ++ [46; 48])).
      unfold parse_neg_number. rewrite M, P. reflexivity.
    + rewrite E, (parse_lit_digit _ _ Hd), <- E. unfold parse_pos_number. rewrite M, P. reflexivity.
Qed.

(* ------------------------------------------------------------------ occurrence indicators *)
Lemma split_star_app : forall a b, forallb is_digit a = true -> split_star (a ++ 42 :: b) = Some (a, b).
Proof.
  induction a as [|c a IH]; intros b H; [reflexivity|].
  cbn [forallb] in H. apply andb_prop in H as [H1 H2]. cbn [app split_star].
  destruct (c =? 42) eqn:E; [unfold is_digit in H1; lia|]. rewrite (IH b H2). reflexivity.
Qed.

Lemma opt_uint_render : forall n, n < two64 -> opt_uint (render_uint n) = Some (Some n).
Proof.
  intros n H. pose proof (render_uint_digits n) as D. destruct (digits_hd _ _ D) as [c [r [E _]]].
  unfold opt_uint. rewrite (parse_uint_render n H). rewrite E. reflexivity.
Qed.

Lemma list_eqb_digit_single : forall c r x, is_digit c = true -> (x =? 63) || (x =? 43) || (x =? 42) = true ->
  list_eqb (c :: r) [x] = false.
Proof. intros c r x H Hx. cbn [list_eqb]. unfold is_digit in H. destruct (c =? x) eqn:E; [lia|reflexivity]. Qed.

Lemma parse_occur_digits : forall a b, forallb is_digit a = true -> a <> [] ->
  parse_occur (a ++ 42 :: b) =
  match opt_uint a, opt_uint b with Some lo, Some hi => Some (OExact lo hi) | _, _ => None end.
Proof.
  intros a b A Hn. destruct a as [|c r]; [congruence|].
  assert (Hc : is_digit c = true) by (cbn [forallb] in A; apply andb_prop in A as [A1 _]; exact A1).
  unfold parse_occur. cbn [app]. rewrite !(list_eqb_digit_single c _ _ Hc) by reflexivity.
  change (c :: r ++ 42 :: b) with ((c :: r) ++ 42 :: b). rewrite (split_star_app _ _ A). reflexivity.
Qed.

Definition occur_bounded (o : occur) : Prop :=
  match o with
  | OExact lo hi => (match lo with Some l => l < two64 | None => True end) /\ (match hi with Some u => u < two64 | None => True end)
  | _ => True
  end.

(* FULL STATEMENT (false of the model type, true of what the parser produces): forall o, parse_occur (render_occur o) = Some o.
   Occur::Exact{lower: None, upper: None} prints "*" which is read as ZeroOrMore; pest_bridge never builds that value. *)
Theorem render_occur_rt_partial : forall o, occur_bounded o -> o <> OExact None None ->
  parse_occur (render_occur o) = Some o.
Proof.
  intros o Hb Hne. destruct o as [| | |[l|] [u|]]; try reflexivity; cbn [occur_bounded] in Hb; destruct Hb as [Hl Hu].
  - cbn [render_occur]. destruct (render_uint_digits l) as [A [B _]].
    change (render_uint l ++ [42] ++ render_uint u) with (render_uint l ++ 42 :: render_uint u).
    rewrite (parse_occur_digits _ _ A B), (opt_uint_render l Hl), (opt_uint_render u Hu). reflexivity.
  - cbn [render_occur]. destruct (render_uint_digits l) as [A [B _]].
    change (render_uint l ++ [42]) with (render_uint l ++ 42 :: []).
    rewrite (parse_occur_digits _ _ A B), (opt_uint_render l Hl). reflexivity.
  - cbn [render_occur app]. pose proof (render_uint_digits u) as Du. destruct (digits_hd _ _ Du) as [c [r [E Hc]]].
    unfold parse_occur. cbn [list_eqb]. change (42 =? 63) with false. change (42 =? 43) with false. change (42 =? 42) with true.
    cbn [andb]. replace (list_eqb (render_uint u) []) with false by (rewrite E; reflexivity).
    cbn [split_star]. change (42 =? 42) with true. cbv iota.
    rewrite (opt_uint_render u Hu). reflexivity.
  - congruence.
Qed.

Theorem render_occur_rt_refuted : parse_occur (render_occur (OExact None None)) = Some OStar.
Proof. vm_compute. reflexivity. Qed.

(* ------------------------------------------------------------------ tag heads *)
Lemma render_uint_small : forall m, m < 10 -> render_uint m = [48 + m].
Proof.
  intros m H. assert (C : In m [0;1;2;3;4;5;6;7;8;9]) by (cbn [In]; lia). cbn [In] in C.
  repeat (destruct C as [<-|C]; [vm_compute; reflexivity|]). contradiction.
Qed.

Definition dot_part (c : option N) : list N := match c with Some n => 46 :: render_uint n | None => [] end.

Lemma parse_dot_uint_render : forall c, (match c with Some n => n < two64 | None => True end) ->
  parse_dot_uint (dot_part c) = Some c.
Proof.
  intros [n|] H; [|reflexivity]. cbn [dot_part parse_dot_uint]. rewrite (parse_uint_render n H). reflexivity.
Qed.

Definition taghead_ok (t : taghead) : Prop :=
  match t with
  | TTagged c => match c with Some n => n < two64 | None => True end
  | TMajor m c => m < 10 /\ m <> 6 /\ match c with Some n => n < two64 | None => True end
  | TAny => True
  end.

(* FULL STATEMENT restricted to what the grammar can produce (major type one DIGIT; major type 6 is the tag form) *)
Theorem render_tag_head_rt : forall t, taghead_ok t -> parse_tag_head (render_tag_head t) = Some t.
Proof.
  intros [c|m c|] H; cbn [taghead_ok] in H.
  - assert (E : render_tag_head (TTagged c) = 35 :: 54 :: dot_part c) by (destruct c; reflexivity).
    rewrite E. cbn [parse_tag_head]. change (is_digit 54) with true. cbv iota.
    rewrite (parse_dot_uint_render c H). reflexivity.
  - destruct H as [Hm [H6 Hc]].
    assert (E : render_tag_head (TMajor m c) = 35 :: (48 + m) :: dot_part c).
    { destruct c; cbn [render_tag_head dot_part]; rewrite (render_uint_small m Hm); reflexivity. }
    rewrite E. cbn [parse_tag_head]. replace (is_digit (48 + m)) with true by (unfold is_digit; lia).
    rewrite (parse_dot_uint_render c Hc). replace (48 + m =? 54) with false by lia. f_equal. f_equal. lia.
  - reflexivity.
Qed.

(* `#6` and `#6.n` without content type print as their head only (no empty parentheses) *)
Theorem render_tagged_no_type_rt : forall c, (match c with Some n => n < two64 | None => True end) ->
  parse_tag_head (render_tagged c None) = Some (TTagged c).
Proof. intros c H. unfold render_tagged. rewrite app_nil_r. apply (render_tag_head_rt (TTagged c)). exact H. Qed.

Theorem render_tag_head_major6_refuted : parse_tag_head (render_tag_head (TMajor 6 None)) = Some (TTagged None).
Proof. vm_compute. reflexivity. Qed.

(* ------------------------------------------------------------------ control operators *)
Definition ctl_eqb (a b : ctl) : bool := list_eqb (ctl_name a) (ctl_name b).

Lemma all_ctl_complete : forall c, In c all_ctl.
Proof. intros c. destruct c; cbn; tauto. Qed.

(* ControlOperator::fmt followed by lookup_control_from_str is the identity on all 37 operators *)
Theorem render_ctl_rt : forall c, parse_ctl (render_ctl c) = Some c.
Proof. intros c. destruct c; vm_compute; reflexivity. Qed.

(* at the grammar level (cddl.pest's control_name: ordered choice + token boundary) the printed name followed by a blank
   is read back as the same operator, for all 37 operators and whatever follows the blank *)
Theorem render_ctl_peg_rt : forall c rest, peg_ctl (render_ctl c ++ 32 :: rest) = Some (c, 32 :: rest).
Proof. intros c rest. destruct c; reflexivity. Qed.

(* the token boundary: a name glued to an identifier character is not an operator (`.sizefoo`, `.abnfbstr`) *)
Example peg_ctl_needs_boundary : peg_ctl (render_ctl CAbnf ++ [98; 115; 116; 114]) = None
                                 /\ peg_ctl (render_ctl CCborseq ++ [32]) = Some (CCborseq, [32]).
Proof. vm_compute. split; reflexivity. Qed.

(* Type1::fmt writes a blank after every control operator, so whatever the controller starts with, the operator is read
   back as itself (`"x" .abnf bstr` prints `"x".abnf bstr`) *)
Theorem render_type1_ctl : forall name_like left c right,
  exists pre, render_type1 name_like left (render_ctl c) true right = pre ++ render_ctl c ++ 32 :: right /\
              peg_ctl (render_ctl c ++ 32 :: right) = Some (c, 32 :: right).
Proof.
  intros nl left c right. exists (left ++ if nl then [32] else []). split.
  - unfold render_type1. rewrite orb_true_r, <- !app_assoc. reflexivity.
  - apply render_ctl_peg_rt.
Qed.

(* ------------------------------------------------------------------ identifiers, sockets, markers *)
Definition ident_ok (id : list N) : Prop := match id with [] => False | c :: _ => c <> 36 end.

Theorem render_ident_rt : forall s id, ident_ok id -> parse_ident (render_ident s id) = Some (s, id).
Proof.
  intros s id H. destruct id as [|c r]; [contradiction|]. cbn [ident_ok] in H.
  destruct s; cbn [render_ident render_socket app].
  - unfold parse_ident. destruct (N.eq_dec c 36) as [->|Hne]; [congruence|].
    destruct c as [|p]; [reflexivity|].
    repeat (destruct p as [p|p|]; try reflexivity); congruence.
  - cbn [parse_ident]. destruct (N.eq_dec c 36) as [->|Hne]; [congruence|].
    destruct c as [|p]; [reflexivity|].
    repeat (destruct p as [p|p|]; try reflexivity); congruence.
  - reflexivity.
Qed.

(* plain names, ~name and &name are read back with their marker and socket *)
Theorem render_marked_rt : forall m s id, ident_ok id -> hd 0 id <> 126 -> hd 0 id <> 38 ->
  parse_marked (render_marked m s id) = Some (m, s, id).
Proof.
  intros m s id H H1 H2. destruct m.
  - cbn [render_marked]. pose proof (render_ident_rt s id H) as R.
    destruct id as [|c r]; [contradiction|]. cbn [hd] in H1, H2.
    destruct s; cbn [render_ident render_socket app] in *.
    + unfold parse_marked. replace (c =? 126) with false by lia. replace (c =? 38) with false by lia.
      rewrite R. reflexivity.
    + unfold parse_marked. change (36 =? 126) with false. change (36 =? 38) with false. cbv iota. rewrite R. reflexivity.
    + unfold parse_marked. change (36 =? 126) with false. change (36 =? 38) with false. cbv iota. rewrite R. reflexivity.
  - cbn [render_marked].
    change (parse_marked (render_unwrap s id))
      with (option_map (fun p => (MUnwrap, fst p, snd p)) (parse_ident (render_ident s id))).
    rewrite (render_ident_rt s id H). reflexivity.
  - cbn [render_marked].
    change (parse_marked (render_gname s id))
      with (option_map (fun p => (MGname, fst p, snd p)) (parse_ident (render_ident s id))).
    rewrite (render_ident_rt s id H). reflexivity.
Qed.

Theorem render_cut_rt : forall b, parse_cut (render_cut b) = Some b.
Proof. intros [|]; vm_compute; reflexivity. Qed.

Theorem render_rangeop_rt : forall b, parse_rangeop (render_rangeop b) = Some b.
Proof. intros [|]; vm_compute; reflexivity. Qed.
