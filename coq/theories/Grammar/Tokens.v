(* Token-level comparison of the GENERATED PEG (Generated/CddlPest.v, i.e. /repo/cddl.pest) with the ABNF:
   definitions of the bounded word sets and of the boolean checks.  The theorems are in TokenProofs.v.  No proofs here. *)
From Coq Require Import String Ascii.
From Cddl Require Import Grammar.PegSyn Grammar.PegRun Grammar.Cfg Grammar.Abnf8610 Grammar.Deviations Generated.CddlPest Grammar.Bridge.
Open Scope N_scope.

(* p holds of (rev pre ++ suffix) for every word pre over sigma of length at most n; the enumeration is a
   depth-first walk (no list of all words is built) *)
Fixpoint forall_words (sigma : list N) (n : nat) (p : list N -> bool) (suffix : list N) : bool :=
  p suffix &&
  match n with
  | O => true
  | S n' => forallb (fun c => forall_words sigma n' p (c :: suffix)) sigma
  end.

(* whole-input match of PEG rule r  vs  derivability from nonterminal nt of grammar g *)
Definition agree (r : N) (g : cfg) (nt : N) (w : list N) : bool :=
  match peg_matches cddl_pest r w, recognise g nt w with
  | Some a, Some b => Bool.eqb a b
  | _, _ => false
  end.

Definition agree_all (r : N) (g : cfg) (nt : N) (ws : list (list N)) : bool := forallb (agree r g nt) ws.
Definition agree_upto (r : N) (g : cfg) (nt : N) (sigma : list N) (n : nat) : bool := forall_words sigma n (agree r g nt) [].

Definition mask (bits : list N) : N := fold_right (fun b acc => N.lor (N.shiftl 1 b) acc) 0 bits.

(* alphabets (character codes) *)
Definition sig_uint : list N := s2n "019xXbaFg".
Definition sig_occur : list N := s2n "*+?019xb".
Definition sig_number : list N := s2n "01-.exp+b".
Definition sig_id : list N := s2n "aZ1-.$@_".
Definition sig_text : list N := [34; 92; 97; 117; 123; 125; 48; 100; 110; 9; 233].      (* dquote backslash a u { } 0 d n TAB e-acute *)
Definition sig_bytes : list N := [39; 104; 98; 54; 52; 97; 92; 34; 72].               (* quote h b 6 4 a backslash dquote H *)
Definition sig_blank : list N := [32; 10; 59; 97; 9; 13].                              (* SP LF ; a TAB CR *)

(* grammars the PEG token rules are compared with: the specification where the crate has no known deviation,
   the variant with exactly the relevant deviations switched on otherwise *)
Definition g_spec : cfg := abnf_spec.
Definition g_number : cfg := variant (mask [d_radix_float]).
Definition g_id : cfg := variant (mask [d_id_runs; d_dollar]).
Definition g_text : cfg := variant (mask [d_ctrl_chars; d_escapes]).
Definition g_bytes : cfg := variant (mask [d_bytes_raw; d_bsqual_case]).
Definition g_blank : cfg := variant (mask [d_ctrl_chars]).
Definition g_ctl : cfg := abnf_spec.       (* since 8d55c20 the control operators have no known deviation *)

(* control operators: every registered name, every name with one more letter, every name without its last letter *)
Definition ctl_probe : list (list N) :=
  let names := map s2n registered_controls in
  map (fun n => 46 :: n) (names ++ map (fun n => n ++ [120]) names ++ map (fun n => removelast n) names ++ [s2n "foo"; s2n ""; s2n "SIZE"]).

(* explicit text / byte-string probes for the escape forms that bounded enumeration does not reach *)
Definition text_probe : list (list N) := map s2n [
  """A"""; """\ud800"""; """\ud83d\ude00"""; """\ud83d"""; """\udc00"""; """\u{41}"""; """\u{0041}"""; """\u{10FFFF}""";
  """\u{110000}"""; """\u{d800}"""; """\u{}"""; """\u{g}"""; """\u004"""; """\U0041"""; """\n\t\r\b\f\/\\\"""""; """\q"""; """\'""";
  """a"; "a"""; """a""b"""; """"""; """\""" ]%string.
Definition bytes_probe : list (list N) := map s2n [
  "'it\'s'"; "'a\nb'"; "'A'"; "h'00'"; "H'00'"; "b64'AQ=='"; "B64'AQ=='"; "h""00"""; "H""00"""; "b64""AQ"""; "''"; "'"; "h'"; "'a''";
  "'a\\'"; "h'0g'" ]%string.

(* the same comparisons for the extracted oracle, where larger bounds are cheap: class index -> check at length n *)
Definition token_sweep (k : N) (n : nat) : bool :=
  match k with
  | 0 => agree_upto r_uint_value g_spec n_uint sig_uint n
  | 1 => agree_upto r_occur g_spec n_occur sig_occur n
  | 2 => agree_upto r_number g_number n_number sig_number n
  | 3 => agree_upto r_id g_id n_idns sig_id n
  | 4 => agree_upto r_text_value g_text n_text sig_text n
  | 5 => agree_upto r_bytes_value g_bytes n_bytes sig_bytes n
  | 6 => agree_upto r_cddl g_blank n_cddl sig_blank n
  | 7 => agree_all r_control_op g_ctl n_ctlop ctl_probe
  | 8 => agree_all r_text_value g_text n_text text_probe && agree_all r_bytes_value g_bytes n_bytes bytes_probe
  | _ => false
  end.

(* the control-name alternatives of the generated grammar *)
Fixpoint alt_strings (e : pexpr) : list (list N) :=
  match e with
  | PAlt a b => alt_strings a ++ alt_strings b
  | PStr s => [s]
  | PSeq a (PNot _) => alt_strings a          (* the alternatives may be followed by a boundary look-ahead *)
  | _ => []
  end.
Definition generated_control_names : list (list N) :=
  match find_rule (pg_rules cddl_pest) r_control_name with
  | Some (_, e) => alt_strings e
  | None => []
  end.
Definition same_set (l1 l2 : list (list N)) : bool :=
  forallb (fun x => mem x l2) l1 && forallb (fun x => mem x l1) l2 && Nat.eqb (length l1) (length l2).

(* whole-document acceptance by the PEG model alone, and by the model of the crate's parser = PEG model + bridge model
   (the bridge rejects some texts the grammar accepts; literal VALUE checks are not part of this model) *)
Definition peg_accepts (w : list N) : option bool := peg_matches cddl_pest r_cddl w.
Definition model_accepts (w : list N) : option bool :=
  match peg_parse cddl_pest r_cddl w with
  | Ok ts _ _ => match conv_cddl w (fuel_for w) ts with BOk _ => Some true | BSem => Some false | BFuel => None end
  | Fail => Some false
  | OutOfFuel => None
  end.

(* one witness per known deviation: (bit, text, does the crate model accept it); the specification says the opposite,
   the variant with that single deviation switched on says the same as the crate model *)
Definition deviation_witnesses : list (N * list N * bool) := [
  (d_id_runs, s2n "a--b = int", false);
  (d_dollar, s2n "$ = int", false);
  (d_dollar, s2n "a = {$a<b>: 1}", true);
  (d_group_rule, s2n "g = a: int", false);
  (d_group_rule, s2n "g = 2*3 int", false);
  (d_bytes_raw, s2n "a = 'it\'s'", false);
  (d_bytes_raw, s2n "a = 'a\qb'", true);
  (d_bsqual_case, s2n "a = H'00'", false);
  (d_radix_float, s2n "a = 0b1.5", false);
  (d_bytes_key, s2n "a = { 'a': int }", false);
  (d_implicit_ws, s2n "a <t> = [t]", true);
  (d_implicit_ws, s2n "a = b <c>", true);
  (d_implicit_ws, s2n "a = #6.< int >(tstr)", true);
  (d_tag_forms, s2n "a = #1(int)", true);
  (d_tag_forms, s2n "a = #2.<int>", true);
  (d_ctrl_chars, [97; 32; 61; 32; 34; 9; 34], true);
  (d_ctrl_chars, [97; 32; 61; 32; 105; 110; 116; 13; 98; 32; 61; 32; 105; 110; 116], true);
  (d_escapes, s2n "a = #7.<""\ud800"">", true);
  (d_paren_entry, s2n "a = [(a) .size 3]", false)
]%string.
Definition witness_ok (x : N * list N * bool) : bool :=
  let '(k, w, b) := x in
  match model_accepts w, recognise abnf_spec n_cddl w, variant_accepts (N.shiftl 1 k) w with
  | Some m, Some s, Some v => Bool.eqb m b && Bool.eqb s (negb b) && Bool.eqb v b
  | _, _, _ => false
  end.

(* small-scope language comparison: every string of at most n characters over this alphabet *)
Definition sig_doc : list N := s2n "a=/(:1 $".
Definition lang_agree (w : list N) : bool :=
  match model_accepts w, variant_accepts all_deviations w with
  | Some a, Some b => Bool.eqb a b
  | _, _ => false
  end.
