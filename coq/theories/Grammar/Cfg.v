(* Context-free grammars in ABNF style (RFC 5234 operators as constructors, so that the RFC text can be
   transcribed rule by rule), their derivation relation, and an executable all-remainders recogniser.
   No proofs here (see CfgProofs.v: ls_sound, ls_complete). *)
From Coq Require Export List NArith Bool.
Export ListNotations.
Open Scope N_scope.

Inductive aexp :=
| AEps                          (* the empty string *)
| ARng (lo hi : N)              (* %xLO-HI : one character in the range *)
| ARef (n : N)                  (* rule name *)
| ASeq (a b : aexp)             (* a b *)
| AAlt (a b : aexp)             (* a / b *)
| AStar (a : aexp)              (* *a *)
| ALook (p : list N -> bool).   (* zero-width assertion about the text that FOLLOWS (used only for the tokenisation
                                   convention "an identifier is not followed by a character that continues it") *)

(* a grammar is a list of productions; a name may have several (ABNF's "=/") *)
Definition cfg := list (N * aexp).

(* Der g e u r : e derives the string u when u is followed by r (r matters only below ALook) *)
Inductive Der (g : cfg) : aexp -> list N -> list N -> Prop :=
| DEps : forall r, Der g AEps [] r
| DRng : forall lo hi c r, lo <= c -> c <= hi -> Der g (ARng lo hi) [c] r
| DRef : forall n e w r, In (n, e) g -> Der g e w r -> Der g (ARef n) w r
| DSeq : forall a b u v r, Der g a u (v ++ r) -> Der g b v r -> Der g (ASeq a b) (u ++ v) r
| DAltL : forall a b u r, Der g a u r -> Der g (AAlt a b) u r
| DAltR : forall a b u r, Der g b u r -> Der g (AAlt a b) u r
| DStar0 : forall a r, Der g (AStar a) [] r
| DStarS : forall a u v r, Der g a u (v ++ r) -> Der g (AStar a) v r -> Der g (AStar a) (u ++ v) r
| DLook : forall p r, p r = true -> Der g (ALook p) [] r.

(* derived ABNF operators *)
Definition AFail : aexp := ARng 1 0.
Definition AChr (c : N) : aexp := ARng c c.
Definition AOpt (a : aexp) : aexp := AAlt a AEps.                  (* [a] *)
Definition APlus (a : aexp) : aexp := ASeq a (AStar a).            (* 1*a *)
Fixpoint ASeqs (l : list aexp) : aexp :=
  match l with [] => AEps | [a] => a | a :: t => ASeq a (ASeqs t) end.
Fixpoint AAlts (l : list aexp) : aexp :=
  match l with [] => AFail | [a] => a | a :: t => AAlt a (AAlts t) end.
Fixpoint ARepN (n : nat) (a : aexp) : aexp :=                      (* <n>a *)
  match n with O => AEps | S O => a | S n' => ASeq a (ARepN n' a) end.
(* %xNN.NN... : exact characters *)
Definition AStrX (s : list N) : aexp := ASeqs (map AChr s).
(* "..." : RFC 5234 2.3 - literal text strings are case-insensitive *)
Definition ACiChr (c : N) : aexp :=
  if (65 <=? c) && (c <=? 90) then AAlt (AChr c) (AChr (c + 32))
  else if (97 <=? c) && (c <=? 122) then AAlt (AChr (c - 32)) (AChr c)
  else AChr c.
Definition AStr (s : list N) : aexp := ASeqs (map ACiChr s).

(* ---- finite sets of remainders (suffixes of the input), without duplicates ---- *)
Fixpoint leqb (a b : list N) : bool :=
  match a, b with
  | [], [] => true
  | x :: a', y :: b' => (x =? y) && leqb a' b'
  | _, _ => false
  end.
Fixpoint mem (x : list N) (l : list (list N)) : bool :=
  match l with [] => false | y :: t => leqb x y || mem x t end.
Definition add (x : list N) (l : list (list N)) : list (list N) := if mem x l then l else x :: l.
Definition union (l1 l2 : list (list N)) : list (list N) := fold_right add l2 l1.

(* result: the set of remainders found, and whether the fuel ran out somewhere (then the set may be incomplete) *)
Definition lres := (list (list N) * bool)%type.
Definition lunion (r1 r2 : lres) : lres := (union (fst r1) (fst r2), snd r1 || snd r2).
Fixpoint lbind (l : list (list N)) (k : list N -> lres) : lres :=
  match l with
  | [] => ([], false)
  | r :: t => lunion (k r) (lbind t k)
  end.

(* all productions of the name n *)
Fixpoint lalts (k : aexp -> lres) (n : N) (ps : cfg) : lres :=
  match ps with
  | [] => ([], false)
  | (n', e') :: t => if n' =? n then lunion (k e') (lalts k n t) else lalts k n t
  end.

Section Recognise.
Variable g : cfg.

Definition shorter (x y : list N) : bool := Nat.ltb (length y) (length x).      (* y is strictly shorter than x *)

(* ls fuel e w       : the remainders r with  w = u ++ r  and  e derives u
   lstar fuel a F    : the remainders reachable from some member of the set F by zero or more iterations of a.
   A repetition is explored level by level over SETS of remainders (each level: one more iteration from every
   member, keeping only strictly shorter remainders), so that a remainder reached along several paths is not
   expanded once per path. *)
Fixpoint ls (fuel : nat) (e : aexp) (w : list N) {struct fuel} : lres :=
  match fuel with
  | O => ([], true)
  | S f =>
    match e with
    | AEps => ([w], false)
    | ARng lo hi =>
        match w with
        | c :: w' => if (lo <=? c) && (c <=? hi) then ([w'], false) else ([], false)
        | [] => ([], false)
        end
    | ARef n => lalts (fun e' => ls f e' w) n g
    | ASeq a b => let r1 := ls f a w in
                  let r2 := lbind (fst r1) (ls f b) in (fst r2, snd r1 || snd r2)
    | AAlt a b => lunion (ls f a w) (ls f b w)
    | AStar a => lstar f a [w]
    | ALook p => if p w then ([w], false) else ([], false)
    end
  end
with lstar (fuel : nat) (a : aexp) (F : list (list N)) {struct fuel} : lres :=
  match fuel with
  | O => ([], true)
  | S f =>
    match F with
    | [] => ([], false)
    | _ => let r1 := lbind F (fun x => let r := ls f a x in (filter (shorter x) (fst r), snd r)) in
           let r2 := lstar f a (fst r1) in
           (union F (fst r2), snd r1 || snd r2)
    end
  end.

End Recognise.

(* fuel: depth of the search; every construct costs one level, a repetition one level per iteration *)
Definition ls_fuel (w : list N) : nat := 400 + 24 * length w.

(* whole-input recognition: Some true / Some false, or None when the fuel ran out (never silently a verdict) *)
Definition recognise (g : cfg) (start : N) (w : list N) : option bool :=
  let r := ls g (ls_fuel w) (ARef start) w in
  if snd r then None else Some (mem [] (fst r)).
