(* Properties of the pest interpreter PegRun.v, for every grammar:
   - fuel monotonicity: an answer other than "out of fuel" does not change when more fuel is given;
   - well-formedness of the pair tree: spans are nested, siblings are ordered and disjoint, every span lies
     inside the input, and the interpreter only moves forward. *)
From Coq Require Import Lia ZifyBool ZifyNat ZifyN.
From Cddl Require Import Grammar.PegSyn Grammar.PegRun.
Open Scope N_scope.

Section Proofs.
Variable g : pgrammar.

Lemma eval_S : forall f e a pos w, eval g (S f) e a pos w =
    match e with
    | PStr s => match match_str s w pos with Some (p, w') => Ok [] p w' | None => Fail end
    | PIStr s => match match_istr s w pos with Some (p, w') => Ok [] p w' | None => Fail end
    | PRange lo hi =>
        match w with
        | c :: w' => if (lo <=? c) && (c <=? hi) then Ok [] (pos + ulen c) w' else Fail
        | [] => Fail
        end
    | PBuiltin b =>
        match b with
        | BSOI => if pos =? 0 then Ok [] pos w else Fail
        | BEOI => match w with
                  | [] => if atom_eqb_atomic a then Ok [] pos w else Ok [Node (pg_eoi g) pos pos []] pos w
                  | _ => Fail
                  end
        | BNEWLINE =>
            match w with
            | c :: w' =>
                if c =? 10 then Ok [] (pos + 1) w'
                else if c =? 13 then
                  match w' with
                  | d :: w'' => if d =? 10 then Ok [] (pos + 2) w'' else Ok [] (pos + 1) w'
                  | [] => Ok [] (pos + 1) w'
                  end
                else Fail
            | [] => Fail
            end
        | _ => match w with
               | c :: w' => if builtin_class b c then Ok [] (pos + ulen c) w' else Fail
               | [] => Fail
               end
        end
    | PRef r =>
        match find_rule (pg_rules g) r with
        | None => Fail
        | Some (m, body) =>
            let inner := match m with
                         | MAtomic => Atomic
                         | MCompound => Compound
                         | MNonAtomic => NonAtomic
                         | _ => if opt_id_eqb (pg_ws g) r || opt_id_eqb (pg_comment g) r then Atomic else a
                         end in
            match eval g f body inner pos w with
            | Ok ts p' w' =>
                match m with
                | MSilent => Ok ts p' w'
                | _ => if atom_eqb_atomic a then Ok ts p' w' else Ok [Node r pos p' ts] p' w'
                end
            | r' => r'
            end
        end
    | PSeq x y =>
        match eval g f x a pos w with
        | Ok t1 p1 w1 =>
            match skip g f a p1 w1 with
            | Ok t2 p2 w2 =>
                match eval g f y a p2 w2 with
                | Ok t3 p3 w3 => Ok (t1 ++ t2 ++ t3) p3 w3
                | r' => r'
                end
            | r' => r'
            end
        | r' => r'
        end
    | PAlt x y => match eval g f x a pos w with Fail => eval g f y a pos w | r' => r' end
    | POpt x => match eval g f x a pos w with Fail => Ok [] pos w | r' => r' end
    | PStar x =>
        match eval g f x a pos w with
        | Ok t1 p1 w1 => match more g f x a p1 w1 with Ok t2 p2 w2 => Ok (t1 ++ t2) p2 w2 | r' => r' end
        | Fail => Ok [] pos w
        | OutOfFuel => OutOfFuel
        end
    | PPlus x =>
        match eval g f x a pos w with
        | Ok t1 p1 w1 => match more g f x a p1 w1 with Ok t2 p2 w2 => Ok (t1 ++ t2) p2 w2 | r' => r' end
        | r' => r'
        end
    | PRep n x =>
        match n with
        | O => Ok [] pos w
        | S O => eval g f x a pos w
        | S n' => eval g f (PSeq x (PRep n' x)) a pos w
        end
    | PAnd x => match eval g f x a pos w with Ok _ _ _ => Ok [] pos w | r' => r' end
    | PNot x => match eval g f x a pos w with Ok _ _ _ => Fail | Fail => Ok [] pos w | OutOfFuel => OutOfFuel end
    end.
Proof. reflexivity. Qed.

Lemma more_S : forall f x a pos w, more g (S f) x a pos w =
    match skip g f a pos w with
    | Ok t1 p1 w1 =>
        match eval g f x a p1 w1 with
        | Ok t2 p2 w2 => match more g f x a p2 w2 with Ok t3 p3 w3 => Ok (t1 ++ t2 ++ t3) p3 w3 | r' => r' end
        | Fail => Ok [] pos w
        | OutOfFuel => OutOfFuel
        end
    | Fail => Ok [] pos w
    | OutOfFuel => OutOfFuel
    end.
Proof. reflexivity. Qed.

Lemma skip_S : forall f a pos w, skip g (S f) a pos w =
    match a with
    | NonAtomic => eval g f (skip_expr g) Compound pos w
    | _ => Ok [] pos w
    end.
Proof. reflexivity. Qed.

(* ---------------- fuel monotonicity ---------------- *)
Definition mono_at (f : nat) : Prop :=
  (forall e a p w r, eval g f e a p w = r -> r <> OutOfFuel -> eval g (S f) e a p w = r) /\
  (forall x a p w r, more g f x a p w = r -> r <> OutOfFuel -> more g (S f) x a p w = r) /\
  (forall a p w r, skip g f a p w = r -> r <> OutOfFuel -> skip g (S f) a p w = r).

(* destruct the (closed) recursive call at the lower fuel, transfer it to the higher fuel by the induction hypothesis *)
Ltac step IHe IHm IHs :=
  match goal with
  | Hne : ?X <> OutOfFuel |- _ =>
    match X with
    | context [eval g ?f ?e ?a ?p ?w] =>
        let E := fresh "E" in
        destruct (eval g f e a p w) eqn:E;
        [ rewrite (IHe _ _ _ _ _ E) by discriminate
        | rewrite (IHe _ _ _ _ _ E) by discriminate
        | try (exfalso; apply Hne; reflexivity) ]
    | context [more g ?f ?e ?a ?p ?w] =>
        let E := fresh "E" in
        destruct (more g f e a p w) eqn:E;
        [ rewrite (IHm _ _ _ _ _ E) by discriminate
        | rewrite (IHm _ _ _ _ _ E) by discriminate
        | try (exfalso; apply Hne; reflexivity) ]
    | context [skip g ?f ?a ?p ?w] =>
        let E := fresh "E" in
        destruct (skip g f a p w) eqn:E;
        [ rewrite (IHs _ _ _ _ E) by discriminate
        | rewrite (IHs _ _ _ _ E) by discriminate
        | try (exfalso; apply Hne; reflexivity) ]
    end
  end.

Lemma mono_all : forall f, mono_at f.
Proof.
  induction f as [|f [IHe [IHm IHs]]].
  - repeat split; intros; cbn in *; congruence.
  - repeat split.
    + intros e a p w r Hr Hne. subst r. rewrite (eval_S (S f)). rewrite (eval_S f) in Hne. rewrite (eval_S f).
      destruct e as [s|s|lo hi|r|b|x y|x y|x|x|x|n x|x|x]; try reflexivity.
      * (* PRef *)
        destruct (find_rule (pg_rules g) r) as [[m body]|]; [|reflexivity].
        cbv zeta in *. step IHe IHm IHs; reflexivity.
      * (* PSeq *) step IHe IHm IHs; try reflexivity. step IHe IHm IHs; try reflexivity. step IHe IHm IHs; reflexivity.
      * (* PAlt *) step IHe IHm IHs; try reflexivity. step IHe IHm IHs; reflexivity.
      * (* PStar *) step IHe IHm IHs; try reflexivity. step IHe IHm IHs; reflexivity.
      * (* PPlus *) step IHe IHm IHs; try reflexivity. step IHe IHm IHs; reflexivity.
      * (* POpt *) step IHe IHm IHs; reflexivity.
      * (* PRep *) destruct n as [|[|n']]; [reflexivity| |]; step IHe IHm IHs; reflexivity.
      * (* PAnd *) step IHe IHm IHs; reflexivity.
      * (* PNot *) step IHe IHm IHs; reflexivity.
    + intros x a p w r Hr Hne. subst r. rewrite (more_S (S f)). rewrite (more_S f) in Hne. rewrite (more_S f).
      step IHe IHm IHs; try reflexivity. step IHe IHm IHs; try reflexivity. step IHe IHm IHs; reflexivity.
    + intros a p w r Hr Hne. subst r. rewrite (skip_S (S f)). rewrite (skip_S f) in Hne. rewrite (skip_S f).
      destruct a; try reflexivity. step IHe IHm IHs; reflexivity.
Qed.

Theorem eval_fuel_mono : forall f f' e a p w r,
  (f <= f')%nat -> eval g f e a p w = r -> r <> OutOfFuel -> eval g f' e a p w = r.
Proof.
  intros f f' e a p w r Hle. induction Hle as [|f' Hle IH]; intros Hr Hne; [exact Hr|].
  apply (proj1 (mono_all f')); auto.
Qed.

(* ---------------- pair trees are well formed ---------------- *)
Fixpoint blen (w : list N) : N := match w with [] => 0 | c :: w' => ulen c + blen w' end.

(* fwf lo hi ts: the trees ts lie in [lo, hi], in order, without overlap, and each of them is itself well formed
   (its children lie inside its own span, in order, without overlap) *)
Inductive fwf : N -> N -> list tree -> Prop :=
| fwf_nil : forall lo hi, lo <= hi -> fwf lo hi []
| fwf_cons : forall lo hi r s e ch ts, lo <= s -> fwf s e ch -> fwf e hi ts -> fwf lo hi (Node r s e ch :: ts).

Lemma fwf_le : forall lo hi ts, fwf lo hi ts -> lo <= hi.
Proof. induction 1; lia. Qed.

Lemma fwf_app : forall lo mid hi t1 t2, fwf lo mid t1 -> fwf mid hi t2 -> fwf lo hi (t1 ++ t2).
Proof.
  intros lo mid hi t1 t2 H1. revert hi t2. induction H1 as [lo mid Hle|lo mid r s e ch ts Hs Hch _ Hts IH]; intros hi t2 H2; cbn.
  - destruct H2 as [lo' hi' Hle'|lo' hi' r s e ch ts Hs Hch Hts]; constructor; try lia; auto.
  - constructor; auto.
Qed.

Lemma ulen_pos : forall c, 1 <= ulen c.
Proof. intros c. unfold ulen. repeat destruct (_ <? _); lia. Qed.

Lemma match_str_inv : forall s w p p' w', match_str s w p = Some (p', w') -> p <= p' /\ p' + blen w' = p + blen w.
Proof.
  induction s as [|c s IH]; intros w p p' w' H; cbn in H.
  - inversion H; subst. lia.
  - destruct w as [|d w0]; [discriminate|]. destruct (c =? d); [|discriminate].
    apply IH in H. cbn [blen]. pose proof (ulen_pos d). lia.
Qed.

Lemma match_istr_inv : forall s w p p' w', match_istr s w p = Some (p', w') -> p <= p' /\ p' + blen w' = p + blen w.
Proof.
  induction s as [|c s IH]; intros w p p' w' H; cbn in H.
  - inversion H; subst. lia.
  - destruct w as [|d w0]; [discriminate|]. destruct (lower c =? lower d); [|discriminate].
    apply IH in H. cbn [blen]. pose proof (ulen_pos d). lia.
Qed.

Definition inv (p : N) (w : list N) (r : res) : Prop :=
  match r with
  | Ok ts p' w' => fwf p p' ts /\ p' + blen w' = p + blen w
  | _ => True
  end.

Lemma inv_ok_nil : forall p w, inv p w (Ok [] p w).
Proof. intros. split; [constructor; lia | reflexivity]. Qed.

Ltac casestep IHe IHm IHs :=
  match goal with
  | |- context [eval g ?f ?e ?a ?p ?w] =>
      let E := fresh "E" in let J := fresh "J" in
      pose proof (IHe e a p w) as J; destruct (eval g f e a p w) eqn:E; cbn [inv] in J
  | |- context [more g ?f ?e ?a ?p ?w] =>
      let E := fresh "E" in let J := fresh "J" in
      pose proof (IHm e a p w) as J; destruct (more g f e a p w) eqn:E; cbn [inv] in J
  | |- context [skip g ?f ?a ?p ?w] =>
      let E := fresh "E" in let J := fresh "J" in
      pose proof (IHs a p w) as J; destruct (skip g f a p w) eqn:E; cbn [inv] in J
  end.

Ltac fin :=
  cbn [inv];
  repeat match goal with H : _ /\ _ |- _ => destruct H end;
  split; [ first [ eapply fwf_app; [eassumption | eapply fwf_app; eassumption] | eapply fwf_app; eassumption ] | lia ].

Lemma inv_all : forall f,
  (forall e a p w, inv p w (eval g f e a p w)) /\
  (forall x a p w, inv p w (more g f x a p w)) /\
  (forall a p w, inv p w (skip g f a p w)).
Proof.
  induction f as [|f [IHe [IHm IHs]]].
  - repeat split; intros; exact I.
  - repeat split.
    + intros e a p w. rewrite eval_S.
      destruct e as [s|s|lo hi|r|b|x y|x y|x|x|x|n x|x|x].
      * destruct (match_str s w p) as [[p' w']|] eqn:E; [|exact I]. apply match_str_inv in E. split; [constructor; lia | lia].
      * destruct (match_istr s w p) as [[p' w']|] eqn:E; [|exact I]. apply match_istr_inv in E. split; [constructor; lia | lia].
      * destruct w as [|c w']; [exact I|]. destruct ((lo <=? c) && (c <=? hi)); [|exact I].
        pose proof (ulen_pos c). split; [constructor; lia | cbn [blen]; lia].
      * destruct (find_rule (pg_rules g) r) as [[m body]|]; [|exact I]. cbv zeta.
        casestep IHe IHm IHs; try exact I. destruct J as [I1 I2].
        assert (Hn : inv p w (Ok [Node r p pos ts] pos rest)).
        { split; [|exact I2]. pose proof (fwf_le _ _ _ I1). constructor; [lia | exact I1 | constructor; lia]. }
        destruct m; try (destruct (atom_eqb_atomic a); [split; assumption | exact Hn]). split; assumption.
      * destruct b; try (destruct w as [|c w']; [exact I|]; destruct (builtin_class _ c); [|exact I];
                         pose proof (ulen_pos c); split; [constructor; lia | cbn [blen]; lia]).
        -- destruct (p =? 0); [apply inv_ok_nil | exact I].
        -- destruct w; [|exact I]. destruct (atom_eqb_atomic a); [apply inv_ok_nil|].
           split; [|reflexivity]. constructor; [lia | constructor; lia | constructor; lia].
        -- destruct w as [|c w']; [exact I|].
           destruct (c =? 10) eqn:E10.
           { apply N.eqb_eq in E10. subst c. split; [constructor; lia | cbn [blen]; change (ulen 10) with 1; lia]. }
           destruct (c =? 13) eqn:E13; [|exact I]. apply N.eqb_eq in E13. subst c.
           destruct w' as [|d w'']; [split; [constructor; lia | cbn [blen]; change (ulen 13) with 1; lia]|].
           destruct (d =? 10) eqn:D10; [apply N.eqb_eq in D10; subst d|];
             (split; [constructor; lia | cbn [blen]; change (ulen 13) with 1; try change (ulen 10) with 1; lia]).
      * (* PSeq *) casestep IHe IHm IHs; try exact I. casestep IHe IHm IHs; try exact I. casestep IHe IHm IHs; try exact I. fin.
      * (* PAlt *) casestep IHe IHm IHs; [exact J | apply IHe | exact I].
      * (* PStar *) casestep IHe IHm IHs; [| apply inv_ok_nil | exact I]. casestep IHe IHm IHs; try exact I. fin.
      * (* PPlus *) casestep IHe IHm IHs; try exact I. casestep IHe IHm IHs; try exact I. fin.
      * (* POpt *) casestep IHe IHm IHs; [exact J | apply inv_ok_nil | exact I].
      * (* PRep *) destruct n as [|[|n']]; [apply inv_ok_nil | apply IHe | apply IHe].
      * (* PAnd *) casestep IHe IHm IHs; [apply inv_ok_nil | exact I | exact I].
      * (* PNot *) casestep IHe IHm IHs; [exact I | apply inv_ok_nil | exact I].
    + intros x a p w. rewrite more_S.
      casestep IHe IHm IHs; [| apply inv_ok_nil | exact I].
      casestep IHe IHm IHs; [| apply inv_ok_nil | exact I].
      casestep IHe IHm IHs; try exact I. fin.
    + intros a p w. rewrite skip_S. destruct a; try apply inv_ok_nil. apply IHe.
Qed.

(* every span of the forest lies in [lo, hi] *)
Inductive spans_in (lo hi : N) : list tree -> Prop :=
| si_nil : spans_in lo hi []
| si_cons : forall r s e ch ts, lo <= s -> s <= e -> e <= hi -> spans_in lo hi ch -> spans_in lo hi ts ->
            spans_in lo hi (Node r s e ch :: ts).

Lemma fwf_spans_in : forall lo hi ts, fwf lo hi ts -> forall lo' hi', lo' <= lo -> hi <= hi' -> spans_in lo' hi' ts.
Proof.
  induction 1 as [lo hi Hle|lo hi r s e ch ts Hs Hch IHch Hts IHts]; intros lo' hi' H1 H2; [constructor|].
  pose proof (fwf_le _ _ _ Hch). pose proof (fwf_le _ _ _ Hts).
  constructor; try lia; [apply IHch; lia | apply IHts; lia].
Qed.

Theorem peg_tree_wf : forall start w ts p' w',
  peg_parse g start w = Ok ts p' w' ->
  fwf 0 p' ts /\ spans_in 0 (blen w) ts /\ p' + blen w' = blen w.
Proof.
  intros start w ts p' w' H. unfold peg_parse in H.
  pose proof (proj1 (inv_all (fuel_for w)) (PRef start) NonAtomic 0 w) as I. rewrite H in I. cbn [inv] in I.
  destruct I as [I1 I2]. split; [exact I1|]. split; [|lia].
  apply (fwf_spans_in _ _ _ I1); lia.
Qed.

End Proofs.
Show.
