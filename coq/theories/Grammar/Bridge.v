(* Model of the pair-tree -> AST bridge (src/pest_bridge.rs convert_cddl .. convert_member_key_simple), reduced to
   the SHAPE of the AST: per rule its name, socket prefix, kind (type/group), assignment operator and generic
   parameters, and the nesting of type choices, type1 operators, type2 forms, groups, group choices, entries with
   occurrence, member-key form and cut.  Literal VALUES are not part of the shape (property C07), literal KINDS are.

   Each function looks at the same child pairs the corresponding convert_* function looks at (including
   convert_type2's dispatch on the first character of the pair's text, convert_tag_expr's reading of the major type
   from the character after '#', and convert_group_entry's folding of a lone typename into a TypeGroupname entry).
   [shape_render] prints the shape in the format documented in harness/src/bin/c03.rs.  No proofs here. *)
From Coq Require Import String Ascii.
From Cddl Require Import Grammar.PegSyn Grammar.PegRun Generated.CddlPest.
Open Scope N_scope.

Definition str (s : string) : list N := map N_of_ascii (list_ascii_of_string s).

(* ---- the shape ---- *)
Inductive occ := ONone | OOpt | OStar | OPlus | ORange (lo hi : option N).

Inductive st2 :=
| SLit (kind : list N)
| SName (name : list N) (args : option (list st1))
| SParen (t : list st1)
| SMap (g : list (list sentry))
| SArr (g : list (list sentry))
| SUnwrap (name : list N) (args : option (list st1))
| SChoiceG (g : list (list sentry))
| SChoiceN (name : list N) (args : option (list st1))
| STag (tagc : N) (t : list st1)                 (* Type2::TaggedData *)
| SMajor (mt : N) (tagc : N)                     (* Type2::DataMajorType *)
| SAny
with st1 :=
| ST1 (a : st2) (op : option (list N * st2))     (* operator text (".." "..." ".size" ...) and second operand *)
with sentry :=
| SEnt (o : occ) (k : skey) (t : list st1)                        (* GroupEntry::ValueMemberKey *)
| SRef (o : occ) (name : list N) (args : option (list st1))       (* GroupEntry::TypeGroupname *)
| SInl (o : occ) (g : list (list sentry))                         (* GroupEntry::InlineGroup *)
with skey :=
| KNone
| KType1 (cut : bool) (t : st1)
| KBare (name : list N)
| KVal (kind : list N).

Inductive srule :=
| SRule (is_group : bool) (name : list N) (alt : bool) (params : option (list (list N))) (body : list st1) (ent : option sentry).

(* result of the bridge: a shape, a semantic rejection (literal decoders etc.), or out of fuel *)
Inductive bres (A : Type) := BOk (a : A) | BSem | BFuel.
Arguments BOk {A} a. Arguments BSem {A}. Arguments BFuel {A}.

Definition bbind {A B} (x : bres A) (f : A -> bres B) : bres B :=
  match x with BOk a => f a | BSem => BSem | BFuel => BFuel end.

(* ---- helpers over trees ---- *)
Definition t_rule (t : tree) : N := match t with Node r _ _ _ => r end.
Definition t_children (t : tree) : list tree := match t with Node _ _ _ ch => ch end.

Fixpoint slice_from (w : list N) (pos s e : N) : list N :=
  match w with
  | [] => []
  | c :: w' => if pos <? s then slice_from w' (pos + ulen c) s e
               else if pos <? e then c :: slice_from w' (pos + ulen c) s e
               else []
  end.
Definition t_text (w : list N) (t : tree) : list N := match t with Node _ s e _ => slice_from w 0 s e end.

Fixpoint find_child (r : N) (ts : list tree) : option tree :=
  match ts with
  | [] => None
  | t :: ts' => if t_rule t =? r then Some t else find_child r ts'
  end.
Definition has_child (r : N) (ts : list tree) : bool := match find_child r ts with Some _ => true | None => false end.
Definition children_of (r : N) (ts : list tree) : list tree := filter (fun t => t_rule t =? r) ts.
Fixpoint last_child (r : N) (ts : list tree) (acc : option tree) : option tree :=
  match ts with
  | [] => acc
  | t :: ts' => last_child r ts' (if t_rule t =? r then Some t else acc)
  end.

(* ---- literals: only as much as the shape needs ---- *)
Definition digit_val (c : N) : option N :=
  if (48 <=? c) && (c <=? 57) then Some (c - 48)
  else if (97 <=? c) && (c <=? 102) then Some (c - 87)
  else if (65 <=? c) && (c <=? 70) then Some (c - 55)
  else None.
Fixpoint parse_radix (radix : N) (s : list N) (acc : N) : option N :=
  match s with
  | [] => Some acc
  | c :: s' => match digit_val c with
               | Some d => if d <? radix then parse_radix radix s' (acc * radix + d) else None
               | None => None
               end
  end.
(* parse_u64_lit followed by usize::try_from (64-bit target) *)
Definition parse_uint_lit (s : list N) : option N :=
  let r := match s with
           | 48 :: 120 :: d | 48 :: 88 :: d => match d with [] => None | _ => parse_radix 16 d 0 end
           | 48 :: 98 :: d | 48 :: 66 :: d => match d with [] => None | _ => parse_radix 2 d 0 end
           | [] => None
           | _ => parse_radix 10 s 0
           end in
  match r with Some n => if n <? 18446744073709551616 then Some n else None | None => None end.

Fixpoint split_star (s : list N) (acc : list N) : list N * list N :=
  match s with
  | [] => (rev acc, [])
  | c :: s' => if c =? 42 then (rev acc, s') else split_star s' (c :: acc)
  end.

Definition opt_bound (s : list N) : bres (option N) :=
  match s with
  | [] => BOk None
  | _ => match parse_uint_lit s with Some n => BOk (Some n) | None => BSem end
  end.

(* convert_occurrence: the first child that is one of the five occur_* rules decides *)
Fixpoint conv_occ_children (w : list N) (ch : list tree) : bres occ :=
  match ch with
  | [] => BSem
  | t :: ch' =>
      let r := t_rule t in
      if r =? r_occur_optional then BOk OOpt
      else if r =? r_occur_zero_or_more then BOk OStar
      else if r =? r_occur_one_or_more then BOk OPlus
      else if (r =? r_occur_exact) || (r =? r_occur_range) then
        let (a, b) := split_star (t_text w t) [] in
        bbind (opt_bound a) (fun lo => bbind (opt_bound b) (fun hi => BOk (ORange lo hi)))
      else conv_occ_children w ch'
  end.

(* convert_identifier *)
Definition conv_ident (w : list N) (t : tree) : list N :=
  let ch := t_children t in
  let sock := if has_child r_socket_group ch then [36; 36] else if has_child r_socket_type ch then [36] else [] in
  let id := match last_child r_id ch None with Some i => t_text w i | None => t_text w t end in
  sock ++ id.

(* literal kind of a `value` pair: convert_value_to_type2 (the first number / text_value / bytes_value child decides) *)
Fixpoint first_of (rs : list N) (ts : list tree) : option tree :=
  match ts with
  | [] => None
  | t :: ts' => if existsb (N.eqb (t_rule t)) rs then Some t else first_of rs ts'
  end.

(* try_unescape_text: a text literal is rejected ("Invalid escape sequence in text string") when a \u escape does not
   denote a Unicode scalar value: lone or reversed surrogate, value above U+10FFFF (or not fitting u32) *)
Fixpoint hex_digits (s : list N) (acc : list N) : list N * list N :=      (* leading hex digits, rest *)
  match s with
  | c :: s' => match digit_val c with Some _ => hex_digits s' (c :: acc) | None => (rev acc, s) end
  | [] => (rev acc, [])
  end.
Definition is_scalar (n : N) : bool := (n <? 55296) || ((57343 <? n) && (n <? 1114112)).
Fixpoint take4hex (k : nat) (s : list N) (acc : N) : option (N * list N) :=
  match k with
  | O => Some (acc, s)
  | S k' => match s with
            | c :: s' => match digit_val c with Some d => take4hex k' s' (acc * 16 + d) | None => None end
            | [] => None
            end
  end.
Fixpoint escapes_ok (fuel : nat) (s : list N) : bool :=
  match fuel with
  | O => true
  | S f =>
    match s with
    | [] => true
    | 92 :: 117 :: 123 :: s' =>                                  (* \u{ *)
        let (hx, rest) := hex_digits s' [] in
        match parse_radix 16 hx 0, hx with
        | Some n, _ :: _ => (n <? 4294967296) && is_scalar n &&
                            escapes_ok f (match rest with 125 :: r => r | _ => rest end)
        | _, _ => false
        end
    | 92 :: 117 :: s' =>                                         (* \uXXXX *)
        match take4hex 4 s' 0 with
        | None => false
        | Some (n, rest) =>
            if (55296 <=? n) && (n <=? 56319) then
              match rest with
              | 92 :: 117 :: r2 => match take4hex 4 r2 0 with
                                   | Some (lo, r3) => (56320 <=? lo) && (lo <=? 57343) && escapes_ok f r3
                                   | None => false
                                   end
              | _ => false
              end
            else is_scalar n && escapes_ok f rest
        end
    | 92 :: _ :: s' => escapes_ok f s'
    | _ :: s' => escapes_ok f s'
    end
  end.

Definition conv_value (w : list N) (t : tree) : bres (list N) :=
  match first_of [r_number; r_text_value; r_bytes_value] (t_children t) with
  | None => BSem
  | Some v =>
      if t_rule v =? r_number then
        match first_of [r_uint_value; r_int_value; r_float_value; r_hexfloat] (t_children v) with
        | Some n => if t_rule n =? r_uint_value then BOk (str "U")
                    else if t_rule n =? r_int_value then BOk (str "I") else BOk (str "F")
        | None => BSem
        end
      else if t_rule v =? r_text_value then
        let body := removelast (tl (t_text w v)) in
        if escapes_ok (S (length body)) body then BOk (str "S") else BSem
      else
        match first_of [r_bytes_utf8; r_bytes_b16; r_bytes_b64; r_bytes_h_quoted] (t_children v) with
        | Some b => if t_rule b =? r_bytes_b16 then BOk (str "B16")
                    else if t_rule b =? r_bytes_b64 then BOk (str "B64") else BOk (str "B8")
        | None => BSem
        end
  end.

Fixpoint bmap {A B} (f : A -> bres B) (l : list A) : bres (list B) :=
  match l with
  | [] => BOk []
  | a :: l' => bbind (f a) (fun b => bbind (bmap f l') (fun bs => BOk (b :: bs)))
  end.

Definition first_char (s : list N) : N := match s with c :: _ => c | [] => 0 end.

(* trim() of convert_tag_expr / trim_start() of convert_type2: Rust's char::is_whitespace on what can occur here *)
Definition is_ws (c : N) : bool := (c =? 32) || (c =? 9) || (c =? 10) || (c =? 13) || (c =? 11) || (c =? 12) || (c =? 133) || (c =? 160).
Fixpoint trim_start (s : list N) : list N :=
  match s with c :: s' => if is_ws c then trim_start s' else s | [] => [] end.
Definition trim (s : list N) : list N := rev (trim_start (rev (trim_start s))).

Section Conv.
Variable w : list N.

(* the mutually recursive converters, driven by fuel (the depth of the pair tree) *)
Fixpoint conv_type (fuel : nat) (t : tree) {struct fuel} : bres (list st1) :=   (* convert_type_expr *)
  match fuel with
  | O => BFuel
  | S f =>
      bmap (fun tc => match find_child r_type1 (t_children tc) with
                      | Some t1 => conv_type1 f t1
                      | None => BSem   (* unreachable: a type_choice always has a type1 child *)
                      end)
           (children_of r_type_choice (t_children t))
  end
with conv_type1 (fuel : nat) (t : tree) {struct fuel} : bres st1 :=
  match fuel with
  | O => BFuel
  | S f =>
      let ch := t_children t in
      match children_of r_type2 ch with
      | [] => BSem
      | a :: rest2 =>
          bbind (conv_type2 f a) (fun sa =>
            match last_child r_range_op ch None, last_child r_control_op ch None with
            | None, None => BOk (ST1 sa None)
            | _, Some c =>
                (* the loop visits range_op before control_op only if both occur, which the grammar excludes *)
                match find_child r_control_name (t_children c) with
                | None => BSem
                | Some nm =>
                    let second := match find_child r_controller ch with
                                  | Some ctl => find_child r_type2 (t_children ctl)
                                  | None => None
                                  end in
                    match second with
                    | Some b => bbind (conv_type2 f b) (fun sb => BOk (ST1 sa (Some (46 :: t_text w nm, sb))))
                    | None => match rest2 with
                              | b :: _ => bbind (conv_type2 f b) (fun sb => BOk (ST1 sa (Some (46 :: t_text w nm, sb))))
                              | [] => BOk (ST1 sa (Some (46 :: t_text w nm, SAny)))
                              end
                    end
                end
            | Some r, None =>
                let op := if has_child r_range_op_inclusive (t_children r) then str ".." else str "..." in
                match rest2 with
                | b :: _ => bbind (conv_type2 f b) (fun sb => BOk (ST1 sa (Some (op, sb))))
                | [] => BOk (ST1 sa (Some (op, SAny)))
                end
            end)
      end
  end
with conv_args (fuel : nat) (ch : list tree) {struct fuel} : bres (option (list st1)) :=   (* the last generic_args child *)
  match fuel with
  | O => BFuel
  | S f =>
      match last_child r_generic_args ch None with
      | None => BOk None
      | Some ga =>
          bbind (bmap (fun a => match find_child r_type1 (t_children a) with
                                | Some t1 => conv_type1 f t1
                                | None => BSem
                                end)
                      (children_of r_generic_arg (t_children ga)))
                (fun l => BOk (Some l))
      end
  end
with conv_type2 (fuel : nat) (t : tree) {struct fuel} : bres st2 :=
  match fuel with
  | O => BFuel
  | S f =>
      let ch := t_children t in
      let c0 := first_char (trim_start (t_text w t)) in
      if c0 =? 126 then          (* ~ *)
        match last_child r_typename ch None with
        | Some n => bbind (conv_args f ch) (fun a => BOk (SUnwrap (conv_ident w n) a))
        | None => BSem
        end
      else if c0 =? 38 then      (* & *)
        match last_child r_group ch None with
        | Some g => bbind (conv_group f g) (fun sg => BOk (SChoiceG sg))
        | None => match last_child r_groupname ch None with
                  | Some n => bbind (conv_args f ch) (fun a => BOk (SChoiceN (conv_ident w n) a))
                  | None => BSem
                  end
        end
      else if c0 =? 40 then      (* ( *)
        match find_child r_type_expr ch with
        | Some te => bbind (conv_type f te) (fun st => BOk (SParen st))
        | None => BOk SAny
        end
      else if c0 =? 123 then     (* { *)
        match find_child r_group ch with
        | Some g => bbind (conv_group f g) (fun sg => BOk (SMap sg))
        | None => BOk SAny
        end
      else if c0 =? 91 then      (* [ *)
        match find_child r_group ch with
        | Some g => bbind (conv_group f g) (fun sg => BOk (SArr sg))
        | None => BOk SAny
        end
      else if c0 =? 35 then      (* # *)
        match find_child r_tag_expr ch with
        | Some te => conv_tag f te
        | None => BOk SAny
        end
      else
        match last_child r_value ch None with
        | Some v => bbind (conv_value w v) (fun k => BOk (SLit k))
        | None => match last_child r_typename ch None with
                  | Some n => bbind (conv_args f ch) (fun a => BOk (SName (conv_ident w n) a))
                  | None => BOk SAny
                  end
        end
  end
with conv_tag (fuel : nat) (t : tree) {struct fuel} : bres st2 :=      (* convert_tag_expr *)
  match fuel with
  | O => BFuel
  | S f =>
      let full := trim (t_text w t) in
      match full with
      | [35] => BOk SAny
      | _ =>
          let major := match full with
                       | _ :: c :: _ => if (48 <=? c) && (c <=? 57) then Some (c - 48) else None
                       | _ => None
                       end in
          let ch := t_children t in
          (* tag constraint: the last tag_value child; inside it the last uint_value / type_expr child *)
          let tagc : bres N :=
            match last_child r_tag_value ch None with
            | None => BOk 45                                   (* - *)
            | Some tv =>
                (fix scan (l : list tree) (acc : bres N) : bres N :=
                   match l with
                   | [] => acc
                   | x :: l' =>
                       if t_rule x =? r_uint_value then
                         match parse_uint_lit (t_text w x) with
                         | Some _ => scan l' (BOk 76)                                                    (* L *)
                         | None => BSem                                                                  (* out of range *)
                         end
                       else if t_rule x =? r_type_expr then scan l' (BOk 89)                              (* Y *)
                       else scan l' acc
                   end) (t_children tv) (BOk 45)
            end in
          bbind tagc (fun tc =>
            bbind (match last_child r_type_expr ch None with
                   | Some te => bbind (conv_type f te) (fun st => BOk (Some st))
                   | None => BOk None
                   end) (fun ot =>
              match major with
              | Some 6 => BOk (STag tc (match ot with Some st => st | None => [] end))
              | Some mt => BOk (SMajor mt tc)
              | None => match ot with Some st => BOk (STag 45 st) | None => BOk SAny end
              end))
      end
  end
with conv_group (fuel : nat) (t : tree) {struct fuel} : bres (list (list sentry)) :=
  match fuel with
  | O => BFuel
  | S f =>
      bmap (fun gc => bmap (conv_entry f) (children_of r_group_entry (t_children gc)))
           (children_of r_group_choice (t_children t))
  end
with conv_entry (fuel : nat) (t : tree) {struct fuel} : bres sentry :=
  match fuel with
  | O => BFuel
  | S f =>
      let ch := t_children t in
      let is_cut := has_child r_cut ch in
      bbind (match last_child r_occur ch None with
             | Some o => conv_occ_children w (t_children o)
             | None => BOk ONone
             end) (fun so =>
      bbind (match last_child r_member_key ch None with
             | Some mk => conv_key f is_cut mk
             | None => BOk KNone
             end) (fun sk =>
      bbind (match last_child r_type_expr ch None with
             | Some te => bbind (conv_type f te) (fun st => BOk (Some st))
             | None => BOk None
             end) (fun ot =>
      bbind (conv_args f ch) (fun sargs =>
      bbind (match last_child r_group ch None with
             | Some g => bbind (conv_group f g) (fun sg => BOk (Some sg))
             | None => BOk None
             end) (fun og =>
        match og with
        | Some sg => BOk (SInl so sg)
        | None =>
            match last_child r_groupname ch None with
            | Some n => BOk (SRef so (conv_ident w n) sargs)
            | None =>
                match sk, ot with
                | KNone, Some [ST1 (SName nm a) None] => BOk (SRef so nm a)
                | _, Some st => BOk (SEnt so sk st)
                | _, None => BOk (SEnt so sk [])
                end
            end
        end)))))
  end
with conv_key (fuel : nat) (is_cut : bool) (t : tree) {struct fuel} : bres skey :=   (* convert_member_key_simple *)
  match fuel with
  | O => BFuel
  | S f =>
      match first_of [r_type1; r_bareword; r_typename; r_value] (t_children t) with
      | None => BSem
      | Some x =>
          if t_rule x =? r_type1 then bbind (conv_type1 f x) (fun s1 => BOk (KType1 is_cut s1))
          else if t_rule x =? r_bareword then BOk (KBare (t_text w x))
          else if t_rule x =? r_typename then BOk (KBare (conv_ident w x))
          else bbind (conv_value w x) (fun k =>
                 match k with
                 | [85] | [73] | [70] | [83] => BOk (KVal k)
                 | _ => BSem                           (* "Invalid member key value": byte-string keys *)
                 end)
      end
  end.

(* convert_rule *)
Definition conv_rule (fuel : nat) (t : tree) : bres srule :=
  match t_children t with
  | [] => BSem
  | first :: rest =>
      let params := match last_child r_generic_params rest None with
                    | None => None
                    | Some gp => Some (flat_map (fun p => map (t_text w) (children_of r_id (t_children p)))
                                                (children_of r_generic_param (t_children gp)))
                    end in
      if t_rule first =? r_typename then
        let alt := match last_child r_assign_t rest None with
                   | Some a => has_child r_assign_t_choice (t_children a)
                   | None => false
                   end in
        match last_child r_type_expr rest None with
        | Some te => bbind (conv_type fuel te) (fun st => BOk (SRule false (conv_ident w first) alt params st None))
        | None => BSem
        end
      else if t_rule first =? r_groupname then
        let alt := existsb (fun a => has_child r_assign_g_choice (t_children a)) (children_of r_assign_g rest) in
        match last_child r_group_entry rest None with
        | Some ge => bbind (conv_entry fuel ge) (fun se => BOk (SRule true (conv_ident w first) alt params [] (Some se)))
        | None => BSem
        end
      else BSem
  end.

(* convert_cddl: the rule children of the first top-level pair, up to EOI *)
Fixpoint take_rules (ch : list tree) : list tree :=
  match ch with
  | [] => []
  | t :: ch' => if t_rule t =? r_rule then t :: take_rules ch'
                else if t_rule t =? r_EOI_pair then [] else take_rules ch'
  end.

Definition conv_cddl (fuel : nat) (ts : list tree) : bres (list srule) :=
  match ts with
  | [] => BSem
  | top :: _ => bmap (conv_rule fuel) (take_rules (t_children top))
  end.

End Conv.

(* ---- rendering (format documented in harness/src/bin/c03.rs) ---- *)
Definition sp : list N := [32].
Definition paren (l : list N) : list N := [40] ++ l ++ [41].

Definition render_occ (o : occ) : list N :=
  match o with
  | ONone => str "-" | OOpt => str "?" | OStar => str "*" | OPlus => str "+"
  | ORange lo hi => str "{" ++ match lo with Some n => decN n | None => [] end ++ str "*"
                            ++ match hi with Some n => decN n | None => [] end ++ str "}"
  end.

Fixpoint sep_by {A} (f : A -> list N) (sep : list N) (l : list A) : list N :=
  match l with
  | [] => []
  | [a] => f a
  | a :: l' => f a ++ sep ++ sep_by f sep l'
  end.

Fixpoint r_t2 (fuel : nat) (t : st2) {struct fuel} : list N :=
  match fuel with
  | O => str "EFUEL"
  | S f =>
      let args := fun (a : option (list st1)) =>
                    match a with None => [] | Some l => str "<" ++ sep_by (r_t1 f) (str ",") l ++ str ">" end in
      match t with
      | SLit k => k
      | SName n a => paren (str "n " ++ n ++ args a)
      | SParen ty => paren (str "p " ++ r_ty f ty)
      | SMap g => paren (str "m " ++ r_group f g)
      | SArr g => paren (str "a " ++ r_group f g)
      | SUnwrap n a => paren (str "~ " ++ n ++ args a)
      | SChoiceG g => paren (str "&g " ++ r_group f g)
      | SChoiceN n a => paren (str "&n " ++ n ++ args a)
      | STag tc ty => paren (str "#6 " ++ [tc] ++ sp ++ r_ty f ty)
      | SMajor mt tc => paren (str "# " ++ decN mt ++ sp ++ [tc])
      | SAny => str "#"
      end
  end
with r_t1 (fuel : nat) (t : st1) {struct fuel} : list N :=
  match fuel with
  | O => str "EFUEL"
  | S f => match t with
           | ST1 a None => r_t2 f a
           | ST1 a (Some (op, b)) => paren (op ++ sp ++ r_t2 f a ++ sp ++ r_t2 f b)
           end
  end
with r_ty (fuel : nat) (l : list st1) {struct fuel} : list N :=
  match fuel with
  | O => str "EFUEL"
  | S f => paren (str "t" ++ flat_map (fun t => sp ++ r_t1 f t) l)
  end
with r_group (fuel : nat) (g : list (list sentry)) {struct fuel} : list N :=
  match fuel with
  | O => str "EFUEL"
  | S f => paren (str "g" ++ flat_map (fun gc => sp ++ paren (str "c" ++ flat_map (fun e => sp ++ r_entry f e) gc)) g)
  end
with r_entry (fuel : nat) (e : sentry) {struct fuel} : list N :=
  match fuel with
  | O => str "EFUEL"
  | S f =>
      match e with
      | SEnt o k ty =>
          paren (str "e " ++ render_occ o ++ sp ++
                 match k with
                 | KNone => str "-"
                 | KType1 c t1 => paren (str "k1 " ++ (if c then str "^" else str "_") ++ sp ++ r_t1 f t1)
                 | KBare n => paren (str "kb " ++ n)
                 | KVal k' => paren (str "kv " ++ k')
                 end ++ sp ++ r_ty f ty)
      | SRef o n a => paren (str "r " ++ render_occ o ++ sp ++ n ++
                             match a with None => [] | Some l => str "<" ++ sep_by (r_t1 f) (str ",") l ++ str ">" end)
      | SInl o g => paren (str "i " ++ render_occ o ++ sp ++ r_group f g)
      end
  end.

Definition r_rule (fuel : nat) (r : srule) : list N :=
  match r with
  | SRule is_group name alt params body ent =>
      paren ((if is_group then str "G " else str "T ") ++ name ++
             (if alt then (if is_group then str "//=" else str "/=") else str "=") ++
             match params with None => [] | Some l => str "<" ++ sep_by (fun x => x) (str ",") l ++ str ">" end ++ sp ++
             (if is_group then match ent with Some e => r_entry fuel e | None => [] end else r_ty fuel body))
  end.

(* the AST shape the bridge builds for the text w, from the PEG model's pair tree *)
Definition shape_of (w : list N) : list N :=
  match peg_parse cddl_pest r_cddl w with
  | Ok ts _ _ =>
      match conv_cddl w (fuel_for w) ts with
      | BOk rs => str "Ok " ++ flat_map (r_rule (fuel_for w)) rs
      | BSem => str "Err semantic"
      | BFuel => str "EFUEL"
      end
  | Fail => str "Err syntax"
  | OutOfFuel => str "EFUEL"
  end.
