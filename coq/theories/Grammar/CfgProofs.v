(* Correctness of the all-remainders recogniser of Cfg.v with respect to the derivation relation:
   soundness for every fuel, completeness whenever the fuel did not run out (flag = false).
   Valid for EVERY grammar (no non-left-recursion hypothesis is needed: on a left-recursive grammar the
   recogniser simply reports that the fuel ran out). *)
From Coq Require Import Lia Arith PeanoNat.
From Cddl Require Import Grammar.Cfg.
Open Scope N_scope.

(* ---- finite sets ---- *)
Lemma leqb_eq : forall a b, leqb a b = true <-> a = b.
Proof.
  induction a as [|x a IH]; destruct b as [|y b]; cbn; split; intro H; try congruence; try discriminate.
  - apply andb_true_iff in H. destruct H as [H1 H2]. apply N.eqb_eq in H1. apply IH in H2. congruence.
  - inversion H; subst. apply andb_true_iff. split. apply N.eqb_refl. apply IH. reflexivity.
Qed.

Lemma mem_In : forall x l, mem x l = true <-> In x l.
Proof.
  induction l as [|y l IH]; cbn.
  - split; [discriminate | tauto].
  - rewrite orb_true_iff, IH, leqb_eq. split; intros [H|H]; auto.
Qed.

Lemma add_In : forall x l y, In y (add x l) <-> y = x \/ In y l.
Proof.
  intros x l y. unfold add. destruct (mem x l) eqn:E.
  - apply mem_In in E. split; [auto | intros [->|H]; auto].
  - cbn. split; intros [H|H]; auto.
Qed.

Lemma union_In : forall l1 l2 y, In y (union l1 l2) <-> In y l1 \/ In y l2.
Proof.
  induction l1 as [|x l1 IH]; intros l2 y; cbn.
  - tauto.
  - fold (union l1 l2). rewrite add_In, IH. intuition (subst; auto).
Qed.

Lemma lunion_In : forall r1 r2 y, In y (fst (lunion r1 r2)) <-> In y (fst r1) \/ In y (fst r2).
Proof. intros. unfold lunion. cbn [fst]. apply union_In. Qed.

Lemma lunion_flag : forall r1 r2, snd (lunion r1 r2) = false <-> snd r1 = false /\ snd r2 = false.
Proof. intros. unfold lunion. cbn [snd]. apply orb_false_iff. Qed.

Lemma lbind_In : forall l k y, In y (fst (lbind l k)) <-> exists r, In r l /\ In y (fst (k r)).
Proof.
  induction l as [|x l IH]; intros k y; cbn [lbind].
  - cbn. split; [tauto | intros [r [[] _]]].
  - rewrite lunion_In, IH. split.
    + intros [H|[r [H1 H2]]]; [exists x | exists r]; cbn; auto.
    + intros [r [[->|H1] H2]]; [left | right; exists r]; auto.
Qed.

Lemma lbind_flag : forall l k, snd (lbind l k) = false <-> forall r, In r l -> snd (k r) = false.
Proof.
  induction l as [|x l IH]; intros k; cbn [lbind].
  - cbn. split; [intros _ r [] | reflexivity].
  - rewrite lunion_flag, IH. split.
    + intros [H1 H2] r [->|H]; auto.
    + intros H. split; [apply H; left; reflexivity | intros r Hr; apply H; right; exact Hr].
Qed.

Lemma lbind_ext : forall l k k', (forall r, In r l -> k r = k' r) -> lbind l k = lbind l k'.
Proof.
  induction l as [|x l IH]; intros k k' H; cbn [lbind]; [reflexivity|].
  rewrite (H x (or_introl eq_refl)), (IH k k'); [reflexivity|]. intros r Hr. apply H. right. exact Hr.
Qed.

Lemma lalts_In : forall k n ps y, In y (fst (lalts k n ps)) <-> exists e, In (n, e) ps /\ In y (fst (k e)).
Proof.
  induction ps as [|[n' e'] ps IH]; intros y; cbn [lalts].
  - cbn. split; [tauto | intros [e [[] _]]].
  - destruct (n' =? n) eqn:E.
    + apply N.eqb_eq in E. subst n'. rewrite lunion_In, IH. split.
      * intros [H|[e [H1 H2]]]; [exists e' | exists e]; cbn; auto.
      * intros [e [[H1|H1] H2]]; [inversion H1; subst; left | right; exists e]; auto.
    + apply N.eqb_neq in E. rewrite IH. split.
      * intros [e [H1 H2]]. exists e. cbn. auto.
      * intros [e [[H1|H1] H2]]; [inversion H1; congruence | exists e; auto].
Qed.

Lemma lalts_flag : forall k n ps, snd (lalts k n ps) = false <-> forall e, In (n, e) ps -> snd (k e) = false.
Proof.
  induction ps as [|[n' e'] ps IH]; cbn [lalts].
  - cbn. split; [intros _ e [] | reflexivity].
  - destruct (n' =? n) eqn:E.
    + apply N.eqb_eq in E. subst n'. rewrite lunion_flag, IH. split.
      * intros [H1 H2] e [H|H]; [inversion H; subst; exact H1 | auto].
      * intros H. split; [apply H; left; reflexivity | intros e He; apply H; right; exact He].
    + apply N.eqb_neq in E. rewrite IH. split.
      * intros H e [H1|H1]; [inversion H1; congruence | auto].
      * intros H e He. apply H. right. exact He.
Qed.

Lemma lalts_ext : forall k k' n ps, (forall e, In (n, e) ps -> k e = k' e) -> lalts k n ps = lalts k' n ps.
Proof.
  induction ps as [|[n' e'] ps IH]; intros H; cbn [lalts]; [reflexivity|].
  destruct (n' =? n) eqn:E.
  - apply N.eqb_eq in E. subst n'. rewrite (H e' (or_introl eq_refl)), IH; [reflexivity|].
    intros e He. apply H. right. exact He.
  - apply IH. intros e He. apply H. right. exact He.
Qed.

Section Proofs.
Variable g : cfg.

(* one unfolding step of each function, as equations *)
Lemma ls_S : forall f e w, ls g (S f) e w =
  match e with
  | AEps => ([w], false)
  | ARng lo hi => match w with
                  | c :: w' => if (lo <=? c) && (c <=? hi) then ([w'], false) else ([], false)
                  | [] => ([], false)
                  end
  | ARef n => lalts (fun e' => ls g f e' w) n g
  | ASeq a b => let r1 := ls g f a w in let r2 := lbind (fst r1) (ls g f b) in (fst r2, snd r1 || snd r2)
  | AAlt a b => lunion (ls g f a w) (ls g f b w)
  | AStar a => lstar g f a [w]
  | ALook p => if p w then ([w], false) else ([], false)
  end.
Proof. reflexivity. Qed.

Lemma lstar_S : forall f a F, lstar g (S f) a F =
  match F with
  | [] => ([], false)
  | _ => let r1 := lbind F (fun x => let r := ls g f a x in (filter (shorter x) (fst r), snd r)) in
         let r2 := lstar g f a (fst r1) in (union F (fst r2), snd r1 || snd r2)
  end.
Proof. reflexivity. Qed.

(* ---------------- soundness ---------------- *)
Lemma sound_both : forall f,
  (forall e w r, In r (fst (ls g f e w)) -> exists u, w = u ++ r /\ Der g e u r) /\
  (forall a F r, In r (fst (lstar g f a F)) -> exists x u, In x F /\ x = u ++ r /\ Der g (AStar a) u r).
Proof.
  induction f as [|f [IH1 IH2]].
  - split; cbn; tauto.
  - split.
    + intros e w r H. rewrite ls_S in H. destruct e as [|lo hi|n|a b|a b|a|p].
      * cbn in H. destruct H as [<-|[]]. exists []. split; [reflexivity | constructor].
      * destruct w as [|c w']; [cbn in H; tauto|].
        destruct ((lo <=? c) && (c <=? hi)) eqn:E; cbn in H; [|tauto].
        destruct H as [<-|[]]. apply andb_true_iff in E. destruct E as [E1 E2].
        apply N.leb_le in E1. apply N.leb_le in E2. exists [c]. split; [reflexivity | constructor; assumption].
      * apply lalts_In in H. destruct H as [e [H1 H2]]. apply IH1 in H2. destruct H2 as [u [-> D]].
        exists u. split; [reflexivity | econstructor; eassumption].
      * cbn [fst] in H. apply lbind_In in H. destruct H as [r1 [H1 H2]].
        apply IH1 in H1. destruct H1 as [u [-> D1]]. apply IH1 in H2. destruct H2 as [v [-> D2]].
        exists (u ++ v). split; [rewrite app_assoc; reflexivity | constructor; assumption].
      * apply lunion_In in H. destruct H as [H|H]; apply IH1 in H; destruct H as [u [-> D]]; exists u; split; auto.
        apply DAltL; assumption. apply DAltR; assumption.
      * apply IH2 in H. destruct H as [x [u [[<-|[]] [-> D]]]]. exists u. split; auto.
      * destruct (p w) eqn:E; cbn in H; [|tauto]. destruct H as [<-|[]]. exists []. split; [reflexivity | constructor; exact E].
    + intros a F r H. rewrite lstar_S in H. destruct F as [|x0 F0]; [cbn in H; tauto|].
      set (F := x0 :: F0) in *. cbn [fst] in H. apply union_In in H. destruct H as [H|H].
      * exists r, []. split; [exact H | split; [reflexivity | constructor]].
      * apply IH2 in H. destruct H as [y [v [Hy [-> Dv]]]].
        apply lbind_In in Hy. destruct Hy as [x [Hx Hy]]. cbn [fst] in Hy.
        apply filter_In in Hy. destruct Hy as [Hy _]. apply IH1 in Hy. destruct Hy as [u [-> Du]].
        exists (u ++ v ++ r), (u ++ v). split; [exact Hx|]. split; [rewrite app_assoc; reflexivity|].
        constructor; assumption.
Qed.

Theorem ls_sound : forall f e w r, In r (fst (ls g f e w)) -> exists u, w = u ++ r /\ Der g e u r.
Proof. intros f. apply (sound_both f). Qed.

(* ---------------- stability: once the fuel did not run out, more fuel changes nothing ---------------- *)
Lemma stable_both : forall f,
  (forall e w, snd (ls g f e w) = false -> ls g (S f) e w = ls g f e w) /\
  (forall a F, snd (lstar g f a F) = false -> lstar g (S f) a F = lstar g f a F).
Proof.
  induction f as [|f [IH1 IH2]].
  - split; cbn; discriminate.
  - split.
    + intros e w H. rewrite (ls_S (S f)). rewrite ls_S in H. rewrite (ls_S f).
      destruct e as [|lo hi|n|a b|a b|a|p]; try reflexivity.
      * apply lalts_ext. intros e He. apply IH1. exact (proj1 (lalts_flag _ _ _) H e He).
      * cbn [snd] in H. apply orb_false_iff in H. destruct H as [Ha Hb].
        cbv zeta. rewrite (IH1 a w Ha).
        rewrite (lbind_ext (fst (ls g f a w)) (ls g (S f) b) (ls g f b)); [reflexivity|].
        intros r Hr. apply IH1. exact (proj1 (lbind_flag _ _) Hb r Hr).
      * apply lunion_flag in H. destruct H as [Ha Hb]. rewrite (IH1 a w Ha), (IH1 b w Hb). reflexivity.
      * apply IH2. exact H.
    + intros a F H. rewrite (lstar_S (S f)). rewrite lstar_S in H. rewrite (lstar_S f).
      destruct F as [|x0 F0]; [reflexivity|]. set (F := x0 :: F0) in *.
      cbv zeta in *. cbn [snd] in H. apply orb_false_iff in H. destruct H as [Ha Hb].
      assert (E : lbind F (fun x => (filter (shorter x) (fst (ls g (S f) a x)), snd (ls g (S f) a x)))
                = lbind F (fun x => (filter (shorter x) (fst (ls g f a x)), snd (ls g f a x)))).
      { apply lbind_ext. intros x Hx. rewrite IH1; [reflexivity|].
        exact (proj1 (lbind_flag _ _) Ha x Hx). }
      rewrite E. rewrite (IH2 a _ Hb). reflexivity.
Qed.

Lemma ls_stable : forall f f' e w, snd (ls g f e w) = false -> (f <= f')%nat -> ls g f' e w = ls g f e w.
Proof.
  intros f f' e w H Hle. induction Hle as [|f' Hle IH]; [reflexivity|].
  rewrite <- IH. apply (proj1 (stable_both f')). rewrite IH. exact H.
Qed.

(* ---------------- completeness, first with "enough fuel" ---------------- *)
Lemma complete_ex : forall e u r, Der g e u r ->
  (exists f0, forall f, (f0 <= f)%nat -> In r (fst (ls g f e (u ++ r)))) /\
  (forall a, e = AStar a -> exists f0, forall f, (f0 <= f)%nat -> forall F,
      In (u ++ r) F -> In r (fst (lstar g f a F))).
Proof.
  assert (star_first : forall a u r,
    (exists f0, forall f, (f0 <= f)%nat -> forall F, In (u ++ r) F -> In r (fst (lstar g f a F))) ->
    exists f0, forall f, (f0 <= f)%nat -> In r (fst (ls g f (AStar a) (u ++ r)))).
  { intros a u r [f0 H]. exists (S f0). intros f Hf. destruct f as [|f]; [lia|].
    rewrite ls_S. apply H; [lia | left; reflexivity]. }
  induction 1 as [r|lo hi c r H1 H2|n e w r Hin D IH|a b u v r Da IHa Db IHb|a b u r D IH|a b u r D IH|a r
                  |a u v r Da IHa Ds IHs|p r Hp].
  - split; [|discriminate]. exists 1%nat. intros f Hf. destruct f as [|f]; [lia|]. rewrite ls_S. left. reflexivity.
  - split; [|discriminate]. exists 1%nat. intros f Hf. destruct f as [|f]; [lia|]. rewrite ls_S. cbn [app].
    apply N.leb_le in H1. apply N.leb_le in H2. rewrite H1, H2. left. reflexivity.
  - split; [|discriminate]. destruct IH as [[f0 IH] _]. exists (S f0). intros f Hf.
    destruct f as [|f]; [lia|]. rewrite ls_S. apply lalts_In. exists e. split; [exact Hin | apply IH; lia].
  - split; [|discriminate]. destruct IHa as [[fa IHa] _]. destruct IHb as [[fb IHb] _].
    exists (S (Nat.max fa fb)). intros f Hf. destruct f as [|f]; [lia|]. rewrite ls_S. cbn [fst].
    apply lbind_In. exists (v ++ r). split.
    + rewrite <- app_assoc. apply IHa. lia.
    + apply IHb. lia.
  - split; [|discriminate]. destruct IH as [[f0 IH] _]. exists (S f0). intros f Hf.
    destruct f as [|f]; [lia|]. rewrite ls_S. apply lunion_In. left. apply IH. lia.
  - split; [|discriminate]. destruct IH as [[f0 IH] _]. exists (S f0). intros f Hf.
    destruct f as [|f]; [lia|]. rewrite ls_S. apply lunion_In. right. apply IH. lia.
  - assert (second : exists f0, forall f, (f0 <= f)%nat -> forall F,
               In ([] ++ r) F -> In r (fst (lstar g f a F))).
    { exists 1%nat. intros f Hf F Hin. destruct f as [|f]; [lia|]. rewrite lstar_S.
      destruct F as [|x0 F0]; [destruct Hin|]. cbn [fst]. apply union_In. left. exact Hin. }
    split; [apply star_first; exact second|]. intros a' E. inversion E; subst a'. exact second.
  - assert (second : exists f0, forall f, (f0 <= f)%nat -> forall F,
               In ((u ++ v) ++ r) F -> In r (fst (lstar g f a F))).
    { destruct IHa as [[fa IHa] _]. destruct IHs as [_ IHs]. destruct (IHs a eq_refl) as [fs IHs'].
      exists (S (Nat.max fa fs)). intros f Hf F Hin.
      destruct u as [|c u'].
      - cbn [app] in Hin. apply IHs'; [lia | exact Hin].
      - destruct f as [|f]; [lia|]. rewrite lstar_S. destruct F as [|x0 F0]; [destruct Hin|].
        set (F := x0 :: F0) in *. cbn [fst]. apply union_In. right.
        apply IHs'; [lia|]. apply lbind_In. exists (((c :: u') ++ v) ++ r). split; [exact Hin|].
        cbn [fst]. apply filter_In. split.
        + rewrite <- app_assoc. apply IHa. lia.
        + unfold shorter. apply Nat.ltb_lt. rewrite <- app_assoc. cbn [app length]. rewrite !app_length. lia. }
    split; [apply star_first; exact second|]. intros a' E. inversion E; subst a'. exact second.
  - split; [|discriminate]. exists 1%nat. intros f Hf. destruct f as [|f]; [lia|]. rewrite ls_S. cbn [app].
    rewrite Hp. left. reflexivity.
Qed.

Theorem ls_complete : forall f e w u r,
  snd (ls g f e w) = false -> Der g e u r -> w = u ++ r -> In r (fst (ls g f e w)).
Proof.
  intros f e w u r Hflag D ->. destruct (complete_ex e u r D) as [[f0 H] _].
  rewrite <- (ls_stable f (Nat.max f f0) e (u ++ r) Hflag (Nat.le_max_l _ _)).
  apply H. apply Nat.le_max_r.
Qed.

(* the recogniser decides derivability whenever it answers *)
Theorem recognise_correct : forall s w b, recognise g s w = Some b -> (b = true <-> Der g (ARef s) w []).
Proof.
  intros s w b. unfold recognise. set (r := ls g (ls_fuel w) (ARef s) w).
  destruct (snd r) eqn:Hflag; [discriminate|]. intros E. inversion E; subst b. clear E.
  rewrite mem_In. split.
  - intros H. apply ls_sound in H. destruct H as [u [E D]]. rewrite app_nil_r in E. subst u. exact D.
  - intros D. apply (ls_complete (ls_fuel w) (ARef s) w w []); auto. rewrite app_nil_r. reflexivity.
Qed.

End Proofs.
