(* Theorems about the GENERATED grammar (Generated/CddlPest.v = /repo/cddl.pest as translated on this run):
   - token classes: the PEG rule and the ABNF rule accept the same strings, for ALL strings over a stated alphabet
     up to a stated length (bounded-exhaustive, checked by vm_compute and lifted to a quantified statement; the
     ABNF side is lifted to the derivation relation by the recogniser's correctness theorem);
   - the control-operator names of the grammar are exactly the registered names;
   - witnesses of the known deviations, and of the refutation of full language equality.
   A change of cddl.pest that alters any of these facts breaks this file. *)
From Coq Require Import String Ascii Lia.
From Cddl Require Import Grammar.PegSyn Grammar.PegRun Grammar.Cfg Grammar.CfgProofs Grammar.Abnf8610 Grammar.Deviations
  Generated.CddlPest Grammar.Bridge Grammar.Tokens.
Open Scope N_scope.

(* ---- the depth-first enumeration covers every word over the alphabet up to the length ---- *)
Lemma forall_words_spec : forall sigma n p suffix,
  forall_words sigma n p suffix = true ->
  forall pre, Forall (fun c => In c sigma) pre -> (length pre <= n)%nat -> p (rev pre ++ suffix) = true.
Proof.
  intros sigma n p. induction n as [|n IH]; intros suffix H pre Hpre Hlen; cbn [forall_words] in H;
    apply andb_true_iff in H; destruct H as [H0 H1].
  - destruct pre; [exact H0 | cbn in Hlen; lia].
  - destruct pre as [|c pre]; [exact H0|].
    inversion Hpre as [|c' pre' Hc Hrest]; subst.
    rewrite forallb_forall in H1. specialize (H1 c Hc).
    cbn [rev]. rewrite <- app_assoc. cbn [app].
    apply (IH (c :: suffix) H1 pre Hrest). cbn in Hlen. lia.
Qed.

Lemma forall_words_all : forall sigma n p,
  forall_words sigma n p [] = true ->
  forall w, Forall (fun c => In c sigma) w -> (length w <= n)%nat -> p w = true.
Proof.
  intros sigma n p H w Hw Hlen.
  pose proof (forall_words_spec sigma n p [] H (rev w)) as X.
  rewrite rev_involutive, app_nil_r in X. apply X.
  - apply Forall_rev. exact Hw.
  - rewrite rev_length. exact Hlen.
Qed.

(* the kernel must not unfold the interpreters along their (large, unary) fuel when it compares terms;
   vm_compute is not affected by opacity *)
Opaque fuel_for ls_fuel peg_matches recognise peg_parse.

Lemma both_some : forall (oa ob : option bool),
  match oa, ob with Some a, Some b => Bool.eqb a b | _, _ => false end = true ->
  exists a, oa = Some a /\ ob = Some a.
Proof.
  intros [a|] [b|] H; try discriminate. apply Bool.eqb_prop in H. subst b. exists a. split; reflexivity.
Qed.

(* agreement of the two boolean procedures, lifted to "PEG rule matches the whole string <-> the ABNF derives it" *)
Lemma agree_iff : forall r g nt w, agree r g nt w = true ->
  (peg_matches cddl_pest r w = Some true <-> Der g (ARef nt) w []).
Proof.
  intros r g nt w H. unfold agree in H. apply both_some in H. destruct H as [a [Ea Eb]].
  pose proof (recognise_correct g nt w a Eb) as C. rewrite Ea.
  split.
  - intros E. inversion E; subst a. apply C. reflexivity.
  - intros D. apply C in D. subst a. reflexivity.
Qed.

Lemma agree_upto_iff : forall r g nt sigma n, agree_upto r g nt sigma n = true ->
  forall w, Forall (fun c => In c sigma) w -> (length w <= n)%nat ->
  (peg_matches cddl_pest r w = Some true <-> Der g (ARef nt) w []).
Proof.
  intros r g nt sigma n H w Hw Hlen. apply agree_iff.
  exact (forall_words_all sigma n (agree r g nt) H w Hw Hlen).
Qed.

Lemma agree_all_iff : forall r g nt ws, agree_all r g nt ws = true ->
  forall w, In w ws -> (peg_matches cddl_pest r w = Some true <-> Der g (ARef nt) w []).
Proof.
  intros r g nt ws H w Hin. apply agree_iff. unfold agree_all in H. rewrite forallb_forall in H. exact (H w Hin).
Qed.

(* ---- token classes without a known deviation: PEG rule = RFC rule (tokenised reading) ---- *)
Theorem uint_lang_eq_bounded : forall w, Forall (fun c => In c sig_uint) w -> (length w <= 3)%nat ->
  (peg_matches cddl_pest r_uint_value w = Some true <-> Der abnf_spec (ARef n_uint) w []).
Proof. apply agree_upto_iff. vm_compute. reflexivity. Qed.

Theorem occur_lang_eq_bounded : forall w, Forall (fun c => In c sig_occur) w -> (length w <= 3)%nat ->
  (peg_matches cddl_pest r_occur w = Some true <-> Der abnf_spec (ARef n_occur) w []).
Proof. apply agree_upto_iff. vm_compute. reflexivity. Qed.

(* ---- token classes with known deviations: PEG rule = RFC rule with exactly those deviations switched on ---- *)
Theorem number_lang_eq_bounded : forall w, Forall (fun c => In c sig_number) w -> (length w <= 3)%nat ->
  (peg_matches cddl_pest r_number w = Some true <-> Der g_number (ARef n_number) w []).
Proof. apply agree_upto_iff. vm_compute. reflexivity. Qed.

Theorem id_lang_eq_bounded : forall w, Forall (fun c => In c sig_id) w -> (length w <= 3)%nat ->
  (peg_matches cddl_pest r_id w = Some true <-> Der g_id (ARef n_idns) w []).
Proof. apply agree_upto_iff. vm_compute. reflexivity. Qed.

Theorem text_lang_eq_bounded : forall w, Forall (fun c => In c sig_text) w -> (length w <= 3)%nat ->
  (peg_matches cddl_pest r_text_value w = Some true <-> Der g_text (ARef n_text) w []).
Proof. apply agree_upto_iff. vm_compute. reflexivity. Qed.

Theorem text_escapes_lang_eq : forall w, In w text_probe ->
  (peg_matches cddl_pest r_text_value w = Some true <-> Der g_text (ARef n_text) w []).
Proof. apply agree_all_iff. vm_compute. reflexivity. Qed.

Theorem bytes_lang_eq_bounded : forall w, Forall (fun c => In c sig_bytes) w -> (length w <= 3)%nat ->
  (peg_matches cddl_pest r_bytes_value w = Some true <-> Der g_bytes (ARef n_bytes) w []).
Proof. apply agree_upto_iff. vm_compute. reflexivity. Qed.

Theorem bytes_probe_lang_eq : forall w, In w bytes_probe ->
  (peg_matches cddl_pest r_bytes_value w = Some true <-> Der g_bytes (ARef n_bytes) w []).
Proof. apply agree_all_iff. vm_compute. reflexivity. Qed.

(* blanks and comments, as whole documents (covers tab, a final comment without line break, lone CR) *)
Theorem blank_lang_eq_bounded : forall w, Forall (fun c => In c sig_blank) w -> (length w <= 3)%nat ->
  (peg_matches cddl_pest r_cddl w = Some true <-> Der g_blank (ARef n_cddl) w []).
Proof. apply agree_upto_iff. vm_compute. reflexivity. Qed.

(* ---- control operators ---- *)
Theorem control_names_ok : same_set generated_control_names (map s2n registered_controls) = true.
Proof. vm_compute. reflexivity. Qed.

Theorem control_op_lang_eq : forall w, In w ctl_probe ->
  (peg_matches cddl_pest r_control_op w = Some true <-> Der g_ctl (ARef n_ctlop) w []).
Proof. apply agree_all_iff. vm_compute. reflexivity. Qed.

(* every registered name is accepted as a whole control operator (".cborseq" included, since 8d55c20) *)
Theorem control_names_reachable :
  forallb (fun n => match peg_matches cddl_pest r_control_op (46 :: s2n n) with
                    | Some b => b
                    | None => false
                    end) registered_controls = true.
Proof. vm_compute. reflexivity. Qed.

(* ---- refutations against the RFC rules themselves ---- *)
Lemma recognise_false : forall g s w, recognise g s w = Some false -> ~ Der g (ARef s) w [].
Proof. intros g s w H D. apply (recognise_correct g s w false H) in D. discriminate. Qed.
Lemma recognise_true : forall g s w, recognise g s w = Some true -> Der g (ARef s) w [].
Proof. intros g s w H. apply (recognise_correct g s w true H). reflexivity. Qed.

Theorem id_lang_refuted : exists w, peg_matches cddl_pest r_id w = Some false /\ Der abnf_spec (ARef n_id) w [].
Proof. exists (s2n "a--b"). split; [vm_compute; reflexivity | apply recognise_true; vm_compute; reflexivity]. Qed.

Theorem text_lang_refuted : exists w, peg_matches cddl_pest r_text_value w = Some true /\ ~ Der abnf_spec (ARef n_text) w [].
Proof. exists (s2n """\ud800"""). split; [vm_compute; reflexivity | apply recognise_false; vm_compute; reflexivity]. Qed.

Theorem bytes_lang_refuted : exists w, peg_matches cddl_pest r_bytes_value w = Some false /\ Der abnf_spec (ARef n_bytes) w [].
Proof. exists (s2n "'it\'s'"). split; [vm_compute; reflexivity | apply recognise_true; vm_compute; reflexivity]. Qed.

Theorem number_lang_refuted : exists w, peg_matches cddl_pest r_number w = Some false /\ Der abnf_spec (ARef n_number) w [].
Proof. exists (s2n "0b1.5"). split; [vm_compute; reflexivity | apply recognise_true; vm_compute; reflexivity]. Qed.

(* ---- whole documents ---- *)
(* every listed deviation has a witness: the crate model and the specification disagree on it, and switching that one
   deviation on in the specification grammar restores agreement *)
Theorem deviation_witnesses_ok : forallb witness_ok deviation_witnesses = true.
Proof. vm_compute. reflexivity. Qed.

(* C03, language part, is FALSE of the model (and of the crate: the witnesses are replayed on the real parser by
   the check): a text the crate model accepts and the ABNF does not derive, and one the other way round *)
Theorem language_refuted :
  (exists w, model_accepts w = Some true /\ ~ Der abnf_spec (ARef n_cddl) w []) /\
  (exists w, model_accepts w = Some false /\ Der abnf_spec (ARef n_cddl) w []).
Proof.
  split.
  - exists (s2n "a = #1(int)"). split; [vm_compute; reflexivity | apply recognise_false; vm_compute; reflexivity].
  - exists (s2n "a = [(a) .size 3]"). split; [vm_compute; reflexivity | apply recognise_true; vm_compute; reflexivity].
Qed.

(* ... and what does hold in a small scope: on every string of at most 3 characters over the alphabet "a=/(:1 $"
   the crate model accepts exactly what the ABNF with ALL known deviations switched on derives *)
Theorem language_small_scope : forall w, Forall (fun c => In c sig_doc) w -> (length w <= 3)%nat ->
  (model_accepts w = Some true <-> Der (variant all_deviations) (ARef n_cddl) w []).
Proof.
  assert (H : forall_words sig_doc 3 lang_agree [] = true) by (vm_compute; reflexivity).
  intros w Hw Hlen. pose proof (forall_words_all sig_doc 3 lang_agree H w Hw Hlen) as A.
  unfold lang_agree, variant_accepts in A. apply both_some in A. destruct A as [a [Ea Eb]].
  pose proof (recognise_correct _ _ _ _ Eb) as C. rewrite Ea. split.
  - intros E. inversion E; subst a. apply C. reflexivity.
  - intros D. apply C in D. subst a. reflexivity.
Qed.

(* non-vacuity: a document with generics, a map with all member-key forms, occurrences and a control operator
   is accepted by the PEG model and derivable from the ABNF *)
Definition example_doc : list N := s2n "m<k> = {* k => any, ? a: int .size 2, 1: [2*3 tstr]}".
Example example_accepted : model_accepts example_doc = Some true /\ Der abnf_spec (ARef n_cddl) example_doc [].
Proof. split; [vm_compute; reflexivity | apply recognise_true; vm_compute; reflexivity]. Qed.
