(* The ABNF of RFC 8610 Appendix B as updated by RFC 9682 (collected grammar of its Appendix A), as a
   context-free grammar in the embedding of Cfg.v - the auditable SPECIFICATION side of C03.
   It does not mention the crate's grammar.  Conventions:
   * one Coq definition per ABNF rule, in the order of the RFC; [L "..."] is an ABNF quoted string
     (case-insensitive, RFC 5234 2.3), [X [..]] is a %x.. terminal (exact);
   * `ctlop = "." id` is restricted to the control-operator names the crate registers
     (src/token.rs lookup_control_from_str, all features) - [registered_controls] below;
   * the four leniencies documented by /repo/cddl.pest are separate, flagged productions ([leniencies]);
     [abnf8610] = RFC rules only, [abnf_lenient] = RFC rules + leniencies (the language C03 talks about).
   No proofs here. *)
From Coq Require Import String Ascii.
From Cddl Require Import Grammar.Cfg.
Open Scope N_scope.

Definition s2n (s : string) : list N := map N_of_ascii (list_ascii_of_string s).
Definition L (s : string) : aexp := AStr (s2n s).        (* "..."  case-insensitive ABNF literal *)
Definition X (s : string) : aexp := AStrX (s2n s).       (* exact characters *)

(* rule names *)
Definition n_cddl := 0.        Definition n_rule := 1.        Definition n_typename := 2.    Definition n_groupname := 3.
Definition n_assignt := 4.     Definition n_assigng := 5.     Definition n_genericparm := 6. Definition n_genericarg := 7.
Definition n_type := 8.        Definition n_type1 := 9.       Definition n_type2 := 10.      Definition n_headnumber := 11.
Definition n_rangeop := 12.    Definition n_ctlop := 13.      Definition n_group := 14.      Definition n_grpchoice := 15.
Definition n_grpent := 16.     Definition n_memberkey := 17.  Definition n_bareword := 18.   Definition n_optcom := 19.
Definition n_occur := 20.      Definition n_uint := 21.       Definition n_value := 22.      Definition n_int := 23.
Definition n_number := 24.     Definition n_hexfloat := 25.   Definition n_fraction := 26.   Definition n_exponent := 27.
Definition n_text := 28.       Definition n_SCHAR := 29.      Definition n_SESC := 30.       Definition n_hexchar := 31.
Definition n_nonsurrogate := 32. Definition n_highsurrogate := 33. Definition n_lowsurrogate := 34. Definition n_hexscalar := 35.
Definition n_bytes := 36.      Definition n_BCHAR := 37.      Definition n_bsqual := 38.     Definition n_id := 39.
Definition n_ALPHA := 40.      Definition n_EALPHA := 41.     Definition n_DIGIT := 42.      Definition n_DIGIT1 := 43.
Definition n_HEXDIG := 44.     Definition n_HEXDIG1 := 45.    Definition n_BINDIG := 46.     Definition n_S := 47.
Definition n_WS := 48.         Definition n_SP := 49.         Definition n_NL := 50.         Definition n_COMMENT := 51.
Definition n_PCHAR := 52.      Definition n_NONASCII := 53.   Definition n_CRLF := 54.
Definition n_HQCHAR := 60.     (* leniency h"..." only *)

Definition R := ARef.
Definition S_ := R n_S.

(* control operators registered by the crate (token.rs lookup_control_from_str; RFC 8610 3.8, RFC 9165, RFC 9741,
   draft-bormann-cbor-cddl-freezer) - the property limits ctlop to these *)
Definition registered_controls : list string := [
  "size"; "bits"; "regexp"; "cbor"; "cborseq"; "within"; "and"; "lt"; "le"; "gt"; "ge"; "eq"; "ne"; "default";
  "pcre"; "iregexp"; "bitfield"; "cat"; "det"; "plus"; "abnf"; "abnfb"; "feature";
  "b64u"; "b64c"; "b64u-sloppy"; "b64c-sloppy"; "hex"; "hexlc"; "hexuc"; "b32"; "h32"; "b45"; "base10";
  "printf"; "json"; "join" ]%string.

(* Tokenisation convention (RFC 8610 Appendix B, comment on type1: "space may be needed before the operator if
   type2 ends in a name"; section 3.1 treats names as tokens): a name extends as far as it can.  With [tok = true]
   an `id` - and the name of a control operator - must not be FOLLOWED by text that would continue it, i.e. by
   EALPHA / DIGIT, or by 1*("-" / ".") and then EALPHA / DIGIT.  [abnf8610] is the literal ABNF (tok = false). *)
Definition is_ealpha (c : N) : bool :=
  ((65 <=? c) && (c <=? 90)) || ((97 <=? c) && (c <=? 122)) || (c =? 64) || (c =? 95) || (c =? 36).
Definition is_digit (c : N) : bool := (48 <=? c) && (c <=? 57).
Fixpoint skip_dash_dot (r : list N) : list N :=
  match r with c :: r' => if (c =? 45) || (c =? 46) then skip_dash_dot r' else r | [] => [] end.
Definition name_continues (r : list N) : bool :=
  match skip_dash_dot r with c :: _ => is_ealpha c || is_digit c | [] => false end.
Definition name_boundary (r : list N) : bool := negb (name_continues r).


(* ... and so does a number (within the number / uint / occur productions): "0b1" is not "0" followed by the name
   "b1", "-0x1p-2" is not "-0x1" followed by "p-2", and in "*0" the digit belongs to the occurrence indicator.
   A number may still be FOLLOWED by a name ("[1a]", "[042]" are derivable and the crate documents that it
   accepts them); only the choice among the prefixes that are themselves numbers is fixed: the longest. *)
Definition is_hex (c : N) : bool := is_digit c || ((65 <=? c) && (c <=? 70)) || ((97 <=? c) && (c <=? 102)).
Definition is_bin (c : N) : bool := (c =? 48) || (c =? 49).
Definition starts (p : N -> bool) (r : list N) : bool := match r with c :: _ => p c | [] => false end.
Definition radix_follows (r : list N) : bool :=
  match r with
  | c :: d :: _ => (((c =? 120) || (c =? 88)) && is_hex d) || (((c =? 98) || (c =? 66)) && is_bin d)
  | _ => false
  end.
Definition frac_follows (r : list N) : bool := match r with 46 :: d :: _ => is_digit d | _ => false end.
Definition exp_after (lo up : N) (r : list N) : bool :=      (* e/E (or p/P), optional sign, a digit *)
  match r with
  | c :: d :: r' => ((c =? lo) || (c =? up)) && (is_digit d || (((d =? 43) || (d =? 45)) && starts is_digit r'))
  | _ => false
  end.
Definition exp_follows : list N -> bool := exp_after 101 69.
Fixpoint skip_hex (r : list N) : list N := match r with c :: r' => if is_hex c then skip_hex r' else r | [] => [] end.
Definition hexfloat_tail (r : list N) : bool :=             (* ["." 1*HEXDIG] "p" exponent follows *)
  match r with
  | 46 :: r' => starts is_hex r' && exp_after 112 80 (skip_hex r')
  | _ => exp_after 112 80 r
  end.
Definition nlook (tok : bool) (p : list N -> bool) : aexp := if tok then ALook (fun r => negb (p r)) else AEps.

Definition n_hexint := 61.    (* tokenised reading only *)
Definition n_otherint := 62.
Definition n_notbytes := 63.
Definition n_hashany := 64.
Definition n_tag := 65.       (* the three "#" DIGIT alternatives of type2, under one name *)

(* ... and so does a byte string: where a type or group entry starts with h or b64 immediately followed by a single
   quote (or h and a double quote, the documented leniency), that is the beginning of a byte string literal, not
   the name h / b64 followed by a quoted string *)
Definition bytes_prefix (ci : bool) (r : list N) : bool :=
  let eqc (c x : N) := (c =? x) || (ci && (c + 32 =? x)) in
  match r with
  | c :: 39 :: _ => eqc c 104
  | c :: 34 :: _ => c =? 104
  | c :: 54 :: 52 :: 39 :: _ => eqc c 98
  | _ => false
  end.

Definition abnf8610_gen (tok : bool) : cfg :=
  let boundary := if tok then ALook name_boundary else AEps in
  let nd := nlook tok (starts is_digit) in
  let greedy (e : aexp) (follows : list N -> bool) := if tok then AAlt e (ALook (fun r => negb (follows r))) else AOpt e in [
  (* cddl = S *(rule S)                                             RFC 9682 3.1: empty documents allowed *)
  (n_cddl, ASeqs [S_; AStar (ASeqs [R n_rule; S_])]);
  (* rule = typename [genericparm] S assignt S type
          / groupname [genericparm] S assigng S grpent *)
  (n_rule, AAlts [ASeqs [R n_typename; AOpt (R n_genericparm); S_; R n_assignt; S_; R n_type];
                  ASeqs [R n_groupname; AOpt (R n_genericparm); S_; R n_assigng; S_; R n_grpent]]);
  (* typename = id      groupname = id *)
  (n_typename, R n_id);
  (n_groupname, R n_id);
  (* assignt = "=" / "/="      assigng = "=" / "//=" *)
  (n_assignt, AAlts [L "="; L "/="]);
  (n_assigng, AAlts [L "="; L "//="]);
  (* genericparm = "<" S id S *("," S id S ) ">" *)
  (n_genericparm, ASeqs [L "<"; S_; R n_id; S_; AStar (ASeqs [L ","; S_; R n_id; S_]); L ">"]);
  (* genericarg = "<" S type1 S *("," S type1 S ) ">" *)
  (n_genericarg, ASeqs [L "<"; S_; R n_type1; S_; AStar (ASeqs [L ","; S_; R n_type1; S_]); L ">"]);
  (* type = type1 *(S "/" S type1) *)
  (n_type, ASeqs [R n_type1; AStar (ASeqs [S_; L "/"; S_; R n_type1])]);
  (* type1 = type2 [S (rangeop / ctlop) S type2] *)
  (n_type1, ASeqs [R n_type2; AOpt (ASeqs [S_; AAlts [R n_rangeop; R n_ctlop]; S_; R n_type2])]);
  (* type2 = value / typename [genericarg] / "(" S type S ")" / "{" S group S "}" / "[" S group S "]"
           / "~" S typename [genericarg] / "&" S "(" S group S ")" / "&" S groupname [genericarg]
           / "#" "6" ["." head-number] "(" S type S ")"                RFC 9682 3.2
           / "#" "7" ["." head-number]                                 RFC 9682 3.2
           / "#" DIGIT ["." uint]                ; major/ai
           / "#"                                 ; any *)
  (n_type2, AAlts [R n_value;
                   ASeqs [R n_notbytes; R n_typename; AOpt (R n_genericarg)];
                   ASeqs [L "("; S_; R n_type; S_; L ")"];
                   ASeqs [L "{"; S_; R n_group; S_; L "}"];
                   ASeqs [L "["; S_; R n_group; S_; L "]"];
                   ASeqs [L "~"; S_; R n_typename; AOpt (R n_genericarg)];
                   ASeqs [L "&"; S_; L "("; S_; R n_group; S_; L ")"];
                   ASeqs [L "&"; S_; R n_groupname; AOpt (R n_genericarg)];
                   R n_tag;       (* the three "#" DIGIT alternatives, see n_tag below *)
                   R n_hashany]);
  (* head-number = uint / ("<" type ">")                            RFC 9682 3.2 *)
  (n_headnumber, AAlts [R n_uint; ASeqs [L "<"; R n_type; L ">"]]);
  (* rangeop = "..." / ".." *)
  (n_rangeop, AAlts [L "..."; L ".."]);
  (* ctlop = "." id      - restricted to the registered names (exact, lower case) *)
  (n_ctlop, ASeqs [L "."; AAlts (map X registered_controls); boundary]);
  (* group = grpchoice *(S "//" S grpchoice) *)
  (n_group, ASeqs [R n_grpchoice; AStar (ASeqs [S_; L "//"; S_; R n_grpchoice])]);
  (* grpchoice = *(grpent optcom) *)
  (n_grpchoice, AStar (ASeqs [R n_grpent; R n_optcom]));
  (* grpent = [occur S] [memberkey S] type
            / [occur S] groupname [genericarg]  ; preempted by above
            / [occur S] "(" S group S ")" *)
  (n_grpent, AAlts [ASeqs [AOpt (ASeqs [R n_occur; S_]); AOpt (ASeqs [R n_memberkey; S_]); R n_type];
                    ASeqs [AOpt (ASeqs [R n_occur; S_]); R n_notbytes; R n_groupname; AOpt (R n_genericarg)];
                    ASeqs [AOpt (ASeqs [R n_occur; S_]); L "("; S_; R n_group; S_; L ")"]]);
  (* memberkey = type1 S ["^" S] "=>" / bareword S ":" / value S ":" *)
  (n_memberkey, AAlts [ASeqs [R n_type1; S_; AOpt (ASeqs [L "^"; S_]); L "=>"];
                       ASeqs [R n_bareword; S_; L ":"];
                       ASeqs [R n_value; S_; L ":"]]);
  (* bareword = id *)
  (n_bareword, R n_id);
  (* optcom = S ["," S] *)
  (n_optcom, ASeqs [S_; AOpt (ASeqs [L ","; S_])]);
  (* occur = [uint] "*" [uint] / "+" / "?" *)
  (n_occur, AAlts [ASeqs [AOpt (R n_uint); L "*"; greedy (R n_uint) (starts is_digit)]; L "+"; L "?"]);
  (* uint = DIGIT1 *DIGIT / "0x" 1*HEXDIG / "0b" 1*BINDIG / "0" *)
  (n_uint, AAlts [ASeqs [R n_DIGIT1; AStar (R n_DIGIT); nd]; ASeqs [L "0x"; APlus (R n_HEXDIG); nlook tok (starts is_hex)];
                  ASeqs [L "0b"; APlus (R n_BINDIG); nlook tok (starts is_bin)]; ASeqs [L "0"; nlook tok radix_follows]]);
  (* value = number / text / bytes *)
  (n_value, AAlts [R n_number; R n_text; R n_bytes]);
  (* int = ["-"] uint *)
  (n_int, ASeqs [AOpt (L "-"); R n_uint]);
  (* number = hexfloat / (int ["." fraction] ["e" exponent ]) *)
  (n_number,
     let tail := ASeqs [greedy (ASeqs [L "."; R n_fraction]) frac_follows; greedy (ASeqs [L "e"; R n_exponent]) exp_follows] in
     if tok then AAlts [R n_hexfloat; ASeqs [R n_hexint; tail]; ASeqs [R n_otherint; tail]]
     else AAlts [R n_hexfloat; ASeqs [R n_int; tail]]);
  (* tokenised reading: int split by radix, so that "0x1p3" / "0x1.8p3" can only be read as hexfloat *)
  (n_hexint, ASeqs [AOpt (L "-"); L "0x"; APlus (R n_HEXDIG); nlook tok (starts is_hex); nlook tok hexfloat_tail]);
  (n_otherint, ASeqs [AOpt (L "-"); AAlts [ASeqs [R n_DIGIT1; AStar (R n_DIGIT); nd];
                                           ASeqs [L "0b"; APlus (R n_BINDIG); nlook tok (starts is_bin)];
                                           ASeqs [L "0"; nlook tok radix_follows]]]);
  (* hexfloat = ["-"] "0x" 1*HEXDIG ["." 1*HEXDIG] "p" exponent *)
  (n_hexfloat, ASeqs [AOpt (L "-"); L "0x"; APlus (R n_HEXDIG); AOpt (ASeqs [L "."; APlus (R n_HEXDIG)]); L "p"; R n_exponent]);
  (* fraction = 1*DIGIT      exponent = ["+"/"-"] 1*DIGIT *)
  (n_fraction, ASeqs [APlus (R n_DIGIT); nd]);
  (n_exponent, ASeqs [AOpt (AAlts [L "+"; L "-"]); APlus (R n_DIGIT); nd]);
  (* text = %x22 *SCHAR %x22 *)
  (n_text, ASeqs [AChr 34; AStar (R n_SCHAR); AChr 34]);
  (* SCHAR = %x20-21 / %x23-5B / %x5D-7E / NONASCII / SESC          RFC 9682 2.1.1 *)
  (n_SCHAR, AAlts [ARng 32 33; ARng 35 91; ARng 93 126; R n_NONASCII; R n_SESC]);
  (* SESC = "\" ( %x22 / "/" / "\" / %x62 / %x66 / %x6E / %x72 / %x74 / (%x75 hexchar) )      RFC 9682 2.1.1 *)
  (n_SESC, ASeqs [AChr 92; AAlts [AChr 34; AChr 47; AChr 92; AChr 98; AChr 102; AChr 110; AChr 114; AChr 116;
                                  ASeqs [AChr 117; R n_hexchar]]]);
  (* hexchar = "{" (1*"0" [ hexscalar ] / hexscalar) "}" / non-surrogate / (high-surrogate "\" %x75 low-surrogate) *)
  (n_hexchar, AAlts [ASeqs [L "{"; AAlts [ASeqs [APlus (L "0"); AOpt (R n_hexscalar)]; R n_hexscalar]; L "}"];
                     R n_nonsurrogate;
                     ASeqs [R n_highsurrogate; AChr 92; AChr 117; R n_lowsurrogate]]);
  (* non-surrogate = ((DIGIT / "A"/"B"/"C" / "E"/"F") 3HEXDIG) / ("D" %x30-37 2HEXDIG ) *)
  (n_nonsurrogate, AAlts [ASeqs [AAlts [R n_DIGIT; L "A"; L "B"; L "C"; L "E"; L "F"]; ARepN 3 (R n_HEXDIG)];
                          ASeqs [L "D"; ARng 48 55; ARepN 2 (R n_HEXDIG)]]);
  (* high-surrogate = "D" ("8"/"9"/"A"/"B") 2HEXDIG      low-surrogate = "D" ("C"/"D"/"E"/"F") 2HEXDIG *)
  (n_highsurrogate, ASeqs [L "D"; AAlts [L "8"; L "9"; L "A"; L "B"]; ARepN 2 (R n_HEXDIG)]);
  (n_lowsurrogate, ASeqs [L "D"; AAlts [L "C"; L "D"; L "E"; L "F"]; ARepN 2 (R n_HEXDIG)]);
  (* hexscalar = "10" 4HEXDIG / HEXDIG1 4HEXDIG / non-surrogate / 1*3HEXDIG *)
  (n_hexscalar, AAlts [ASeqs [L "10"; ARepN 4 (R n_HEXDIG)]; ASeqs [R n_HEXDIG1; ARepN 4 (R n_HEXDIG)];
                       R n_nonsurrogate;
                       ASeqs [R n_HEXDIG; AOpt (ASeqs [R n_HEXDIG; AOpt (R n_HEXDIG)])]]);
  (* bytes = [bsqual] %x27 *BCHAR %x27 *)
  (n_bytes, ASeqs [AOpt (R n_bsqual); AChr 39; AStar (R n_BCHAR); AChr 39]);
  (* BCHAR = %x20-26 / %x28-5B / %x5D-7E / NONASCII / SESC / "\'" / CRLF          RFC 9682 2.1.2 *)
  (n_BCHAR, AAlts [ARng 32 38; ARng 40 91; ARng 93 126; R n_NONASCII; R n_SESC; ASeqs [AChr 92; AChr 39]; R n_CRLF]);
  (* bsqual = "h" / "b64" *)
  (n_bsqual, AAlts [L "h"; L "b64"]);
  (* id = EALPHA *( *("-" / ".") (EALPHA / DIGIT)) *)
  (n_id, ASeqs [R n_EALPHA; AStar (ASeqs [AStar (AAlts [L "-"; L "."]); AAlts [R n_EALPHA; R n_DIGIT]]); boundary]);
  (* ALPHA = %x41-5A / %x61-7A      EALPHA = ALPHA / "@" / "_" / "$" *)
  (n_ALPHA, AAlts [ARng 65 90; ARng 97 122]);
  (n_EALPHA, AAlts [R n_ALPHA; L "@"; L "_"; L "$"]);
  (* DIGIT = %x30-39   DIGIT1 = %x31-39   HEXDIG = DIGIT / "A" / "B" / "C" / "D" / "E" / "F"   BINDIG = %x30-31 *)
  (n_DIGIT, ARng 48 57);
  (n_DIGIT1, ARng 49 57);
  (n_HEXDIG, AAlts [R n_DIGIT; L "A"; L "B"; L "C"; L "D"; L "E"; L "F"]);
  (n_HEXDIG1, AAlts [R n_DIGIT1; L "A"; L "B"; L "C"; L "D"; L "E"; L "F"]);
  (n_BINDIG, ARng 48 49);
  (* S = *WS     WS = SP / NL     SP = %x20     NL = COMMENT / CRLF *)
  (n_S, AStar (R n_WS));
  (n_WS, AAlts [R n_SP; R n_NL]);
  (n_SP, AChr 32);
  (n_NL, AAlts [R n_COMMENT; R n_CRLF]);
  (* COMMENT = ";" *PCHAR CRLF     PCHAR = %x20-7E / NONASCII *)
  (n_COMMENT, ASeqs [L ";"; AStar (R n_PCHAR); R n_CRLF]);
  (n_PCHAR, AAlts [ARng 32 126; R n_NONASCII]);
  (* NONASCII = %xA0-D7FF / %xE000-10FFFD                           RFC 9682 2.1 *)
  (n_NONASCII, AAlts [ARng 160 55295; ARng 57344 1114109]);
  (* CRLF = %x0A / %x0D.0A *)
  (n_CRLF, AAlts [AChr 10; ASeqs [AChr 13; AChr 10]]);
  (* "#" "6" ["." head-number] "(" S type S ")" / "#" "7" ["." head-number] / "#" DIGIT ["." uint] *)
  (n_tag, AAlts [ASeqs [L "#"; L "6"; AOpt (ASeqs [L "."; R n_headnumber]); L "("; S_; R n_type; S_; L ")"];
                 ASeqs [L "#"; L "7"; AOpt (ASeqs [L "."; R n_headnumber])];
                 ASeqs [L "#"; R n_DIGIT; AOpt (ASeqs [L "."; R n_uint])]]);
  (* "#" ; any - tokenised reading: "#6" is not "#" followed by "6" *)
  (n_hashany, ASeqs [L "#"; nd]);
  (* (tokenised reading only) not the start of a byte string literal *)
  (n_notbytes, if tok then ALook (fun r => negb (bytes_prefix true r)) else AEps)
].

(* The leniencies /repo/cddl.pest documents, each as an extra production ("=/") for an RFC rule name: *)
Definition len_tab : cfg :=            (* WHITESPACE = " " | "\t" ...      : tab as whitespace *)
  [(n_WS, AChr 9)].
Definition len_final_comment : cfg :=  (* COMMENT = ";" (!NEWLINE ANY)*    : a final comment needs no line break *)
  [(n_cddl, ASeqs [S_; AStar (ASeqs [R n_rule; S_]); L ";"; AStar (R n_PCHAR)])].
Definition len_h_quoted : cfg :=       (* bytes_h_quoted: h"text" - hex-quoted form *)
  [(n_bytes, ASeqs [AChr 104; AChr 34; AStar (R n_HQCHAR); AChr 34]);
   (n_HQCHAR, AAlts [ARng 0 33; ARng 35 1114111])].
Definition len_hash_paren : cfg :=     (* tag_expr second alternative: #(type) *)
  [(n_type2, ASeqs [L "#"; L "("; S_; R n_type; S_; L ")"])].
Definition leniencies : cfg := len_tab ++ len_final_comment ++ len_h_quoted ++ len_hash_paren.

Definition abnf8610 : cfg := abnf8610_gen false.               (* the literal ABNF *)
Definition abnf_lenient : cfg := abnf8610 ++ leniencies.        (* ... + documented leniencies *)
Definition abnf_spec : cfg := abnf8610_gen true ++ leniencies.  (* ... read with names as maximal tokens: the C03 language *)

Definition rfc_accepts (w : list N) : option bool := recognise abnf8610 n_cddl w.
Definition lenient_accepts (w : list N) : option bool := recognise abnf_lenient n_cddl w.
Definition spec_accepts (w : list N) : option bool := recognise abnf_spec n_cddl w.
