(* Deep embedding of the pest grammar language (the subset cddl.pest uses, plus the common ASCII builtins).
   Generated/CddlPest.v (written by gen/pest2coq.py from /repo/cddl.pest) is a value of [pgrammar].
   No proofs here. *)
From Coq Require Export List NArith Bool.
Export ListNotations.
Open Scope N_scope.

(* rule modifiers:  r = { .. }   r = _{ .. }   r = @{ .. }   r = ${ .. }   r = !{ .. } *)
Inductive modifier := MNormal | MSilent | MAtomic | MCompound | MNonAtomic.

Inductive builtin :=
| BSOI | BEOI | BANY
| BASCII_DIGIT | BASCII_NONZERO_DIGIT | BASCII_BIN_DIGIT | BASCII_OCT_DIGIT | BASCII_HEX_DIGIT
| BASCII_ALPHA_LOWER | BASCII_ALPHA_UPPER | BASCII_ALPHA | BASCII_ALPHANUMERIC | BASCII | BNEWLINE.

(* characters are Unicode scalar values (N); positions reported by the interpreter are UTF-8 byte offsets *)
Inductive pexpr :=
| PStr (s : list N)              (* "abc"                       *)
| PIStr (s : list N)             (* ^"abc"  ASCII case-insensitive *)
| PRange (lo hi : N)             (* 'a'..'z'                    *)
| PRef (r : N)                   (* rule reference (rule id)    *)
| PBuiltin (b : builtin)
| PSeq (a b : pexpr)             (* a ~ b                       *)
| PAlt (a b : pexpr)             (* a | b   ordered             *)
| PStar (a : pexpr)              (* a*                          *)
| PPlus (a : pexpr)              (* a+                          *)
| POpt (a : pexpr)               (* a?                          *)
| PRep (n : nat) (a : pexpr)     (* a{n}                        *)
| PAnd (a : pexpr)               (* &a                          *)
| PNot (a : pexpr).              (* !a                          *)

Record pgrammar := {
  pg_rules : list (N * modifier * pexpr);
  pg_ws : option N;          (* id of WHITESPACE, when defined *)
  pg_comment : option N;     (* id of COMMENT, when defined    *)
  pg_eoi : N                 (* id under which the EOI pair is reported *)
}.

Fixpoint find_rule (rs : list (N * modifier * pexpr)) (r : N) : option (modifier * pexpr) :=
  match rs with
  | [] => None
  | (r', m, e) :: t => if r' =? r then Some (m, e) else find_rule t r
  end.

Definition builtin_class (b : builtin) (c : N) : bool :=
  match b with
  | BANY => true
  | BASCII_DIGIT => (48 <=? c) && (c <=? 57)
  | BASCII_NONZERO_DIGIT => (49 <=? c) && (c <=? 57)
  | BASCII_BIN_DIGIT => (48 <=? c) && (c <=? 49)
  | BASCII_OCT_DIGIT => (48 <=? c) && (c <=? 55)
  | BASCII_HEX_DIGIT => ((48 <=? c) && (c <=? 57)) || ((97 <=? c) && (c <=? 102)) || ((65 <=? c) && (c <=? 70))
  | BASCII_ALPHA_LOWER => (97 <=? c) && (c <=? 122)
  | BASCII_ALPHA_UPPER => (65 <=? c) && (c <=? 90)
  | BASCII_ALPHA => ((97 <=? c) && (c <=? 122)) || ((65 <=? c) && (c <=? 90))
  | BASCII_ALPHANUMERIC => ((97 <=? c) && (c <=? 122)) || ((65 <=? c) && (c <=? 90)) || ((48 <=? c) && (c <=? 57))
  | BASCII => c <=? 127
  | _ => false
  end.
