(* The known deviations of the crate's grammar (cddl.pest) from the RFC ABNF, each as a GRAMMAR DELTA over
   Abnf8610.abnf_lenient, selected by one bit of a mask.  They serve two purposes:
   * classification: a disagreement between the crate and the verified ABNF recogniser on a text is attributed to a
     known finding only if switching that finding's delta on makes the recogniser agree with the crate on that
     very text (DESIGN.md 8, "deviation switches"); anything else is a violation;
   * the `_refuted` witnesses of Props/C03.v.
   The base of every variant is Abnf8610.abnf_spec (names are maximal tokens); mask 0 is the specification itself.
   No proofs here. *)
From Coq Require Import String Ascii.
From Cddl Require Import Grammar.Cfg Grammar.Abnf8610.
Open Scope N_scope.

Definition override (n : N) (prods : list aexp) (g : cfg) : cfg :=
  filter (fun p => negb (fst p =? n)) g ++ map (fun e => (n, e)) prods.

(* auxiliary rule names of the deltas *)
Definition n_idns := 100.        (* identifier that does not start with "$" (cddl.pest: id) *)
Definition n_anyq := 103.        (* any character except ' *)
Definition n_tagvalue := 104.
Definition n_grpent0 := 105.     (* group entries a plain "=" group rule can start with *)
Definition n_occ3 := 106.
Definition n_ctlname := 108.
Definition n_tB := 109.          (* a type "(" C ")" K that the PEG cannot read as a group: C is a group, K a non-empty continuation *)
Definition n_tG := 110.          (* the other types *)
Definition n_K := 111.           (* continuation of a type after its first type2: [op type2] *("/" type1) *)
Definition n_Kne := 112.         (* ... non-empty *)

Definition bit (m : N) (k : N) : bool := N.testbit m k.

Definition d_id_runs := 1.         (* id: at most one "-" / "." between name characters *)
Definition d_dollar := 2.          (* "$" only as socket prefix: typename = ["$"] id', groupname = ["$$"] id' *)
Definition d_group_rule := 3.      (* name = grpent is read as a type rule whenever the entry starts like a type *)
Definition d_bytes_raw := 4.       (* '...' content is raw: no SESC / \' , any character but ' *)
Definition d_bsqual_case := 5.     (* h / b64 prefixes are case-sensitive *)
Definition d_cborseq := 6.         (* (repaired in 8d55c20, no longer part of all_deviations) control names matched as prefixes:
                                      "cbor" won over "cborseq", no token boundary *)
Definition d_radix_float := 7.     (* float mantissa is decimal only *)
Definition d_bytes_key := 8.       (* byte-string literal as "value :" member key is rejected by the bridge *)
Definition d_implicit_ws := 9.     (* pest's implicit skip admits blanks/comments where the RFC has no S *)
Definition d_tag_forms := 10.      (* #DIGIT[.<type>][(type)] for every major type *)
Definition d_ctrl_chars := 11.     (* control characters in text literals and comments, lone CR as whitespace *)
Definition d_escapes := 12.        (* \uXXXX and \u{X..} for any hex digits (surrogates, > 10FFFF) at GRAMMAR level; since 51d94c0
                                      the bridge rejects such literals, except inside #6.<type> / #7.<type>, whose type is never converted *)
Definition d_paren_entry := 13.    (* a group entry starting with "(" is an inline group, whatever follows the ")" *)
Definition all_deviations : N := 16318.   (* bits 1 .. 13 except 6 (repaired) *)

Definition dash_dot : aexp := AAlts [L "-"; L "."].
(* the crate's id stops where  (("-" | ".")? (EALPHA | DIGIT))*  stops *)
Definition name_continues1 (r : list N) : bool :=
  match r with
  | c :: r' => is_ealpha c || is_digit c ||
               (((c =? 45) || (c =? 46)) && match r' with d :: _ => is_ealpha d || is_digit d | [] => false end)
  | [] => false
  end.
Definition id_body (start : aexp) (runs : bool) : aexp :=
  ASeqs [start; AStar (ASeqs [if runs then AStar dash_dot else AOpt dash_dot; AAlts [R n_EALPHA; R n_DIGIT]]);
         ALook (if runs then name_boundary else fun r => negb (name_continues1 r))].
Definition ealpha_start : aexp := AAlts [R n_ALPHA; L "@"; L "_"].

(* the order of the alternatives of control_name in cddl.pest; an ordered choice takes the FIRST name that is a
   prefix of the text (so "cborseq" is never taken, and no token boundary is required after the name) *)
Definition crate_control_order : list string := [
  "size"; "bits"; "regexp"; "pcre"; "iregexp"; "cbor"; "cborseq"; "within"; "and"; "lt"; "le"; "gt"; "ge"; "eq"; "ne";
  "default"; "cat"; "det"; "plus"; "abnfb"; "abnf"; "feature"; "b64u-sloppy"; "b64c-sloppy"; "b64u"; "b64c";
  "hexuc"; "hexlc"; "hex"; "base10"; "printf"; "json"; "join"; "b32"; "h32"; "b45"; "bitfield" ]%string.
Fixpoint is_prefix (s r : list N) : bool :=
  match s, r with
  | [], _ => true
  | c :: s', d :: r' => (c =? d) && is_prefix s' r'
  | _, [] => false
  end.
Fixpoint first_prefix (names : list (list N)) (r : list N) : list N :=
  match names with
  | [] => []
  | n :: t => if is_prefix n r then n else first_prefix t r
  end.
Definition crate_ctlname : aexp :=
  let names := map s2n crate_control_order in
  AAlts (map (fun n => ASeq (ALook (fun r => leqb (first_prefix names r) n)) (AStrX n)) names).

(* tag syntax of cddl.pest:  "#" DIGIT ("." tag_value)? ("(" S type S ")")?  |  "#" ("(" S type S ")")?
   ws = with the implicit skips, general = for every digit (otherwise the RFC forms) *)
(* pest's optional "(" type ")" after a tag head is greedy: it is left out only where no parenthesised type follows.
   The look-ahead uses the specification's own type (exact unless the parenthesised text itself contains a deviation). *)
Definition paren_type_follows (ws : bool) (r : list N) : bool :=
  let res := ls abnf_spec (ls_fuel r) (ASeqs [if ws then S_ else AEps; L "("; S_; R n_type; S_; L ")"]) r in
  snd res || match fst res with [] => false | _ => true end.
(* blanks and comments as pest skips them *)
Fixpoint skip_blanks (fuel : nat) (in_comment : bool) (r : list N) : list N :=
  match fuel with
  | O => r
  | S f => match r with
           | [] => []
           | c :: r' => if in_comment then skip_blanks f (negb (c =? 10)) r'
                        else if (c =? 32) || (c =? 9) || (c =? 10) || (c =? 13) then skip_blanks f false r'
                        else if c =? 59 then skip_blanks f true r'
                        else r
           end
  end.
Definition digit_after_blanks (r : list N) : bool := starts is_digit (skip_blanks (length r) false r).

Definition tag_forms (tyh : aexp) (ws general : bool) : list aexp :=      (* tyh: the type inside "<" ">" *)
  let s := if ws then S_ else AEps in
  let tv := AAlts [R n_uint; ASeqs [L "<"; s; tyh; s; L ">"]] in
  let par := ASeqs [L "("; S_; R n_type; S_; L ")"] in
  if general then
    [ASeqs [L "#"; s; R n_DIGIT; AOpt (ASeqs [s; L "."; s; tv]);
            AAlt (ASeqs [s; par]) (ALook (fun r => negb (paren_type_follows ws r)))];
     ASeqs [L "#"; s; par]]
  else
    [ASeqs [L "#"; s; L "6"; AOpt (ASeqs [s; L "."; s; tv]); s; par];
     ASeqs [L "#"; s; L "7"; AOpt (ASeqs [s; L "."; s; tv])];
     ASeqs [L "#"; s; R n_DIGIT; AOpt (ASeqs [s; L "."; s; R n_uint])];
     ASeqs [L "#"; s; par]].

(* Entries that begin with "(" under the crate's ordered choice (group_entry: the inline-group alternative is tried
   first and commits when the parenthesised text reads as a group and the ")" follows):
     "(" group ")"                      inline group, nothing of a type may follow
     "(" tB ")" K                       the text inside is a type that does NOT read as a group, so the type reading is reached
     "(" type ")" S ["^" S] "=>" ..     the look-ahead guard releases the member-key reading
     "(" tB ")" op type2 S ["^" S] "=>" ..
   where tB = "(" tG ")" Kne: a parenthesised group-readable type followed by an operator or a type choice. *)
Definition paren_forms (occ : aexp) : list aexp :=
  let arrow := ASeqs [S_; AOpt (ASeqs [L "^"; S_]); L "=>"; S_; R n_type] in
  [ASeqs [occ; L "("; S_; R n_group; S_; L ")"];
   ASeqs [occ; L "("; S_; R n_tB; S_; L ")"; R n_K];
   ASeqs [occ; L "("; S_; R n_type; S_; L ")"; arrow];
   ASeqs [occ; L "("; S_; R n_tB; S_; L ")"; S_; AAlts [R n_rangeop; R n_ctlop]; S_; R n_type2; arrow]].
Definition paren_aux : cfg :=
  let not_paren := ALook (fun r => negb (starts (N.eqb 40) r)) in
  let alts := AStar (ASeqs [S_; L "/"; S_; R n_type1]) in
  [(n_K, ASeqs [AOpt (ASeqs [S_; AAlts [R n_rangeop; R n_ctlop]; S_; R n_type2]); alts]);
   (n_Kne, AAlts [ASeqs [S_; AAlts [R n_rangeop; R n_ctlop]; S_; R n_type2; alts];
                  ASeqs [S_; L "/"; S_; R n_type1; alts]]);
   (n_tB, ASeqs [L "("; S_; R n_tG; S_; L ")"; R n_Kne]);
   (n_tG, AAlts [ASeqs [not_paren; R n_type];
                 ASeqs [L "("; S_; R n_type; S_; L ")"];
                 ASeqs [L "("; S_; R n_tB; S_; L ")"; R n_K]])].

(* a disjoint copy of a grammar: every rule name n becomes n + off *)
Fixpoint rename (off : N) (e : aexp) : aexp :=
  match e with
  | ARef n => ARef (n + off)
  | ASeq a b => ASeq (rename off a) (rename off b)
  | AAlt a b => AAlt (rename off a) (rename off b)
  | AStar a => AStar (rename off a)
  | _ => e
  end.
Definition rename_cfg (off : N) (g : cfg) : cfg := map (fun p => (fst p + off, rename off (snd p))) g.
Definition unconverted : N := 1000.

(* every deviation except the byte-string member key; tyh = the type inside the "<" ">" of a non-literal tag number *)
Definition variant_core (m : N) (tyh : aexp) : cfg :=
  let g0 := override n_headnumber [AAlts [R n_uint; ASeqs [L "<"; tyh; L ">"]]] abnf_spec in
  (* identifiers *)
  let runs := negb (bit m d_id_runs) in
  let g1 := override n_id [id_body (R n_EALPHA) runs] g0 ++ [(n_idns, id_body ealpha_start runs)] in
  let g2 := if bit m d_dollar then
              override n_typename [AAlt (ASeqs [L "$"; R n_idns]) (R n_idns)]
              (override n_groupname [AAlt (ASeqs [L "$$"; R n_idns]) (R n_idns)]
              (override n_bareword [R n_idns;
                                    (* member_key's third alternative, typename generic_args?, is reached by "$" names *)
                                    ASeqs [L "$"; R n_idns;
                                           if bit m d_implicit_ws then AOpt (ASeqs [S_; R n_genericarg]) else AOpt (R n_genericarg)]]
              (override n_genericparm [ASeqs [L "<"; S_; R n_idns; S_; AStar (ASeqs [L ","; S_; R n_idns; S_]); L ">"]] g1)))
            else g1 in
  (* control operators *)
  let g3 := override n_ctlop [ASeqs [L "."; R n_ctlname]] g2
            ++ [(n_ctlname, if bit m d_cborseq then crate_ctlname
                            else ASeqs [AAlts (map X registered_controls); ALook name_boundary])] in
  let extra_t2 :=
        (if bit m d_implicit_ws then
           [ASeqs [R n_notbytes; R n_typename; S_; R n_genericarg];
            ASeqs [L "~"; S_; R n_typename; S_; R n_genericarg];
            ASeqs [L "&"; S_; R n_groupname; S_; R n_genericarg]]
           ++ (if bit m d_tag_forms then [] else tag_forms tyh true false)
         else []) in
  let g3 := if bit m d_implicit_ws || bit m d_tag_forms then
              (* the bare "#": pest tries "#" DIGIT .. (over blanks when skipping) and "#" "(" type ")" first *)
              override n_hashany
                [ASeqs [L "#";
                        ALook (fun r => negb (if bit m d_implicit_ws then digit_after_blanks r else starts is_digit r));
                        ALook (fun r => negb (paren_type_follows (bit m d_implicit_ws) r))]] g3
            else g3 in
  (* with the general tag forms the optional "(" type ")" is greedy, so they REPLACE the RFC alternatives *)
  let g3 := if bit m d_tag_forms
            then override n_tag (tag_forms tyh (bit m d_implicit_ws) true) g3
            else g3 in
  let g5 := g3 ++ map (fun e => (n_type2, e)) extra_t2 in
  (* group rules: with "=" the entry must not start like a type *)
  let np := if bit m d_paren_entry then ALook (fun r => negb (starts (N.eqb 40) r)) else AEps in
  let g6 := if bit m d_group_rule then
              override n_rule
                [ASeqs [R n_typename; AOpt (R n_genericparm); S_; R n_assignt; S_; R n_type];
                 ASeqs [R n_groupname; AOpt (R n_genericparm); S_; L "//="; S_; R n_grpent];
                 ASeqs [R n_groupname; AOpt (R n_genericparm); S_; L "="; S_; R n_grpent0];
                 (* a "$$" name cannot be read as a typename, so nothing is committed *)
                 ASeqs [L "$$"; R n_idns;
                        if bit m d_implicit_ws then ASeqs [S_; AOpt (R n_genericparm)] else AOpt (R n_genericparm);
                        S_; L "="; S_; R n_grpent]] g5
              ++ [(n_occ3, AAlts [L "?"; L "+"; ASeqs [L "*"; AOpt (R n_uint)]]);
                  (n_grpent0, AAlts [ASeqs [R n_occ3; S_; np; AOpt (ASeqs [R n_memberkey; S_]); R n_type];
                                     ASeqs [R n_occ3; S_; np; R n_notbytes; R n_groupname; AOpt (R n_genericarg)];
                                     (* without an occurrence indicator a parenthesised TYPE commits to the type rule *)
                                     ASeqs [L "("; S_; R n_group; S_; L ")"];
                                     AAlts (if bit m d_paren_entry then paren_forms (ASeqs [R n_occ3; S_])
                                            else [ASeqs [R n_occ3; S_; L "("; S_; R n_group; S_; L ")"]]);
                                     ASeqs [R n_groupname; AOpt (R n_genericarg)]])]
            else g5 in
  (* byte strings *)
  let bsq := if bit m d_bsqual_case then AAlts [X "h"; X "b64"] else R n_bsqual in
  let g6 := if bit m d_bsqual_case then override n_notbytes [ALook (fun r => negb (bytes_prefix false r))] g6 else g6 in
  let g7 := if bit m d_bytes_raw || bit m d_bsqual_case then
              override n_bytes
                [ASeqs [AOpt bsq; AChr 39; AStar (if bit m d_bytes_raw then R n_anyq else R n_BCHAR); AChr 39];
                 ASeqs [AChr 104; AChr 34; AStar (R n_HQCHAR); AChr 34]] g6
              ++ [(n_anyq, AAlts [ARng 0 38; ARng 40 1114111])]
            else g6 in
  (* numbers: no fraction / exponent after a 0x / 0b integer *)
  let g8 := if bit m d_radix_float then
              override n_number
                [R n_hexfloat;
                 R n_hexint;
                 ASeqs [AOpt (L "-"); L "0b"; APlus (R n_BINDIG); ALook (fun r => negb (starts is_bin r))];
                 ASeqs [AOpt (L "-"); AAlts [ASeqs [R n_DIGIT1; AStar (R n_DIGIT); ALook (fun r => negb (starts is_digit r))];
                                             ASeqs [L "0"; ALook (fun r => negb (radix_follows r))]];
                        AAlt (ASeqs [L "."; R n_fraction]) (ALook (fun r => negb (frac_follows r)));
                        AAlt (ASeqs [L "e"; R n_exponent]) (ALook (fun r => negb (exp_follows r)))]] g7
            else g7 in
  let g9 := g8 in
  (* implicit skips (the type2 ones are above) *)
  let g10 := if bit m d_implicit_ws then
               g9 ++ [(n_rule, ASeqs [R n_typename; S_; R n_genericparm; S_; R n_assignt; S_; R n_type]);
                      (n_rule, ASeqs [R n_groupname; S_; R n_genericparm; S_; (if bit m d_group_rule then L "//=" else R n_assigng); S_; R n_grpent]);
                      (n_grpent, ASeqs [AOpt (ASeqs [R n_occur; S_]); R n_notbytes; R n_groupname; S_; R n_genericarg]);
                      (n_ctlop, ASeqs [L "."; S_; R n_ctlname])]
                  ++ (if bit m d_group_rule
                      then [(n_rule, ASeqs [R n_groupname; S_; R n_genericparm; S_; L "="; S_; R n_grpent0]);
                            (n_grpent0, ASeqs [R n_occ3; S_; R n_groupname; S_; R n_genericarg])]
                      else [])
             else g9 in
  (* characters *)
  let g11 := if bit m d_ctrl_chars then
               g10 ++ [(n_SCHAR, AAlts [ARng 0 33; ARng 35 91; ARng 93 1114111]);
                       (n_PCHAR, AAlts [ARng 0 9; ARng 11 1114111]);
                       (n_WS, AChr 13)]
             else g10 in
  let g11 := if bit m d_paren_entry then
               let occ := AOpt (ASeqs [R n_occur; S_]) in
               let not_paren := ALook (fun r => negb (starts (N.eqb 40) r)) in
               override n_grpent
                 ([ASeqs [occ; not_paren; AOpt (ASeqs [R n_memberkey; S_]); R n_type];
                   ASeqs [occ; not_paren; R n_notbytes; R n_groupname; AOpt (R n_genericarg)]]
                  ++ paren_forms occ
                  ++ (if bit m d_implicit_ws then [ASeqs [occ; not_paren; R n_notbytes; R n_groupname; S_; R n_genericarg]] else [])) g11
               ++ paren_aux
             else g11 in
  let g12 := if bit m d_escapes then
               g11 ++ [(n_SESC, ASeqs [AChr 92; AChr 117; ARepN 4 (R n_HEXDIG)]);
                       (n_SESC, ASeqs [AChr 92; AChr 117; L "{"; APlus (R n_HEXDIG); L "}"])]
             else g11 in
  g12.

(* The byte-string member key is rejected by the BRIDGE (and a key written h'..' / b64'..' is not even parsed as a key:
   the bareword alternative of member_key takes the h / b64), but the bridge never converts the type inside the
   "<" ">" of a non-literal tag number.  So with this deviation the grammar has two copies: the converted one with
   memberkey = type1 "=>" / bareword ":" / (number / text) ":", and, below every "<" type ">" of a tag, an unconverted
   copy (rule names + 1000) with the full memberkey. *)
Definition variant (m : N) : cfg :=
  if m =? 0 then abnf_spec
  else if bit m d_bytes_key then
    override n_memberkey
      [ASeqs [R n_type1; S_; AOpt (ASeqs [L "^"; S_]); L "=>"];
       ASeqs [R n_bareword; S_; L ":"];
       ASeqs [AAlts [R n_number; R n_text]; S_; L ":"]]
      (variant_core m (R (n_type + unconverted)))
    ++ rename_cfg unconverted (variant_core m (R n_type))
  else variant_core m (R n_type).

(* derivability in the variant selected by the mask; mask 0 = the specification C03 compares against
   (RFC + documented leniencies, names as maximal tokens) *)
Definition variant_accepts (m : N) (w : list N) : option bool := recognise (variant m) n_cddl w.
