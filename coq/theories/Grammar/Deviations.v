(* The known deviations of the crate's grammar (cddl.pest) from the RFC ABNF, each as a GRAMMAR DELTA over
   Abnf8610.abnf_lenient, selected by one bit of a mask.  They serve two purposes:
   * classification: a disagreement between the crate and the verified ABNF recogniser on a text is attributed to a
     known finding only if switching that finding's delta on makes the recogniser agree with the crate on that
     very text (DESIGN.md 8, "deviation switches"); anything else is a violation;
   * the `_refuted` witnesses of Props/C03.v.
   Bit 0 is not a finding but an interpretive decision (the comment on type1 in RFC 8610 Appendix B).
   No proofs here. *)
From Coq Require Import String Ascii.
From Cddl Require Import Grammar.Cfg Grammar.Abnf8610.
Open Scope N_scope.

Definition override (n : N) (prods : list aexp) (g : cfg) : cfg :=
  filter (fun p => negb (fst p =? n)) g ++ map (fun e => (n, e)) prods.

(* auxiliary rule names of the deltas *)
Definition n_idns := 100.        (* identifier that does not start with "$" (cddl.pest: id) *)
Definition n_type2id := 101.     (* type2 alternatives that END in an identifier *)
Definition n_type2ne := 102.     (* the other type2 alternatives *)
Definition n_anyq := 103.        (* any character except ' *)
Definition n_tagvalue := 104.
Definition n_grpent0 := 105.     (* group entries a plain "=" group rule can start with *)
Definition n_occ3 := 106.
Definition n_decuint := 107.
Definition n_ctlname := 108.

Definition bit (m : N) (k : N) : bool := N.testbit m k.

Definition d_note_type1 := 0.      (* interpretive: "space may be needed before the operator if type2 ends in a name" *)
Definition d_id_runs := 1.         (* id: at most one "-" / "." between name characters *)
Definition d_dollar := 2.          (* "$" only as socket prefix: typename = ["$"] id', groupname = ["$$"] id' *)
Definition d_group_rule := 3.      (* name = grpent is read as a type rule whenever the entry starts like a type *)
Definition d_bytes_raw := 4.       (* '...' content is raw: no SESC / \' , any character but ' *)
Definition d_bsqual_case := 5.     (* h / b64 prefixes are case-sensitive *)
Definition d_cborseq := 6.         (* control_name tries "cbor" before "cborseq" *)
Definition d_radix_float := 7.     (* float mantissa is decimal only *)
Definition d_bytes_key := 8.       (* byte-string literal as "value :" member key is rejected by the bridge *)
Definition d_implicit_ws := 9.     (* pest's implicit skip admits blanks/comments where the RFC has no S *)
Definition d_tag_forms := 10.      (* #DIGIT[.<type>][(type)] for every major type *)
Definition d_ctrl_chars := 11.     (* control characters in text literals and comments, lone CR as whitespace *)
Definition d_escapes := 12.        (* \uXXXX and \u{X..} for any hex digits (surrogates, > 10FFFF) *)
Definition all_deviations : N := 8191.   (* 2^13 - 1 *)

Definition dash_dot : aexp := AAlts [L "-"; L "."].
Definition id_body (start : aexp) (runs : bool) : aexp :=
  ASeqs [start; AStar (ASeqs [if runs then AStar dash_dot else AOpt dash_dot; AAlts [R n_EALPHA; R n_DIGIT]])].
Definition ealpha_start : aexp := AAlts [R n_ALPHA; L "@"; L "_"].

Definition ctl_names (m : N) : list string :=
  if bit m d_cborseq then filter (fun s => negb (String.eqb s "cborseq")) registered_controls else registered_controls.

(* tag syntax of cddl.pest:  "#" DIGIT ("." tag_value)? ("(" S type S ")")?  |  "#" ("(" S type S ")")?
   ws = with the implicit skips, general = for every digit (otherwise the RFC forms) *)
Definition tag_forms (ws general : bool) : list aexp :=
  let s := if ws then S_ else AEps in
  let tv := AAlts [R n_uint; ASeqs [L "<"; s; R n_type; s; L ">"]] in
  let par := ASeqs [L "("; S_; R n_type; S_; L ")"] in
  if general then
    [ASeqs [L "#"; s; R n_DIGIT; AOpt (ASeqs [s; L "."; s; tv]); AOpt (ASeqs [s; par])];
     ASeqs [L "#"; s; par]]
  else
    [ASeqs [L "#"; s; L "6"; AOpt (ASeqs [s; L "."; s; tv]); s; par];
     ASeqs [L "#"; s; L "7"; AOpt (ASeqs [s; L "."; s; tv])];
     ASeqs [L "#"; s; R n_DIGIT; AOpt (ASeqs [s; L "."; s; R n_uint])];
     ASeqs [L "#"; s; par]].

Definition variant (m : N) : cfg :=
  let g0 := abnf_lenient in
  (* identifiers *)
  let runs := negb (bit m d_id_runs) in
  let g1 := override n_id [id_body (R n_EALPHA) runs] g0 ++ [(n_idns, id_body ealpha_start runs)] in
  let g2 := if bit m d_dollar then
              override n_typename [AAlt (ASeqs [L "$"; R n_idns]) (R n_idns)]
              (override n_groupname [AAlt (ASeqs [L "$$"; R n_idns]) (R n_idns)]
              (override n_bareword [R n_idns]
              (override n_genericparm [ASeqs [L "<"; S_; R n_idns; S_; AStar (ASeqs [L ","; S_; R n_idns; S_]); L ">"]] g1)))
            else g1 in
  (* control operators *)
  let g3 := override n_ctlop [ASeqs [L "."; R n_ctlname]] g2 ++ [(n_ctlname, AAlts (map X (ctl_names m)))] in
  (* type2 split for the type1 note; every later delta that adds a type2 production adds it to type2ne as well *)
  let ga := AOpt (R n_genericarg) in
  let t2id := [R n_typename; ASeqs [L "~"; S_; R n_typename]; ASeqs [L "&"; S_; R n_groupname]] in
  let t2ne := [R n_value;
               ASeqs [R n_typename; R n_genericarg];
               ASeqs [L "("; S_; R n_type; S_; L ")"];
               ASeqs [L "{"; S_; R n_group; S_; L "}"];
               ASeqs [L "["; S_; R n_group; S_; L "]"];
               ASeqs [L "~"; S_; R n_typename; R n_genericarg];
               ASeqs [L "&"; S_; L "("; S_; R n_group; S_; L ")"];
               ASeqs [L "&"; S_; R n_groupname; R n_genericarg];
               ASeqs [L "#"; L "6"; AOpt (ASeqs [L "."; R n_headnumber]); L "("; S_; R n_type; S_; L ")"];
               ASeqs [L "#"; L "7"; AOpt (ASeqs [L "."; R n_headnumber])];
               ASeqs [L "#"; R n_DIGIT; AOpt (ASeqs [L "."; R n_uint])];
               L "#";
               ASeqs [L "#"; L "("; S_; R n_type; S_; L ")"]] in          (* leniency #(type) *)
  let extra_t2 :=
        (if bit m d_implicit_ws then
           [ASeqs [R n_typename; S_; R n_genericarg];
            ASeqs [L "~"; S_; R n_typename; S_; R n_genericarg];
            ASeqs [L "&"; S_; R n_groupname; S_; R n_genericarg]]
           ++ tag_forms true (bit m d_tag_forms)
         else [])
        ++ (if bit m d_tag_forms then tag_forms false true else []) in
  let g4 := g3 ++ map (fun e => (n_type2, e)) extra_t2
               ++ map (fun e => (n_type2id, e)) t2id
               ++ map (fun e => (n_type2ne, e)) (t2ne ++ extra_t2) in
  let g5 := if bit m d_note_type1 then
              override n_type1
                [ASeqs [R n_type2; AOpt (ASeqs [S_; R n_rangeop; S_; R n_type2])];
                 ASeqs [R n_type2ne; S_; R n_ctlop; S_; R n_type2];
                 ASeqs [R n_type2id; R n_WS; S_; R n_ctlop; S_; R n_type2]] g4
            else g4 in
  (* group rules: with "=" the entry must not start like a type *)
  let g6 := if bit m d_group_rule then
              override n_rule
                [ASeqs [R n_typename; AOpt (R n_genericparm); S_; R n_assignt; S_; R n_type];
                 ASeqs [R n_groupname; AOpt (R n_genericparm); S_; L "//="; S_; R n_grpent];
                 ASeqs [R n_groupname; AOpt (R n_genericparm); S_; L "="; S_; R n_grpent0]] g5
              ++ [(n_occ3, AAlts [L "?"; L "+"; ASeqs [L "*"; AOpt (R n_uint)]]);
                  (n_grpent0, AAlts [ASeqs [R n_occ3; S_; AOpt (ASeqs [R n_memberkey; S_]); R n_type];
                                     ASeqs [R n_occ3; S_; R n_groupname; AOpt (R n_genericarg)];
                                     ASeqs [AOpt (ASeqs [R n_occ3; S_]); L "("; S_; R n_group; S_; L ")"];
                                     ASeqs [R n_groupname; AOpt (R n_genericarg)]])]
            else g5 in
  (* byte strings *)
  let bsq := if bit m d_bsqual_case then AAlts [X "h"; X "b64"] else R n_bsqual in
  let g7 := if bit m d_bytes_raw || bit m d_bsqual_case then
              override n_bytes
                [ASeqs [AOpt bsq; AChr 39; AStar (if bit m d_bytes_raw then R n_anyq else R n_BCHAR); AChr 39];
                 ASeqs [AChr 104; AChr 34; AStar (R n_HQCHAR); AChr 34]] g6
              ++ [(n_anyq, AAlts [ARng 0 38; ARng 40 1114111])]
            else g6 in
  (* numbers *)
  let g8 := if bit m d_radix_float then
              override n_number
                [R n_hexfloat;
                 ASeqs [AOpt (L "-"); R n_decuint;
                        AAlts [ASeqs [L "."; R n_fraction; AOpt (ASeqs [L "e"; R n_exponent])]; ASeqs [L "e"; R n_exponent]]];
                 R n_int] g7
              ++ [(n_decuint, AAlts [ASeqs [R n_DIGIT1; AStar (R n_DIGIT)]; L "0"])]
            else g7 in
  (* member keys *)
  let g9 := if bit m d_bytes_key then
              override n_memberkey
                [ASeqs [R n_type1; S_; AOpt (ASeqs [L "^"; S_]); L "=>"];
                 ASeqs [R n_bareword; S_; L ":"];
                 ASeqs [AAlts [R n_number; R n_text]; S_; L ":"]] g8
            else g8 in
  (* implicit skips (the type2 ones are above) *)
  let g10 := if bit m d_implicit_ws then
               g9 ++ [(n_typename, ASeqs [L "$"; S_; R n_idns]);
                      (n_groupname, ASeqs [L "$$"; S_; R n_idns]);
                      (n_rule, ASeqs [R n_typename; S_; R n_genericparm; S_; R n_assignt; S_; R n_type]);
                      (n_rule, ASeqs [R n_groupname; S_; R n_genericparm; S_; (if bit m d_group_rule then L "//=" else R n_assigng); S_; R n_grpent]);
                      (n_grpent, ASeqs [AOpt (ASeqs [R n_occur; S_]); R n_groupname; S_; R n_genericarg]);
                      (n_ctlop, ASeqs [L "."; S_; R n_ctlname])]
                  ++ (if bit m d_group_rule
                      then [(n_rule, ASeqs [R n_groupname; S_; R n_genericparm; S_; L "="; S_; R n_grpent0]);
                            (n_grpent0, ASeqs [R n_occ3; S_; R n_groupname; S_; R n_genericarg])]
                      else [])
             else g9 in
  (* characters *)
  let g11 := if bit m d_ctrl_chars then
               g10 ++ [(n_SCHAR, AAlts [ARng 0 33; ARng 35 91; ARng 93 1114111]);
                       (n_PCHAR, AAlts [ARng 0 9; ARng 11 1114111]);
                       (n_WS, AChr 13)]
             else g10 in
  let g12 := if bit m d_escapes then
               g11 ++ [(n_SESC, ASeqs [AChr 92; AChr 117; ARepN 4 (R n_HEXDIG)]);
                       (n_SESC, ASeqs [AChr 92; AChr 117; L "{"; APlus (R n_HEXDIG); L "}"])]
             else g11 in
  g12.

(* derivability in the variant selected by the mask; mask 1 = the specification C03 compares against
   (RFC + documented leniencies + the type1 note) *)
Definition variant_accepts (m : N) (w : list N) : option bool := recognise (variant m) n_cddl w.
Definition spec_mask : N := 1.
