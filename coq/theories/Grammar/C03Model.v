(* Entry points of the C03 model: what the oracle (extracted) and the vm_compute slice evaluate.
   Every result is rendered to a list of character codes inside Coq. No proofs here. *)
From Cddl Require Import Grammar.PegSyn Grammar.PegRun Grammar.Cfg Grammar.Abnf8610 Generated.CddlPest Grammar.Bridge Grammar.Deviations Grammar.Tokens.
Open Scope N_scope.

(* the pair tree of CddlParser::parse(Rule::cddl, text), in the format of harness/src/bin/c03.rs *)
Definition cddl_tree (w : list N) : list N := render_res cddl_pest_names (peg_parse cddl_pest r_cddl w).

Definition render_verdict (o : option bool) : list N :=
  match o with
  | Some true => [89]                     (* Y *)
  | Some false => [78]                    (* N *)
  | None => [69; 70; 85; 69; 76]          (* EFUEL *)
  end.

(* derivability from RFC 8610 App. B + RFC 9682 + the documented leniencies (names as maximal tokens), by the verified recogniser *)
Definition spec_verdict (w : list N) : list N := render_verdict (spec_accepts w).
(* the same without the tokenisation convention (literal ABNF + leniencies) *)
Definition lenient_verdict (w : list N) : list N := render_verdict (lenient_accepts w).
(* derivability from the RFC rules alone *)
Definition rfc_verdict (w : list N) : list N := render_verdict (rfc_accepts w).

(* the AST shape the bridge builds (format of harness/src/bin/c03.rs), "Err syntax" / "Err semantic" otherwise *)
Definition cddl_shape (w : list N) : list N := shape_of w.

(* derivability in the grammar variant selected by a deviation mask (Deviations.v); mask 0 = the specification *)
Definition variant_verdict (m : N) (w : list N) : list N := render_verdict (variant_accepts m w).

(* token-class comparison PEG rule vs ABNF rule on all strings up to length n over the class alphabet (Tokens.v) *)
Definition token_sweep_verdict (k : N) (n : nat) : list N := render_verdict (Some (token_sweep k n)).
