(* C20 - faithful model of src/ast/parent.rs (ParentVisitor): arena, node lookup, insert, traversal, query.
   No proofs in this file (they are in Parent/ArenaProofs.v).

   Code                                                     Model
   ----                                                     -----
   struct Node { idx, val, parent: Option<usize>, children } [anode]: val = label of the CDDLType value, parent index.
                                                             [idx] always equals the position in the Vec (it is set to
                                                             arena.len() at the only push, parent.rs:132-133) and
                                                             [children] is never read, so neither is modelled.
   ArenaTree::node (parent.rs:125-135)                       [node]: linear search for the FIRST arena node whose val is
                                                             equal (crate ==, i.e. equal label); otherwise push.
   ParentVisitor::insert (parent.rs:179-187)                 [insert]: arena[child].parent is set only if it is None
                                                             (first parent wins), indexing out of range = panic = None.
                                                             It always returns Ok(()): Error::Overwrite is never built.
   CDDLType::parent (parent.rs:191-203)                      [query]: scan ALL arena nodes; at a node with an equal val
                                                             that has Some(parent index) inside the arena, return that
                                                             parent's val; otherwise keep scanning.
   impl Visitor for ParentVisitor (parent.rs:206-703)        [visit]: the sequence of insert(parent, child) calls, as
   + default walk_range / walk_control_operator              events (position of the child, label of the parent, label of
   (visitor.rs:282-307)                                      the child), in the order the code performs them.

   Traversal facts read off the code (each visit_x is: idx of x := node(x); for each child c in a fixed order:
   insert(idx of x, node(c)); visit_c(c)), with one exception in the current code, and one historical one:
   * visit_type1 with an operator (parent.rs, visit_type1 / visit_operator / visit_rangectlop): insert(Type1, Operator);
     then visit_operator inserts (Operator, controller Type2) and (Operator, RangeCtlOp) BEFORE visiting anything;
     visit_rangectlop inserts (RangeCtlOp, ControlOperator) for a control, and then the default visit_range /
     visit_control_operator visit the TARGET type2 (the other child of the Type1, not yet inserted under it) and
     then the controller type2; back in visit_type1: insert(Type1, target Type2) and the target is visited a second time;
   * before commit 2a3eb9a, visit_type2's Type2::Unwrap arm registered [ident] only; [generic_args] of `~name<args>`
     was neither inserted nor visited  ->  [registered false].
   The tree encoding lists the children of a node in the order the visitor handles them
   (Type1: [operator; type2], Operator: [type2; rangectlop], TypeGroupnameEntry: [occur; generic_args; name]).
   The calls node(x) at the head of each visit_x that are not followed by an insert only create a parentless arena
   entry, which no query can tell from an absent one; of these only the root's is kept ([build]). *)
From Coq Require Import List NArith Bool Arith.
From Cddl Require Import Parent.Tree.
Import ListNotations.
Open Scope N_scope.

(* ---------- the arena ---------- *)

Record anode := mk_anode { a_val : N; a_parent : option nat }.
Definition arena := list anode.

Fixpoint find_idx (l : N) (a : arena) (i : nat) : option nat :=
  match a with
  | [] => None
  | n :: r => if a_val n =? l then Some i else find_idx l r (S i)
  end.

(* ArenaTree::node *)
Definition node (a : arena) (l : N) : arena * nat :=
  match find_idx l a 0%nat with
  | Some i => (a, i)
  | None => (a ++ [mk_anode l None], length a)
  end.

(* if arena[c].parent.is_none() { arena[c].parent = Some(p) } *)
Fixpoint set_parent (a : arena) (c p : nat) : arena :=
  match a, c with
  | [], _ => []
  | n :: r, O => match a_parent n with
                 | None => mk_anode (a_val n) (Some p) :: r
                 | Some _ => n :: r
                 end
  | n :: r, S c' => n :: set_parent r c' p
  end.

(* ParentVisitor::insert; None = index out of bounds (panic) *)
Definition insert (a : arena) (p c : nat) : option arena :=
  if (c <? length a)%nat && (p <? length a)%nat then Some (set_parent a c p) else None.

(* CDDLType::parent *)
Fixpoint scan (all : arena) (l : N) (a : arena) : option N :=
  match a with
  | [] => None
  | n :: r =>
    if a_val n =? l then
      match a_parent n with
      | Some pi => match nth_error all pi with
                   | Some pn => Some (a_val pn)
                   | None => scan all l r
                   end
      | None => scan all l r
      end
    else scan all l r
  end.

Definition query (a : arena) (l : N) : option N := scan a l a.

(* ---------- the traversal ---------- *)

(* one call insert(node(parent), node(child)); [ev_path] is the position of the child in the AST *)
Record ev := Ev { ev_path : path; ev_parent : N; ev_child : N }.

Definition K_TYPE1 : N := 14.
Definition K_OPERATOR : N := 16.
Definition K_UNWRAP : N := 111.   (* Type2::Unwrap = 100 + variant 11 *)

(* does the visitor of a node of kind k register (and visit) its i-th child?
   fx = true : the code as it is (since /repo commit 2a3eb9a every child is registered);
   fx = false: the code before that repair, where Type2::Unwrap registered its first child (ident) only and the
               generic arguments of `~name<args>` were never indexed. Kept to document the fixed finding
               (Props/C20.v: C20_unwrap_args_indexed); the check runs the model with fx = true only. *)
Definition registered (fx : bool) (k : N) (i : nat) : bool := fx || negb ((k =? K_UNWRAP) && (1 <=? i)%nat).

Section Kids.
  Variable fx : bool.
  Variable f : path -> tree -> list ev.
  Variables k l : N.
  Variable pre : path.
  (* for each child in order: insert(parent, child); visit(child) *)
  Fixpoint kids (i : nat) (cs : list tree) : list ev :=
    match cs with
    | [] => []
    | c :: cs' =>
      (if registered fx k i then Ev (pre ++ [i]) l (label c) :: f (pre ++ [i]) c else [])
      ++ kids (S i) cs'
    end.
End Kids.

Fixpoint visit (fx : bool) (pre : path) (t : tree) {struct t} : list ev :=
  match t with
  | Node k l cs =>
    match cs with
    | [Node ko lo [c2; rco]; t2] =>
      if (k =? K_TYPE1) && (ko =? K_OPERATOR) then
        let p0 := pre ++ [0%nat] in
        let p1 := pre ++ [1%nat] in
        Ev p0 l lo                                   (* visit_type1: insert(Type1, Operator) *)
        :: Ev (p0 ++ [0%nat]) lo (label c2)          (* visit_operator: insert(Operator, controller) *)
        :: Ev (p0 ++ [1%nat]) lo (label rco)         (*                 insert(Operator, RangeCtlOp) *)
        :: visit fx (p0 ++ [1%nat]) rco                 (* visit_rangectlop: insert(RangeCtlOp, ControlOperator) *)
        ++ visit fx p1 t2                               (* walk_range / walk_control_operator: target first *)
        ++ visit fx (p0 ++ [0%nat]) c2                  (*                                     then controller *)
        ++ Ev p1 l (label t2)                        (* visit_type1: insert(Type1, Type2) *)
        :: visit fx p1 t2                               (*              visit_type2 again *)
      else kids fx (visit fx) k l pre 0%nat cs
    | _ => kids fx (visit fx) k l pre 0%nat cs
    end
  end.

(* ---------- building the index ---------- *)

Definition run_ev (a : arena) (e : ev) : option arena :=
  let '(a1, pi) := node a (ev_parent e) in
  let '(a2, ci) := node a1 (ev_child e) in
  insert a2 pi ci.

Fixpoint run_evs (a : arena) (es : list ev) : option arena :=
  match es with
  | [] => Some a
  | e :: r => match run_ev a e with Some a' => run_evs a' r | None => None end
  end.

(* ParentVisitor::new: visit_cddl starts with node(CDDL). None = Err or panic. *)
Definition build (fx : bool) (t : tree) : option arena :=
  run_evs (fst (node [] (label t))) (visit fx [] t).

Definition query_tree (fx : bool) (t : tree) (l : N) : option N :=
  match build fx t with Some a => query a l | None => None end.

(* is the node at position p reached by the registrations of the visitor? (false below the generic arguments of ~name<..>) *)
Fixpoint reg_path (fx : bool) (t : tree) (p : path) : bool :=
  match p with
  | [] => true
  | i :: p' =>
    registered fx (kind t) i &&
    match nth_error (children t) i with Some c => reg_path fx c p' | None => false end
  end.

(* the position of the node whose registration is the first one for label l *)
Definition first_reg_in (es : list ev) (l : N) : option path :=
  option_map ev_path (find (fun e => ev_child e =? l) es).
Definition first_reg (fx : bool) (t : tree) (l : N) : option path := first_reg_in (visit fx [] t) l.

(* ---------- canonical rendering of the answers (same text from vm_compute and from the extracted code) ---------- *)

Fixpoint dec_acc (fuel : nat) (n : N) (acc : list N) : list N :=
  match fuel with
  | O => acc
  | S f => let acc' := (48 + n mod 10) :: acc in
           if n <? 10 then acc' else dec_acc f (n / 10) acc'
  end.
Definition decN (n : N) : list N := dec_acc (S (N.size_nat n)) n [].

(* positions are rendered as preorder indices (a path of a deeply nested node has hundreds of elements) *)
Fixpoint sizeN (t : tree) : N :=
  match t with Node _ _ cs => 1 + fold_right (fun c acc => sizeN c + acc) 0 cs end.
Fixpoint sizes_before (i : nat) (cs : list tree) : N :=
  match i, cs with
  | S i', c :: cs' => sizeN c + sizes_before i' cs'
  | _, _ => 0
  end.
Fixpoint pre_index (t : tree) (p : path) : N :=
  match p with
  | [] => 0
  | i :: p' =>
    1 + sizes_before i (children t) +
    match nth_error (children t) i with Some c => pre_index c p' | None => 0 end
  end.

Definition render_ans (t : tree) (q : option N) (fp : option path) : list N :=
  (match q with Some l => decN l | None => [45] end) ++ [64] ++
  (match fp with Some p => decN (pre_index t p) | None => [45] end).

Fixpoint join_sp (xs : list (list N)) : list N :=
  match xs with [] => [] | [x] => x | x :: r => x ++ 32 :: join_sp r end.

(* per node in preorder: "<label of the node returned by the parent query or ->@<preorder index of the node whose
   registration is the first one for this node's label, or ->" *)
Definition answers (fx : bool) (t : tree) : list N :=
  match build fx t with
  | None => [69] (* E *)
  | Some a =>
    let es := visit fx [] t in
    join_sp (map (fun l => render_ans t (query a l) (first_reg_in es l)) (labels_preorder t))
  end.

(* ---------- reading a tree from the flat line format of the drivers ---------- *)
(* preorder, three numbers per node: kind, label, number of children. Fuel = length of the input. *)
Fixpoint parse_tree (fuel : nat) (ts : list N) {struct fuel} : option (tree * list N) :=
  match fuel with
  | O => None
  | S f =>
    match ts with
    | k :: l :: n :: rest =>
      match parse_kids f n rest with
      | Some (cs, rest') => Some (Node k l cs, rest')
      | None => None
      end
    | _ => None
    end
  end
with parse_kids (fuel : nat) (n : N) (ts : list N) {struct fuel} : option (list tree * list N) :=
  match fuel with
  | O => None
  | S f =>
    if n =? 0 then Some ([], ts)
    else match parse_tree f ts with
         | Some (c, r) => match parse_kids f (N.pred n) r with
                          | Some (cs, r') => Some (c :: cs, r')
                          | None => None
                          end
         | None => None
         end
  end.

Definition answers_flat (fx : bool) (ts : list N) : list N :=
  match parse_tree (S (length ts)) ts with
  | Some (t, []) => answers fx t
  | _ => [66; 65; 68; 84; 82; 69; 69] (* BADTREE *)
  end.
