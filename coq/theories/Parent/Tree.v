(* C20 - specification side: the AST as a labelled rose tree, and the syntactic parent.

   A node of the tree stands for one node of the crate's AST as seen through the 26 variants of
   [CDDLType] (src/ast/mod.rs:33). [kind] is the variant (0 CDDL .. 25 NonMemberKey; Type2 nodes carry
   100 + the index of the Type2 variant), [label] is the equivalence class of the node's [CDDLType] value under
   the crate's own [PartialEq] (two nodes have equal labels iff the crate's [==] holds between them; the
   correspondence driver computes the classes by actually comparing). The specification does not mention the
   arena: the parent of a node is the node that contains it, identified by POSITION (a path of child indices). *)
From Coq Require Import List NArith.
Import ListNotations.
Open Scope N_scope.

Inductive tree := Node (kind : N) (label : N) (children : list tree).

Definition kind (t : tree) : N := match t with Node k _ _ => k end.
Definition label (t : tree) : N := match t with Node _ l _ => l end.
Definition children (t : tree) : list tree := match t with Node _ _ cs => cs end.

(* a position in the tree: child indices from the root; [] is the root *)
Definition path := list nat.

Fixpoint node_at (t : tree) (p : path) : option tree :=
  match p with
  | [] => Some t
  | i :: p' => match nth_error (children t) i with Some c => node_at c p' | None => None end
  end.

(* the syntactic parent: the node one step up; the root has none *)
Definition parent_of (t : tree) (p : path) : option tree :=
  match p with [] => None | _ => node_at t (removelast p) end.

(* all labels, node before its children, children left to right *)
Fixpoint labels_preorder (t : tree) : list N :=
  match t with Node _ l cs => l :: flat_map labels_preorder cs end.

Fixpoint size (t : tree) : nat :=
  match t with Node _ _ cs => S (list_sum (map size cs)) end.
