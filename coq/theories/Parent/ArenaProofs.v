(* C20 - proofs about the arena model (Parent/Arena.v) against the specification (Parent/Tree.v). *)
From Coq Require Import List NArith Bool Arith Lia.
From Cddl Require Import Parent.Tree Parent.Arena.
Import ListNotations.
Open Scope N_scope.

(* ====================================================================== *)
(* Part A: the arena computes "first registered parent wins"               *)
(* ====================================================================== *)

Definition val_at (a : arena) (i : nat) : option N := option_map a_val (nth_error a i).

(* the parent label the arena holds for label l *)
Definition pl (a : arena) (l : N) : option N :=
  match find_idx l a 0%nat with
  | Some i => match nth_error a i with
              | Some n => match a_parent n with Some pi => val_at a pi | None => None end
              | None => None
              end
  | None => None
  end.

Definition wf (a : arena) : Prop :=
  NoDup (map a_val a) /\
  forall i n pi, nth_error a i = Some n -> a_parent n = Some pi -> (pi < length a)%nat.

Lemma find_idx_vals : forall l a b i, map a_val a = map a_val b -> find_idx l a i = find_idx l b i.
Proof.
  intros l a; induction a as [|x a IH]; intros [|y b] i H; cbn in *; try discriminate; auto.
  injection H as Hv Hm. rewrite Hv. destruct (a_val y =? l); auto.
Qed.

Lemma find_idx_some : forall l a i j, find_idx l a i = Some j ->
  (i <= j)%nat /\ exists n, nth_error a (j - i) = Some n /\ a_val n = l.
Proof.
  intros l a; induction a as [|x a IH]; intros i j H; cbn in H; [discriminate|].
  destruct (a_val x =? l) eqn:E.
  - injection H as <-. split; [lia|]. rewrite Nat.sub_diag. exists x. split; auto. now apply N.eqb_eq.
  - apply IH in H as (Hle & n & Hn & Hv). split; [lia|]. exists n. split; auto.
    replace (j - i)%nat with (S (j - S i)) by lia. exact Hn.
Qed.

Lemma find_idx_none : forall l a i, find_idx l a i = None <-> ~ In l (map a_val a).
Proof.
  intros l a; induction a as [|x a IH]; intros i; cbn.
  - split; auto.
  - destruct (a_val x =? l) eqn:E.
    + apply N.eqb_eq in E. split; [discriminate| intros H; exfalso; apply H; auto].
    + apply N.eqb_neq in E. rewrite IH. split; intros H; [intros [H1|H1]; auto | auto].
Qed.

Lemma find_idx_app : forall l a b i,
  find_idx l (a ++ b) i =
  match find_idx l a i with Some j => Some j | None => find_idx l b (i + length a)%nat end.
Proof.
  intros l a; induction a as [|x a IH]; intros b i; cbn.
  - now rewrite Nat.add_0_r.
  - destruct (a_val x =? l); auto. rewrite IH. now rewrite Nat.add_succ_r.
Qed.

Lemma find_idx_unique : forall a j n i, NoDup (map a_val a) -> nth_error a j = Some n ->
  find_idx (a_val n) a i = Some (i + j)%nat.
Proof.
  induction a as [|x a IH]; intros j n i Hnd Hn; [destruct j; discriminate|].
  cbn in Hnd. inversion Hnd as [|? ? Hnotin Hnd']; subst. destruct j as [|j]; cbn in *.
  - injection Hn as ->. rewrite N.eqb_refl. now rewrite Nat.add_0_r.
  - destruct (a_val x =? a_val n) eqn:E.
    + apply N.eqb_eq in E. exfalso. apply Hnotin. rewrite E. apply in_map. eapply nth_error_In; eauto.
    + rewrite (IH j n (S i) Hnd' Hn). f_equal. lia.
Qed.

Lemma nth_error_map' : forall (A B : Type) (f : A -> B) l i, nth_error (map f l) i = option_map f (nth_error l i).
Proof. intros A B f l; induction l; intros [|i]; cbn; auto. Qed.

Lemma val_at_vals : forall a b i, map a_val a = map a_val b -> val_at a i = val_at b i.
Proof. intros a b i H. unfold val_at. rewrite <- !nth_error_map'. now rewrite H. Qed.

(* ---- scanning = pl ---- *)

Lemma scan_absent : forall all l a, ~ In l (map a_val a) -> scan all l a = None.
Proof.
  intros all l a; induction a as [|x a IH]; intros H; cbn in *; auto.
  destruct (a_val x =? l) eqn:E.
  - apply N.eqb_eq in E. exfalso; auto.
  - apply IH. intros H1; apply H; auto.
Qed.

Lemma scan_spec : forall all l a i, NoDup (map a_val a) ->
  scan all l a =
  match find_idx l a i with
  | Some j => match nth_error a (j - i) with
              | Some n => match a_parent n with Some pi => val_at all pi | None => None end
              | None => None
              end
  | None => None
  end.
Proof.
  intros all l a; induction a as [|x a IH]; intros i Hnd; cbn; auto.
  cbn in Hnd. inversion Hnd as [|? ? Hnotin Hnd']; subst.
  destruct (a_val x =? l) eqn:E.
  - rewrite Nat.sub_diag. cbn. apply N.eqb_eq in E. subst l.
    destruct (a_parent x) as [pi|]; [|now apply scan_absent].
    unfold val_at. destruct (nth_error all pi); cbn; auto. now apply scan_absent.
  - rewrite (IH (S i) Hnd'). destruct (find_idx l a (S i)) as [j|] eqn:F; auto.
    apply find_idx_some in F as (Hle & _). replace (j - i)%nat with (S (j - S i)) by lia. reflexivity.
Qed.

Lemma query_pl : forall a l, wf a -> query a l = pl a l.
Proof.
  intros a l [Hnd _]. unfold query, pl. rewrite (scan_spec a l a 0%nat Hnd).
  destruct (find_idx l a 0%nat); auto. now rewrite Nat.sub_0_r.
Qed.

(* ---- node ---- *)

Lemma pl_app_parentless : forall a l0 l, wf a -> ~ In l0 (map a_val a) ->
  pl (a ++ [mk_anode l0 None]) l = pl a l.
Proof.
  intros a l0 l [Hnd Hval] Hnew. unfold pl. rewrite find_idx_app.
  destruct (find_idx l a 0%nat) as [j|] eqn:F.
  - apply find_idx_some in F as (_ & n & Hn & Hv). rewrite Nat.sub_0_r in Hn.
    rewrite nth_error_app1 by (apply nth_error_Some; congruence). rewrite Hn.
    destruct (a_parent n) as [pi|] eqn:P; auto.
    unfold val_at. rewrite nth_error_app1; auto. eapply Hval; eauto.
  - cbn. destruct (l0 =? l); auto.
    rewrite nth_error_app2 by lia. rewrite Nat.sub_diag. reflexivity.
Qed.

Lemma wf_app_parentless : forall a l0, wf a -> ~ In l0 (map a_val a) -> wf (a ++ [mk_anode l0 None]).
Proof.
  intros a l0 [Hnd Hval] Hnew. split.
  - rewrite map_app. cbn. clear Hval. induction a as [|x a IH]; cbn in *.
    + constructor; [intros []|constructor].
    + inversion Hnd; subst. constructor.
      * rewrite in_app_iff. cbn. intros [H|[H|[]]]; auto.
      * apply IH; auto.
  - intros i n pi Hn Hp. rewrite app_length. cbn.
    destruct (Nat.lt_ge_cases i (length a)) as [Hlt|Hge].
    + rewrite nth_error_app1 in Hn by auto. specialize (Hval _ _ _ Hn Hp). lia.
    + rewrite nth_error_app2 in Hn by auto. destruct (i - length a)%nat as [|[|]]; cbn in Hn; try discriminate.
      injection Hn as <-. discriminate.
Qed.

Lemma node_spec : forall a l a' i, wf a -> node a l = (a', i) ->
  wf a' /\ find_idx l a' 0%nat = Some i /\ (forall x, pl a' x = pl a x) /\
  (forall x j, find_idx x a 0%nat = Some j -> find_idx x a' 0%nat = Some j).
Proof.
  intros a l a' i Hwf H. unfold node in H. destruct (find_idx l a 0%nat) as [j|] eqn:F.
  - injection H as <- <-. split; [auto|split; [auto|split; auto]].
  - injection H as <- <-. pose proof F as Hnew. apply find_idx_none in Hnew. split; [|split; [|split]].
    + now apply wf_app_parentless.
    + rewrite find_idx_app, F. cbn. now rewrite N.eqb_refl.
    + intros x. now apply pl_app_parentless.
    + intros x j Hx. rewrite find_idx_app, Hx. reflexivity.
Qed.

(* ---- set_parent ---- *)

Lemma set_parent_vals : forall a c p, map a_val (set_parent a c p) = map a_val a.
Proof.
  induction a as [|x a IH]; intros [|c] p; cbn; auto.
  - destruct (a_parent x); reflexivity.
  - now rewrite IH.
Qed.

Lemma set_parent_length : forall a c p, length (set_parent a c p) = length a.
Proof. intros. rewrite <- (map_length a_val), set_parent_vals. apply map_length. Qed.

Lemma set_parent_other : forall a c p j, j <> c -> nth_error (set_parent a c p) j = nth_error a j.
Proof.
  induction a as [|x a IH]; intros [|c] p [|j] H; cbn; auto; try congruence;
    try (destruct (a_parent x); reflexivity); try (apply IH; congruence).
Qed.

Lemma set_parent_same : forall a c p n, nth_error a c = Some n ->
  nth_error (set_parent a c p) c =
  Some (match a_parent n with None => mk_anode (a_val n) (Some p) | Some _ => n end).
Proof.
  induction a as [|x a IH]; intros [|c] p n H; cbn in *; try discriminate.
  - injection H as ->. destruct (a_parent n); reflexivity.
  - now apply IH.
Qed.

(* ---- one insert ---- *)

Lemma run_ev_spec : forall a e, wf a ->
  exists a', run_ev a e = Some a' /\ wf a' /\
  forall l, pl a' l =
    if ev_child e =? l then match pl a l with Some x => Some x | None => Some (ev_parent e) end
    else pl a l.
Proof.
  intros a [pth lp lc] Hwf. unfold run_ev. cbn [ev_parent ev_child].
  destruct (node a lp) as [a1 pi] eqn:N1. destruct (node a1 lc) as [a2 ci] eqn:N2.
  destruct (node_spec _ _ _ _ Hwf N1) as (Hwf1 & Fp1 & Hpl1 & _).
  destruct (node_spec _ _ _ _ Hwf1 N2) as (Hwf2 & Fc2 & Hpl2 & Hst2).
  pose proof (Hst2 _ _ Fp1) as Fp2.
  destruct (find_idx_some _ _ _ _ Fp2) as (_ & np & Hnp & Hvp). rewrite Nat.sub_0_r in Hnp.
  destruct (find_idx_some _ _ _ _ Fc2) as (_ & nc & Hnc & Hvc). rewrite Nat.sub_0_r in Hnc.
  assert (Hpi : (pi < length a2)%nat) by (apply nth_error_Some; congruence).
  assert (Hci : (ci < length a2)%nat) by (apply nth_error_Some; congruence).
  unfold insert. apply Nat.ltb_lt in Hpi as Hpi', Hci as Hci'. rewrite Hpi', Hci'. cbn.
  exists (set_parent a2 ci pi). split; [reflexivity|].
  destruct Hwf2 as [Hnd2 Hval2].
  assert (Hwf' : wf (set_parent a2 ci pi)).
  { split.
    - now rewrite set_parent_vals.
    - intros i n p Hn Hp. rewrite set_parent_length. destruct (Nat.eq_dec i ci) as [->|Hne].
      + rewrite (set_parent_same _ _ _ _ Hnc) in Hn. injection Hn as <-.
        destruct (a_parent nc) eqn:Pc.
        * eapply Hval2; eauto.
        * cbn in Hp. injection Hp as <-. exact Hpi.
      + rewrite set_parent_other in Hn by auto. eapply Hval2; eauto. }
  split; [exact Hwf'|].
  intros l. rewrite <- Hpl1, <- Hpl2.
  unfold pl. rewrite (find_idx_vals l _ a2 0%nat (set_parent_vals a2 ci pi)).
  destruct (lc =? l) eqn:E.
  - apply N.eqb_eq in E. subst l. rewrite Fc2, Hnc.
    rewrite (set_parent_same _ _ _ _ Hnc).
    destruct (a_parent nc) as [x|] eqn:Pc.
    + rewrite Pc. rewrite (val_at_vals _ a2 x (set_parent_vals a2 ci pi)).
      unfold val_at. assert (Hx : (x < length a2)%nat) by (eapply Hval2; eauto).
      apply nth_error_Some in Hx. destruct (nth_error a2 x); [reflexivity|congruence].
    + cbn [a_parent]. rewrite (val_at_vals _ a2 pi (set_parent_vals a2 ci pi)).
      unfold val_at. rewrite Hnp. cbn. now rewrite Hvp.
  - apply N.eqb_neq in E. destruct (find_idx l a2 0%nat) as [j|] eqn:F; auto.
    destruct (find_idx_some _ _ _ _ F) as (_ & n & Hn & Hv). rewrite Nat.sub_0_r in Hn.
    assert (j <> ci) by (intros ->; congruence).
    rewrite set_parent_other by auto. rewrite Hn.
    destruct (a_parent n) as [x|]; auto. apply val_at_vals, set_parent_vals.
Qed.

Lemma run_evs_spec : forall es a, wf a ->
  exists a', run_evs a es = Some a' /\ wf a' /\
  forall l, pl a' l =
    match pl a l with
    | Some x => Some x
    | None => option_map ev_parent (find (fun e => ev_child e =? l) es)
    end.
Proof.
  induction es as [|e es IH]; intros a Hwf; cbn.
  - exists a. split; [reflexivity|split; [exact Hwf|]]. intros l. destruct (pl a l); auto.
  - destruct (run_ev_spec a e Hwf) as (a1 & R1 & Hwf1 & Hpl1). rewrite R1.
    destruct (IH a1 Hwf1) as (a' & R & Hwf' & Hpl). exists a'. split; [exact R|split; [exact Hwf'|]].
    intros l. rewrite Hpl, Hpl1. destruct (ev_child e =? l); destruct (pl a l); auto.
Qed.

Lemma wf_init : forall l, wf (fst (node [] l)) /\ forall x, pl (fst (node [] l)) x = None.
Proof.
  intros l. cbn. split.
  - split; cbn; [repeat constructor; auto|]. intros [|[|i]] n pi H; cbn in H; try discriminate.
    injection H as <-. discriminate.
  - intros x. unfold pl. cbn. destruct (l =? x); reflexivity.
Qed.

Section Fx.
Variable fx : bool.

(* the index always builds, and a query returns the parent label of the FIRST registration of the label *)
Theorem build_query_first : forall t, exists a, build fx t = Some a /\
  forall l, query a l = option_map ev_parent (find (fun e => ev_child e =? l) (visit fx [] t)).
Proof.
  intros t. destruct (wf_init (label t)) as [Hwf0 Hpl0].
  destruct (run_evs_spec (visit fx [] t) _ Hwf0) as (a & R & Hwf & Hpl).
  exists a. split; [exact R|]. intros l. rewrite (query_pl a l Hwf), Hpl, Hpl0. reflexivity.
Qed.

Theorem build_succeeds : forall t, exists a, build fx t = Some a.
Proof. intros t. destruct (build_query_first t) as (a & H & _). eauto. Qed.

Theorem query_tree_first : forall t l,
  query_tree fx t l = option_map ev_parent (find (fun e => ev_child e =? l) (visit fx [] t)).
Proof. intros t l. unfold query_tree. destruct (build_query_first t) as (a & -> & H). apply H. Qed.

(* ====================================================================== *)
(* Part B: the traversal registers exactly the syntactic edges it reaches   *)
(* ====================================================================== *)

Fixpoint edges (fx : bool) (pre : path) (t : tree) {struct t} : list ev :=
  match t with Node k l cs => kids fx (edges fx) k l pre 0%nat cs end.

Lemma kids_In : forall f k l pre cs i e,
  In e (kids fx f k l pre i cs) <->
  exists j c, nth_error cs j = Some c /\ registered fx k (i + j) = true /\
              (e = Ev (pre ++ [(i + j)%nat]) l (label c) \/ In e (f (pre ++ [(i + j)%nat]) c)).
Proof.
  intros f k l pre cs; induction cs as [|c cs IH]; intros i e; cbn.
  - split; [intros []|intros (j & c & H & _); destruct j; discriminate].
  - rewrite in_app_iff, IH. split.
    + intros [H|(j & c' & Hn & Hr & He)].
      * exists 0%nat, c. rewrite Nat.add_0_r. destruct (registered fx k i); [|destruct H].
        repeat split; auto. destruct H as [H|H]; auto.
      * exists (S j), c'. rewrite Nat.add_succ_r. auto.
    + intros ([|j] & c' & Hn & Hr & He); cbn in Hn.
      * injection Hn as <-. rewrite Nat.add_0_r in *. left. rewrite Hr. destruct He as [He|He]; [left|right]; auto.
      * right. exists j, c'. rewrite Nat.add_succ_r in *. auto.
Qed.

Lemma size_child : forall k l cs c, In c cs -> (size c < size (Node k l cs))%nat.
Proof.
  intros k l cs c H. change (size (Node k l cs)) with (S (list_sum (map size cs))).
  assert (size c <= list_sum (map size cs))%nat; [|lia].
  induction cs as [|x cs IH]; [destruct H|].
  change (list_sum (map size (x :: cs))) with (size x + list_sum (map size cs))%nat.
  destruct H as [->|H]; [lia|]. apply IH in H. lia.
Qed.

Lemma kids_ext_In : forall f g k l pre cs i e,
  (forall c, In c cs -> forall pre e, In e (f pre c) <-> In e (g pre c)) ->
  (In e (kids fx f k l pre i cs) <-> In e (kids fx g k l pre i cs)).
Proof.
  intros f g k l pre cs i e H. rewrite !kids_In.
  split; intros (j & c & Hn & Hr & He); exists j, c; repeat split; auto;
    (destruct He as [He|He]; [left; exact He|right]); apply (H c (nth_error_In _ _ Hn)); exact He.
Qed.

Lemma visit_edges_n : forall n t, (size t <= n)%nat -> forall pre e, In e (visit fx pre t) <-> In e (edges fx pre t).
Proof.
  induction n as [|n IH]; intros t Hs; [destruct t; cbn in Hs; lia|].
  assert (Hgen : forall k l cs, (size (Node k l cs) <= S n)%nat ->
            forall pre e, In e (kids fx (visit fx) k l pre 0%nat cs) <-> In e (kids fx (edges fx) k l pre 0%nat cs)).
  { intros k l cs Hsz pre e. apply kids_ext_In. intros c Hc pre' e'. apply IH.
    pose proof (size_child k l cs c Hc). lia. }
  destruct t as [k l cs]. intros pre e.
  destruct cs as [|[ko lo [|c2 [|rco [|x1 r1]]]] [|t2 [|x2 r2]]]; try (apply Hgen; exact Hs).
  cbn [visit]. destruct ((k =? K_TYPE1) && (ko =? K_OPERATOR)) eqn:C; [|apply Hgen; exact Hs].
  apply andb_true_iff in C as [Ck Cko]. apply N.eqb_eq in Ck, Cko. subst k ko.
  assert (Hc2 : forall pre e, In e (visit fx pre c2) <-> In e (edges fx pre c2)) by (apply IH; cbn in Hs |- *; lia).
  assert (Hrco : forall pre e, In e (visit fx pre rco) <-> In e (edges fx pre rco)) by (apply IH; cbn in Hs |- *; lia).
  assert (Ht2 : forall pre e, In e (visit fx pre t2) <-> In e (edges fx pre t2)) by (apply IH; cbn in Hs |- *; lia).
  cbn [edges kids].
  replace (registered fx K_TYPE1 0) with true by (destruct fx; reflexivity).
  replace (registered fx K_TYPE1 1) with true by (destruct fx; reflexivity).
  replace (registered fx K_OPERATOR 0) with true by (destruct fx; reflexivity).
  replace (registered fx K_OPERATOR 1) with true by (destruct fx; reflexivity).
  cbv iota. cbn [label]. repeat (rewrite in_app_iff || (progress (cbn [In app]))).
  rewrite (Hc2 ((pre ++ [0%nat]) ++ [0%nat]) e), (Hrco ((pre ++ [0%nat]) ++ [1%nat]) e), (Ht2 (pre ++ [1%nat]) e).
  tauto.
Qed.

Lemma visit_edges : forall t pre e, In e (visit fx pre t) <-> In e (edges fx pre t).
Proof. intros t. apply (visit_edges_n (size t)). lia. Qed.

Lemma tree_ind' (P : tree -> Prop) (H : forall k l cs, Forall P cs -> P (Node k l cs)) : forall t, P t.
Proof.
  fix IH 1. intros [k l cs]. apply H. induction cs as [|c cs IHcs]; constructor; [apply IH|exact IHcs].
Qed.

Definition is_edge (t : tree) (s : path) (lp lc : N) : Prop :=
  exists n q, node_at t s = Some n /\ node_at t (removelast s) = Some q /\ label n = lc /\ label q = lp.

Lemma edges_spec : forall t pre p lp lc,
  In (Ev p lp lc) (edges fx pre t) <->
  exists s, p = pre ++ s /\ s <> [] /\ reg_path fx t s = true /\ is_edge t s lp lc.
Proof.
  induction t as [k l cs IH] using tree_ind'. intros pre p lp lc. cbn [edges]. rewrite kids_In. cbn [Nat.add].
  rewrite Forall_forall in IH. split.
  - intros (j & c & Hn & Hr & [He|He]).
    + injection He as -> -> ->. exists [j]. repeat split; auto; [discriminate| |].
      * cbn. rewrite Hr, Hn. reflexivity.
      * exists c, (Node k l cs). cbn. rewrite Hn. auto.
    + apply (IH c (nth_error_In _ _ Hn)) in He as (s' & -> & Hne & Hreg & n & q & Hna & Hq & Hl1 & Hl2).
      exists (j :: s'). repeat split; [now rewrite <- app_assoc|discriminate| |].
      * cbn. rewrite Hr, Hn. exact Hreg.
      * exists n, q. cbn [node_at children]. rewrite Hn. repeat split; auto.
        destruct s' as [|x s']; [congruence|]. cbn [removelast node_at children]. rewrite Hn. exact Hq.
  - intros (s & -> & Hne & Hreg & n & q & Hna & Hq & Hl1 & Hl2).
    destruct s as [|j s']; [congruence|]. cbn in Hreg. apply andb_true_iff in Hreg as [Hr Hreg].
    cbn [node_at children] in Hna. destruct (nth_error cs j) as [c|] eqn:Hn; [|discriminate].
    exists j, c. repeat split; auto. destruct s' as [|x s'].
    + left. cbn in Hna, Hq. injection Hna as <-. injection Hq as <-. cbn in Hl2. now subst.
    + right. apply (IH c (nth_error_In _ _ Hn)). exists (x :: s'). repeat split; [now rewrite <- app_assoc|discriminate|exact Hreg|].
      exists n, q. repeat split; auto. cbn [removelast node_at children] in Hq. rewrite Hn in Hq. exact Hq.
Qed.

(* soundness and completeness of the registrations, in one statement *)
Theorem visit_spec : forall t p lp lc,
  In (Ev p lp lc) (visit fx [] t) <->
  p <> [] /\ reg_path fx t p = true /\
  exists n q, node_at t p = Some n /\ parent_of t p = Some q /\ label n = lc /\ label q = lp.
Proof.
  intros t p lp lc. rewrite visit_edges, edges_spec. unfold is_edge. split.
  - intros (s & -> & Hne & Hreg & n & q & H1 & H2 & H3 & H4). cbn. repeat split; auto.
    exists n, q. repeat split; auto. destruct s; [congruence|exact H2].
  - intros (Hne & Hreg & n & q & H1 & H2 & H3 & H4). exists p. cbn. repeat split; auto.
    exists n, q. repeat split; auto. destruct p; [congruence|exact H2].
Qed.

(* ====================================================================== *)
(* Part C: the property                                                     *)
(* ====================================================================== *)

Lemma node_at_label_In : forall p t n, node_at t p = Some n -> In (label n) (labels_preorder t).
Proof.
  induction p as [|i p IH]; intros [k l cs] n H; cbn in H.
  - injection H as <-. cbn. auto.
  - destruct (nth_error cs i) as [c|] eqn:Hn; [|discriminate]. cbn. right.
    apply in_flat_map. exists c. split; [eapply nth_error_In; eauto|auto].
Qed.

Lemma NoDup_app_disj : forall (A : Type) (l1 l2 : list A) x, NoDup (l1 ++ l2) -> In x l1 -> In x l2 -> False.
Proof.
  intros A l1; induction l1 as [|a l1 IH]; intros l2 x Hnd H1 H2; [destruct H1|].
  cbn in Hnd. inversion Hnd as [|? ? Hn Hnd']; subst. destruct H1 as [->|H1].
  - apply Hn. apply in_app_iff; auto.
  - eapply IH; eauto.
Qed.

Lemma NoDup_app_l : forall (A : Type) (l1 l2 : list A), NoDup (l1 ++ l2) -> NoDup l1.
Proof.
  intros A l1; induction l1 as [|a l1 IH]; intros l2 H; [constructor|].
  cbn in H. inversion H as [|? ? Hn Hnd]; subst. constructor.
  - intros Hin. apply Hn. apply in_app_iff; auto.
  - eapply IH; eauto.
Qed.

Lemma NoDup_app_r : forall (A : Type) (l1 l2 : list A), NoDup (l1 ++ l2) -> NoDup l2.
Proof.
  intros A l1; induction l1 as [|a l1 IH]; intros l2 H; [exact H|].
  cbn in H. inversion H; subst. auto.
Qed.

Lemma NoDup_flat_map_in : forall (A B : Type) (f : A -> list B) cs c, NoDup (flat_map f cs) -> In c cs -> NoDup (f c).
Proof.
  intros A B f cs; induction cs as [|a cs IH]; intros c Hnd Hc; [destruct Hc|]. cbn in Hnd.
  destruct Hc as [->|Hc].
  - eapply NoDup_app_l; eauto.
  - apply IH; auto. eapply NoDup_app_r; eauto.
Qed.

Lemma NoDup_flat_map_disj : forall (A B : Type) (f : A -> list B) cs i j a b x,
  NoDup (flat_map f cs) -> nth_error cs i = Some a -> nth_error cs j = Some b -> i <> j ->
  In x (f a) -> In x (f b) -> False.
Proof.
  intros A B f cs; induction cs as [|c cs IH]; intros i j a b x Hnd Hi Hj Hne Ha Hb; [destruct i; discriminate|].
  cbn in Hnd. destruct i as [|i], j as [|j]; cbn in Hi, Hj; try congruence.
  - injection Hi as ->. eapply NoDup_app_disj; eauto. apply in_flat_map. exists b. split; auto. eapply nth_error_In; eauto.
  - injection Hj as ->. eapply NoDup_app_disj; eauto. apply in_flat_map. exists a. split; auto. eapply nth_error_In; eauto.
  - eapply (IH i j); eauto. eapply NoDup_app_r; eauto.
Qed.

(* distinct labels identify positions *)
Lemma label_inj : forall t, NoDup (labels_preorder t) ->
  forall p p' n n', node_at t p = Some n -> node_at t p' = Some n' -> label n = label n' -> p = p'.
Proof.
  induction t as [k l cs IH] using tree_ind'. intros Hnd p p' n n' H H' Hl.
  cbn in Hnd. inversion Hnd as [|? ? Hnotin Hnd']; subst. rewrite Forall_forall in IH.
  destruct p as [|i s], p' as [|j s']; auto; cbn [node_at children] in H, H'.
  - exfalso. injection H as <-. cbn in Hl. destruct (nth_error cs j) as [c|] eqn:Hj; [|discriminate].
    apply Hnotin. rewrite Hl. apply in_flat_map. exists c. split; [eapply nth_error_In; eauto|].
    eapply node_at_label_In; eauto.
  - exfalso. injection H' as <-. cbn in Hl. destruct (nth_error cs i) as [c|] eqn:Hi; [|discriminate].
    apply Hnotin. rewrite <- Hl. apply in_flat_map. exists c. split; [eapply nth_error_In; eauto|].
    eapply node_at_label_In; eauto.
  - destruct (nth_error cs i) as [c|] eqn:Hi; [|discriminate].
    destruct (nth_error cs j) as [c'|] eqn:Hj; [|discriminate].
    destruct (Nat.eq_dec i j) as [->|Hne].
    + rewrite Hi in Hj. injection Hj as <-. f_equal.
      eapply (IH c); eauto; [eapply nth_error_In; eauto|].
      eapply NoDup_flat_map_in; eauto. eapply nth_error_In; eauto.
    + exfalso. eapply (NoDup_flat_map_disj _ _ labels_preorder cs i j c c' (label n)); eauto.
      * eapply node_at_label_In; eauto.
      * rewrite Hl. eapply node_at_label_In; eauto.
Qed.

Lemma node_at_parent : forall p t n, p <> [] -> node_at t p = Some n -> exists q, parent_of t p = Some q.
Proof.
  induction p as [|i p IH]; intros t n Hne H; [congruence|].
  destruct p as [|x p].
  - exists t. reflexivity.
  - cbn [node_at] in H. destruct (nth_error (children t) i) as [c|] eqn:Hi; [|discriminate].
    destruct (IH c n) as (q & Hq); [discriminate|exact H|]. exists q.
    cbn [parent_of removelast node_at] in *. rewrite Hi. exact Hq.
Qed.

Lemma find_first : forall (A : Type) (f : A -> bool) xs e, find f xs = Some e ->
  exists pre post, xs = pre ++ e :: post /\ f e = true /\ forall x, In x pre -> f x = false.
Proof.
  intros A f xs; induction xs as [|a xs IH]; intros e H; cbn in H; [discriminate|].
  destruct (f a) eqn:Fa.
  - injection H as <-. exists [], xs. repeat split; auto. intros x [].
  - destruct (IH e H) as (pre & post & -> & Fe & Hpre). exists (a :: pre), post. repeat split; auto.
    intros x [<-|Hx]; auto.
Qed.

(* the answer at a node: the parent label of the node whose registration came first among the equal-labelled ones *)
Theorem query_is_first_registered : forall t l,
  (first_reg fx t l = None /\ query_tree fx t l = None) \/
  (exists p' n' q', first_reg fx t l = Some p' /\ p' <> [] /\ reg_path fx t p' = true /\ node_at t p' = Some n' /\
                    label n' = l /\ parent_of t p' = Some q' /\ query_tree fx t l = Some (label q')).
Proof.
  intros t l. rewrite query_tree_first. unfold first_reg, first_reg_in.
  destruct (find (fun e => ev_child e =? l) (visit fx [] t)) as [[p' lp lc]|] eqn:F; [right|left; auto].
  apply find_some in F as [Hin He]. cbn in He. apply N.eqb_eq in He. subst lc.
  apply visit_spec in Hin as (Hne & Hreg & n & q & H1 & H2 & H3 & H4).
  exists p', n, q. cbn. repeat split; auto. now rewrite H4.
Qed.

Theorem parent_correct : forall t, NoDup (labels_preorder t) ->
  forall p n, node_at t p = Some n -> reg_path fx t p = true ->
  query_tree fx t (label n) = option_map label (parent_of t p).
Proof.
  intros t Hnd p n Hn Hreg.
  destruct (query_is_first_registered t (label n)) as [[F Q]|(p' & n' & q' & F & Hne & Hr & Hn' & Hl & Hq & Q)].
  - destruct p as [|i s]; [now rewrite Q|]. exfalso.
    destruct (node_at_parent (i :: s) t n) as (q & Hq); [discriminate|auto|].
    assert (Hin : In (Ev (i :: s) (label q) (label n)) (visit fx [] t)).
    { apply visit_spec. repeat split; [discriminate|auto|]. exists n, q. auto. }
    unfold first_reg, first_reg_in in F.
    destruct (find (fun e => ev_child e =? label n) (visit fx [] t)) eqn:E; [discriminate|].
    pose proof (find_none _ _ E _ Hin) as H. cbn in H. rewrite N.eqb_refl in H. discriminate.
  - assert (p' = p) by (eapply label_inj; eauto). subst p'. rewrite Q, Hq. reflexivity.
Qed.

Theorem unindexed_none : forall t, NoDup (labels_preorder t) ->
  forall p n, node_at t p = Some n -> reg_path fx t p = false -> query_tree fx t (label n) = None.
Proof.
  intros t Hnd p n Hn Hreg.
  destruct (query_is_first_registered t (label n)) as [[F Q]|(p' & n' & q' & F & Hne & Hr & Hn' & Hl & Hq & Q)]; auto.
  assert (p' = p) by (eapply label_inj; eauto). subst p'. congruence.
Qed.

Theorem root_no_parent : forall t,
  ~ In (label t) (flat_map labels_preorder (children t)) -> query_tree fx t (label t) = None.
Proof.
  intros t H.
  destruct (query_is_first_registered t (label t)) as [[F Q]|(p' & n' & q' & F & Hne & Hr & Hn' & Hl & Hq & Q)]; auto.
  exfalso. apply H. destruct p' as [|i s]; [congruence|]. cbn [node_at] in Hn'.
  destruct (nth_error (children t) i) as [c|] eqn:Hi; [|discriminate].
  apply in_flat_map. exists c. split; [eapply nth_error_In; eauto|]. rewrite <- Hl. eapply node_at_label_In; eauto.
Qed.

Theorem root_no_parent_nodup : forall t, NoDup (labels_preorder t) -> query_tree fx t (label t) = None.
Proof.
  intros [k l cs] H. apply root_no_parent. cbn in *. now inversion H.
Qed.

(* exact characterisation of a wrong answer *)
Theorem collision_iff : forall t p n q,
  node_at t p = Some n -> parent_of t p = Some q -> reg_path fx t p = true ->
  (query_tree fx t (label n) <> Some (label q) <->
   exists p' n' q', first_reg fx t (label n) = Some p' /\ node_at t p' = Some n' /\ label n' = label n /\
                    parent_of t p' = Some q' /\ label q' <> label q).
Proof.
  intros t p n q Hn Hq Hreg.
  assert (Hne : p <> []) by (destruct p; [discriminate|discriminate]).
  destruct (query_is_first_registered t (label n)) as [[F Q]|(p' & n' & q' & F & Hne' & Hr & Hn' & Hl & Hq' & Q)].
  - exfalso.
    assert (Hin : In (Ev p (label q) (label n)) (visit fx [] t)).
    { apply visit_spec. repeat split; auto. exists n, q. auto. }
    unfold first_reg, first_reg_in in F.
    destruct (find (fun e => ev_child e =? label n) (visit fx [] t)) eqn:E; [discriminate|].
    pose proof (find_none _ _ E _ Hin) as H. cbn in H. rewrite N.eqb_refl in H. discriminate.
  - rewrite Q. split.
    + intros H. exists p', n', q'. repeat split; auto. congruence.
    + intros (p2 & n2 & q2 & F2 & Hn2 & Hl2 & Hq2 & Hd) H. rewrite F in F2. injection F2 as <-.
      rewrite Hq' in Hq2. injection Hq2 as <-. injection H as H. auto.
Qed.

(* "first" means: registered before every other node with that label *)
Theorem first_reg_earliest : forall t l p', first_reg fx t l = Some p' ->
  exists pre e post, visit fx [] t = pre ++ e :: post /\ ev_path e = p' /\ ev_child e = l /\
                     forall x, In x pre -> ev_child x <> l.
Proof.
  intros t l p' H. unfold first_reg, first_reg_in in H.
  destruct (find (fun e => ev_child e =? l) (visit fx [] t)) as [e|] eqn:F; [|discriminate].
  cbn in H. injection H as <-. apply find_first in F as (pre & post & E & Fe & Hpre).
  exists pre, e, post. repeat split; auto; [now apply N.eqb_eq|].
  intros x Hx. apply Hpre in Hx. now apply N.eqb_neq.
Qed.

End Fx.

(* ---------- witnesses ---------- *)

(* with the repair of Type2::Unwrap (fx = true) every position is reached ... *)
Lemma reg_path_fixed : forall p t n, node_at t p = Some n -> reg_path true t p = true.
Proof.
  induction p as [|i p IH]; intros t n H; [reflexivity|]. cbn in *.
  destruct (nth_error (children t) i) as [c|]; [|discriminate]. eauto.
Qed.

(* ... and the full statement holds whenever no two nodes of the document are equal *)
Theorem parent_correct_fixed : forall t, NoDup (labels_preorder t) ->
  forall p n, node_at t p = Some n -> query_tree true t (label n) = option_map label (parent_of t p).
Proof. intros t Hnd p n Hn. eapply parent_correct; eauto. eapply reg_path_fixed; eauto. Qed.

(* the collision defect does not depend on the repair *)

Fixpoint nodupb (l : list N) : bool :=
  match l with [] => true | x :: r => negb (existsb (N.eqb x) r) && nodupb r end.

Lemma nodupb_NoDup : forall l, nodupb l = true -> NoDup l.
Proof.
  induction l as [|x r IH]; cbn; intros H; constructor.
  - apply andb_true_iff in H as [H _]. apply negb_true_iff in H. intros Hin.
    assert (existsb (N.eqb x) r = true) by (apply existsb_exists; exists x; split; auto; apply N.eqb_refl). congruence.
  - apply IH. now apply andb_true_iff in H as [_ H].
Qed.

(* `a = [int, int]` as the driver sees it: the two TypeGroupnameEntry values (label 11) and the two
   identifiers `int` (label 12) are equal under the crate's ==, their GroupEntry parents (10, 13) are not *)
Definition doc_int_int : tree :=
  Node 0 0 [Node 1 1 [Node 2 2 [Node 11 3 []; Node 12 4 [Node 13 5 [Node 14 6 [Node 110 7 [Node 4 8 [Node 5 9
    [Node 10 10 [Node 23 11 [Node 11 12 []]]; Node 10 13 [Node 23 11 [Node 11 12 []]]]]]]]]]]].
Definition path_second_tge : path := [0; 0; 1; 0; 0; 0; 0; 0; 1; 0]%nat.

Theorem parent_refuted : exists t p n,
  node_at t p = Some n /\ reg_path false t p = true /\
  query_tree false t (label n) <> option_map label (parent_of t p).
Proof.
  exists doc_int_int, path_second_tge, (Node 23 11 [Node 11 12 []]).
  split; [reflexivity|]. split; [reflexivity|]. vm_compute. discriminate.
Qed.

Theorem parent_refuted_fixed : exists t p n,
  node_at t p = Some n /\ query_tree true t (label n) <> option_map label (parent_of t p).
Proof.
  exists doc_int_int, path_second_tge, (Node 23 11 [Node 11 12 []]).
  split; [reflexivity|]. vm_compute. discriminate.
Qed.

(* `a = ~b<int>`: all labels distinct, yet the nodes of the generic arguments are never indexed *)
Definition doc_unwrap_args : tree :=
  Node 0 0 [Node 1 1 [Node 2 2 [Node 11 3 []; Node 12 4 [Node 13 5 [Node 14 6 [Node 111 7
    [Node 11 8 []; Node 8 9 [Node 9 10 [Node 14 11 [Node 107 12 [Node 11 13 []]]]]]]]]]]].
Definition path_unwrap_args : path := [0; 0; 1; 0; 0; 0; 1]%nat.

Theorem parent_unindexed_refuted : exists t p n,
  NoDup (labels_preorder t) /\ node_at t p = Some n /\
  query_tree false t (label n) <> option_map label (parent_of t p).
Proof.
  exists doc_unwrap_args, path_unwrap_args, (Node 8 9 [Node 9 10 [Node 14 11 [Node 107 12 [Node 11 13 []]]]]).
  split; [apply nodupb_NoDup; vm_compute; reflexivity|]. split; [reflexivity|]. vm_compute. discriminate.
Qed.

(* ---------- the code as it is now (Type2::Unwrap repaired, fx = true): every position is reached ---------- *)

Theorem visit_spec_now : forall t p lp lc,
  In (Ev p lp lc) (visit true [] t) <->
  p <> [] /\ exists n q, node_at t p = Some n /\ parent_of t p = Some q /\ label n = lc /\ label q = lp.
Proof.
  intros t p lp lc. rewrite visit_spec. split.
  - intros (H1 & _ & H2). auto.
  - intros (H1 & n & q & Hn & H2). split; [auto|]. split; [eapply reg_path_fixed; eauto|]. exists n, q. auto.
Qed.

Theorem query_is_first_registered_now : forall t l,
  (first_reg true t l = None /\ query_tree true t l = None) \/
  (exists p' n' q', first_reg true t l = Some p' /\ p' <> [] /\ node_at t p' = Some n' /\
                    label n' = l /\ parent_of t p' = Some q' /\ query_tree true t l = Some (label q')).
Proof.
  intros t l. destruct (query_is_first_registered true t l) as [H|(p' & n' & q' & H1 & H2 & _ & H3)]; [left; exact H|].
  right. exists p', n', q'. auto.
Qed.

Theorem collision_iff_now : forall t p n q,
  node_at t p = Some n -> parent_of t p = Some q ->
  (query_tree true t (label n) <> Some (label q) <->
   exists p' n' q', first_reg true t (label n) = Some p' /\ node_at t p' = Some n' /\ label n' = label n /\
                    parent_of t p' = Some q' /\ label q' <> label q).
Proof. intros t p n q Hn Hq. apply (collision_iff true t p n q Hn Hq). eapply reg_path_fixed; eauto. Qed.

(* regression witness of the repaired finding: `a = ~b<int>` -- before the repair (fx = false) the GenericArgs
   node (label 9) had no parent, now it reports the Type2::Unwrap node (label 7) *)
Theorem unwrap_args_indexed_now :
  query_tree false doc_unwrap_args 9 = None /\ query_tree true doc_unwrap_args 9 = Some 7 /\
  option_map label (parent_of doc_unwrap_args path_unwrap_args) = Some 7.
Proof. vm_compute. repeat split. Qed.
