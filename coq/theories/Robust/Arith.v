(* C05 - the data-dependent partial operations on the validation paths, written out.
   A checked Rust operation (checked_mul, checked_add, i64::try_from) is option-valued here; since
   commits fe9328d / 9c012db the code turns [None] into a validation error (before, the unchecked
   operation panicked in builds with overflow checks and wrapped otherwise).  A cast that can lose
   information is written as the arithmetic it performs.  No proofs in this file. *)
From Cddl Require Import Base.Bytes.
Open Scope Z_scope.

Definition in_i64 (z : Z) : bool := (-(2 ^ 63) <=? z) && (z <? 2 ^ 63).
Definition in_u64 (z : Z) : bool := (0 <=? z) && (z <? 2 ^ 64).
(* ciborium::value::Integer: -2^64 .. 2^64-1 *)
Definition in_cbor_int (z : Z) : bool := (-(2 ^ 64) <=? z) && (z <? 2 ^ 64).

(* json.rs  `n.checked_mul(1000).is_some_and(|ms| Utc.timestamp_millis_opt(ms) is not None)` for prelude
   type `time`, n : i64 from serde_json's as_i64: [None] = "invalid UNIX timestamp" *)
Definition mul1000_checked (n : Z) : option Z :=
  let r := n * 1000 in if in_i64 r then Some r else None.
Definition wrap_i64 (z : Z) : Z := (z + 2 ^ 63) mod 2 ^ 64 - 2 ^ 63.
(* the class of inputs rejected because the multiplication leaves i64 *)
Definition mul1000_overflows (n : Z) : bool := (n <? -9223372036854775) || (9223372036854775 <? n).

(* cbor.rs  `i64::try_from(value).is_ok_and(..)` for tag 1 under `time`, value : ciborium Integer *)
Definition try_into_i64 (z : Z) : option Z := if in_i64 z then Some z else None.

(* json.rs:3226 / cbor.rs  `256u128.checked_pow( *v as u32 )` with v : usize (the .size argument) *)
Definition as_u32 (v : Z) : Z := v mod 2 ^ 32.
(* 256^e overflows u128 exactly from e = 16 on; e < 2^32 is never turned into a huge power *)
Definition pow256_checked (e : Z) : option Z := if e <? 16 then Some (256 ^ e) else None.
(* verdict of `uint .size v` on the unsigned integer i as the code computes it *)
Definition size_uint_accepts (v i : Z) : bool :=
  match pow256_checked (as_u32 v) with
  | Some n => i <? n
  | None => false
  end.

(* control.rs plus_operation: `value.checked_add(controller)` on usize, and
   `(value as isize).checked_add(controller)` / `value.checked_add(controller as isize)` on isize.
   A literal >= 0 is a UintValue (usize), a negative one an IntValue (isize).
   [None] = Err("integer overflow in .plus operation"). *)
Definition plus_checked (a b : Z) : option Z :=
  if (0 <=? a) && (0 <=? b) then (let r := a + b in if in_u64 r then Some r else None)
  else let a' := if 0 <=? a then wrap_i64 a else a in
       let b' := if 0 <=? b then wrap_i64 b else b in
       let r := a' + b' in if in_i64 r then Some r else None.

(* ---------- rendering for the oracle / vm_compute slice ---------- *)
(* op 0: n * 1000 (checked)   op 1: try_into::<i64>   op 2: `uint .size a` on b   op 3: a .plus b
   answers: P = the checked operation is None (validation error), R = it has a value, A = accepts, J = rejects *)
Definition arith_report (op : N) (a b : Z) : list N :=
  if (op =? 0)%N then match mul1000_checked a with None => [80%N] | Some _ => [82%N] end
  else if (op =? 1)%N then match try_into_i64 a with None => [80%N] | Some _ => [82%N] end
  else if (op =? 3)%N then match plus_checked a b with None => [80%N] | Some _ => [82%N] end
  else if size_uint_accepts a b then [65%N] else [74%N].
