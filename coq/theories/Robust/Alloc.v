(* C05 - model of the allocation behaviour of src/validator/cbor_value.rs after commit 5cd60cf:

     const MAX_PREALLOC: usize = 4096;
     fn read_len(decoder, n) -> Result<Vec<u8>, _> {
       let mut buf = Vec::with_capacity(n.min(MAX_PREALLOC));
       let mut remaining = n;
       while remaining > 0 {
         let take = remaining.min(MAX_PREALLOC);
         let start = buf.len();
         buf.resize(start + take, 0u8);                 // <- allocation request: start + take bytes
         decoder.read_exact(&mut buf[start..])?;        // <- fails (UnexpectedEof) when fewer than take bytes are left
         remaining -= take;
       }
       Ok(buf)
     }
     decode_array / decode_map:  Vec::with_capacity(n.min(MAX_PREALLOC))

   The constant and the shape flags come from the source through gen/robust_consts.py
   (Generated/RobustConsts.v); a flag that is false makes the model request what the
   un-capped code would request.  The model returns the list of allocation requests next to
   the result.  n is a number from the wire: an N, compared with what remains before it is used.
   No proofs in this file. *)
From Cddl Require Import Base.Bytes Cbor.Wire Generated.RobustConsts.
Open Scope N_scope.

Definition initial_cap (n : N) : N := if read_len_initial_capped then N.min n MAX_PREALLOC else n.
Definition chunk (remaining : N) : N := if read_len_chunk_capped then N.min remaining MAX_PREALLOC else remaining.

(* the while loop; fuel = one more than the number of input bytes *)
Fixpoint read_loop (fuel : nat) (remaining start : N) (inp : list N) : list N * res (list N * list N) :=
  match fuel with
  | O => ([], Err EFuel)
  | S f =>
    if remaining =? 0 then ([], Ok ([], inp)) else
    let take := chunk remaining in
    let req := start + take in
    match takeN take inp with
    | None => ([req], Err EEof)
    | Some (p, t) =>
      let rr := read_loop f (remaining - take) (start + take) t in
      (req :: fst rr, match snd rr with Ok (q, u) => Ok (p ++ q, u) | Err e => Err e end)
    end
  end.

Definition read_len (n : N) (inp : list N) : list N * res (list N * list N) :=
  let rr := read_loop (S (length inp)) n 0 inp in
  (initial_cap n :: fst rr, snd rr).

(* requests of the `with_capacity` sites of the whole decoder when a head announces n *)
Definition site_request (capped : bool) (n : N) : N := if capped then N.min n MAX_PREALLOC else n.
Definition prealloc_requests (n : N) : list N := map (fun s : N * bool => site_request (snd s) n) alloc_sites.

(* ---------- rendering for the oracle / vm_compute slice ---------- *)
(* "<OK hexlen | EOF | FUEL> <hex of the largest request> <hex number of requests>" *)
Definition alloc_report (n : N) (inp : list N) : list N :=
  let rr := read_len n inp in
  (match snd rr with
   | Ok (p, _) => [79; 75] ++ hexN (lenN p)
   | Err EEof => [69; 79; 70]
   | Err EFuel => [70; 85; 69; 76]
   | Err _ => [63]
   end) ++ [32] ++ hexN (fold_right N.max 0 (fst rr)) ++ [32] ++ hexN (lenN (fst rr)).
