(* C05 - model of the occurrence loop of the sequence matchers
   (src/validator/json.rs / cbor.rs, fn seq_match_entry):

     let (min, max) = bounds written in the schema;          // n*m : usize, any value up to 2^64-1
     let mut cur = cursor; let mut count = 0usize;
     while max.is_none_or(|m| count < m) {
       match self.seq_match_entry_once(entry, elems, cur, ctx)? {
         Some(next) => {
           count += 1;
           if next == cur { count = count.max(min); break; }  // zero-width iteration: stop
           cur = next;
         }
         None => break,
       }
     }
     if count >= min { Ok(Some(cur)) } else { Ok(None) }

   The cursor is modelled as the list of elements still to be matched (a list in hand); one
   application of the entry ([once]) returns a suffix of it.  [stop_bounded] says whether the
   zero-width stop also applies to a bounded occurrence (the code: yes; read from the source by
   gen/robust_consts.py).  Bounds and the counter are numbers from the schema: N, never nat.
   No proofs in this file. *)
From Cddl Require Import Base.Bytes.
Open Scope N_scope.

Inductive ores (A : Type) := Matched (rest : list A) | NoMatch | OFuel.
Arguments Matched {A} rest.
Arguments NoMatch {A}.
Arguments OFuel {A}.

Definition finish {A} (min count : N) (cur : list A) : ores A :=
  if min <=? count then Matched cur else NoMatch.

Definition unbounded (max : option N) : bool := match max with None => true | Some _ => false end.
Definition below (max : option N) (count : N) : bool := match max with None => true | Some m => count <? m end.

Fixpoint occ_loop {A} (stop_bounded : bool) (once : list A -> option (list A))
         (fuel : nat) (min : N) (max : option N) (count : N) (cur : list A) : ores A :=
  match fuel with
  | O => OFuel
  | S f =>
    if below max count then
      match once cur with
      | Some next =>
        if (length next =? length cur)%nat && (stop_bounded || unbounded max)
        then finish min (N.max (count + 1) min) next
        else occ_loop stop_bounded once f min max (count + 1) next
      | None => finish min count cur
      end
    else finish min count cur
  end.

(* what one application of an entry may do to the cursor: consume a prefix, never add elements *)
Definition consumes {A} (once : list A -> option (list A)) : Prop :=
  forall l l', once l = Some l' -> exists p, l = p ++ l'.
