(* C05 - model of the alias chasing of src/validator/mod.rs (is_ident_null_data_type ...
   is_ident_byte_string_data_type, ident_matches_bool_value, ident_accepts_bignum_tag) and
   src/validator/control.rs (string_literals_from_ident, numeric_values_from_ident), as repaired by
   commit d9284e7.  Every one of these helpers is

     fn is_ident_X(cddl, ident) -> bool {
       if let Token::X.. = lookup_ident(ident.ident) { return true; }
       let Some(_guard) = AliasGuard::enter(ident) else { return false; };   // name already being resolved
       cddl.rules.iter().any(|r| match r {
         Rule::Type { rule, .. } if rule.name == *ident =>
           rule.value.type_choices.iter().any(|tc|
             if let Type2::Typename { ident, .. } = &tc.type1.type2 { is_ident_X(cddl, ident) } else { false }),
         _ => false })
     }                                                                       // guard dropped: name popped

   so the only thing that matters about a schema is, per type rule and per type choice, whether
   the FIRST type2 of the choice is a bare name (an operator after it is ignored) and which one.
   The helpers differ in the set of prelude names that answer `true` at once ([hit]).
   AliasGuard keeps the names on the current call path ([active]); a name met again on its own
   path answers `false`.  Recursion in the code is the call stack; here it is fuel, and
   [OutOfFuel] is the model's name for "the real call does not return".  Before d9284e7 there
   was no guard and `a = b .size 3` / `b = a` overflowed the stack.
   No proofs in this file. *)
From Cddl Require Import Base.Bytes.
Open Scope N_scope.

Definition name := N.
Inductive atom := Alias (n : name) | Other.
Definition body := list atom.                  (* the type choices of one rule, first type2 of each *)
Definition env := list (name * body).          (* type rules in document order; `/=` adds entries of the same name *)

Inductive outcome := Yes | No | OutOfFuel.

(* Iterator::any: stops at the first `true`; a call that does not return takes everything with it *)
Fixpoint any_o {A} (f : A -> outcome) (l : list A) : outcome :=
  match l with
  | [] => No
  | x :: r => match f x with
              | Yes => Yes
              | OutOfFuel => OutOfFuel
              | No => any_o f r
              end
  end.

Definition memN (x : N) (l : list N) : bool := existsb (N.eqb x) l.

Fixpoint chase_g (hit : list name) (fuel : nat) (active : list name) (e : env) (n : name) : outcome :=
  match fuel with
  | O => OutOfFuel
  | S f =>
    if memN n hit then Yes
    else if memN n active then No                      (* AliasGuard::enter(ident) = None *)
    else
    any_o (fun r : name * body =>
             if fst r =? n
             then any_o (fun a => match a with Alias k => chase_g hit f (n :: active) e k | Other => No end) (snd r)
             else No) e
  end.

(* a top-level call: nothing is being resolved yet *)
Definition chase (hit : list name) (fuel : nat) (e : env) (n : name) : outcome := chase_g hit fuel [] e n.

(* `is_ident_A(..) || is_ident_B(..) || ...` as written at the call sites (json.rs visit_control_operator) *)
Fixpoint chase_seq (hits : list (list name)) (fuel : nat) (e : env) (n : name) : outcome :=
  match hits with
  | [] => No
  | h :: r => match chase h fuel e n with
              | Yes => Yes
              | OutOfFuel => OutOfFuel
              | No => chase_seq r fuel e n
              end
  end.

(* ---------- acyclicity of the alias graph, as a boolean (Kahn's algorithm) ---------- *)
Definition names (e : env) : list name := map fst e.
Definition defined (e : env) (n : name) : bool := memN n (names e).
Definition atom_targets (b : body) : list name :=
  flat_map (fun a => match a with Alias k => [k] | Other => [] end) b.
Definition targets (e : env) (n : name) : list name :=
  flat_map (fun r : name * body => if fst r =? n then atom_targets (snd r) else []) e.

(* a name is settled once all its alias targets are settled or have no rule at all *)
Definition settled (e : env) (s : list name) (k : name) : bool := negb (defined e k) || memN k s.
Definition kahn_step (e : env) (s : list name) : list name :=
  s ++ filter (fun n => forallb (settled e s) (targets e n)) (names e).
Fixpoint kahn (rounds : nat) (e : env) (s : list name) : list name :=
  match rounds with
  | O => s
  | S r => kahn r e (kahn_step e s)
  end.
Definition acyclic_alias (e : env) : bool :=
  forallb (fun n => memN n (kahn (length e) e [])) (names e).

(* enough for every environment: each nested call puts one more rule name on the active path *)
Definition chase_fuel (e : env) : nat := S (S (length e)).

(* ---------- cost: number of calls when no name hits (no short cut of `any`) ---------- *)
(* calls e n = number of calls of is_ident_X made by is_ident_X(n), explored to depth |e|
   (the exact number on an acyclic alias graph).  Computed level by level over a table so that
   the model itself stays polynomial where the code is not. *)
Definition lookupN (t : list (name * N)) (n : name) : N :=
  match find (fun p : name * N => fst p =? n) t with Some p => snd p | None => 1 end.
Definition calls_step (e : env) (t : list (name * N)) : list (name * N) :=
  map (fun n => (n, 1 + fold_right (fun k acc => lookupN t k + acc) 0 (targets e n))) (names e).
Fixpoint calls_tbl (rounds : nat) (e : env) : list (name * N) :=
  match rounds with
  | O => map (fun n => (n, 1)) (names e)
  | S r => calls_step e (calls_tbl r e)
  end.
Definition calls (e : env) (n : name) : N := lookupN (calls_tbl (length e) e) n.

(* the family a0 = a1 / a1, a1 = a2 / a2, ..., a(k-1) = ak / ak : k rules *)
Fixpoint diamond (k : nat) (i : N) : env :=
  match k with
  | O => []
  | S k' => (i, [Alias (i + 1); Alias (i + 1)]) :: diamond k' (i + 1)
  end.

(* ---------- rendering for the oracle / vm_compute slice ---------- *)
Definition outcome_code (o : outcome) : N :=
  match o with Yes => 89 | No => 78 | OutOfFuel => 79 end.       (* Y N O *)
Definition bit_code (b : bool) : N := if b then 49 else 48.

(* "<acyclic> <outcome of chase_seq with fuel |e|+2, or ? when the model itself would need more
   than 2^20 calls> <hex calls>" *)
Definition chase_report (hits : list (list name)) (e : env) (n : name) : list N :=
  let c := calls e n in
  [bit_code (acyclic_alias e); 32;
   (if c <=? 1048576 then outcome_code (chase_seq hits (chase_fuel e) e n) else 63); 32] ++ hexN c.
