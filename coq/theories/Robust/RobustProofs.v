(* C05 - proofs about the models Robust/Chase.v, Robust/Alloc.v, Robust/Arith.v. *)
From Coq Require Import ZifyBool ZifyNat ZifyN.
From Cddl Require Import Base.Bytes Cbor.Wire Cbor.DecodeProofs Generated.RobustConsts Robust.Chase Robust.Alloc Robust.Arith Robust.Occur.
Ltac Zify.zify_post_hook ::= Z.div_mod_to_equations.
Arguments N.add : simpl never.
Arguments N.mul : simpl never.
Arguments N.min : simpl never.
Arguments N.sub : simpl never.
Open Scope N_scope.

(* ====================================================================== *)
(* alias chasing                                                           *)
(* ====================================================================== *)
Lemma memN_In x l : memN x l = true <-> In x l.
Proof.
  unfold memN. rewrite existsb_exists. split.
  - intros (y & Hy & E). apply N.eqb_eq in E. subst. exact Hy.
  - intros H. exists x. split; [exact H|apply N.eqb_refl].
Qed.

Lemma memN_app x a b : memN x (a ++ b) = memN x a || memN x b.
Proof. unfold memN. apply existsb_app. Qed.

Lemma any_o_no_fuel {A} (f : A -> outcome) l :
  (forall x, In x l -> f x <> OutOfFuel) -> any_o f l <> OutOfFuel.
Proof.
  induction l as [|x r IH]; intros H; cbn [any_o]; [discriminate|].
  pose proof (H x (or_introl eq_refl)) as Hx.
  destruct (f x); [discriminate| |congruence].
  apply IH. intros y Hy. apply H. right. exact Hy.
Qed.

Lemma memN_cons x y l : memN x (y :: l) = (x =? y) || memN x l.
Proof. reflexivity. Qed.

Lemma filter_le {A} (p q : A -> bool) l :
  (forall y, q y = true -> p y = true) -> (length (filter q l) <= length (filter p l))%nat.
Proof.
  intros H. induction l as [|a l IH]; cbn [filter]; [lia|].
  destruct (q a) eqn:Q; [rewrite (H a Q); cbn [length]; lia|].
  destruct (p a); cbn [length]; lia.
Qed.

Lemma filter_lt {A} (p q : A -> bool) l x :
  (forall y, q y = true -> p y = true) -> In x l -> p x = true -> q x = false ->
  (length (filter q l) < length (filter p l))%nat.
Proof.
  intros H. induction l as [|a l IH]; intros Hin Px Qx; [destruct Hin|]. cbn [filter].
  destruct Hin as [->|Hin].
  - rewrite Px, Qx. cbn [length]. pose proof (filter_le p q l H). lia.
  - specialize (IH Hin Px Qx). destruct (q a) eqn:Q; [rewrite (H a Q); cbn [length]; lia|].
    destruct (p a); cbn [length]; lia.
Qed.

Lemma filter_length_le' {A} (q : A -> bool) l : (length (filter q l) <= length l)%nat.
Proof. induction l as [|a l IH]; cbn [filter length]; [lia|]. destruct (q a); cbn [length]; lia. Qed.

Section Chase.
  Variable hit : list name.
  Variable e : env.

  (* rule names not yet on the active path: the termination measure of the guarded recursion *)
  Definition freeN (active : list name) : nat :=
    length (filter (fun m => negb (memN m active)) (names e)).

  Lemma free_step n active :
    In n (names e) -> memN n active = false -> (freeN (n :: active) < freeN active)%nat.
  Proof.
    intros Hin Hn. unfold freeN. apply filter_lt with (x := n); [|exact Hin|rewrite Hn; reflexivity|].
    - intros y Hy. rewrite memN_cons in Hy. destruct (memN y active); [|reflexivity].
      rewrite orb_true_r in Hy. discriminate.
    - rewrite memN_cons, N.eqb_refl. reflexivity.
  Qed.

  Lemma chase_g_fuel : forall f active n, (freeN active < f)%nat -> chase_g hit f active e n <> OutOfFuel.
  Proof.
    induction f as [|f IH]; intros active n Hf; [lia|]. cbn [chase_g].
    destruct (memN n hit); [discriminate|].
    destruct (memN n active) eqn:A; [discriminate|].
    apply any_o_no_fuel. intros [m b] Hin. cbn [fst snd].
    destruct (m =? n) eqn:E; [|discriminate]. apply N.eqb_eq in E. subst m.
    apply any_o_no_fuel. intros a Ha. destruct a as [k|]; [|discriminate].
    apply IH.
    assert (Hn : In n (names e)) by (unfold names; apply in_map_iff; exists (n, b); split; [reflexivity|exact Hin]).
    pose proof (free_step n active Hn A). lia.
  Qed.

  Lemma freeN_nil : (freeN [] <= length e)%nat.
  Proof.
    unfold freeN. pose proof (filter_length_le' (fun m => negb (memN m [])) (names e)) as H.
    unfold names in H at 2. rewrite map_length in H. exact H.
  Qed.

  Theorem chase_terminates_fuel : forall n f, (chase_fuel e <= f)%nat -> chase hit f e n <> OutOfFuel.
  Proof.
    intros n f Hf. unfold chase. apply chase_g_fuel. pose proof freeN_nil. unfold chase_fuel in Hf. lia.
  Qed.
End Chase.

(* cyclic rule references terminate: for EVERY environment the guarded helper returns within |e|+2 nested calls *)
Theorem chase_terminates : forall e hit n f, (chase_fuel e <= f)%nat -> chase hit f e n <> OutOfFuel.
Proof. intros e hit n f Hf. apply chase_terminates_fuel. exact Hf. Qed.

Theorem chase_seq_terminates : forall e hits n f, (chase_fuel e <= f)%nat -> chase_seq hits f e n <> OutOfFuel.
Proof.
  intros e hits n f Hf. induction hits as [|h r IH]; cbn [chase_seq]; [discriminate|].
  pose proof (chase_terminates e h n f Hf) as H.
  destruct (chase h f e n); [discriminate|exact IH|congruence].
Qed.

(* the schema  a = b .size 3 / b = a  (names a = 0, b = 1, tstr = 100, text = 101, uint = 102), on which the
   code overflowed the stack before d9284e7: `.size` asks is_ident_string_data_type(b) || is_ident_uint_data_type(b),
   and with the guard both answer "no" *)
Definition cyc2 : env := [(0, [Alias 1]); (1, [Alias 0])].
Definition size_hits : list (list name) := [[100; 101]; [102]].

(* the alias graph may be acyclic and the number of calls still exponential in the number of rules *)
Theorem calls_exponential_refuted :
  exists e n, acyclic_alias e = true /\ length e = 41%nat /\ 2 ^ 40 <= calls e n.
Proof.
  exists (diamond 40 0 ++ [(40, [Other])]), 0. split; [vm_compute; reflexivity|]. split; [reflexivity|].
  vm_compute. discriminate.
Qed.

(* ====================================================================== *)
(* allocation                                                              *)
(* ====================================================================== *)
Lemma chunk_flag : read_len_chunk_capped = true. Proof. reflexivity. Qed.
Lemma initial_flag : read_len_initial_capped = true. Proof. reflexivity. Qed.
Lemma loop_shape_flag : read_len_loop_shape = true. Proof. reflexivity. Qed.
Lemma sites_flag : forallb (fun s : N * bool => snd s) alloc_sites = true. Proof. reflexivity. Qed.
Lemma max_prealloc_pos : 1 <= MAX_PREALLOC. Proof. vm_compute. discriminate. Qed.
(* the cap is small: a hostile head costs at most this many bytes (elements) up front *)
Lemma max_prealloc_small : MAX_PREALLOC <= 65536. Proof. vm_compute. discriminate. Qed.

Lemma chunk_le r : chunk r <= MAX_PREALLOC /\ chunk r <= r /\ (r <> 0 -> 1 <= chunk r).
Proof. unfold chunk. rewrite chunk_flag. pose proof max_prealloc_pos. lia. Qed.

Lemma read_loop_bound : forall f rem start inp r,
  In r (fst (read_loop f rem start inp)) -> r <= start + lenN inp + MAX_PREALLOC.
Proof.
  induction f as [|f IH]; intros rem start inp r H; cbn [read_loop] in H; [destruct H|].
  destruct (rem =? 0); [destruct H|].
  pose proof (chunk_le rem) as (C1 & _).
  destruct (takeN (chunk rem) inp) as [[p t]|] eqn:T.
  - cbn [fst] in H. destruct H as [<-|H]; [lia|].
    apply IH in H. apply takeN_spec in T as [-> L]. rewrite lenN_app. lia.
  - cbn [fst] in H. destruct H as [<-|[]]. lia.
Qed.

Theorem alloc_bounded : forall n inp r,
  In r (fst (read_len n inp)) -> r <= lenN inp + MAX_PREALLOC.
Proof.
  intros n inp r H. unfold read_len in H. cbn [fst] in H. destruct H as [<-|H].
  - unfold initial_cap. rewrite initial_flag. lia.
  - apply read_loop_bound in H. lia.
Qed.

Theorem prealloc_capped : forall n r, In r (prealloc_requests n) -> r <= MAX_PREALLOC.
Proof.
  intros n r H. unfold prealloc_requests in H. apply in_map_iff in H as ([l c] & <- & Hin).
  pose proof sites_flag as F. rewrite forallb_forall in F. specialize (F _ Hin). cbn [snd] in F |- *.
  unfold site_request. rewrite F. lia.
Qed.

(* the chunked loop reads exactly what the one-shot read of the C11 model (takeN) reads *)
Lemma takeN_0 bs : takeN 0 bs = Some ([], bs).
Proof. destruct bs; reflexivity. Qed.

Lemma takeN_none : forall bs n, takeN n bs = None -> lenN bs < n.
Proof.
  induction bs as [|b r IH]; intros n H; cbn [takeN] in H.
  - destruct (n =? 0) eqn:E; [discriminate|]. unfold lenN. cbn. lia.
  - destruct (n =? 0) eqn:E; [discriminate|].
    destruct (takeN (N.pred n) r) as [[h t]|] eqn:T; [discriminate|].
    apply IH in T. rewrite lenN_cons. lia.
Qed.

Lemma takeN_short : forall bs n, lenN bs < n -> takeN n bs = None.
Proof.
  intros bs n H. destruct (takeN n bs) as [[p t]|] eqn:T; [|reflexivity].
  apply takeN_spec in T as [-> L]. rewrite lenN_app in H. lia.
Qed.

Lemma takeN_split : forall p t n, lenN p <= n ->
  takeN n (p ++ t) = match takeN (n - lenN p) t with Some (q, u) => Some (p ++ q, u) | None => None end.
Proof.
  induction p as [|b p IH]; intros t n H.
  - cbn [app]. unfold lenN. cbn [length N.of_nat]. rewrite N.sub_0_r. destruct (takeN n t) as [[q u]|]; reflexivity.
  - rewrite lenN_cons in H |- *. cbn [app takeN]. destruct (n =? 0) eqn:E; [lia|].
    rewrite (IH t (N.pred n)) by lia. replace (N.pred n - lenN p) with (n - N.succ (lenN p)) by lia.
    destruct (takeN (n - N.succ (lenN p)) t) as [[q u]|]; reflexivity.
Qed.

Lemma read_loop_is_takeN : forall f rem start inp, (length inp < f)%nat ->
  snd (read_loop f rem start inp) = match takeN rem inp with Some (p, t) => Ok (p, t) | None => Err EEof end.
Proof.
  induction f as [|f IH]; intros rem start inp Hf; [lia|]. cbn [read_loop].
  destruct (rem =? 0) eqn:E.
  - apply N.eqb_eq in E. subst. rewrite takeN_0. reflexivity.
  - pose proof (chunk_le rem) as (_ & C2 & C3). specialize (C3 ltac:(lia)).
    destruct (takeN (chunk rem) inp) as [[p t]|] eqn:T.
    + cbn [snd]. pose proof T as T'. apply takeN_spec in T' as [-> L].
      rewrite takeN_split by lia. rewrite L.
      rewrite IH.
      * destruct (takeN (rem - chunk rem) t) as [[q u]|]; reflexivity.
      * rewrite app_length in Hf. unfold lenN in L. lia.
    + cbn [snd]. apply takeN_none in T. rewrite takeN_short by lia. reflexivity.
Qed.

Theorem read_len_is_takeN : forall n inp,
  snd (read_len n inp) = match takeN n inp with Some (p, t) => Ok (p, t) | None => Err EEof end.
Proof. intros n inp. unfold read_len. cbn [snd]. apply read_loop_is_takeN. lia. Qed.

(* ====================================================================== *)
(* decoder termination (re-exported from C11)                              *)
(* ====================================================================== *)
Theorem decode_terminates : forall bs, wf_bytes bs ->
  (forall f, (2 * length bs + 1 <= f)%nat -> dec_item f bs <> Err EFuel) /\
  ((exists v, decode_cbor bs = Ok v) \/ (exists k, decode_cbor bs = Err k /\ k <> EFuel)).
Proof.
  intros bs W. split.
  - intros f Hf. exact (proj1 (dec_fuel f) bs W Hf).
  - apply decode_total. exact W.
Qed.

(* ====================================================================== *)
(* partial arithmetic                                                      *)
(* ====================================================================== *)
Open Scope Z_scope.

Theorem mul1000_none_iff : forall n, in_i64 n = true ->
  (mul1000_checked n = None <-> mul1000_overflows n = true).
Proof.
  intros n H. unfold mul1000_checked, mul1000_overflows, in_i64 in *.
  destruct ((- 2 ^ 63 <=? n * 1000) && (n * 1000 <? 2 ^ 63)) eqn:E; split; intros G; try discriminate; try reflexivity; lia.
Qed.

Theorem try_into_i64_total : forall z, in_i64 z = true -> try_into_i64 z = Some z.
Proof. intros z H. unfold try_into_i64. rewrite H. reflexivity. Qed.

Theorem try_into_i64_none_iff : forall z, try_into_i64 z = None <-> in_i64 z = false.
Proof. intros z. unfold try_into_i64. destruct (in_i64 z); split; intros H; congruence. Qed.

Theorem as_u32_exact_iff : forall v, 0 <= v -> (as_u32 v = v <-> v < 2 ^ 32).
Proof. intros v H. unfold as_u32. split; intros G; [|apply Z.mod_small]; lia. Qed.

(* RFC 8610 3.8.1: `uint .size v` with v >= 8 accepts every unsigned 64-bit integer *)
Theorem size_uint_refuted : exists v v', in_u64 v = true /\ in_u64 v' = true /\ 8 <= v /\ 8 <= v' /\
  as_u32 v <> v /\ size_uint_accepts v 5 = false /\ as_u32 v' = v' /\ size_uint_accepts v' 5 = false.
Proof. exists 4294967296, 16. repeat split; try (vm_compute; reflexivity); vm_compute; discriminate. Qed.

(* never a panic: the model of the `.size` check is total and exact below 16 *)
Theorem size_uint_exact : forall v i, 0 <= v < 16 -> (size_uint_accepts v i = true <-> i < 256 ^ v).
Proof.
  intros v i H. unfold size_uint_accepts, pow256_checked.
  rewrite (proj2 (as_u32_exact_iff v ltac:(lia))) by lia.
  destruct (v <? 16) eqn:E; [|lia]. lia.
Qed.

(* control.rs plus_operation: additions of schema literals *)
Theorem plus_checked_total : forall a b, 0 <= a < 2 ^ 62 -> 0 <= b < 2 ^ 62 -> plus_checked a b = Some (a + b).
Proof.
  intros a b Ha Hb. unfold plus_checked, in_u64.
  destruct ((0 <=? a) && (0 <=? b)) eqn:E; [|lia].
  destruct ((0 <=? a + b) && (a + b <? 2 ^ 64)) eqn:F; [reflexivity|lia].
Qed.

Theorem plus_checked_uint_none_iff : forall a b, 0 <= a -> 0 <= b -> (plus_checked a b = None <-> 2 ^ 64 <= a + b).
Proof.
  intros a b Ha Hb. unfold plus_checked, in_u64.
  destruct ((0 <=? a) && (0 <=? b)) eqn:E; [|lia].
  destruct ((0 <=? a + b) && (a + b <? 2 ^ 64)) eqn:F; split; intros G; try discriminate; try reflexivity; lia.
Qed.

(* ====================================================================== *)
(* occurrence loop of the sequence matchers                                *)
(* ====================================================================== *)
Open Scope N_scope.

Lemma finish_no_fuel {A} min count (cur : list A) : finish min count cur <> OFuel.
Proof. unfold finish. destruct (min <=? count); discriminate. Qed.

(* with the zero-width stop the loop needs at most one step per remaining element plus one,
   whatever the bounds written in the schema *)
Theorem occ_loop_terminates {A} (once : list A -> option (list A)) : consumes once ->
  forall f min max count cur, (length cur < f)%nat -> occ_loop true once f min max count cur <> OFuel.
Proof.
  intros C. induction f as [|f IH]; intros min max count cur Hf; [lia|]. cbn [occ_loop].
  destruct (below max count); [|apply finish_no_fuel].
  destruct (once cur) as [next|] eqn:E; [|apply finish_no_fuel].
  destruct (C _ _ E) as (p & ->). rewrite app_length in Hf |- *.
  destruct (length next =? length p + length next)%nat eqn:L; cbn [andb orb]; [apply finish_no_fuel|].
  apply IH. apply Nat.eqb_neq in L. lia.
Qed.

Lemma zero_width_flags : json_zero_width_stop && cbor_zero_width_stop = true. Proof. reflexivity. Qed.

Theorem occ_loop_code_terminates {A} (once : list A -> option (list A)) : consumes once ->
  forall f min max count cur, (length cur < f)%nat ->
  occ_loop (json_zero_width_stop && cbor_zero_width_stop) once f min max count cur <> OFuel.
Proof. rewrite zero_width_flags. apply occ_loop_terminates. Qed.

(* without the stop on bounded occurrences the number of steps follows the bound written in the schema:
   an entry that matches without consuming anything, no element at all, and every fuel is exhausted by some bound *)
Lemma occ_loop_unstopped : forall f count,
  occ_loop false (fun l : list N => Some l) f 0 (Some (count + N.of_nat f)) count [] = OFuel.
Proof.
  induction f as [|f IH]; intros count; [reflexivity|]. cbn [occ_loop below].
  assert (B : (count <? count + N.of_nat (S f)) = true) by lia. rewrite B.
  cbn [length Nat.eqb andb orb unbounded].
  replace (count + N.of_nat (S f)) with (count + 1 + N.of_nat f) by lia. apply IH.
Qed.

Theorem occ_loop_unstopped_refuted :
  exists once : list N -> option (list N), consumes once /\
    forall f, exists m, occ_loop false once f 0 (Some m) 0 [] = OFuel.
Proof.
  exists (fun l => Some l). split.
  - intros l l' H. inversion H. subst. exists []. reflexivity.
  - intros f. exists (N.of_nat f). exact (occ_loop_unstopped f 0).
Qed.
