#!/bin/sh
# Offline set-up after a fresh restore: build the Coq development, the Rust harness and the oracles.
set -e
cd "$(dirname "$0")"
python3 - <<'PY'
import sys
sys.path.insert(0, '.')
from lib import common
ok, log = common.coq_build([])          # default target: everything
print(log[-1500:])
import glob, os
for f in sorted(glob.glob('harness/src/bin/*.rs')):
    common.build_harness(os.path.basename(f)[:-3])
print("setup: coq ok =", ok)
PY
