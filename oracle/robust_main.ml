(* C05 oracle: runs the extracted models of Robust/{Chase,Alloc,Arith}.v.
   A <hits> <env> <start>   hits = "100,101|102" (alternatives of a `||` chain, "-" = an empty hit set), env = "0:1,-;1:0"
                            (rule name : first type2 of each type choice, "-" = not a name), start = name
   L <hex n> <len>          read_len n (len zero bytes)
   R <op> <z> <z>           arith_report; z = [-]hex *)
open Robust_model
let rec pos_of_int n = if n = 1 then XH else if n land 1 = 1 then XI (pos_of_int (n lsr 1)) else XO (pos_of_int (n lsr 1))
let n_of_int n = if n = 0 then N0 else Npos (pos_of_int n)
let rec int_of_pos = function XH -> 1 | XO p -> 2 * int_of_pos p | XI p -> 2 * int_of_pos p + 1
let int_of_n = function N0 -> 0 | Npos p -> int_of_pos p
let string_of_codes l =
  let b = Buffer.create 64 in
  List.iter (fun c -> Buffer.add_char b (Char.chr (int_of_n c))) l; Buffer.contents b
(* arbitrary-size hex -> N, bit by bit *)
let n_of_hex (s : string) : n =
  let acc = ref None in
  String.iter (fun c ->
    let d = Common.hexval c in
    for k = 3 downto 0 do
      let bit = (d lsr k) land 1 = 1 in
      acc := (match !acc with
              | None -> if bit then Some XH else None
              | Some p -> Some (if bit then XI p else XO p))
    done) s;
  match !acc with None -> N0 | Some p -> Npos p
let z_of_hex (s : string) : z =
  let neg = String.length s > 0 && s.[0] = '-' in
  let body = if neg then String.sub s 1 (String.length s - 1) else s in
  match n_of_hex body with
  | N0 -> Z0
  | Npos p -> if neg then Zneg p else Zpos p
let split c s = if s = "" then [] else String.split_on_char c s
let parse_env s =
  List.map (fun r ->
    match String.split_on_char ':' r with
    | [nm; cs] -> (n_of_int (int_of_string nm),
                   List.map (fun a -> if a = "-" then Other else Alias (n_of_int (int_of_string a))) (split ',' cs))
    | _ -> failwith "env") (split ';' s)
let parse_hits s = List.map (fun h -> if h = "-" then [] else List.map (fun x -> n_of_int (int_of_string x)) (split ',' h)) (split '|' s)
let () =
  try
    while true do
      let line = input_line stdin in
      (match Common.split_tab line with
       | "A" :: hits :: env :: start :: _ ->
         print_endline (string_of_codes (chase_report (parse_hits hits) (parse_env env) (n_of_int (int_of_string start))))
       | "L" :: n :: len :: _ ->
         print_endline (string_of_codes (alloc_report (n_of_hex n) (List.init (int_of_string len) (fun _ -> N0))))
       | "R" :: op :: a :: b :: _ ->
         print_endline (string_of_codes (arith_report (n_of_int (int_of_string op)) (z_of_hex a) (z_of_hex b)))
       | _ -> print_endline "?")
    done
  with End_of_file -> ()
