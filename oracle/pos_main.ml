(* C15 oracle: the span / error-position models extracted from Coq (Pos/Span.v, Pos/ErrRange.v, Pos/Tree.v).
   One request per line, one answer per line:
     L <hex text> <s1,s2,...>     -> lines of the start offsets (hex numbers separated by blanks)
     S <hex text> <start> <end>   -> pest_span_to_position            "index line column a b" (hex)
     A <hex text> <start> <end>   -> position_from_ast_span of the span
     E <hex text> <pest offset>   -> convert_pest_error               "index line column a b"
     X <hex text>                 -> convert_pest_error at every character-boundary offset: "p index line column a b,..."
     W <len> <c1,c2,...>          -> events_wfb on the queue (2*pos = Start, 2*pos+1 = End): wf | bad      *)
open Pos_model
let rec pos_of_int n = if n = 1 then XH else if n land 1 = 1 then XI (pos_of_int (n lsr 1)) else XO (pos_of_int (n lsr 1))
let n_of_int n = if n = 0 then N0 else Npos (pos_of_int n)
let rec int_of_pos = function XH -> 1 | XO p -> 2 * int_of_pos p | XI p -> 2 * int_of_pos p + 1
let int_of_n = function N0 -> 0 | Npos p -> int_of_pos p
let bytes_of_hex s =
  let n = String.length s / 2 in
  List.init n (fun i -> n_of_int (Common.hexval s.[2*i] * 16 + Common.hexval s.[2*i+1]))
let string_of_codes l =
  let b = Buffer.create 64 in
  List.iter (fun c -> Buffer.add_char b (Char.chr (int_of_n c))) l; Buffer.contents b
let nums s = if s = "" || s = "-" then [] else List.map (fun x -> n_of_int (int_of_string x)) (String.split_on_char ',' s)
let n_of_string s = n_of_int (int_of_string s)
let flag b = if b then "1" else "0"
let () =
  try
    while true do
      let line = input_line stdin in
      match Common.split_tab line with
      | "L" :: h :: starts :: _ -> print_endline (string_of_codes (lines_render (bytes_of_hex h) (nums starts)))
      | "S" :: h :: s :: e :: _ -> print_endline (string_of_codes (span_position_render (bytes_of_hex h) (n_of_string s) (n_of_string e)))
      | "A" :: h :: s :: e :: _ -> print_endline (string_of_codes (ast_position_render (bytes_of_hex h) (n_of_string s) (n_of_string e)))
      | "E" :: h :: i :: _ -> print_endline (string_of_codes (err_render (bytes_of_hex h) (n_of_string i)))
      | "X" :: h :: _ -> print_endline (string_of_codes (err_sweep_render (bytes_of_hex h)))
      | "W" :: len :: codes :: _ -> print_endline (string_of_codes (events_wf_render (n_of_string len) (nums codes)))
      | _ -> print_endline "?"
    done
  with End_of_file -> ()
