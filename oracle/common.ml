(* shared helpers for oracle drivers: conversions between OCaml ints/strings and
   the extracted Coq N / positive / list types. Each driver is compiled together
   with one extracted module, so the conversion functions are functorised over
   nothing: they are written against the constructors by the driver itself. *)
let hexval c =
  match c with
  | '0' .. '9' -> Char.code c - 48
  | 'a' .. 'f' -> Char.code c - 87
  | 'A' .. 'F' -> Char.code c - 55
  | _ -> 0
let split_tab s = String.split_on_char '\t' s
