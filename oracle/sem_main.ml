(* Oracle driver for the RFC 8610 semantics model (Sem/Validator.v).
   line:  V <TAB> <jm 0|1> <TAB> <env sexp> <TAB> <value sexp>      ->  T | F | ?
   s-expression syntax: see lib/sem/ast.py *)
open Sem_model

type sx = A of string | L of sx list

let tokenize (s : string) : string list =
  let toks = ref [] and buf = Buffer.create 16 in
  let flush () = if Buffer.length buf > 0 then (toks := Buffer.contents buf :: !toks; Buffer.clear buf) in
  String.iter (fun c -> match c with
    | '(' -> flush (); toks := "(" :: !toks
    | ')' -> flush (); toks := ")" :: !toks
    | ' ' -> flush ()
    | c -> Buffer.add_char buf c) s;
  flush (); List.rev !toks

let parse (s : string) : sx =
  let rec go toks = match toks with
    | "(" :: r -> let (items, r') = list r [] in (L items, r')
    | t :: r -> (A t, r)
    | [] -> failwith "eof"
  and list toks acc = match toks with
    | ")" :: r -> (List.rev acc, r)
    | _ -> let (x, r) = go toks in list r (x :: acc)
  in fst (go (tokenize s))

let rec pos_of_bits (s : string) (i : int) (acc : positive) : positive =
  if i >= String.length s then acc
  else pos_of_bits s (i + 1) (if s.[i] = '1' then XI acc else XO acc)

(* "+1011" / "-101" / "+0" *)
let z_of (s : string) : z =
  let neg = s.[0] = '-' in
  let body = String.sub s 1 (String.length s - 1) in
  if body = "0" then Z0
  else let p = pos_of_bits body 1 XH in if neg then Zneg p else Zpos p
let n_of (s : string) : n = match z_of s with Zpos p -> Npos p | _ -> N0

let rec pos_of_int n = if n = 1 then XH else if n land 1 = 1 then XI (pos_of_int (n lsr 1)) else XO (pos_of_int (n lsr 1))
let n_of_int n = if n = 0 then N0 else Npos (pos_of_int n)
let bytes_of_hex (s : string) : n list =
  (* s starts with 'x' *)
  let k = (String.length s - 1) / 2 in
  List.init k (fun i -> n_of_int (Common.hexval s.[1 + 2*i] * 16 + Common.hexval s.[2 + 2*i]))

let lit_of = function
  | L [A "int"; A z] -> LInt (z_of z)
  | L [A "flt"; A z] -> LFloat (z_of z)
  | L [A "txt"; A h] -> LText (bytes_of_hex h)
  | L [A "byt"; A h] -> LBytes (bytes_of_hex h)
  | _ -> failwith "lit"

let ctl_of = function
  | "size" -> CSize | "lt" -> CLt | "le" -> CLe | "gt" -> CGt | "ge" -> CGe
  | "eq" -> CEq | "ne" -> CNe | "and" -> CAnd | "within" -> CWithin | _ -> failwith "ctl"

let rec ty_of = function
  | A "any" -> TAny
  | A "float" -> TFloat
  | L [A "major"; A m] -> TMajor (n_of m)
  | L [A "simple"; A m] -> TSimple (n_of m)
  | L [A "tag"; A m; t] -> TTag (n_of m, ty_of t)
  | L [A "lit"; l] -> TLit (lit_of l)
  | L [A "range"; A lo; A hi; A i] -> TRange (z_of lo, z_of hi, i = "1")
  | L [A "ref"; A m] -> TRef (n_of m)
  | L [A "or"; a; b] -> TOr (ty_of a, ty_of b)
  | L [A "ctl"; A c; t; a] -> TCtl (ctl_of c, ty_of t, ty_of a)
  | L [A "arr"; g] -> TArr (grp_of g)
  | L [A "map"; g] -> TMap (grp_of g)
  | _ -> failwith "ty"
and grp_of = function
  | A "empty" -> GEmpty
  | L [A "seq"; a; b] -> GSeq (grp_of a, grp_of b)
  | L [A "gor"; a; b] -> GOr (grp_of a, grp_of b)
  | L [A "occ"; A lo; A hi; g] -> GOcc (n_of lo, (if hi = "inf" then None else Some (n_of hi)), grp_of g)
  | L [A "ent"; k; A c; t] -> GEnt ((match k with A "nokey" -> None | k -> Some (ty_of k)), c = "1", ty_of t)
  | L [A "gref"; A m] -> GRef (n_of m)
  | _ -> failwith "grp"

let rec val_of = function
  | A "null" -> VNull | A "undef" -> VUndef | A "true" -> VBool true | A "false" -> VBool false
  | L [A "int"; A z] -> VInt (z_of z)
  | L [A "flt"; A z] -> VFloat (z_of z)
  | L [A "txt"; A h] -> VText (bytes_of_hex h)
  | L [A "byt"; A h] -> VBytes (bytes_of_hex h)
  | L (A "arr" :: xs) -> VArr (List.map val_of xs)
  | L (A "map" :: xs) ->
    let rec pairs = function a :: b :: r -> (val_of a, val_of b) :: pairs r | [] -> [] | _ -> failwith "map" in
    VMap (pairs xs)
  | L [A "tag"; A m; v] -> VTag (n_of m, val_of v)
  | L [A "simple"; A m] -> VSimple (n_of m)
  | _ -> failwith "val"

let env_of = function
  | L (A "env" :: rules) ->
    List.map (function
      | L [A m; L [A "type"; t]] -> (n_of_int (int_of_string m), DType (ty_of t))
      | L [A m; L [A "group"; g]] -> (n_of_int (int_of_string m), DGroup (grp_of g))
      | _ -> failwith "rule") rules
  | _ -> failwith "env"

let rec nat_of_int n = if n = 0 then O else S (nat_of_int (n - 1))
let fuel = nat_of_int 3000

let rec int_of_pos = function XH -> 1 | XO p -> 2 * int_of_pos p | XI p -> 2 * int_of_pos p + 1
let string_of_codes l =
  String.concat "" (List.map (fun c -> match c with N0 -> "\000" | Npos p -> String.make 1 (Char.chr (int_of_pos p))) l)

let () =
  try
    while true do
      let line = input_line stdin in
      (match Common.split_tab line with
       | "V" :: jm :: e :: v :: _ ->
         (try print_endline (string_of_codes (verdict fuel (jm = "1") (env_of (parse e)) (val_of (parse v))))
          with Failure m -> print_endline ("PARSE-ERROR " ^ m))
       | _ -> print_endline "?cmd")
    done
  with End_of_file -> ()
