(* C13 oracle driver: the extracted Coq model of the CSV mapping.
   P \t <hex text> \t <0|1|n>   -> parse_render   (OK [[s..,u..,i-..,F..],..])
   R \t <hex text>              -> records_render (OK [[hex,hex],..]) *)
open Csv_model
let rec pos_of_int n = if n = 1 then XH else if n land 1 = 1 then XI (pos_of_int (n lsr 1)) else XO (pos_of_int (n lsr 1))
let n_of_int n = if n = 0 then N0 else Npos (pos_of_int n)
let rec int_of_pos = function XH -> 1 | XO p -> 2 * int_of_pos p | XI p -> 2 * int_of_pos p + 1
let int_of_n = function N0 -> 0 | Npos p -> int_of_pos p
let bytes_of_hex s =
  let n = String.length s / 2 in
  List.init n (fun i -> n_of_int (Common.hexval s.[2*i] * 16 + Common.hexval s.[2*i+1]))
let string_of_codes l =
  let b = Buffer.create 64 in
  List.iter (fun c -> Buffer.add_char b (Char.chr (int_of_n c))) l; Buffer.contents b
let () =
  try
    while true do
      let line = input_line stdin in
      match Common.split_tab line with
      | "P" :: h :: hd :: _ -> print_endline (string_of_codes (parse_render (bytes_of_hex h) (hd = "1")))
      | "R" :: h :: _ -> print_endline (string_of_codes (records_render (bytes_of_hex h)))
      | _ -> print_endline "?"
    done
  with End_of_file -> ()
