(* C03 oracle: the extracted PEG interpreter over the generated grammar, the verified ABNF recogniser and the
   shape bridge.  Line protocol: <cmd>\t<hex of UTF-8 text>; one output line per input line.
     T  pair tree of the PEG model       (format of harness/src/bin/c03.rs)
     H  AST shape built by the bridge model from that tree   (format of harness/src/bin/c03.rs)
     V  <mask> <hex>: derivable in the grammar variant with the deviations of the mask switched on (Deviations.v);
        mask 0 = the specification, 8190 = every known deviation
     W  <class> <n>: token class comparison PEG rule vs ABNF rule on every string up to length n over the class alphabet (Tokens.v token_sweep)
     R  derivable from RFC 8610/9682 + documented leniencies, names read as maximal tokens (the C03 language)?   Y | N | EFUEL
     L  the same without the tokenisation convention
     F  derivable from the RFC rules alone?                      Y | N | EFUEL *)
open Grammar_model
let rec pos_of_int n = if n = 1 then XH else if n land 1 = 1 then XI (pos_of_int (n lsr 1)) else XO (pos_of_int (n lsr 1))
let n_of_int n = if n = 0 then N0 else Npos (pos_of_int n)
let rec int_of_pos = function XH -> 1 | XO p -> 2 * int_of_pos p | XI p -> 2 * int_of_pos p + 1
let int_of_n = function N0 -> 0 | Npos p -> int_of_pos p
let bytes_of_hex s =
  let n = String.length s / 2 in
  List.init n (fun i -> Common.hexval s.[2*i] * 16 + Common.hexval s.[2*i+1])
(* UTF-8 bytes -> scalar values (the input is valid UTF-8 by construction of the case files) *)
let rec decode = function
  | [] -> []
  | b :: r when b < 0x80 -> b :: decode r
  | b :: c :: r when b < 0xe0 -> (((b land 0x1f) lsl 6) lor (c land 0x3f)) :: decode r
  | b :: c :: d :: r when b < 0xf0 -> (((b land 0x0f) lsl 12) lor ((c land 0x3f) lsl 6) lor (d land 0x3f)) :: decode r
  | b :: c :: d :: e :: r -> (((b land 0x07) lsl 18) lor ((c land 0x3f) lsl 12) lor ((d land 0x3f) lsl 6) lor (e land 0x3f)) :: decode r
  | _ -> []
let input_of_hex h = List.map n_of_int (decode (bytes_of_hex h))
let string_of_codes l =
  let b = Buffer.create 256 in
  List.iter (fun c -> Buffer.add_char b (Char.chr ((int_of_n c) land 255))) l; Buffer.contents b
let () =
  try
    while true do
      let line = input_line stdin in
      (match Common.split_tab line with
       | "T" :: rest -> print_endline (string_of_codes (cddl_tree (input_of_hex (match rest with h :: _ -> h | [] -> ""))))
       | "H" :: rest -> print_endline (string_of_codes (cddl_shape (input_of_hex (match rest with h :: _ -> h | [] -> ""))))
       | "V" :: m :: rest -> print_endline (string_of_codes (variant_verdict (n_of_int (int_of_string m)) (input_of_hex (match rest with h :: _ -> h | [] -> ""))))
       | "W" :: k :: n :: _ ->
         let rec nat_of_int i = if i = 0 then O else S (nat_of_int (i - 1)) in
         print_endline (string_of_codes (token_sweep_verdict (n_of_int (int_of_string k)) (nat_of_int (int_of_string n))))
       | "R" :: rest -> print_endline (string_of_codes (spec_verdict (input_of_hex (match rest with h :: _ -> h | [] -> ""))))
       | "L" :: rest -> print_endline (string_of_codes (lenient_verdict (input_of_hex (match rest with h :: _ -> h | [] -> ""))))
       | "F" :: rest -> print_endline (string_of_codes (rfc_verdict (input_of_hex (match rest with h :: _ -> h | [] -> ""))))
       | _ -> print_endline "?")
    done
  with End_of_file -> ()
