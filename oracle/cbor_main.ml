open Cbor_model
let rec pos_of_int n = if n = 1 then XH else if n land 1 = 1 then XI (pos_of_int (n lsr 1)) else XO (pos_of_int (n lsr 1))
let n_of_int n = if n = 0 then N0 else Npos (pos_of_int n)
let rec int_of_pos = function XH -> 1 | XO p -> 2 * int_of_pos p | XI p -> 2 * int_of_pos p + 1
let int_of_n = function N0 -> 0 | Npos p -> int_of_pos p
let bytes_of_hex s =
  let n = String.length s / 2 in
  List.init n (fun i -> n_of_int (Common.hexval s.[2*i] * 16 + Common.hexval s.[2*i+1]))
let string_of_codes l =
  let b = Buffer.create 64 in
  List.iter (fun c -> Buffer.add_char b (Char.chr (int_of_n c))) l; Buffer.contents b
let decode_ints (l : int list) = string_of_codes (decode_render (List.map n_of_int l))
let () =
  try
    while true do
      let line = input_line stdin in
      match Common.split_tab line with
      | "D" :: h :: _ -> print_endline (string_of_codes (decode_render (bytes_of_hex h)))
      | "DSWEEP" :: pre :: n :: _ ->
        let prefix = List.map int_of_n (bytes_of_hex pre) in
        let n = int_of_string n in
        let total = 1 lsl (8 * n) in
        for k = 0 to total - 1 do
          let suffix = List.init n (fun j -> (k lsr (8 * (n - 1 - j))) land 0xff) in
          print_endline (decode_ints (prefix @ suffix))
        done
      | _ -> print_endline "?"
    done
  with End_of_file -> ()
