(* C17 oracle: the extracted model of cddl-derive's naming and container decisions.
   Same line protocol as harness/src/bin/c17.rs for S / P / K; F, T, C, A, R are model-side renderings that
   lib/props/c17.py compares with what it parses out of the generated Rust source. *)
open Derive_model
let rec pos_of_int n = if n = 1 then XH else if n land 1 = 1 then XI (pos_of_int (n lsr 1)) else XO (pos_of_int (n lsr 1))
let n_of_int n = if n = 0 then N0 else Npos (pos_of_int n)
let rec int_of_pos = function XH -> 1 | XO p -> 2 * int_of_pos p | XI p -> 2 * int_of_pos p + 1
let int_of_n = function N0 -> 0 | Npos p -> int_of_pos p
let codes_of_hex s =
  let n = String.length s / 2 in
  List.init n (fun i -> n_of_int (Common.hexval s.[2*i] * 16 + Common.hexval s.[2*i+1]))
let string_of_codes l =
  let b = Buffer.create 64 in
  List.iter (fun c -> Buffer.add_char b (Char.chr (int_of_n c land 255))) l; Buffer.contents b
let items s = if s = "" then [] else String.split_on_char ',' s
let tail s = String.sub s 1 (String.length s - 1)
let keydesc s = match s.[0] with
  | 'k' -> KNamed (codes_of_hex (tail s))
  | 'w' -> KWild
  | _ -> KNoKey
let rule s = ((s.[0] = 't'), codes_of_hex (tail s))
let bound s = if s = "" then None else Some (n_of_int (int_of_string s))
let occ s = match s with
  | "1" -> ONone | "?" -> OOpt | "*" -> OStar | "+" -> OPlus
  | _ -> (match String.split_on_char '-' (tail s) with
          | [lo; hi] -> OExact (bound lo, bound hi)
          | _ -> ONone)
let key s = match s with "bare" -> KBare | "text" -> KText | "type" -> KType | _ -> KAbsent
let ety s = match s with "plain" -> EPlain | "nullr" -> ENullR | "nulll" -> ENullL | "choice2" -> EChoice2 | _ -> EChoice3
let vk s = match s with "scalar" -> VScalar | "array" -> VArray | _ -> VTable
let shape s = match s.[0] with
  | 'a' -> SAbsent | 'n' -> SNull | '1' -> SOne
  | 'm' -> SMany (n_of_int (int_of_string (tail s)))
  | _ -> SObj (n_of_int (int_of_string (tail s)))
let () =
  try
    while true do
      let line = input_line stdin in
      let out = match Common.split_tab line with
        | "S" :: h :: _ -> string_of_codes (snake_render (codes_of_hex h))
        | "P" :: h :: _ -> string_of_codes (pascal_render (codes_of_hex h))
        | "K" :: h :: _ -> string_of_codes (p2c_render (codes_of_hex h))
        | "S" :: [] -> string_of_codes (snake_render [])
        | "P" :: [] -> string_of_codes (pascal_render [])
        | "K" :: [] -> string_of_codes (p2c_render [])
        | "Y" :: l :: _ -> string_of_codes (stable_render (List.map keydesc (items l)))
        | "I" :: h :: _ -> string_of_codes (identok_render (codes_of_hex h))
        | "I" :: [] -> string_of_codes (identok_render [])
        | "H" :: l :: _ -> string_of_codes (helpers_render (List.map codes_of_hex (items l)))
        | "H" :: [] -> string_of_codes (helpers_render [])
        | "F" :: l :: _ -> string_of_codes (fields_render (List.map keydesc (items l)))
        | "T" :: l :: _ -> string_of_codes (emit_render (List.map rule (items l)))
        | "C" :: o :: k :: e :: v :: _ -> string_of_codes (container_render (occ o) (key k) (ety e) (vk v))
        | "A" :: n :: _ -> string_of_codes (array_render (n_of_int (int_of_string n)))
        | "R" :: o :: k :: e :: v :: s :: _ -> string_of_codes (roundtrip_render (occ o) (key k) (ety e) (vk v) (shape s))
        | _ -> "?" in
      print_endline out
    done
  with End_of_file -> ()
