(* C14 oracle: runs the Coq definitions Err.Loc.check_render / Err.Oracle.kind_codes (extracted).
   R\t<tree>\t<location hex>   -> two characters: strict resolution, tolerant resolution ('1'/'0')
   K\t<entry>\t<class>         -> constructor name from the generated table (entry 0 json, 1 cbor; class 0 schema, 1 doc, 2 invalid)
   KD\t<entry>                 -> '1' when the table keeps the three classes apart
   tree ::= n | t | f | # | s<hex>. | [ tree* ] | { (k<hex>. tree)* }           (hex = UTF-8 bytes) *)
module M = Err_model
let rec pos_of_int n = if n = 1 then M.XH else if n land 1 = 1 then M.XI (pos_of_int (n lsr 1)) else M.XO (pos_of_int (n lsr 1))
let n_of_int n = if n = 0 then M.N0 else M.Npos (pos_of_int n)
let rec int_of_pos = function M.XH -> 1 | M.XO p -> 2 * int_of_pos p | M.XI p -> 2 * int_of_pos p + 1
let int_of_n = function M.N0 -> 0 | M.Npos p -> int_of_pos p
let bytes_of_hex s =
  let n = String.length s / 2 in
  List.init n (fun i -> n_of_int (Common.hexval s.[2*i] * 16 + Common.hexval s.[2*i+1]))
let string_of_codes l =
  let b = Buffer.create 64 in
  List.iter (fun c -> Buffer.add_char b (Char.chr (int_of_n c))) l; Buffer.contents b

exception Bad
let parse_tree (s : String.t) : M.json =
  let pos = ref 0 in
  let len = String.length s in
  let peek () = if !pos < len then s.[!pos] else raise Bad in
  let hexdot () =
    let st = !pos in
    while peek () <> '.' do incr pos done;
    let h = String.sub s st (!pos - st) in
    incr pos; bytes_of_hex h in
  let rec tree () =
    let c = peek () in
    incr pos;
    match c with
    | 'n' -> M.JNull
    | 't' -> M.JBool true
    | 'f' -> M.JBool false
    | '#' -> M.JNum
    | 's' -> M.JStr (hexdot ())
    | '[' ->
      let items = ref [] in
      while peek () <> ']' do items := tree () :: !items done;
      incr pos; M.JArr (List.rev !items)
    | '{' ->
      let ms = ref [] in
      while peek () <> '}' do
        if peek () <> 'k' then raise Bad;
        incr pos;
        let k = hexdot () in
        let v = tree () in
        ms := (k, v) :: !ms
      done;
      incr pos; M.JObj (List.rev !ms)
    | _ -> raise Bad in
  let t = tree () in
  if !pos <> len then raise Bad;
  t

let () =
  try
    while true do
      let line = input_line stdin in
      match Common.split_tab line with
      | "R" :: t :: h :: _ ->
        (match (try Some (parse_tree t) with _ -> None) with
         | Some d -> print_endline (string_of_codes (M.check_render d (bytes_of_hex h)))
         | None -> print_endline "BADTREE")
      | "K" :: e :: c :: _ -> print_endline (string_of_codes (M.kind_codes (n_of_int (int_of_string e)) (n_of_int (int_of_string c))))
      | "KD" :: e :: _ -> print_endline (string_of_codes (M.distinct_codes (n_of_int (int_of_string e))))
      | _ -> print_endline "?"
    done
  with End_of_file -> ()
