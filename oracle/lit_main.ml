(* C07 oracle: one case per line  "K\t<kind>\t<code points, hex, comma separated>"  ->  Lit.Render.lit_eval *)
open Lit_model
let rec pos_of_int n = if n = 1 then XH else if n land 1 = 1 then XI (pos_of_int (n lsr 1)) else XO (pos_of_int (n lsr 1))
let n_of_int n = if n = 0 then N0 else Npos (pos_of_int n)
let rec int_of_pos = function XH -> 1 | XO p -> 2 * int_of_pos p | XI p -> 2 * int_of_pos p + 1
let int_of_n = function N0 -> 0 | Npos p -> int_of_pos p
let string_of_codes l =
  let b = Buffer.create 64 in
  List.iter (fun c -> Buffer.add_char b (Char.chr (int_of_n c))) l; Buffer.contents b
let codes_of_field s =
  if s = "" then [] else List.map (fun h -> n_of_int (int_of_string ("0x" ^ h))) (String.split_on_char ',' s)
let () =
  try
    while true do
      let line = input_line stdin in
      match Common.split_tab line with
      | "K" :: kind :: cps :: _ ->
        print_endline (string_of_codes (lit_eval (n_of_int (int_of_string kind)) (codes_of_field cps)))
      | "K" :: kind :: [] ->
        print_endline (string_of_codes (lit_eval (n_of_int (int_of_string kind)) []))
      | _ -> print_endline "?"
    done
  with End_of_file -> ()
