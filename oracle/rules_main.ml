(* C12 oracle: runs the extracted Coq model (Rules/RefCheck.v: c12_render) on abstract documents.
   input  : M\t<rule>;<rule>;...      rule = <sock 0|1|2>,<id hex>,<plain 0|1>,<param hex>|...,<s 0|1>.<id hex>|...
   output : <plain verdict>\t<checked verdict (model of the code)>\t<checked verdict (specification)>\t<classifier bit> *)
open Rules_model
let rec pos_of_int n = if n = 1 then XH else if n land 1 = 1 then XI (pos_of_int (n lsr 1)) else XO (pos_of_int (n lsr 1))
let n_of_int n = if n = 0 then N0 else Npos (pos_of_int n)
let rec int_of_pos = function XH -> 1 | XO p -> 2 * int_of_pos p | XI p -> 2 * int_of_pos p + 1
let int_of_n = function N0 -> 0 | Npos p -> int_of_pos p
let name_of_hex s =
  let n = String.length s / 2 in
  List.init n (fun i -> n_of_int (Common.hexval s.[2*i] * 16 + Common.hexval s.[2*i+1]))
let string_of_codes l =
  let b = Buffer.create 64 in
  List.iter (fun c -> Buffer.add_char b (Char.chr (int_of_n c))) l; Buffer.contents b
let split_nonempty c s = if s = "" then [] else String.split_on_char c s
let parse_ref s =
  match String.split_on_char '.' s with
  | [f; h] -> { xsock = (f = "1"); xid = name_of_hex h }
  | _ -> failwith "bad ref"
let parse_rule s =
  match String.split_on_char ',' s with
  | [sock; idh; plain; params; refs] ->
    { rsock = n_of_int (int_of_string sock); rid = name_of_hex idh; rplain = (plain = "1");
      rparams = List.map name_of_hex (split_nonempty '|' params);
      rrefs = List.map parse_ref (split_nonempty '|' refs) }
  | _ -> failwith "bad rule"
let parse_doc s = List.map parse_rule (split_nonempty ';' s)
let () =
  try
    while true do
      let line = input_line stdin in
      match Common.split_tab line with
      | "M" :: d :: _ -> (try print_endline (string_of_codes (c12_render (parse_doc d))) with Failure m -> print_endline ("?" ^ m))
      | ["M"] -> print_endline (string_of_codes (c12_render []))
      | _ -> print_endline "?"
    done
  with End_of_file -> ()
