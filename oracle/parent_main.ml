(* C20 oracle: runs the extracted arena model (Parent/Arena.v: answers_flat) on a labelled tree.
   T\t<fx>\t<tokens>   fx = 0 (code as it is) | 1 (with the Type2::Unwrap repair);
                       tokens = preorder list of <kind>.<label>.<number of children>, space separated
   -> the model's answers, one item per node in preorder: <label returned by the parent query or ->@<preorder index of the
      first registration of the node's label or ->.  The token list is parsed into a tree INSIDE the model
      (Arena.parse_tree), so that the vm_compute slice of the check exercises exactly the same function. *)
open Parent_model
let rec pos_of_int n = if n = 1 then XH else if n land 1 = 1 then XI (pos_of_int (n lsr 1)) else XO (pos_of_int (n lsr 1))
let n_of_int n = if n = 0 then N0 else Npos (pos_of_int n)
let rec int_of_pos = function XH -> 1 | XO p -> 2 * int_of_pos p | XI p -> 2 * int_of_pos p + 1
let int_of_n = function N0 -> 0 | Npos p -> int_of_pos p
let string_of_codes l =
  let b = Buffer.create 256 in
  List.iter (fun c -> Buffer.add_char b (Char.chr (int_of_n c))) l; Buffer.contents b
let flat (s : string) : n list =
  List.concat_map (fun tok ->
      if tok = "" then [] else List.map (fun x -> n_of_int (int_of_string x)) (String.split_on_char '.' tok))
    (String.split_on_char ' ' s)
let () =
  try
    while true do
      let line = input_line stdin in
      match Common.split_tab line with
      | "T" :: fx :: toks :: _ ->
        (try print_endline (string_of_codes (answers_flat (fx = "1") (flat toks)))
         with Failure _ | Invalid_argument _ -> print_endline "BADTREE")
      | _ -> print_endline "?"
    done
  with End_of_file -> ()
