(* C20 oracle: runs the extracted arena model (Parent/Arena.v: answers) on a labelled tree.
   T\t<fx>\t<tokens>   fx = 0 (code as it is) | 1 (with the Type2::Unwrap repair); tokens = preorder list of <kind>.<label>.<number of children>, space separated
   -> the model's answers, one item per node in preorder: <label returned by the parent query or ->@<position of the
      first registration of the node's label or -> *)
open Parent_model
let rec pos_of_int n = if n = 1 then XH else if n land 1 = 1 then XI (pos_of_int (n lsr 1)) else XO (pos_of_int (n lsr 1))
let n_of_int n = if n = 0 then N0 else Npos (pos_of_int n)
let rec int_of_pos = function XH -> 1 | XO p -> 2 * int_of_pos p | XI p -> 2 * int_of_pos p + 1
let int_of_n = function N0 -> 0 | Npos p -> int_of_pos p
let string_of_codes l =
  let b = Buffer.create 256 in
  List.iter (fun c -> Buffer.add_char b (Char.chr (int_of_n c))) l; Buffer.contents b
exception Bad
let parse_tree (s : string) : tree =
  let toks = Array.of_list (List.filter (fun x -> x <> "") (String.split_on_char ' ' s)) in
  let pos = ref 0 in
  let rec go () =
    if !pos >= Array.length toks then raise Bad;
    let t = toks.(!pos) in
    incr pos;
    match String.split_on_char '.' t with
    | [k; l; n] ->
      let k = int_of_string k and l = int_of_string l and n = int_of_string n in
      let cs = List.init n (fun _ -> ()) in
      let cs = List.map (fun () -> go ()) cs in
      Node (n_of_int k, n_of_int l, cs)
    | _ -> raise Bad in
  let t = go () in
  if !pos <> Array.length toks then raise Bad;
  t
let () =
  try
    while true do
      let line = input_line stdin in
      match Common.split_tab line with
      | "T" :: fx :: toks :: _ ->
        (try print_endline (string_of_codes (answers (fx = "1") (parse_tree toks)))
         with Bad | Failure _ -> print_endline "BADTREE")
      | _ -> print_endline "?"
    done
  with End_of_file -> ()
