(* Oracle for C06 / C16: runs the extracted models (Fmt/Oracle.v, Comments/Merge.v, Comments/Lex.v).
   One answer line per input line (hex-encoded bytes); input fields are TAB separated.
     L U <dec>            L I <dec with sign>       L F <neg 0/1> <m dec> <e int> | L F inf <neg> | L F nan
     L T <hex>            L BU|BH|BB <hex>          -> rendering TAB round-trip flag
     O ? | O * | O + | O n <lo|-> <hi|->           -> rendering TAB flag
     G 6 <n|-> | G M <mt> <n|-> | G A               -> rendering TAB flag
     C <name hex>          -> rendering TAB flag (grammar-level: read back as the same operator when followed by a blank)
     N <mark 0/1/2> <socket 0/1/2> <id hex>         -> rendering TAB flag
     X <0/1>   R <0/1>     -> rendering of the cut marker with "=>" / of the range operator
     T <name_like 0/1> <op hex> -> Type1 layout of `x <op> y` (name_like) resp. `1 <op> y`
     M <toks> <anchors> <containers>  toks: lo,hi,line,pure,id;...  anchors: kind,lo,hi,line;...  containers: lo,hi;...
                           -> per-anchor id lists ';'-separated | orphans | dropped
     X <hex text>  (as K)  K <hex text> -> comments of the text as the lexical model sees them (hex, each followed by ',') *)
open Fmt_model

let rec pos_of_int n = if n = 1 then XH else if n land 1 = 1 then XI (pos_of_int (n lsr 1)) else XO (pos_of_int (n lsr 1))
let n_of_int n = if n = 0 then N0 else Npos (pos_of_int n)
let rec int_of_pos = function XH -> 1 | XO p -> 2 * int_of_pos p | XI p -> 2 * int_of_pos p + 1
let int_of_n = function N0 -> 0 | Npos p -> int_of_pos p

(* decimal string of any size -> N : repeated halving of the digit string *)
let n_of_dec (s : string) : n =
  let digits = Array.init (String.length s) (fun i -> Char.code s.[i] - 48) in
  let len = Array.length digits in
  let is_zero () = Array.for_all (fun d -> d = 0) digits in
  let halve () =
    let carry = ref 0 in
    for i = 0 to len - 1 do
      let cur = !carry * 10 + digits.(i) in
      digits.(i) <- cur / 2;
      carry := cur mod 2
    done;
    !carry in
  let bits = ref [] in
  while not (is_zero ()) do bits := halve () :: !bits done;
  (* bits: most significant first *)
  match !bits with
  | [] -> N0
  | _ :: rest -> Npos (List.fold_left (fun acc b -> if b = 1 then XI acc else XO acc) XH rest)

let z_of_int i = if i = 0 then Z0 else if i > 0 then Zpos (pos_of_int i) else Zneg (pos_of_int (- i))
let z_of_dec (s : string) : z =
  if String.length s > 0 && s.[0] = '-' then
    (match n_of_dec (String.sub s 1 (String.length s - 1)) with N0 -> Z0 | Npos p -> Zneg p)
  else (match n_of_dec s with N0 -> Z0 | Npos p -> Zpos p)

let bytes_of_hex s =
  let n = String.length s / 2 in
  List.init n (fun i -> n_of_int (Common.hexval s.[2*i] * 16 + Common.hexval s.[2*i+1]))
let string_of_codes l =
  let b = Buffer.create 64 in
  List.iter (fun c -> Buffer.add_char b (Char.chr ((int_of_n c) land 255))) l; Buffer.contents b
(* answers are printed hex-encoded: renderings of text literals may contain line breaks *)
let out l =
  let b = Buffer.create 64 in
  List.iter (fun c -> Buffer.add_string b (Printf.sprintf "%02x" ((int_of_n c) land 255))) l;
  print_endline (Buffer.contents b)
let opt s = if s = "-" then None else Some (n_of_dec s)
let split c s = if s = "" then [] else String.split_on_char c s

let kind_of = function
  | "RuleLeading" -> RuleLeading | "ChoiceLeading" -> ChoiceLeading | "ChoiceTrailing" -> ChoiceTrailing
  | "GrpChoiceLeading" -> GrpChoiceLeading | "EntryLeading" -> EntryLeading | _ -> EntryTrailing

let () =
  try
    while true do
      let line = input_line stdin in
      match Common.split_tab line with
      | "L" :: "U" :: v :: _ -> out (lit_line (LUint (n_of_dec v)))
      | "L" :: "I" :: v :: _ -> out (lit_line (LInt (z_of_dec v)))
      | "L" :: "F" :: "inf" :: neg :: _ -> out (lit_line (LFloat (FInf (neg = "1"))))
      | "L" :: "F" :: "nan" :: _ -> out (lit_line (LFloat FNaN))
      | "L" :: "F" :: neg :: m :: e :: _ -> out (lit_line (LFloat (FFin (neg = "1", n_of_dec m, z_of_int (int_of_string e)))))
      | "L" :: "T" :: h :: _ -> out (lit_line (LText (bytes_of_hex h)))
      | "L" :: "BU" :: h :: _ -> out (lit_line (LBytes (BU, bytes_of_hex h)))
      | "L" :: "BH" :: h :: _ -> out (lit_line (LBytes (BH, bytes_of_hex h)))
      | "L" :: "BB" :: h :: _ -> out (lit_line (LBytes (BB, bytes_of_hex h)))
      | "O" :: "?" :: _ -> out (occur_line OOpt)
      | "O" :: "*" :: _ -> out (occur_line OStar)
      | "O" :: "+" :: _ -> out (occur_line OPlus)
      | "O" :: "n" :: lo :: hi :: _ -> out (occur_line (OExact (opt lo, opt hi)))
      | "G" :: "6" :: c :: _ -> out (tag_line (TTagged (opt c)))
      | "G" :: "M" :: m :: c :: _ -> out (tag_line (TMajor (n_of_dec m, opt c)))
      | "G" :: "A" :: _ -> out (tag_line TAny)
      | "C" :: h :: _ -> out (ctl_line (bytes_of_hex h))
      | "N" :: m :: s :: h :: _ -> out (marked_line (n_of_dec m) (n_of_dec s) (bytes_of_hex h))
      | "X" :: b :: _ -> out (cut_line (b = "1"))
      | "R" :: b :: _ -> out (rangeop_line (b = "1"))
      | "T" :: nl :: h :: _ -> out (type1_line (nl = "1") (bytes_of_hex h))
      | "M" :: toks :: anchors :: conts :: _ ->
        let tok s = match split ',' s with
          | [lo; hi; line; pure; id] -> { c_lo = n_of_dec lo; c_hi = n_of_dec hi; c_line = n_of_dec line; c_pure = (pure = "1"); c_id = n_of_dec id }
          | _ -> failwith "tok" in
        let anc s = match split ',' s with
          | [k; lo; hi; line] -> { a_lo = n_of_dec lo; a_hi = n_of_dec hi; a_line_hi = n_of_dec line; a_kind = kind_of k }
          | _ -> failwith "anchor" in
        let con s = match split ',' s with [lo; hi] -> (n_of_dec lo, n_of_dec hi) | _ -> failwith "container" in
        out (merge_render (List.map tok (split ';' toks)) (List.map anc (split ';' anchors)) (List.map con (split ';' conts)))
      | "K" :: h :: _ -> out (lex_comments_render (bytes_of_hex h))
      | "K" :: [] -> out (lex_comments_render [])
      | _ -> print_endline "?"
    done
  with End_of_file -> ()
