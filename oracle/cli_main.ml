(* C18 oracle: the extracted decision model of cli.rs (Cli.case_validate / Cli.case_compile).
   V <ci> <hdr> <k features | -> <schema code> <rule kinds t|g|G.. or -> <json srcs> <cbor srcs> <csv srcs> <stdin src | ->
       srcs: comma separated  efu:bbbbbbbb  (exists, isfile, utf8 : eight library verdicts), or - for none
   C <ci> <file status code> *)
open Cli_model
let rec pos_of_int n = if n = 1 then XH else if n land 1 = 1 then XI (pos_of_int (n lsr 1)) else XO (pos_of_int (n lsr 1))
let n_of_int n = if n = 0 then N0 else Npos (pos_of_int n)
let rec int_of_pos = function XH -> 1 | XO p -> 2 * int_of_pos p | XI p -> 2 * int_of_pos p + 1
let int_of_n = function N0 -> 0 | Npos p -> int_of_pos p
let string_of_codes l =
  let b = Buffer.create 64 in
  List.iter (fun c -> Buffer.add_char b (Char.chr (int_of_n c))) l; Buffer.contents b
let b c = c = '1'
let dsrc_of s =
  match String.split_on_char ':' s with
  | [f; v] -> { d_exists = b f.[0]; d_isfile = b f.[1]; d_utf8 = b f.[2];
                d_bits = List.init (String.length v) (fun i -> b v.[i]) }
  | _ -> failwith "dsrc"
let srcs_of s = if s = "-" then [] else List.map dsrc_of (String.split_on_char ',' s)
let feats_of s = if s = "-" then None else Some (List.init (int_of_string s) (fun i -> n_of_int (i + 1)))
let kinds_of s =
  if s = "-" then [] else List.init (String.length s) (fun i -> n_of_int (match s.[i] with 't' -> 0 | 'g' -> 1 | _ -> 2))
let () =
  try
    while true do
      let line = input_line stdin in
      match Common.split_tab line with
      | "V" :: ci :: hdr :: f :: sc :: rk :: js :: cs :: ss :: si :: _ ->
        let stdin_src = if si = "-" then None else Some (dsrc_of si) in
        print_endline (string_of_codes
          (case_validate (b ci.[0]) (b hdr.[0]) (feats_of f) (n_of_int (int_of_string sc)) (kinds_of rk)
             (srcs_of js) (srcs_of cs) (srcs_of ss) stdin_src))
      | "C" :: ci :: f :: _ ->
        print_endline (string_of_codes (case_compile (b ci.[0]) (n_of_int (int_of_string f))))
      | _ -> print_endline "?"
    done
  with End_of_file -> ()
