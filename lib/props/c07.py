"""C07 - literals denote exactly the value RFC 8610/9682/4648 assign to them, or the document is rejected.

Every literal spelling is (a) evaluated by the extracted Coq model + specification (oracle `lit`: what the code
stores, what the RFC says, does the token grammar admit it, is it in an excluded class), (b) looked up in the real
pest grammar (driver command G), and (c) placed in every syntactic position the grammar allows for its kind, parsed
with cddl::cddl_from_str and read back out of the AST (driver command P).  Implementation must equal the model in
every position; model must equal the specification except in the classes of the open findings."""
import itertools, json, os, random, struct
from fractions import Fraction
from .. import common
from ..common import Result

PROP = "C07"
PROP_FILE = "theories/Props/C07.v"
EXTRACT = "theories/Extract/ExtractLit.vo"
VM_PREAMBLE = "From Cddl Require Import Base.Bytes Lit.Render."

K_UINT, K_INT, K_U64, K_OCC, K_TAG, K_TEXT, K_B16, K_B64, K_BUTF8, K_FLOAT, K_HEXF, K_NUM = range(1, 13)
KIND_NAME = {1: "uint", 2: "int", 3: "u64", 4: "occur", 5: "tag", 6: "text", 7: "b16", 8: "b64", 9: "butf8", 10: "float",
             11: "hexfloat", 12: "number"}
PEST_RULE = {1: "uint_value", 2: "int_value", 3: "uint_value", 4: "occur", 5: "tag_expr", 6: "text_value", 7: "bytes_b16",
             8: "bytes_b64", 9: "bytes_utf8", 10: "float_value", 11: "hexfloat", 12: "number"}


def oracle_line(kind, tok):
    return "K\t%d\t%s" % (kind, ",".join("%x" % ord(c) for c in tok))


def parse_fields(line):
    """'K:u|M:U5|V:U5|S:U5|G:1|C:01' -> dict"""
    d = {}
    for part in line.split("|"):
        k, _, v = part.partition(":")
        d[k] = v
    return d


def hx(s):
    return s.encode("utf-8").hex()


# ---------------------------------------------------------------------------
# floats: independent correctly rounded conversions (CPython's float() / float.fromhex)
# ---------------------------------------------------------------------------

def f64_bits(x):
    return "%016x" % struct.unpack(">Q", struct.pack(">d", x))[0]


def float_expect(tok):
    """decimal float token -> ('F<bits>', finite?)"""
    v = float(tok)
    return "F" + f64_bits(v), v not in (float("inf"), float("-inf"))


def hexfloat_exact(tok):
    """hexfloat token -> (bits or None when not exactly representable as a finite binary64)"""
    t = tok.lower()
    neg = t.startswith("-")
    body = t[1:] if neg else t
    mant, _, ex = body[2:].partition("p")
    ip, _, fp = mant.partition(".")
    q = Fraction(int(ip + fp, 16), 16 ** len(fp))
    e = int(ex)
    if q == 0:
        return f64_bits(-0.0 if neg else 0.0)
    if abs(e) > 5000:
        return None
    q = q * (Fraction(2) ** e)
    if neg:
        q = -q
    try:
        v = float.fromhex(tok)
    except (OverflowError, ValueError):
        return None
    if v in (float("inf"), float("-inf")) or Fraction(v) != q:
        return None
    return f64_bits(v)


# ---------------------------------------------------------------------------
# literal generators: (kind, token, class)
# ---------------------------------------------------------------------------
DEC = "0123456789"
HEXA = "0123456789abcdefABCDEF"
U64 = 1 << 64
BOUNDS = [0, 1, 23, 24, 255, 256, 65535, 65536, (1 << 31) - 1, 1 << 31, (1 << 32) - 1, 1 << 32, (1 << 32) + 1, (1 << 53) + 1,
          (1 << 63) - 1, 1 << 63, (1 << 63) + 1, U64 - 1, U64, U64 + 1, (1 << 65) + 5, 10 ** 20, 10 ** 25, 3 * 10 ** 30, (1 << 128) + 3]


def spellings_of(n, rng, full):
    out = [str(n), "0x%x" % n, "0X%X" % n, "0b" + bin(n)[2:], "0B" + bin(n)[2:]]
    h = "%x" % n
    out.append("0x" + "".join(rng.choice([c.lower(), c.upper()]) for c in h))
    if full:
        out += ["0x0" + h, "0x000" + h.upper(), "0b0" + bin(n)[2:], "0" + str(n)]
    return out


def gen_ints(rng, tier):
    """-> list of (kind, tok, cls) for uint/int literal tokens, plus enumerated raw strings for kind 12"""
    lits, raw = [], []
    # exhaustive decimal digit strings up to 4 characters (leading zeros included), with and without '-'
    for n in range(1, 5):
        for t in itertools.product(DEC, repeat=n):
            s = "".join(t)
            raw.append((s, "enum-dec"))
            raw.append(("-" + s, "enum-dec-neg"))
    # exhaustive hex: both prefixes x all digit strings (0..3 digits, 4 in thorough) over the full case-mixed alphabet
    maxh = 3 if tier == "quick" else 4
    for pre in ("0x", "0X"):
        for n in range(0, maxh + 1):
            for t in itertools.product(HEXA, repeat=n):
                raw.append((pre + "".join(t), "enum-hex"))
    for n in range(1, 3):
        for t in itertools.product(HEXA, repeat=n):
            raw.append(("-0x" + "".join(t), "enum-hex-neg"))
    # exhaustive binary: digits 0,1 and the non-digit 2, up to 6
    for pre in ("0b", "0B", "-0b"):
        for n in range(0, 7):
            for t in itertools.product("012", repeat=n):
                raw.append((pre + "".join(t), "enum-bin"))
    # exhaustive mixed strings: every string up to 4 characters over an alphabet that mixes the radix markers,
    # signs, exponent letters and digits of all radices
    for n in range(1, 5):
        for t in itertools.product("019aFxXbB-ep+", repeat=n):
            raw.append(("".join(t), "enum-mixed"))
    # boundaries in all spellings, both signs
    for b in BOUNDS:
        for s in spellings_of(b, rng, True):
            lits.append((K_UINT, s, "boundary"))
            lits.append((K_INT, "-" + s, "boundary"))
    # long digit strings
    for _ in range(60 if tier == "quick" else 2000):
        n = rng.choice([rng.getrandbits(rng.choice([8, 31, 32, 33, 62, 63, 64, 65, 70, 100])), U64 - rng.randrange(0, 3),
                        (1 << 63) + rng.randrange(-2, 3), rng.randrange(10 ** 19, 10 ** 21)])
        for s in spellings_of(n, rng, False):
            lits.append((K_UINT, s, "random"))
            lits.append((K_INT, "-" + s, "random"))
    lits.append((K_UINT, "1" + "0" * 40, "long"))
    lits.append((K_UINT, "0x" + "f" * 33, "long"))
    lits.append((K_UINT, "0b" + "1" * 65, "long"))
    lits.append((K_UINT, "0b" + "1" * 64, "long"))
    lits.append((K_UINT, "0b1" + "0" * 64, "long"))
    lits.append((K_INT, "-0b1" + "0" * 63, "long"))
    lits.append((K_INT, "-0b1" + "0" * 62 + "1", "long"))
    return lits, raw


ESC_ATOMS = ["a", "\u00e9", "\u20ac", "\U0001f600", "\t", "'", "/", "\\\"", "\\\\", "\\/", "\\b", "\\f", "\\n", "\\r", "\\t",
             "\\u0041", "\\u00e9", "\\uAbCd", "\\u0000", "\\uD7FF", "\\uE000", "\\uFFFF", "\\uD83C", "\\uDC73", "\\uD800", "\\uDBFF",
             "\\uDC00", "\\uDFFF", "\\ud801", "\\udc37", "\\u{0}", "\\u{41}", "\\u{e9}", "\\u{D7FF}", "\\u{D800}", "\\u{DFFF}",
             "\\u{E000}", "\\u{1F600}", "\\u{10FFFF}", "\\u{110000}", "\\u{000041}", "\\u{00000041}", "\\u{0000000041}",
             "\\u{FFFFFFFF}", "\\u{100000000}", "\\u{0010FFFF}", "\\u{1f600}"]
ESC_BAD = ["\\x", "\\'", "\\u12", "\\U0041", "\\u{}", "\\u{g}", "\\u{41", "\\", "\\u", "\\a", "\\u004g", "\\0"]


def gen_texts(rng, tier):
    lits = []
    for a in ESC_ATOMS:
        lits.append((K_TEXT, '"' + a + '"', "esc1"))
    for a in ESC_ATOMS:
        for b in ESC_ATOMS:
            lits.append((K_TEXT, '"' + a + b + '"', "esc2"))
    for a in ESC_BAD:
        lits.append((K_TEXT, '"' + a + '"', "esc-bad"))
        lits.append((K_TEXT, '"x' + a + 'y"', "esc-bad"))
    # \u{...} with 1..8 digits over interesting values
    for v in [0, 0x41, 0xD800, 0xDFFF, 0xFFFF, 0x10000, 0x10FFFF, 0x110000, 0x7FFFFFFF, 0xFFFFFFFF]:
        for width in range(1, 9):
            h = "%x" % v
            if len(h) <= width:
                lits.append((K_TEXT, '"\\u{' + h.rjust(width, "0") + '}"', "brace-width"))
    # all high x low surrogate corner pairs, ordered and reversed
    for hi in ["D800", "D801", "D83C", "DBFF", "dbff"]:
        for lo in ["DC00", "DC37", "DC73", "DFFF", "dfff"]:
            lits.append((K_TEXT, '"\\u%s\\u%s"' % (hi, lo), "pair"))
            lits.append((K_TEXT, '"\\u%s\\u%s"' % (lo, hi), "pair-reversed"))
            lits.append((K_TEXT, '"\\u%sx\\u%s"' % (hi, lo), "pair-split"))
    lits += [(K_TEXT, '""', "empty"), (K_TEXT, '"a"b"', "raw-quote"), (K_TEXT, '"abc', "unterminated"),
             (K_TEXT, '"line1\nline2"', "raw-newline")]
    n = 300 if tier == "quick" else 20000
    for _ in range(n):
        k = rng.randrange(3, 7)
        lits.append((K_TEXT, '"' + "".join(rng.choice(ESC_ATOMS) for _ in range(k)) + '"', "esc-random"))
    return lits


B64STD = "ABCDEFGHIJKLMNOPQRSTUVWXYZabcdefghijklmnopqrstuvwxyz0123456789+/"
B64URL = B64STD[:62] + "-_"
FILLERS = [" ", "\n", "\t", "\r", "\r\n", " ;c\n", ";\n", "; it is\n", "  ", ";c\rA0\n", ";\r\n", ";;\"x\\\n", ";\u00a0=\n"]
EXTRA_WS = ["\u00a0", "\x0b", "\x0c", "\u0085", "\u1680", "\u2000", "\u2003", "\u200a", "\u2028", "\u2029", "\u202f", "\u205f", "\u3000"]
NOT_WS = ["\u200b", "\ufeff", "\x00", "\x1f", "\u180e"]


def sprinkle(rng, s, fillers):
    out = []
    for c in s:
        if rng.random() < 0.3:
            out.append(rng.choice(fillers))
        out.append(c)
    if rng.random() < 0.3:
        out.append(rng.choice(fillers))
    return "".join(out)


def gen_bytes(rng, tier):
    lits = []
    # base64: exhaustive strings up to 4 characters (5 in thorough) over a reduced alphabet: values with zero and
    # non-zero low bits, the four alphabet-specific characters, padding, an invalid character
    red = "AQRg9+/-_=!"
    for n in range(0, (5 if tier == "quick" else 6)):
        for t in itertools.product(red, repeat=n):
            lits.append((K_B64, "b64'" + "".join(t) + "'", "b64-enum"))
    # every pair and every (symbol, 'A', '=', '=') block over the two full alphabets: the whole value table
    full = B64STD + "-_"
    for a in full:
        for b in full:
            lits.append((K_B64, "b64'" + a + b + "'", "b64-pairs"))
        lits.append((K_B64, "b64'A" + a + "A='", "b64-table"))
        lits.append((K_B64, "b64'" + a + "AAA'", "b64-table"))
        lits.append((K_B64, "b64'AAA" + a + "'", "b64-table"))
    # longer random: encodings of random bytes in both alphabets x padding variants x fillers, and mutants
    n = 1500 if tier == "quick" else 60000
    for _ in range(n):
        k = rng.choice([0, 1, 2, 3, 4, 5, 6, 7, 8, 9, 16, 31])
        bs = bytes(rng.getrandbits(8) for _ in range(k))
        alpha = rng.choice([B64STD, B64URL])
        bits = "".join("{:08b}".format(b) for b in bs)
        bits += "0" * (-len(bits) % 6)
        enc = "".join(alpha[int(bits[i:i + 6], 2)] for i in range(0, len(bits), 6))
        pad = "=" * (-len(enc) % 4)
        variant = rng.choice(["nopad", "pad", "pad", "shortpad", "extrapad", "innerpad", "mutant", "mixed"])
        cls = "b64-rand-" + variant
        if variant == "pad":
            enc += pad
        elif variant == "shortpad":
            enc += pad[:-1] if pad else "="
        elif variant == "extrapad":
            enc += pad + "="
        elif variant == "innerpad":
            enc = enc + pad + enc + pad
        elif variant == "mutant" and enc:
            i = rng.randrange(len(enc))
            enc = enc[:i] + rng.choice(full + "=!") + enc[i + 1:]
        elif variant == "mixed" and enc:
            i = rng.randrange(len(enc))
            enc = enc[:i] + rng.choice("+/-_") + enc[i + 1:] + rng.choice(["", pad])
        r = rng.random()
        if r < 0.35:
            enc = sprinkle(rng, enc, FILLERS)
        elif r < 0.45:
            enc = sprinkle(rng, enc, EXTRA_WS)
            cls += "-xws"
        elif r < 0.5:
            enc = sprinkle(rng, enc, NOT_WS)
            cls += "-notws"
        lits.append((K_B64, "b64'" + enc + "'", cls))
    # base16: exhaustive strings up to 5 over a reduced alphabet incl. a non-digit; all pairs over the full alphabet
    for n in range(0, (5 if tier == "quick" else 6)):
        for t in itertools.product("09afAFg", repeat=n):
            lits.append((K_B16, "h'" + "".join(t) + "'", "b16-enum"))
    if tier == "quick":
        for t in itertools.product("0aFg", repeat=5):
            lits.append((K_B16, "h'" + "".join(t) + "'", "b16-enum"))
    for a in HEXA + "gG":
        for b in HEXA + "gG":
            lits.append((K_B16, "h'" + a + b + "'", "b16-pairs"))
    n = 800 if tier == "quick" else 30000
    for _ in range(n):
        k = rng.choice([1, 2, 3, 4, 5, 8, 9, 16, 17])
        h = "".join(rng.choice(HEXA) for _ in range(k))
        cls = "b16-rand"
        r = rng.random()
        if r < 0.5:
            h = sprinkle(rng, h, FILLERS)
        elif r < 0.65:
            h = sprinkle(rng, h, EXTRA_WS)
            cls += "-xws"
        elif r < 0.72:
            h = sprinkle(rng, h, NOT_WS)
            cls += "-notws"
        lits.append((K_B16, "h'" + h + "'", cls))
    lits += [(K_B16, "h'12 ;x'", "b16-open-comment"), (K_B16, "h'1 ;2\n2'", "b16-comment-digit"), (K_B16, "h'12;\u00a0\n34'", "b16-xws-in-comment"),
             (K_B16, "h'12 ;c\r34\n56'", "b16-cr-in-comment"), (K_B64, "b64'YQ ;c\rYQ\n=='", "b64-cr-in-comment"),
             (K_B16, "h'12;34\r\n56'", "b16-crlf-comment"), (K_B16, "h'12'34'", "b16-quote"), (K_B16, "h'\\u0031\\u0032'", "b16-escape"), (K_B64, "b64'YQ;=\n=='", "b64-pad-in-comment")]
    # unprefixed byte strings
    atoms = ["a", "\u00e9", "\u20ac", "\U0001f600", "\"", " ", "\n", "\\\\", "\\'", "\\n", "\\u0041", "\\\"", "\\/", "\\x", ";", "\\u{1F600}"]
    for a in atoms:
        lits.append((K_BUTF8, "'" + a + "'", "utf8-1"))
        for b in atoms:
            lits.append((K_BUTF8, "'" + a + b + "'", "utf8-2"))
    lits += [(K_BUTF8, "''", "utf8-empty"), (K_BUTF8, "'it\\'s'", "utf8-escaped-quote"), (K_BUTF8, "'a\\\\b'", "utf8-backslash")]
    return lits


def gen_floats(rng, tier):
    lits = []
    named = ["1.0", "1.5e3", "1e-5", "1e5", "1E5", "1e+5", "1.5E-3", "0.0", "-0.0", "0e0", "-0e5", "0.1", "0.3", "1e999", "-1e999", "1e400",
             "1e308", "1e309", "1.7976931348623157e308", "1.7976931348623158e308", "1.7976931348623159e308", "17976931348623158e292",
             "179769313486231580793728971405303415079934132710037826936173778980444968292764750946649017977587207096330286416692887910946555547851940402630657488671505820681908902000708383676273854845817711531764475730270069855571366959622842914819860834936475292719074168444365510704342711559699508093042880177904174497791.9",
             "179769313486231580793728971405303415079934132710037826936173778980444968292764750946649017977587207096330286416692887910946555547851940402630657488671505820681908902000708383676273854845817711531764475730270069855571366959622842914819860834936475292719074168444365510704342711559699508093042880177904174497792.0",
             "4.9e-324", "2.4703282292062327e-324", "2.4703282292062328e-324", "5e-324", "2.2250738585072014e-308", "2.2250738585072011e-308",
             "1e-400", "1e-999", "9007199254740993.0", "9007199254740992.5", "0.1e1", "1.05e05", "3.14", "1e0000000000000000000001",
             "1e99999999999999999999", "1e-99999999999999999999", "0.0e99999999999999999999", "123456789012345678901234567890.5",
             "0." + "0" * 400 + "1e401", "0." + "0" * 330 + "1", "1" + "0" * 310 + ".0", "1" + "0" * 310 + "e-310", "1" + "0" * 400 + "e-95",
             "8.5", "-8.5e-1", "1.e5", "01.5", ".5", "1e", "1e+", "1.5e", "1.5.5", "1E5E5"]
    for s in named:
        lits.append((K_FLOAT, s, "float-named"))
    hnamed = ["0x1p4", "0x1.8p1", "0X1P4", "0x1P+4", "-0x1.8p+1", "0x1.00000000000001p0", "0x1p1024", "0x1p1023", "0x1.fffffffffffffp1023",
              "0x1.fffffffffffff8p1023", "0x1p-1074", "0x1p-1075", "0x1p-1022", "0x0.8p-1073", "0x0p0", "-0x0p0", "0x0.0p99999999999999999999",
              "0x1p99999999999999999999", "0x10000000000000000p0", "0x10000000000000p0", "0x1fffffffffffffp0", "0x3fffffffffffffp0",
              "0xAbCdEf.8p-4", "0x.8p1", "0x1.p1", "0x1p", "0x1.8", "0x1p+", "0x1.8p1.5", "0x1.0000000000000000000000p5"]
    for s in hnamed:
        lits.append((K_HEXF, s, "hexfloat-named"))
    n = 1500 if tier == "quick" else 80000
    for _ in range(n):
        ip = rng.choice(["0", str(rng.randrange(1, 10)), str(rng.randrange(1, 10 ** rng.randrange(1, 25)))])
        fp = "".join(rng.choice(DEC) for _ in range(rng.choice([0, 0, 1, 2, 5, 17, 20])))
        ex = rng.choice([None, None, rng.randrange(-20, 21), rng.choice([-400, -330, -324, -323, -308, -307, 291, 292, 307, 308, 309, 400]),
                         rng.randrange(-340, 320)])
        s = rng.choice(["", "", "-"]) + ip
        if fp:
            s += "." + fp
        if ex is not None or not fp:
            e = 0 if ex is None else ex
            s += rng.choice(["e", "E"]) + (rng.choice(["", "+"]) if e >= 0 else "") + str(e)
        lits.append((K_FLOAT, s, "float-random"))
    n = 800 if tier == "quick" else 40000
    for _ in range(n):
        ip = "".join(rng.choice(HEXA) for _ in range(rng.choice([1, 1, 2, 8, 13, 14, 16, 17])))
        fp = "".join(rng.choice(HEXA) for _ in range(rng.choice([0, 0, 1, 2, 13, 14])))
        e = rng.choice([0, 1, -1, rng.randrange(-1100, 1100), rng.randrange(-60, 60), 1023, 1024, -1022, -1074, -1075])
        s = rng.choice(["", "", "-"]) + rng.choice(["0x", "0X"]) + ip + ("." + fp if fp else "") + rng.choice("pP") + \
            (rng.choice(["", "+"]) if e >= 0 else "") + str(e)
        lits.append((K_HEXF, s, "hexfloat-random"))
    return lits


# ---------------------------------------------------------------------------
# positions: document templates per kind.  @L@ the literal, @M@ the expected rendering of its stored value
# ---------------------------------------------------------------------------
T_NUM = [("type", "a = @L@", "a = @M@"),
         ("key-colon", "a = { @L@: int }", "a = {kv:@M@ : n:int}"),
         ("key-arrow", "a = { @L@ => int }", "a = {k1:@M@ => n:int}"),
         ("key-cut", "a = { @L@ ^ => int }", "a = {k1:@M@ ^=> n:int}"),
         ("range-lo", "a = @L@..9", "a = <@M@ .. U9>"),
         ("range-hi", "a = 0..@L@", "a = <U0 .. @M@>"),
         ("range-hi-excl", "a = 0...@L@", "a = <U0 ... @M@>"),
         ("ctl-arg", "a = uint .size @L@", "a = <n:uint .size @M@>"),
         ("ctl-arg-eq", "a = int .eq @L@", "a = <n:int .eq @M@>"),
         ("array-elem", "a = [@L@, tstr]", "a = [@M@, n:tstr]"),
         ("generic-arg", "a = b<@L@>", "a = n:b<|@M@|>"),
         ("paren", "a = (@L@)", "a = (@M@)"),
         ("choice", "a = tstr / @L@", "a = n:tstr/@M@"),
         ("tag-content", "a = #6.1(@L@)", "a = #6.L1(@M@)"),
         ("entry-type", "a = { x: @L@ }", "a = {kb:x : @M@}"),
         ("group-rule", "g = (x: @L@)", "g =g (kb:x : @M@)")]
T_TEXT = [("type", "a = @L@", "a = @M@"),
          ("key-colon", "a = { @L@: int }", "a = {kv:@M@ : n:int}"),
          ("key-arrow", "a = { @L@ => int }", "a = {k1:@M@ => n:int}"),
          ("ctl-arg", "a = tstr .eq @L@", "a = <n:tstr .eq @M@>"),
          ("ctl-arg-default", "a = tstr .default @L@", "a = <n:tstr .default @M@>"),
          ("array-elem", "a = [@L@, tstr]", "a = [@M@, n:tstr]"),
          ("generic-arg", "a = b<@L@>", "a = n:b<|@M@|>"),
          ("choice", "a = int / @L@", "a = n:int/@M@")]
T_BYTES = [("type", "a = @L@", "a = @M@"),
           ("key-arrow", "a = { @L@ => int }", "a = {k1:@M@ => n:int}"),
           ("ctl-arg", "a = bstr .eq @L@", "a = <n:bstr .eq @M@>"),
           ("array-elem", "a = [@L@, tstr]", "a = [@M@, n:tstr]"),
           ("generic-arg", "a = b<@L@>", "a = n:b<|@M@|>"),
           ("choice", "a = int / @L@", "a = n:int/@M@")]
T_OCC = [("occ-array", "a = [@L@ int]", "a = [@M@ n:int]"),
         ("occ-map", "a = { @L@ tstr => int }", "a = {@M@ k1:n:tstr => n:int}"),
         ("occ-bareword", "a = { @L@ x: int }", "a = {@M@ kb:x : n:int}"),
         ("occ-group-rule", "g = (@L@ int)", "g =g (@M@ n:int)"),
         ("occ-inline-group", "a = [@L@ (int, tstr)]", "a = [@M@ (n:int, n:tstr)]"),
         ("occ-value", "a = [@L@ 7]", "a = [@M@ U7]")]
T_TAG6 = [("tag6", "a = @L@(int)", "a = @M@(n:int)"), ("tag6-bare", "a = @L@", "a = @M@()"),
          ("tag6-nested", "a = [@L@(tstr)]", "a = [@M@(n:tstr)]")]
T_TAGN = [("major", "a = @L@", "a = @M@"), ("major-array", "a = [@L@, int]", "a = [@M@, n:int]")]
TEMPLATES = {K_UINT: T_NUM, K_INT: T_NUM, K_FLOAT: T_NUM, K_HEXF: T_NUM, K_TEXT: T_TEXT, K_B16: T_BYTES, K_B64: T_BYTES,
             K_BUTF8: T_BYTES, K_OCC: T_OCC}


def templates_for(kind, tok):
    if kind == K_TAG:
        return T_TAG6 if tok.startswith("#6") else T_TAGN
    return TEMPLATES[kind]


IDENT_RE = __import__("re").compile(r"^[A-Za-z@_](?:[-.]?[A-Za-z0-9@_$])*$")


# ---------------------------------------------------------------------------
# findings
# ---------------------------------------------------------------------------

def finding_for(kind, f):
    """which open finding's class holds on this literal (by the Coq classifier flags of the oracle line)"""
    c = f.get("C", "")
    if kind == K_BUTF8 and c == "1":
        return "kf-c07-bytes-escapes-not-processed"
    return None


# witnesses of the FIXED findings (findings.d/C07.json "fixed"): they run first, in every position, and a recurrence is
# an ordinary VIOLATION (the models mirror the repaired code and reject them)
FIXED_CORPUS = [(K_FLOAT, "1e999", "fixed-corpus"), (K_FLOAT, "-1e999", "fixed-corpus"), (K_FLOAT, "1.7976931348623159e308", "fixed-corpus"),
                (K_B16, "h'12\u00a034'", "fixed-corpus"), (K_B16, "h'12\u202834'", "fixed-corpus"), (K_B16, "h'12\x0c34'", "fixed-corpus"),
                (K_B64, "b64'YQ\u00a0=='", "fixed-corpus"), (K_B64, "b64'YQ==YQ=='", "fixed-corpus"), (K_B64, "b64'YWE=YQ=='", "fixed-corpus"),
                (K_B64, "b64'-_8=-_8='", "fixed-corpus"),
                (K_TEXT, '"\\ud800"', "fixed-corpus"), (K_TEXT, '"\\uD800\\u0041"', "fixed-corpus"), (K_TEXT, '"\\u{110000}"', "fixed-corpus"),
                (K_TEXT, '"\\udc00x"', "fixed-corpus"), (K_TEXT, '"\\uD800\\u{41}xyz"', "fixed-corpus"), (K_TEXT, '"\\uDC00\\uD800"', "fixed-corpus"),
                (K_TEXT, '"\\u{D800}"', "fixed-corpus"), (K_TEXT, '"\\u{100000000}"', "fixed-corpus")]


UINT_RE = __import__("re").compile(r"^(0[xX][0-9a-fA-F]+|0[bB][01]+|[1-9][0-9]*|0)$")
NUMKIND = {"u": K_UINT, "i": K_INT, "f": K_FLOAT, "h": K_HEXF}
NUMRULE = {"u": "Y uint_value", "i": "Y int_value", "f": "Y float_value", "h": "Y hexfloat", "-": "N"}


def derived_literals(lits, raw, wide):
    """occurrence indicators and tag heads built from uint spellings"""
    out = []
    small = [s for s, _ in raw if UINT_RE.match(s) and (len(s) <= 2 or (s[:2] in ("0x", "0X", "0b", "0B") and len(s) <= 4))]
    chosen = small[:: (2 if wide else 9)] + [t for k, t, c in lits if k == K_UINT and c in ("boundary", "long")]
    for o in ["?", "+", "*", "**", "3**", "*3*", "3*05", "03*5", "3 * 5", "3 *5", "3* 5", "-3*", "3*-5", "0x*", "*0x", "3*0b", "++", "?*", "3?", "3+"]:
        out.append((K_OCC, o, "occ-fixed"))
    for a in ["", "0", "1", "2", "10", "0x3", "0b11", "0X1f", "00", "01"]:
        for b in ["", "0", "1", "5", "12", "0x5", "0B101", "00", "05"]:
            out.append((K_OCC, a + "*" + b, "occ-enum"))
    for u in dict.fromkeys(chosen):
        for o in (u + "*", "*" + u, u + "*3", "3*" + u, u + "*" + u):
            out.append((K_OCC, o, "occ-uint"))
        for d in ("6", "7", "1", "0", "9"):
            out.append((K_TAG, "#%s.%s" % (d, u), "tag-uint"))
    for d in "0123456789":
        out.append((K_TAG, "#" + d, "tag-bare"))
    out += [(K_TAG, "#", "tag-bare"), (K_TAG, "#6.", "tag-bad"), (K_TAG, "#6.-1", "tag-bad"), (K_TAG, "#a.1", "tag-bad"), (K_TAG, "#6.1.2", "tag-bad"),
            (K_TAG, "#66.1", "tag-bad"), (K_TAG, "#6.01", "tag-bad"), (K_TAG, "#6.0x", "tag-bad")]
    return out


FULL_POS_CLASSES = ("fixed-corpus", "boundary", "long", "float-named", "hexfloat-named", "esc1", "pair", "pair-reversed", "brace-width", "occ-fixed",
                    "occ-enum", "occ-uint", "tag-uint", "tag-bare", "utf8-1", "b16-pairs", "random")


def run(tier, seed):
    res = Result(PROP, tier, seed)
    proved = common.prove(res, PROP, PROP_FILE, [EXTRACT])
    drv = common.build_harness("c07")
    orc = common.build_oracle("lit", ["lit_model"])
    rng = random.Random(seed)
    wide = (tier != "quick") or not proved
    gtier = "thorough" if wide else "quick"
    known = {kf["id"]: kf for kf in common.known_findings(PROP)}

    # ---- the cases ----
    int_lits, raw = gen_ints(rng, gtier)
    raw = list(dict.fromkeys(raw))
    lits = FIXED_CORPUS + int_lits + gen_texts(rng, gtier) + gen_bytes(rng, gtier) + gen_floats(rng, gtier)
    lits += derived_literals(lits, raw, wide)
    lits = list(dict.fromkeys(lits))
    if wide:
        cps = [c for c in range(0, 0x110000) if not 0xd800 <= c <= 0xdfff and c != 0x27]
    else:
        cps = [c for c in list(range(0, 0x3100)) + [0xfeff, 0xe000, 0x10000, 0x1f600, 0x10ffff] if c != 0x27]
    ws_lits = [(K_B16, "h'12" + chr(c) + "34'", "ws-sweep") for c in cps]
    wit = [(kf["witness"]["kind"], kf["witness"]["token"], "witness") for kf in known.values()]

    # ---- one oracle batch: enumerated raw strings (kind 12: which `number` alternative takes the whole string, and
    #      that kind's line), all literals, the whitespace sweep, the witnesses of the open findings ----
    n_raw, n_lits, n_ws = len(raw), len(lits), len(ws_lits)
    orl = common.run_tool(orc, [oracle_line(K_NUM, s) for s, _ in raw] + [oracle_line(k, t) for k, t, _ in lits + ws_lits + wit])
    raw_f = [parse_fields(l) for l in orl[:n_raw]]
    # raw strings that are number literals join the literals (with the fields of their kind), the others are checked
    # as non-literals below
    cases, fields, orlines = [], [], []          # (kind, token, class), oracle fields, oracle line
    for (s, cls), f, l in zip(raw, raw_f, orl[:n_raw]):
        if f["K"] != "-":
            cases.append((NUMKIND[f["K"]], s, cls))
            fields.append(f)
            orlines.append(None)
    seen = set((k, t) for k, t, _ in cases)
    for c, l in zip(lits, orl[n_raw:n_raw + n_lits]):
        if (c[0], c[1]) not in seen:
            cases.append(c)
            fields.append(parse_fields(l))
            orlines.append(l)
    ws_f = [parse_fields(l) for l in orl[n_raw + n_lits:n_raw + n_lits + n_ws]]
    wit_f = [parse_fields(l) for l in orl[n_raw + n_lits + n_ws:]]
    raw_field = {s: f for (s, _), f in zip(raw, raw_f)}

    def as_entry(s):
        """rendering of the string as one type (a number literal or a name), None when it is neither"""
        f = raw_field.get(s)
        if f is not None and f["K"] in ("u", "i") and f["M"] != "ERR":
            return f["M"]
        if f is not None and f["K"] == "f":
            return float_expect(s)[0]
        if f is not None and f["K"] == "-" and IDENT_RE.match(s):
            return "n:" + s
        return None

    # ---- documents: every literal in its positions ----
    docs = []   # (doc text, expected-format, model rendering or None, case index or None, position, class)
    nonlit = [(s, cls) for (s, cls), f in zip(raw, raw_f) if f["K"] == "-"]
    for s, cls in nonlit:
        want = "OK a = n:" + s if IDENT_RE.match(s) else "ERR"
        if s.startswith("+") and as_entry(s[1:]) is not None:
            want = "OK a =g occ+ " + as_entry(s[1:])      # `a = +X` is the group rule a = (+ X): an occurrence, not a sign
        docs.append(("a = " + s, None, want, None, "nonliteral", cls + "/nonliteral"))
    float_expected = {}
    for i, ((k, t, cls), f) in enumerate(zip(cases, fields)):
        if k == K_FLOAT:
            if f["G"] == "1":
                m, fin = float_expect(t)
                float_expected[i] = (m, fin)
                if f["M"] != "FIN":
                    m = "ERR"       # the model (Coq overflow test) says the bridge rejects it; cross-checked below
            else:
                m = "ERR"
        elif k == K_HEXF:
            m = None        # decided from the top-level document, see below
        else:
            m = f["M"] if f["G"] == "1" else "ERR"
        tpls = templates_for(k, t)
        if f["G"] == "0":
            # spellings outside the token grammar: top level only, must be rejected - except where a shorter token
            # followed by something else is a legitimate reading (occurrences re-tokenise inside a group, cddl.pest
            # documents `01*02 t` = `0 (1*0) 2 t`; a ';' after a closing quote starts a comment): the grammar probe covers those
            use = [] if (k == K_OCC or (k in (K_TEXT, K_B16, K_B64, K_BUTF8) and ";" in t)) else tpls[:1]
        elif cls in FULL_POS_CLASSES or i % (4 if wide else 23) == 0:
            use = tpls
        elif len(tpls) > 1 and i % 3 == 0:
            use = tpls[:1] + [tpls[1 + ((i // 3) % (len(tpls) - 1))]]
        else:
            use = tpls[:1]
        for name, dfmt, efmt in use:
            docs.append((dfmt.replace("@L@", t), efmt, m, i, name, cls))
    for (k, t, cls), f in zip(ws_lits, ws_f):
        docs.append(("a = " + t, "a = @M@", f["M"], None, "ws-sweep", cls))

    # ---- one driver batch: grammar probes, documents, witnesses ----
    glines = ["G\t%s\tnumber" % hx(s) for s, _ in raw] + ["G\t%s\t%s" % (hx(t), PEST_RULE[k]) for k, t, _ in cases]
    plines = ["P\t" + hx(d[0]) for d in docs] + ["P\t" + hx(kf["witness"]["doc"]) for kf in known.values()]
    dout = common.run_tool(drv, glines + plines)
    g_raw, g_cases = dout[:n_raw], dout[n_raw:n_raw + len(cases)]
    impl = dout[len(glines):len(glines) + len(docs)]
    wit_impl = dout[len(glines) + len(docs):]

    evaluations = 0
    hist, pos_hist, split = {}, {}, {"accepted": 0, "rejected": 0}
    known_hits = {}
    # token grammar: Coq recognisers against the real pest rules
    for (s, cls), f, g in zip(raw, raw_f, g_raw):
        if g != NUMRULE[f["K"]]:
            res.violation("token grammar: pest rule `number` on %r gives %s, Coq recogniser says %s" % (s, g, NUMRULE[f["K"]]),
                          {"cmd": "G", "kind": K_NUM, "token": s, "impl": g, "model": NUMRULE[f["K"]]})
    for (k, t, cls), f, g in zip(cases, fields, g_cases):
        if (g.split(" ")[0] == "Y") != (f["G"] == "1"):
            res.violation("token grammar: pest rule `%s` on %r gives %s, Coq recogniser says G=%s" % (PEST_RULE[k], t, g, f["G"]),
                          {"cmd": "G", "kind": k, "token": t, "impl": g, "model": f["G"]})
    grammar_checked = n_raw + len(cases)

    # model against specification (where the grammar admits the spelling)
    def model_vs_spec(k, t, f):
        if f["G"] == "1" and f["V"] != f["S"]:
            fid = finding_for(k, f)
            if fid and fid in known:
                known_hits[fid] = known_hits.get(fid, 0) + 1
            else:
                res.violation("%s literal %r: the code (model) stores %s, the RFC value is %s, and no open finding's class covers it"
                              % (KIND_NAME[k], t, f["V"], f["S"]), {"cmd": "K", "kind": k, "token": t, "model": f["V"], "spec": f["S"]})
    for (k, t, cls), f in zip(cases, fields):
        if k not in (K_FLOAT, K_HEXF):
            model_vs_spec(k, t, f)
    for (k, t, cls), f in zip(ws_lits, ws_f):
        model_vs_spec(k, t, f)

    # implementation against model, document by document
    top_result = {}
    for (d, efmt, m, i, name, cls), out in zip(docs, impl):
        if i is not None and name in ("type", "occ-array", "tag6", "major"):
            top_result[i] = out
    samples, nontrivial = [], set()
    hexf_rejected_exact = 0
    repaired = {}
    for n, ((d, efmt, m, i, name, cls), out) in enumerate(zip(docs, impl)):
        evaluations += 1
        hist[cls] = hist.get(cls, 0) + 1
        pos_hist[name] = pos_hist.get(name, 0) + 1
        split["accepted" if out.startswith("OK") else "rejected"] += 1
        if i is None:
            want = m if efmt is None else ("ERR" if m == "ERR" else "OK " + efmt.replace("@M@", m))
            if out != want:
                res.violation("`%s` (%s): implementation %s, model %s" % (d, cls, out, want),
                              {"cmd": "P", "doc": d, "impl": out, "model": want})
            continue
        k, t, _ = cases[i]
        f = fields[i]
        if len(t) > 1:
            nontrivial.add((k, t, name))
        if k == K_HEXF:
            # hexf-parse is not modelled: an accepted hexfloat must hold EXACTLY its value; rejection is allowed only
            # for values that are not exactly representable (counted when hexf-parse rejects a representable one)
            exact = hexfloat_exact(t) if f["G"] == "1" else None
            top = top_result.get(i, "ERR")
            if name == "type":
                if top.startswith("OK"):
                    if exact is None or top != "OK a = F" + exact:
                        res.violation("hexfloat %r stored as %s, exact value %s" % (t, top, exact),
                                      {"cmd": "P", "doc": d, "kind": k, "token": t, "impl": top, "model": "F%s" % exact})
                elif exact is not None:
                    hexf_rejected_exact += 1
                continue
            m = top[len("OK a = "):] if top.startswith("OK a = ") else "ERR"
        elif k in (K_B16, K_B64, K_BUTF8) and name == "key-colon":
            m = "ERR"
        want = "ERR" if m == "ERR" else "OK " + efmt.replace("@M@", m)
        if out != want and k not in (K_FLOAT, K_HEXF) and f["G"] == "1" and f["V"] != f["S"] and finding_for(k, f) in known \
                and out == ("ERR" if f["S"] in ("ERR", "NONE") else "OK " + efmt.replace("@M@", f["S"])):
            # inside the class of an open finding the implementation now gives the RFC answer: the defect was repaired
            repaired[finding_for(k, f)] = repaired.get(finding_for(k, f), 0) + 1
            continue
        if out != want:
            res.violation("%s literal %r in position %s (`%s`): implementation %s, model %s" % (KIND_NAME[k], t, name, d, out, want),
                          {"cmd": "P", "doc": d, "kind": k, "token": t, "position": name, "impl": out, "model": want})
        if k == K_FLOAT and i in float_expected and name == "type" and (f["M"] == "FIN") != float_expected[i][1]:
            # Coq's class (finite / infinite) against the independent conversion
            res.violation("float literal %r: Coq overflow test says %s, correctly rounded value is %s" % (t, f["M"], float_expected[i][0]),
                          {"cmd": "K", "kind": k, "token": t, "model": f["M"], "spec": float_expected[i][0]})
        if len(samples) < 8 and n % 9973 == 3:
            samples.append({"kind": KIND_NAME[k], "token": t, "position": name, "doc": d, "impl": out})

    # ---- open findings: replay each witness; KNOWN-FINDING only while it still fails ----
    for kf, f, out in zip(known.values(), wit_f, wit_impl):
        w = kf["witness"]
        still = out == w["impl"] and finding_for(w["kind"], f) == kf["id"] and f["V"] != f["S"]
        if still:
            res.known(kf)
        else:
            res.notes.append("finding %s apparently repaired: `%s` -> %s (was %s)" % (kf["id"], w["doc"], out, w["impl"]))

    for fid, n in repaired.items():
        res.notes.append("finding %s: %d cases of its class now get the RFC answer from the implementation (repaired?)" % (fid, n))

    # ---- vm_compute slice: the extracted oracle computes what Coq computes ----
    small = [i for i, (k, t, _) in enumerate(cases) if len(t) <= 24 and orlines[i] is not None]
    sl = rng.sample(small, min(100, len(small)))
    vm = common.vm_compute_slice(PROP, VM_PREAMBLE, ["lit_eval %d %s" % (cases[i][0], common.coq_list([ord(c) for c in cases[i][1]])) for i in sl])
    vm_bad = [(cases[i][1], x, orlines[i]) for i, x in zip(sl, vm) if x != orlines[i]]
    if vm_bad:
        res.violation("extracted oracle and vm_compute disagree on %r: %s vs %s" % vm_bad[0], {"kind": "extraction", "case": list(vm_bad[0])}, no_input=True)
    if not proved and not res.violations:
        res.violation(res.proof_broken, {"kind": "proof-obligation", "detail": res.proof_broken}, no_input=True)

    kinds_hist = {}
    for k, _, _ in cases:
        kinds_hist[KIND_NAME[k]] = kinds_hist.get(KIND_NAME[k], 0) + 1
    res.coverage.update({
        "evaluations": evaluations,
        "distinct_nontrivial": len(nontrivial),
        "rule": "distinct (kind, literal spelling longer than one character, syntactic position) triples parsed by the real crate and "
                "compared with the model; enumerated scopes: all decimal digit strings <= 4 (with and without '-'), 0x/0X + all "
                "case-mixed hex strings <= 3 (4 in thorough), 0b/0B/-0b + all strings over {0,1,2} <= 6, all strings <= 4 over "
                "{0,1,9,a,F,x,X,b,B,-,e,p,+}, all pairs of escape forms, all base64 strings <= 4 (5) over {A,Q,R,g,9,+,/,-,_,=,!}, "
                "all symbol pairs over both base64 alphabets, all hex strings <= 4 (5 in thorough; quick adds length 5 over {0,a,F,g}) over {0,9,a,f,A,F,g}, all hex digit pairs; "
                "boundaries around 2^31, 2^32, 2^63, 2^64 in every spelling and position; random longer strings",
        "exhaustive": True,
        "exhaustive_scope": ["decimal digit strings <= 4 chars", "hex digit strings <= %d chars x {0x,0X}" % (4 if wide else 3),
                             "binary strings <= 6 chars over {0,1,2}", "mixed strings <= 4 chars over 13 characters",
                             "pairs of %d escape forms" % len(ESC_ATOMS), "base64 <= %d chars over 11 characters" % (5 if wide else 4),
                             "base64 symbol pairs (66 x 66)", "base16 <= %d chars over 7 characters%s" % ((5, "") if wide else (4, " and = 5 chars over {0,a,F,g}")), "base16 digit pairs (24 x 24)",
                             "h'12<c>34' for every code point c %s" % ("" if wide else "< U+3100")],
        "literals": len(cases) + len(ws_lits), "literal_kinds": kinds_hist, "documents": len(docs),
        "class_histogram": hist, "position_histogram": pos_hist, "verdict_split": split,
        "token_grammar_probes": grammar_checked,
        "model_vs_spec_in_finding_classes": known_hits,
        "hexfloat_rejected_although_exact": hexf_rejected_exact,
        "vm_compute_slice": len(sl),
        "samples": samples,
    })
    res.assumptions = [
        "u64::from_str_radix / str::parse::<u64> / char::to_digit / str::trim / str::split / char::is_whitespace / char::from_u32 are "
        "written out as executable definitions (Lit/IntLit.v, Lit/TextLit.v), checked differentially",
        "data_encoding 2.11 HEXLOWER_PERMISSIVE, BASE64, BASE64_NOPAD, BASE64URL, BASE64URL_NOPAD decode_len/decode_mut are written out "
        "following its source (Lit/BytesLit.v), checked differentially",
        "usize/isize are 64 bits (the harness target)",
        "floats: str::parse::<f64> is correctly rounded and overflows to infinity, hexf_parse accepts only exact values; neither is "
        "modelled, both are compared bit-for-bit with CPython's float()/float.fromhex() + exact rational arithmetic",
        "the pest derive of cddl.pest is represented by hand-written recognisers (Lit/Grammar.v, Lit/FloatLit.v), probed against the real "
        "parser on every literal of every run",
    ]
    return res.finish()


def replay(path):
    r = json.load(open(path))["replay"]
    drv = common.build_harness("c07")
    common.coq_build([EXTRACT])
    orc = common.build_oracle("lit", ["lit_model"])
    if "doc" in r:
        print("impl  :", common.run_tool(drv, ["P\t" + hx(r["doc"])])[0])
    if r.get("cmd") == "G":
        print("pest  :", common.run_tool(drv, ["G\t%s\t%s" % (hx(r["token"]), PEST_RULE[r["kind"]])])[0])
    if "token" in r and "kind" in r:
        line = oracle_line(r["kind"], r["token"])
        print("model :", common.run_tool(orc, [line])[0])
        if len(r["token"]) <= 200:
            print("vm    :", common.vm_compute_slice(PROP, VM_PREAMBLE,
                                                    ["lit_eval %d %s" % (r["kind"], common.coq_list([ord(c) for c in r["token"]]))])[0])
    if "model" in r:
        print("expect:", r["model"])
    return 0
