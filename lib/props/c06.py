"""C06 - formatting a parsed document preserves its meaning and is idempotent (DESIGN.md 6, C06; design.d/C06.md).

Also hosts the machinery shared with C16 (lib/props/c16.py): the shape renderer, the structure-directed
document generator, the token/gap representation used for comment injection and the driver wrappers.
"""
import base64, glob, json, os, random, struct
from .. import common
from ..common import Result

PROP = "C06"
PROP_FILE = "theories/Props/C06.v"
EXTRACT = ["theories/Extract/ExtractFmt.vo"]

# ---------------------------------------------------------------------------------------------
# shapes (the JSON the driver's S/R commands print) -> token lists -> text
# ---------------------------------------------------------------------------------------------

CTL_NAMES = ["size", "bits", "regexp", "pcre", "iregexp", "cbor", "cborseq", "within", "and", "lt", "le", "gt", "ge", "eq", "ne",
             "default", "cat", "det", "plus", "abnfb", "abnf", "feature", "b64u-sloppy", "b64c-sloppy", "b64u", "b64c",
             "hexuc", "hexlc", "hex", "base10", "printf", "json", "join", "b32", "h32", "b45", "bitfield"]
# ".cborseq" parses since 8d55c20 (listed before "cbor", token boundary after the name).


def float_src(bits_hex):
    """a source spelling that parses to exactly this binary64"""
    f = struct.unpack(">d", bytes.fromhex(bits_hex))[0]
    if f != f:
        return None
    if f in (float("inf"), float("-inf")):
        return "1e999" if f > 0 else "-1e999"
    r = repr(f)
    if "." not in r and "e" not in r:
        r += ".0"
    if "e" in r:
        m, e = r.split("e")
        e = e.replace("+", "")
        sign = "-" if e.startswith("-") else ""
        e = e.lstrip("-").lstrip("0") or "0"
        r = m + "e" + sign + e
    return r


def text_src(s):
    out = ['"']
    for ch in s:
        o = ord(ch)
        if ch == '"':
            out.append('\\"')
        elif ch == "\\":
            out.append("\\\\")
        elif o < 0x20 or o == 0x7f:
            out.append("\\u%04x" % o)
        else:
            out.append(ch)
    out.append('"')
    return "".join(out)


def value_tok(v):
    k = v[0]
    if k in ("int", "uint"):
        return v[1]
    if k == "float":
        return float_src(v[1])
    if k == "text":
        return text_src(bytes.fromhex(v[1]).decode("utf-8"))
    if k == "bytes":
        raw = bytes.fromhex(v[2])
        if v[1] == "h":
            return "h'" + raw.hex() + "'"
        if v[1] == "b":
            return "b64'" + base64.urlsafe_b64encode(raw).decode().rstrip("=") + "'"
        s = raw.decode("utf-8")
        if "'" in s:
            return 'h"' + s + '"'
        return "'" + s + "'"
    raise ValueError(v)


def ident_tok(i):
    return ["", "$", "$$"][i[0]] + i[1]


def tagc_txt(c):
    if c is None:
        return ""
    if c[0] == "lit":
        return "." + c[1]
    return ".<" + bytes.fromhex(c[1]).decode() + ">"


def t_gargs(g):
    if g is None:
        return []
    out = ["<"]
    for i, a in enumerate(g):
        if i:
            out.append(",")
        out += t_type1(a)
    return out + [">"]


def t_type(t):
    out = []
    for i, c in enumerate(t):
        if i:
            out.append("/")
        out += t_type1(c)
    return out


def t_type1(t):
    out = t_type2(t["t2"])
    if "op" in t:
        op = t["op"]
        out.append((".." if op[1] else "...") if op[0] == "r" else op[1])
        out += t_type2(t["c2"])
    return out


def t_type2(t):
    k = t[0]
    if k in ("int", "uint", "float", "text", "bytes"):
        return [value_tok(t)]
    if k == "name":
        return [ident_tok(t[1])] + t_gargs(t[2])
    if k == "paren":
        return ["("] + t_type(t[1]) + [")"]
    if k == "map":
        return ["{"] + t_group(t[1]) + ["}"]
    if k == "arr":
        return ["["] + t_group(t[1]) + ["]"]
    if k == "unwrap":
        return ["~", ident_tok(t[1])] + t_gargs(t[2])
    if k == "ginl":
        return ["&", "("] + t_group(t[1]) + [")"]
    if k == "gname":
        return ["&", ident_tok(t[1])] + t_gargs(t[2])
    if k == "tag":
        head = "#6" + tagc_txt(t[1])
        return [head] + ((["("] + t_type(t[2]) + [")"]) if t[2] else [])
    if k == "major":
        return ["#%d%s" % (t[1], tagc_txt(t[2]))]
    if k == "any":
        return ["#"]
    raise ValueError(t)


def occ_tok(o):
    if o is None:
        return []
    if o[0] in "?*+":
        return [o[0]]
    return [(o[1] or "") + "*" + (o[2] or "")]


def t_group(g):
    out = []
    for i, ch in enumerate(g):
        if i:
            out.append("//")
        for j, e in enumerate(ch):
            if j:
                out.append(",")
            out += t_entry(e)
    return out


def t_entry(e):
    k = e[0]
    if k == "vmk":
        out = occ_tok(e[1])
        mk = e[2]
        if mk is not None:
            if mk[0] == "t1":
                out += t_type1(mk[1]) + (["^"] if mk[2] else []) + ["=>"]
            elif mk[0] == "bw":
                out += [ident_tok(mk[1]), ":"]
            elif mk[0] == "val":
                out += [value_tok(mk[1]), ":"]
            else:
                raise ValueError(mk)
        return out + t_type(e[3])
    if k == "tg":
        return occ_tok(e[1]) + [ident_tok(e[2])] + t_gargs(e[3])
    if k == "ig":
        return occ_tok(e[1]) + ["("] + t_group(e[2]) + [")"]
    raise ValueError(e)


def t_rule(r):
    out = [ident_tok(r["name"])]
    if r["gp"] is not None:
        out.append("<")
        for i, p in enumerate(r["gp"]):
            if i:
                out.append(",")
            out.append(ident_tok(p))
        out.append(">")
    if r["k"] == "T":
        return out + ["/=" if r["alt"] else "="] + t_type(r["v"])
    return out + ["//=" if r["alt"] else "="] + t_entry(r["v"])


def doc_tokens(shape):
    """list of rules, each a list of token strings"""
    return [t_rule(r) for r in shape]


TIGHT_AFTER = {"(", "[", "{", "<", ","}
TIGHT_BEFORE = {")", "]", "}", ">", ",", ":"}


def render_tokens(rules, rng=None, comments=None, final_newline=True):
    """rules: list of token lists. comments: dict {(rule_index, gap_index): [comment text, ...]} where gap g of a rule
    sits BEFORE token g (gap 0 = before the rule name, gap len = after the last token). Returns the text.
    Layout: canonical single spaces when rng is None, else random blanks/newlines (tight where harmless)."""
    out = []
    n_rules = len(rules)
    for ri, toks in enumerate(rules):
        for g in range(len(toks) + 1):
            cs = (comments or {}).get((ri, g), [])
            tok = toks[g] if g < len(toks) else None
            prev = toks[g - 1] if g > 0 else None
            # separator
            if g == 0:
                sep = "" if ri == 0 else "\n"
            elif g == len(toks):
                sep = ""
            elif rng is None:
                sep = " "
            else:
                tight_ok = prev in TIGHT_AFTER or tok in TIGHT_BEFORE
                sep = rng.choice(["", " ", " "] if tight_ok else [" ", " ", " ", "  ", "\n  ", "\n\t", " \n "])
            if cs:
                lead = rng.choice([" ", "  ", "\n", "\n  "]) if rng is not None else (" " if g > 0 else "")
                if g == 0 and ri == 0:
                    lead = ""
                elif g == 0:
                    lead = "\n"
                out.append(lead)
                for ci, c in enumerate(cs):
                    last = (ri == n_rules - 1 and g == len(toks) and ci == len(cs) - 1)
                    out.append(";" + c)
                    if not (last and not final_newline):
                        out.append("\n")
                    if ci < len(cs) - 1 and rng is not None and rng.random() < 0.3:
                        out.append("  ")
                if tok is not None and rng is not None and rng.random() < 0.4:
                    out.append(rng.choice([" ", "  ", "\t"]))
            else:
                out.append(sep)
            if tok is not None:
                out.append(tok)
    text = "".join(out)
    if final_newline and not text.endswith("\n"):
        text += "\n"
    return text


def render_shape(shape, rng=None):
    return render_tokens(doc_tokens(shape), rng)


# ---------------------------------------------------------------------------------------------
# structure-directed generator of shapes
# ---------------------------------------------------------------------------------------------

def f64_bits(f):
    return struct.pack(">d", f).hex()


IDENTS = ["a", "b", "x", "foo", "bar-baz", "q.r", "_p", "@q", "t$u", "int", "uint", "tstr", "bstr", "any", "bool", "float",
          "nil", "text", "bytes", "number", "max-len", "lc", "uc", "seq", "e1", "inf", "NaN", "x1", "a-b.c", "Z9"]
UINTS = ["0", "1", "2", "10", "23", "24", "255", "256", "65535", "65536", "4294967296", "9223372036854775807",
         "18446744073709551615", "1000000"]
NINTS = ["-1", "-2", "-24", "-25", "-256", "-65537", "-9223372036854775808", "-1000000"]
FLOATS_OK = [1.5, -2.25, 0.1, 1e-7, 3.14159, 0.75, -0.5, 2.5e-10, 1.7976931348623157e308 / 3.0000001e290, 123456.789, 5e-324, 1e-5, 0.3]
FLOATS_INTEGRAL = [1.0, 1500.0, 16.0, 0.0, -3.0, 1e15, 255.0]
FLOATS_BIG = [1e21, 1.7976931348623157e308, -1e300, 1.8446744073709552e19]
TEXTS_OK = ["", "abc", "a b", "é€😀", "semi;colon", "x;y;z ;", "it's", "new\nline", "tab\there", "A", "😀", "#6.1(", "// /", "{[(",
            "comment ; inside", "a=b", "\u00a0"]
TEXTS_ESC = ['q"x', "a\\b", '"', "\\", 'say "hi"', "c:\\dir", '\\"']
BYTES_U = [b"", b"abc", b"semi;colon", b"a b", "é".encode(), b";", b"\"q\""]
BYTES_RAW = [b"", b"\x00", b"\x00\xff", b"\x01\x02\x03", b"\xde\xad\xbe\xef", b"\xfb\xff\xbf", b"\xfb\xf0", b"hello world", b";;;", bytes(range(7))]


class Gen:
    def __init__(self, rng, defects=0.12):
        self.rng = rng
        self.defects = defects       # probability weight of literal classes that are known to hit printer defects
        self.hist = {}

    def note(self, k):
        self.hist[k] = self.hist.get(k, 0) + 1

    def ident(self, sockets=True, group=False):
        """type positions admit `$name`; only group positions (group entries, `&name`) admit `$$name`"""
        r = self.rng
        s = 0
        if sockets and r.random() < 0.12:
            s = 2 if group == "only" else (r.choice([1, 2]) if group else 1)
            self.note("socket%d" % s)
        return [s, r.choice(IDENTS)]

    def value(self, key=False):
        r = self.rng
        k = r.choice(["uint", "uint", "int", "float", "text", "text", "bytes"] if not key else ["uint", "int", "float", "text", "text"])
        bad = r.random() < self.defects
        if k == "uint":
            self.note("lit.uint")
            return ["uint", r.choice(UINTS)]
        if k == "int":
            self.note("lit.int")
            if bad and r.random() < 0.3:
                return ["int", "0"]          # spelled -0
            return ["int", r.choice(NINTS)]
        if k == "float":
            self.note("lit.float")
            c = r.random()      # integral, negative-zero and huge values were a finding (f413e66): now ordinary members of the pool
            if c < 0.2:
                return ["float", f64_bits(r.choice(FLOATS_INTEGRAL))]
            if c < 0.25:
                return ["float", f64_bits(-0.0)]
            if c < 0.32:
                return ["float", f64_bits(r.choice(FLOATS_BIG))]
            f = r.choice(FLOATS_OK) if r.random() < 0.7 else (r.randrange(1, 1 << 20) + 0.5) / r.choice([1, 2, 4, 8, 1024]) * r.choice([1, -1])
            return ["float", f64_bits(f)]
        if k == "text":
            self.note("lit.text")
            return ["text", r.choice(TEXTS_ESC if r.random() < 0.2 else TEXTS_OK).encode().hex()]
        self.note("lit.bytes")
        form = r.choice("uhb")
        if form == "u":
            if bad and r.random() < 0.3:
                return ["bytes", "u", b"it's".hex()]      # only expressible as h"it's"
            return ["bytes", "u", r.choice(BYTES_U).hex()]
        raw = r.choice(BYTES_RAW) if r.random() < 0.7 else bytes(r.randrange(256) for _ in range(r.randrange(0, 9)))
        return ["bytes", form, raw.hex()]

    def gargs(self, depth):
        r = self.rng
        if r.random() < 0.15:
            self.note("generic_args")
            return [self.type1(depth - 1) for _ in range(r.choice([1, 1, 2, 3]))]
        return None

    def tagc(self):
        r = self.rng
        c = r.random()
        if c < 0.2:
            return None
        if c < 0.85:
            return ["lit", r.choice(["0", "1", "2", "24", "32", "55799", "4294967295", "18446744073709551615", "999"])]
        return ["ty", r.choice(["a", "uint", "$x", "1..5", "a / b"]).encode().hex()]

    def type2(self, depth):
        r = self.rng
        opts = ["value"] * 4 + ["name"] * 4 + ["tagm", "any", "gname", "unwrap"]
        if depth > 0:
            opts += ["paren", "map", "map", "arr", "arr", "ginl", "tag", "tag"]
        k = r.choice(opts)
        self.note("t2." + k)
        if k == "value":
            return self.value()
        if k == "name":
            return ["name", self.ident(), self.gargs(depth)]
        if k == "paren":
            return ["paren", self.type(depth - 1)]
        if k == "map":
            return ["map", self.group(depth - 1)]
        if k == "arr":
            return ["arr", self.group(depth - 1)]
        if k == "unwrap":
            return ["unwrap", self.ident(), self.gargs(depth)]
        if k == "ginl":
            return ["ginl", self.group(depth - 1)]
        if k == "gname":
            return ["gname", self.ident(group="only"), self.gargs(depth)]
        if k == "tag":
            if r.random() < 0.15:
                self.note("tag.no-type")
                return ["tag", r.choice([None, ["lit", "32"]]), []]
            return ["tag", self.tagc(), self.type(depth - 1)]
        if k == "tagm":
            return ["major", r.choice([0, 1, 2, 3, 4, 5, 7]), r.choice([None, None, ["lit", r.choice(["0", "5", "25", "31", "1000"])]])]
        return ["any"]

    def bound(self):
        r = self.rng
        c = r.random()
        if c < 0.45:
            return ["uint", r.choice(UINTS)]
        if c < 0.6:
            return ["int", r.choice(NINTS)]
        if c < 0.8:
            return ["float", f64_bits(r.choice(FLOATS_OK + FLOATS_INTEGRAL))]
        return ["name", self.ident(sockets=False), None]

    def type1(self, depth):
        r = self.rng
        c = r.random()
        if c < 0.68:
            return {"t2": self.type2(depth)}
        if c < 0.82:
            self.note("op.range")
            return {"t2": self.bound(), "op": ["r", r.random() < 0.5], "c2": self.bound()}
        self.note("op.ctl")
        name = r.choice(CTL_NAMES)
        return {"t2": self.type2(min(depth, 1)), "op": ["c", "." + name], "c2": self.type2(min(depth, 1))}

    def type(self, depth):
        r = self.rng
        n = r.choice([1, 1, 1, 1, 2, 2, 3, 4, 6])
        self.note("choices=%d" % min(n, 3))
        return [self.type1(depth) for _ in range(n)]

    def occ(self):
        r = self.rng
        c = r.random()
        if c < 0.5:
            return None
        self.note("occur")
        k = r.choice(["?", "*", "+", "n*m", "n*", "*m"])
        if k in "?*+":
            return [k]
        lo, hi = r.choice(["0", "1", "2", "3", "10", "18446744073709551615"]), r.choice(["1", "2", "5", "100", "18446744073709551615"])
        return ["n", lo if k != "*m" else None, hi if k != "n*" else None]

    def key(self, depth):
        r = self.rng
        c = r.random()
        if c < 0.4:
            self.note("key.bareword")
            return ["bw", [0, r.choice(IDENTS)]]
        if c < 0.6:
            self.note("key.value")
            return ["val", self.value(key=True)]
        self.note("key.type1")
        cut = r.random() < 0.4
        if cut:
            self.note("cut")
        return ["t1", self.type1(min(depth, 1)), cut]

    def entry(self, depth):
        r = self.rng
        c = r.random()
        if c < 0.55:
            return ["vmk", self.occ(), self.key(depth) if r.random() < 0.75 else None, self.type(depth)]
        if c < 0.8 or depth <= 0:
            return ["tg", self.occ(), self.ident(group=True), self.gargs(depth)]
        self.note("inline-group")
        return ["ig", self.occ(), self.group(depth - 1)]

    def group(self, depth):
        r = self.rng
        nch = r.choice([1, 1, 1, 1, 2, 3, 4])
        self.note("grpchoices=%d" % min(nch, 3))
        out = []
        for _ in range(nch):
            ne = r.choice([0, 1, 1, 2, 2, 3, 3, 4, 5, 7]) if nch == 1 else r.choice([0, 1, 1, 2, 3, 4, 5])
            self.note("entries=%s" % (ne if ne < 4 else "4+"))
            out.append([self.entry(depth) for _ in range(ne)])
        return out

    def rule(self, idx, depth):
        r = self.rng
        name = [0, "r%d%s" % (idx, r.choice(["", "", "-x", ".y", "_z", "$"]))]
        gp = None
        if r.random() < 0.15:
            gp = [[0, p] for p in r.sample(["t", "k", "v", "a1"], r.choice([1, 2, 3]))]
            self.note("generic_params")
        c = r.random()
        if c < 0.78:
            alt = r.random() < 0.12
            if alt:
                self.note("assign /=")
                name = [r.choice([0, 1]), r.choice(["ext", "plug"])]
            return {"k": "T", "name": name, "gp": gp, "alt": alt, "v": self.type(depth)}
        alt = r.random() < 0.2
        if alt:
            self.note("assign //=")
            name = [r.choice([0, 2]), r.choice(["gext", "gplug"])]
        self.note("group-rule")
        return {"k": "G", "name": name, "gp": gp, "alt": alt, "v": ["ig", self.occ() if r.random() < 0.3 else None, self.group(depth)]}

    def doc(self, nrules=None, depth=None):
        r = self.rng
        n = nrules or r.choice([1, 1, 2, 3, 4])
        return [self.rule(i, depth if depth is not None else r.choice([0, 1, 2, 2, 3])) for i in range(n)]


# ---------------------------------------------------------------------------------------------
# driver wrappers
# ---------------------------------------------------------------------------------------------

def unhex(h):
    return bytes.fromhex(h).decode("utf-8", "replace")


def roundtrips(drv, texts):
    outs = common.run_tool(drv, ["R\t" + t.encode("utf-8").hex() for t in texts])
    res = []
    for o in outs:
        if o.startswith("PANIC") or o.startswith("CRASH"):
            res.append({"panic": o})
            continue
        d = json.loads(o)
        for k in ("p1", "p2"):
            if k in d:
                d[k] = unhex(d[k])
        for k in ("c0", "c1"):
            if k in d:
                d[k] = [[x[0], unhex(x[1])] + x[2:] for x in d[k]]
        if d.get("k1") is not None:
            d["k1"] = [unhex(b) for b in d["k1"]]
        res.append(d)
    return res


def corpus_texts():
    out = []
    pats = ["tests/fixtures/**/*.cddl", "cddl-lsp/client/testFixture/*.cddl", "cddl-derive/tests/fixtures/*.cddl", "*.cddl"]
    seen = set()
    for p in pats:
        for f in sorted(glob.glob(os.path.join(common.REPO, p), recursive=True)):
            if f in seen:
                continue
            seen.add(f)
            try:
                out.append((os.path.relpath(f, common.REPO), open(f, encoding="utf-8").read()))
            except Exception:
                pass
    return out


# ---------------------------------------------------------------------------------------------
# classifiers of the open findings (predicates on the SHAPE of the source document) and their neutralisers
# ---------------------------------------------------------------------------------------------

def _float_of(bits_hex):
    return struct.unpack(">d", bytes.fromhex(bits_hex))[0]


def _is_integral_float(v):
    f = _float_of(v[1])
    return f != f or f in (float("inf"), float("-inf")) or f == int(f)


def peg_control_name(s):
    """the control name cddl.pest's ordered choice `control_name` takes from the front of s (None if none)"""
    for n in CTL_NAMES_PEG:
        if s.startswith(n):
            return n
    return None


# control_name alternatives in the order of cddl.pest
CTL_NAMES_PEG = ["size", "bits", "regexp", "pcre", "iregexp", "cborseq", "cbor", "within", "and", "lt", "le", "gt", "ge", "eq", "ne",
                 "default", "cat", "det", "plus", "abnfb", "abnf", "feature", "b64u-sloppy", "b64c-sloppy", "b64u", "b64c",
                 "hexuc", "hexlc", "hex", "base10", "printf", "json", "join", "b32", "h32", "b45", "bitfield"]


def walk_shape(shape, fn):
    """rebuild the shape bottom-up; fn(kind, node) -> replacement node (or the node itself). kinds: value, type2, type1, entry, rule"""
    def value(v):
        return fn("value", list(v))

    def gargs(g):
        return None if g is None else [type1(a) for a in g]

    def type_(t):
        return [type1(c) for c in t]

    def type1(t):
        n = {"t2": type2(t["t2"])}
        if "op" in t:
            n["op"] = list(t["op"])
            n["c2"] = type2(t["c2"])
        return fn("type1", n)

    def type2(t):
        k = t[0]
        if k in ("int", "uint", "float", "text", "bytes"):
            return fn("type2", value(t))
        if k in ("name", "unwrap", "gname"):
            n = [k, list(t[1]), gargs(t[2])]
        elif k == "paren":
            n = [k, type_(t[1])]
        elif k in ("map", "arr", "ginl"):
            n = [k, group(t[1])]
        elif k == "tag":
            n = [k, t[1], type_(t[2])]
        else:
            n = list(t)
        return fn("type2", n)

    def group(g):
        return [[entry(e) for e in ch] for ch in g]

    def entry(e):
        k = e[0]
        if k == "vmk":
            mk = e[2]
            if mk is not None:
                if mk[0] == "t1":
                    mk = ["t1", type1(mk[1]), mk[2]]
                elif mk[0] == "val":
                    mk = ["val", value(mk[1])]
                else:
                    mk = list(mk)
            n = ["vmk", e[1], mk, type_(e[3])]
        elif k == "tg":
            n = ["tg", e[1], list(e[2]), gargs(e[3])]
        else:
            n = ["ig", e[1], group(e[2])]
        return fn("entry", n)

    out = []
    for r in shape:
        n = dict(r)
        n["v"] = type_(r["v"]) if r["k"] == "T" else entry(r["v"])
        out.append(fn("rule", n))
    return out


# id -> (classifier on a node, neutraliser of that node); the id is the known_findings.json entry
def _c_float(kind, n):
    return kind == "value" and n[0] == "float" and _is_integral_float(n)


def _n_float(kind, n):
    return ["float", f64_bits(1.5)]


def _c_negzero(kind, n):
    return kind == "value" and n[0] == "int" and int(n[1]) >= 0


def _n_negzero(kind, n):
    return ["int", "-1"]


def _c_text(kind, n):
    return kind == "value" and n[0] == "text" and any(c in bytes.fromhex(n[1]) for c in b'"\\')


def _n_text(kind, n):
    return ["text", bytes(c for c in bytes.fromhex(n[1]) if c not in b'"\\').hex()]


def _c_bytesq(kind, n):
    return kind == "value" and n[0] == "bytes" and n[1] == "u" and b"'" in bytes.fromhex(n[2])


def _n_bytesq(kind, n):
    return ["bytes", "u", bytes.fromhex(n[2]).replace(b"'", b"").hex()]


def _c_unwrap(kind, n):
    return kind == "type2" and n[0] == "unwrap"


def _n_unwrap(kind, n):
    return ["name", n[1], n[2]]


def _c_tag_empty(kind, n):
    return kind == "type2" and n[0] == "tag" and n[2] == []


def _n_tag_empty(kind, n):
    return ["tag", n[1], [{"t2": ["name", [0, "int"], None]}]]


def _c_op_glue(kind, n):
    # an operator directly after `&name` (or `~name`, once the unwrap marker is printed at all): Type1::fmt puts blanks
    # around the operator only when the left operand is a Typename, and identifiers may contain '.'
    return kind == "type1" and "op" in n and n["t2"][0] in ("gname", "unwrap") and n["t2"][2] is None


def _n_op_glue(kind, n):
    m = dict(n)
    m["t2"] = ["name", [0, n["t2"][1][1]], None]
    return m


def _c_ctl_glue(kind, n):
    # `"x" .hex lc` prints `"x".hexlc`: operator and controller name fuse into another operator name
    return (kind == "type1" and "op" in n and n["op"][0] == "c" and n["t2"][0] != "name"
            and peg_control_name(n["op"][1][1:] + t_type2(n["c2"])[0]) != n["op"][1][1:])


def _n_ctl_glue(kind, n):
    m = dict(n)
    m["c2"] = ["name", [0, "x"], None]
    return m


def _entry_first_tok(e):
    return t_entry(e)[0]


def _entry_last_tok(e):
    return t_entry(e)[-1]


def _hash_merge(a, b):
    """entry a ends in a tag head `#`, `#n`, `#n.m` and the text of entry b continues it when no comma separates them"""
    la, fb = _entry_last_tok(a), _entry_first_tok(b)
    if not la.startswith("#") or la.startswith("#6") and "(" in la:
        return False
    if la == "#" and fb[:1].isdigit():
        return True
    return fb == "(" and not (la.startswith("#6") and len(la) > 2 and False)


def _c_any_digit(kind, n):
    # the bridge never records commas and the printer prints none: an entry ending in `#` followed by an entry starting
    # with a digit re-parses as `#<digit>` (the grammar allows blanks between '#' and the major type digit), and an entry
    # ending in `#`, `#n` or `#n.m` followed by an inline group `( t )` re-parses as the tag form `#n(t)`
    if not ((kind == "type2" and n[0] in ("map", "arr", "ginl")) or (kind == "entry" and n[0] == "ig")):
        return False
    g = n[1] if kind == "type2" else n[2]
    for ch in g:
        for a, b in zip(ch, ch[1:]):
            if _hash_merge(a, b):
                return True
    return False


def _n_any_digit(kind, n):
    g = n[1] if kind == "type2" else n[2]
    out = []
    for ch in g:
        ch = list(ch)
        for i in range(len(ch) - 1):
            if _hash_merge(ch[i], ch[i + 1]):
                e = ch[i]
                if e[0] == "vmk":
                    ch[i] = ["vmk", e[1], e[2], e[3][:-1] + [{"t2": ["name", [0, "any"], None]}]]
                else:
                    ch[i] = ["tg", e[1], [0, "any"], None]
        out.append(ch)
    return [n[0], out] if kind == "type2" else [n[0], n[1], out]


def _has_nl_literal(node):
    found = []

    def fn(kind, v):
        if kind == "value" and ((v[0] == "text" and b"\n" in bytes.fromhex(v[1])) or (v[0] == "bytes" and v[1] == "u" and b"\n" in bytes.fromhex(v[2]))):
            found.append(1)
        return v
    walk_shape([{"k": "T", "v": [{"t2": node}]}] if node[0] != "ig" else [{"k": "G", "v": node}], fn)
    return bool(found)


def _c_nl_group(kind, n):
    # Group::fmt deletes every '\n' of a rendered group choice when the group has more than two choices
    if not ((kind == "type2" and n[0] in ("map", "arr", "ginl")) or (kind == "entry" and n[0] == "ig")):
        return False
    g = n[1] if kind == "type2" else n[2]
    return len(g) > 2 and _has_nl_literal(n)


def _n_nl_group(kind, n):
    def fn(k, v):
        if k == "value" and v[0] == "text":
            return ["text", bytes.fromhex(v[1]).replace(b"\n", b" ").hex()]
        if k == "value" and v[0] == "bytes" and v[1] == "u":
            return ["bytes", "u", bytes.fromhex(v[2]).replace(b"\n", b" ").hex()]
        return v
    if kind == "type2":
        return walk_shape([{"k": "T", "v": [{"t2": n}]}], fn)[0]["v"][0]["t2"]
    return walk_shape([{"k": "G", "v": n}], fn)[0]["v"]


FINDING_RULES = [
    ("kf-c06-int-zero", _c_negzero, _n_negzero),
    ("kf-c06-bytes-quote", _c_bytesq, _n_bytesq),
    ("kf-c06-comma-dropped-after-hash", _c_any_digit, _n_any_digit),
    ("kf-c06-newline-in-literal-deleted", _c_nl_group, _n_nl_group),
]
# classifiers of findings that were repaired in /repo (findings.d/C06.json "fixed") are kept above only as generator helpers
# (_c_float, _c_text, _c_unwrap, _c_tag_empty, _c_op_glue, _c_ctl_glue); a recurrence of those classes is a VIOLATION


def active_rules():
    return FINDING_RULES


def classify(shape, rules=None):
    """ids of the findings whose classifier holds somewhere in the shape"""
    rules = active_rules() if rules is None else rules
    hit = []

    def fn(kind, n):
        for fid, c, _ in rules:
            if c(kind, n) and fid not in hit:
                hit.append(fid)
        return n
    walk_shape(shape, fn)
    return hit


def neutralise(shape, ids, rules=None):
    rules = active_rules() if rules is None else rules

    def fn(kind, n):
        changed = True
        guard = 0
        while changed and guard < 8:
            changed = False
            guard += 1
            for fid, c, nz in rules:
                if fid in ids and c(kind, n):
                    n = nz(kind, n)
                    changed = True
        return n
    return walk_shape(shape, fn)


def verdict(r):
    """verdict of one round trip record of the driver"""
    if r.get("panic"):
        return "panic"
    if not r["ok0"]:
        return "rejected"
    if not r["ok1"]:
        return "print-rejected"
    if r["s1"] != r["s0"]:
        return "shape-diff"
    if r["p2"] != r["p1"]:
        return "not-idempotent"
    return "ok"


# ---------------------------------------------------------------------------------------------
# shrinking of shapes: all one-step reductions
# ---------------------------------------------------------------------------------------------

_X = ["name", [0, "x"], None]


def _red_list(lst, red_item, min_len):
    for i in range(len(lst)):
        if len(lst) > min_len:
            yield lst[:i] + lst[i + 1:]
    for i in range(len(lst)):
        for r in red_item(lst[i]):
            yield lst[:i] + [r] + lst[i + 1:]


def red_type(t):
    return _red_list(t, red_type1, 1)


def red_type1(t):
    if "op" in t:
        yield {"t2": t["t2"]}
        yield {"t2": t["c2"]}
        for r in red_type2(t["t2"]):
            yield {"t2": r, "op": t["op"], "c2": t["c2"]}
        for r in red_type2(t["c2"]):
            yield {"t2": t["t2"], "op": t["op"], "c2": r}
    else:
        for r in red_type2(t["t2"]):
            yield {"t2": r}


def red_gargs(g):
    if g is None:
        return
    yield None
    for r in _red_list(g, red_type1, 1):
        yield r


def red_type2(t):
    k = t[0]
    if t != _X and k not in ("int", "uint", "float", "text", "bytes", "any"):
        yield _X
    if k in ("name", "unwrap", "gname"):
        for r in red_gargs(t[2]):
            yield [k, t[1], r]
        if t[1][0] != 0:
            yield [k, [0, t[1][1]], t[2]]
    elif k == "paren":
        if len(t[1]) == 1 and "op" not in t[1][0]:
            yield t[1][0]["t2"]
        for r in red_type(t[1]):
            yield [k, r]
    elif k in ("map", "arr", "ginl"):
        for r in red_group(t[1]):
            yield [k, r]
    elif k == "tag":
        if t[1] is not None:
            yield [k, None, t[2]]
        if t[2]:
            for r in red_type(t[2]):
                yield [k, t[1], r]
    elif k == "major":
        if t[2] is not None:
            yield [k, t[1], None]


def red_group(g):
    return _red_list(g, red_choice, 1)


def red_choice(ch):
    return _red_list(ch, red_entry, 0)


def red_entry(e):
    k = e[0]
    if e[1] is not None:
        yield [k, None] + e[2:]
    if k == "vmk":
        if e[2] is not None:
            yield [k, e[1], None, e[3]]
            if e[2][0] == "t1":
                if e[2][2]:
                    yield [k, e[1], ["t1", e[2][1], False], e[3]]
                for r in red_type1(e[2][1]):
                    yield [k, e[1], ["t1", r, e[2][2]], e[3]]
        for r in red_type(e[3]):
            yield [k, e[1], e[2], r]
    elif k == "tg":
        for r in red_gargs(e[3]):
            yield [k, e[1], e[2], r]
        if e[2][0] != 0:
            yield [k, e[1], [0, e[2][1]], e[3]]
    else:
        for r in red_group(e[2]):
            yield [k, e[1], r]


def red_rule(r):
    if r["gp"] is not None:
        n = dict(r)
        n["gp"] = None
        yield n
    for v in (red_type(r["v"]) if r["k"] == "T" else red_entry(r["v"])):
        if r["k"] == "G" and v[0] != "ig":
            continue
        n = dict(r)
        n["v"] = v
        yield n


def reductions(shape):
    return _red_list(shape, red_rule, 1)


def shrink(shape, still_fails_batch, max_rounds=60):
    """greedy: still_fails_batch(list of shapes) -> list of bool"""
    cur = shape
    for _ in range(max_rounds):
        cands = list(reductions(cur))
        if not cands:
            break
        cands.sort(key=lambda s: len(json.dumps(s)))
        oks = still_fails_batch(cands)
        nxt = next((c for c, ok in zip(cands, oks) if ok), None)
        if nxt is None:
            break
        cur = nxt
    return cur


# ---------------------------------------------------------------------------------------------
# comment placement hazards (C16 findings): predicates on the slot a comment is attached to and its path in the AST
# ---------------------------------------------------------------------------------------------

# witnesses of repaired C16 findings (findings.d/C16.json "fixed"): run first, must pass
C16_FIXED_WITNESSES = [("a = int / tstr", "a = int ; c1\n / tstr", [" c1"]),
                       ("a = (int) / x", "a = (int ; c1\n) / x", [" c1"]),
                       ("a = int / tstr / bool", "a = int ; c1\n ; c2\n / tstr / bool", [" c1", " c2"])]

C16_WITNESSES = {
    "kf-c16-newlines-deleted-in-multi-choice-group": [("a = [ int, tstr // bool // nil ]", "a = [ int, ; c1\n tstr // bool // nil ]", [" c1"])],
    "kf-c16-last-comment-of-second-group-choice": [("a = [ int // tstr ]", "a = [ int // tstr ; c1\n ]", [" c1"])],
    "kf-c16-grpchoice-comment-dropped": [("a = [ int // tstr ]", "a = [ int //\n ; c1\n tstr ]", [" c1"])],
}

def comment_hazards(slot, path, c0=()):
    """ids of the C16 findings whose classifier holds for a comment attached at `slot` with AST `path`
    (frames as printed by the driver, see harness/src/bin/c06.rs); c0 = all attached comments of the document"""
    hz = []
    groups = [f for f in path if f["f"] == "group"]
    last = path[-1] if path else None
    if slot == "grpchoice.before" and last and last["f"] == "group" and last["ne"] <= 1 and not last["doc"]:
        hz.append("kf-c16-grpchoice-comment-dropped")
    # "rendered last in" chain
    node = None            # index into path of the group frame of the entry the comment is rendered last in
    if slot == "entry.trailing" and last and last["f"] == "group":
        node = len(path) - 1
    elif slot == "choice.after" and last and last["f"] == "type" and last["i"] == last["n"] - 1 and len(path) >= 2:
        par = path[-2]
        if par["f"] == "group" and par["part"] == "type":
            node = len(path) - 2
    # S3: Group::fmt deletes every '\n' in the rendering of a group choice with <= 3 entries when the group has > 2 choices;
    # harmless only for a comment that ends the rendering of that choice (a line break follows the choice)
    for j, f in enumerate(path):
        if f["f"] == "group" and f["ngc"] > 2 and f["ne"] <= 3 and not (j == node and f["e"] == f["ne"] - 1):
            hz.append("kf-c16-newlines-deleted-in-multi-choice-group")
            break
    if node is not None:
        g = path[node]
        if g["e"] == g["ne"] - 1 and g["gc"] > 0 and g["ngc"] == 2:
            hz.append("kf-c16-last-comment-of-second-group-choice")
    return hz


# ---------------------------------------------------------------------------------------------
# literal catalogue: Fmt/Render.v against the real Display impls
# ---------------------------------------------------------------------------------------------

def float_decimal(f, lower_exp=None):
    """(neg, m, e) with value = (-1)^neg * m * 10^e, m not divisible by 10 (0 -> (neg,0,0)): the shortest round-trip
    digits. `lower_exp` is the crate's own `{:e}` rendering of the value (core::fmt's shortest-digit generator, the one
    `{}` uses too); Python's repr is only a fallback - the two generators pick different digits on exact ties."""
    neg = struct.pack(">d", f)[0] >= 0x80
    r = lower_exp.lstrip("-") if lower_exp else repr(abs(f))
    mant, _, ex = r.partition("e")
    ex = int(ex) if ex else 0
    ip, _, fp = mant.partition(".")
    digits = (ip + fp).lstrip("0")
    e = ex - len(fp)
    if not digits:
        return neg, 0, 0
    stripped = digits.rstrip("0")
    e += len(digits) - len(stripped)
    return neg, int(stripped), e


def literal_catalogue(rng, n_random, drv=None):
    """list of (class, driver line, oracle line, source spelling for the document-level check or None)"""
    cat = []
    for u in UINTS + [str(rng.randrange(1 << rng.choice([4, 8, 16, 32, 63, 64]))) for _ in range(n_random)]:
        cat.append(("uint", "L\tU\t" + u, "L\tU\t" + u, u))
        cat.append(("uint.value", "L\tVU\t" + u, "L\tU\t" + u, None))
    for i in NINTS + ["0", "5", "9223372036854775807"] + [str(-rng.randrange(1, 1 << rng.choice([4, 8, 16, 32, 63]))) for _ in range(n_random)]:
        src = i if i.startswith("-") else ("-0" if i == "0" else None)     # a non-negative IntValue has no spelling but -0
        cat.append(("int", "L\tI\t" + i, "L\tI\t" + i, src))
        cat.append(("int.value", "L\tVI\t" + i, "L\tI\t" + i, None))
    floats = FLOATS_OK + FLOATS_INTEGRAL + FLOATS_BIG + [-0.0, 5e-324, 2.2250738585072014e-308,
                                                          1.7976931348623157e308, 0.1 + 0.2, 1e22, 1e23, 9007199254740993.0, 1e-5, 123e-20]
    for _ in range(n_random * 3):
        c = rng.random()
        if c < 0.5:
            f = struct.unpack(">d", struct.pack(">Q", rng.getrandbits(64)))[0]
            if f != f:
                continue
        elif c < 0.8:
            f = rng.randrange(-(1 << 20), 1 << 20) / rng.choice([1, 2, 4, 8, 10, 100, 1000, 3, 7])
        else:
            f = float(rng.randrange(-(1 << 30), 1 << 30))
        floats.append(f)
    exps = {}
    if drv is not None:
        outs = common.run_tool(drv, ["L\tFE\t" + f64_bits(f) for f in floats])
        exps = {f64_bits(f): unwrap_L(o) for f, o in zip(floats, outs) if o.startswith("OK ")}
    for f in floats:
        bits = f64_bits(f)
        if f in (float("inf"), float("-inf")):
            continue            # no CDDL spelling; the parser rejects overflowing literals (4743917)
        else:
            neg, m, e = float_decimal(f, exps.get(bits))
            ol = "L\tF\t%d\t%d\t%d" % (1 if neg else 0, m, e)
        cat.append(("float", "L\tF\t" + bits, ol, float_src(bits)))
        cat.append(("float.value", "L\tVF\t" + bits, ol, None))
    texts = TEXTS_OK + TEXTS_ESC + ["\u0000", "a\rb", "\u007f", "퟿\U0010ffff"]
    for _ in range(n_random):
        texts.append("".join(rng.choice(['a', 'b', ' ', ';', '"', '\\', "'", 'é', '😀', '\n', '/', '#', 'n', 'u']) for _ in range(rng.randrange(0, 8))))
    for t in texts:
        h = t.encode("utf-8").hex()
        cat.append(("text", "L\tT\t" + h, "L\tT\t" + h, text_src(t)))
        cat.append(("text.value", "L\tVT\t" + h, "L\tT\t" + h, None))
    for b in BYTES_U + [b"it's", b"'"]:
        s = b.decode()
        src = ("'" + s + "'") if "'" not in s else ('h"' + s + '"' if '"' not in s else None)
        cat.append(("bytes.utf8", "L\tBU\t" + b.hex(), "L\tBU\t" + b.hex(), src))
        cat.append(("bytes.utf8.value", "L\tVBU\t" + b.hex(), "L\tBU\t" + b.hex(), None))
    raws = BYTES_RAW + [bytes(rng.randrange(256) for _ in range(rng.randrange(0, 12))) for _ in range(n_random)] + \
        [bytes([x]) for x in (0x3e, 0x3f, 0xfb, 0xff)] + [bytes([0xfb, 0xef, 0xbe]), bytes([0xff, 0xff, 0xff, 0xfe])]
    for b in raws:
        cat.append(("bytes.hex", "L\tBH\t" + b.hex(), "L\tBH\t" + b.hex(), "h'" + b.hex() + "'"))
        cat.append(("bytes.hex.value", "L\tVBH\t" + b.hex(), "L\tBH\t" + b.hex(), None))
        cat.append(("bytes.b64", "L\tBB\t" + b.hex(), "L\tBB\t" + b.hex(), "b64'" + base64.urlsafe_b64encode(b).decode().rstrip("=") + "'"))
        cat.append(("bytes.b64.value", "L\tVBB\t" + b.hex(), "L\tBB\t" + b.hex(), None))
    return cat


def marker_catalogue():
    """(class, driver line, oracle line, document exercising the marker, expected flag meaning)"""
    cat = []
    for o in ["?", "*", "+"]:
        cat.append(("occur", "L\tO\t" + o, "O\t" + o, "a = [%s int]" % o))
    bounds = ["0", "1", "2", "10", "18446744073709551615"]
    for lo in bounds + ["-"]:
        for hi in bounds + ["-"]:
            src = None if lo == "-" and hi == "-" else "a = [%s*%s int]" % ("" if lo == "-" else lo, "" if hi == "-" else hi)
            cat.append(("occur", "L\tO\t%s\t%s" % (lo, hi), "O\tn\t%s\t%s" % (lo, hi), src))
    for n in ["-", "0", "1", "23", "24", "32", "55799", "4294967295", "18446744073709551615"]:
        cat.append(("tag", "L\tG6\t" + n, "G\t6\t" + n, None))
        cat.append(("tag.empty", "L\tG6E\t" + n, "G\t6\t" + n, "a = #6" + ("" if n == "-" else "." + n)))
        for mt in [0, 1, 2, 3, 4, 5, 7]:
            cat.append(("major", "L\tGM\t%d\t%s" % (mt, n), "G\tM\t%d\t%s" % (mt, n), "a = #%d%s" % (mt, "" if n == "-" else "." + n)))
    cat.append(("any", "L\tGA", "G\tA", "a = #"))
    for name in CTL_NAMES_PEG:
        cat.append(("ctl", "L\tC\t." + name, "C\t" + name.encode().hex(), "a = tstr .%s b" % name))
    for s in (0, 1, 2):
        cat.append(("ident", "L\tN\t%d" % s, "N\t0\t%d\t78" % s, None))
        cat.append(("unwrap", "L\tW\t%d" % s, "N\t1\t%d\t78" % s, None))
        cat.append(("gname", "L\tA\t%d" % s, "N\t2\t%d\t78" % s, None))
    for nl in (0, 1):
        for op in ["." + n for n in CTL_NAMES_PEG] + ["..", "..."]:
            cat.append(("type1.spacing", "L\tT1\t%d\t%s" % (nl, op), "T\t%d\t%s" % (nl, op.encode().hex()), None))
    for b in (0, 1):
        cat.append(("cut", "L\tX\t%d" % b, "X\t%d" % b, None))
        cat.append(("rangeop", "L\tRO\t%d" % b, "R\t%d" % b, None))
    return cat


def unwrap_L(o):
    return unhex(o[3:]) if o.startswith("OK ") else o


# ---------------------------------------------------------------------------------------------
# comments in documents (shared with C16)
# ---------------------------------------------------------------------------------------------

def comment_bases():
    """deterministic base documents for the comment campaigns (every inter-token gap of each gets a comment):
    (a) 2-, 3- and 4-way type choices inside parentheses, inside a tag, as map / array entry types and as generic argument,
        so that a comment after the LAST alternative sits directly before the closing bracket or the next entry;
    (b) rules whose line contains text / byte-string literals with ';' in them before the position of the comment"""
    out = []
    for n in (1, 2, 3, 4):
        alts = " / ".join(["int", "tstr", "bool", "nil"][:n])
        out += ["a = ( %s )" % alts, "a = ( %s ) / x" % alts, "a = #6.32( %s )" % alts, "a = #6( %s ) / x" % alts,
                "a = [ %s ]" % alts, "a = [ k: %s , y ]" % alts, "a = [ y , k: %s ]" % alts,
                "a = { k => %s , z: int }" % alts, "a = { z: int , * tstr => %s }" % alts,
                "a = [ ( %s ) ]" % alts.replace("/", ","), "a = x .within ( %s )" % alts, "a = [ * ( %s ) ]" % alts,
                "a = foo< %s >" % alts.split(" / ")[0] if n == 1 else "a = [ 2*3 ( %s ) , + #6.1( %s ) ]" % (alts, alts)]
    out += ['a = "x;y" / \'p;q\' / h\'01\'', 'a = { "k;1": "v;2" , b: \'z;\' }', 'a = [ "a;b" , tstr .regexp "c;d" ]',
            'a = "semi;colon" .. "t;u"\nb = \';\' / ";" / b64\'Ozs7\'', 'a = { ";": ";;" , * "x;" => \'y;\' }',
            'a = #6.1( "q;r" / \'s;t\' )', 'a = [ * ";" ]\nb = ( ";;" / \';;;\' )']
    return out


COMMENT_TEXTS = [" c", "", " has ; semi", ' "quoted" ', " 'q' ", " é😀", " a = int", " // /", ";;", " x ", " ]})", " #6.1(", "\t tab"]


def make_comments(rng, rules, gaps, uniq_start=0):
    """comments dict for render_tokens: one comment per listed gap, texts made unique by a numeric suffix"""
    out = {}
    for k, gp in enumerate(gaps):
        out.setdefault(gp, []).append("%s~%d" % (rng.choice(COMMENT_TEXTS), uniq_start + k))
    return out


def all_gaps(rules):
    return [(ri, gi) for ri, t in enumerate(rules) for gi in range(len(t) + 1)]


def remove_comment(text, ctext):
    """drop one comment (text after the ';') from a document"""
    i = text.find(";" + ctext)
    if i < 0:
        return text
    return text[:i] + text[i + 1 + len(ctext):]


def comment_verdict(base_shape, src_comments, r):
    """C16 checks (pre)(d)(e)(f) on one round-trip record; comments are compared modulo trailing blanks
    (interpretive decision, design.d/C16.md)"""
    src = sorted(c.rstrip() for c in src_comments)
    if r.get("panic"):
        return "panic"
    if not r["ok0"]:
        return "comment-rejected"
    if r["s0"] != base_shape:
        return "comment-changes-parse"
    att = sorted(x[1].rstrip() for x in r["c0"])
    for a in set(att):
        if att.count(a) > src.count(a):
            return "attached-not-source"
    if not r["ok1"]:
        return "print-rejected"
    if r["s1"] != base_shape:
        return "shape-diff"
    if sorted(k.rstrip() for k in (r["k1"] or [])) != att:
        return "printed-comments-differ"
    return "ok"


def hazards_of(r):
    """{comment text: [finding ids]} for the comments attached in the source AST"""
    return {x[1]: comment_hazards(x[0], x[2], r.get("c0", [])) for x in r.get("c0", [])}


def probe_comment_findings(drv):
    """{finding id: list of witnesses that still fail} for the open C16 findings"""
    out = {}
    for fid, ws in C16_WITNESSES.items():
        b = roundtrips(drv, [w[0] for w in ws])
        r = roundtrips(drv, [w[1] for w in ws])
        out[fid] = [w for w, bb, rr in zip(ws, b, r) if verdict(bb) == "ok" and comment_verdict(bb["s0"], w[2], rr) != "ok"
                    and fid in [h for hs in hazards_of(rr).values() for h in hs]]
    return out


def slots_of(c):
    return sorted((x[0], x[1].rstrip(), json.dumps(x[2], sort_keys=True)) for x in c)


# ---------------------------------------------------------------------------------------------
# the check
# ---------------------------------------------------------------------------------------------

def coq_expr_of(line):
    """Gallina expression (of type list N) computing the oracle's answer to `line`"""
    p = line.split("\t")
    cl = lambda h: common.coq_list(list(bytes.fromhex(h)))
    opt = lambda x: "None" if x == "-" else "(Some %s)" % x
    if p[0] == "L":
        k = p[1]
        if k == "U":
            return "lit_line (LUint %s)" % p[2]
        if k == "I":
            return "lit_line (LInt (%s)%%Z)" % p[2]
        if k == "F":
            if p[2] == "inf":
                return "lit_line (LFloat (FInf %s))" % ("true" if p[3] == "1" else "false")
            return "lit_line (LFloat (FFin %s %s (%s)%%Z))" % ("true" if p[2] == "1" else "false", p[3], p[4])
        if k == "T":
            return "lit_line (LText %s)" % cl(p[2])
        return "lit_line (LBytes %s %s)" % (k, cl(p[2]))
    if p[0] == "O":
        if p[1] in "?*+":
            return "occur_line %s" % {"?": "OOpt", "*": "OStar", "+": "OPlus"}[p[1]]
        return "occur_line (OExact %s %s)" % (opt(p[2]), opt(p[3]))
    if p[0] == "G":
        if p[1] == "6":
            return "tag_line (TTagged %s)" % opt(p[2])
        if p[1] == "M":
            return "tag_line (TMajor %s %s)" % (p[2], opt(p[3]))
        return "tag_line TAny"
    if p[0] == "C":
        return "ctl_line %s" % cl(p[1])
    if p[0] == "N":
        return "marked_line %s %s %s" % (p[1], p[2], cl(p[3]))
    if p[0] == "X":
        return "cut_line %s" % ("true" if p[1] == "1" else "false")
    if p[0] == "T":
        return "type1_line %s %s" % ("true" if p[1] == "1" else "false", cl(p[2]))
    if p[0] == "R":
        return "rangeop_line %s" % ("true" if p[1] == "1" else "false")
    if p[0] == "K":
        return "lex_comments_render %s" % cl(p[1] if len(p) > 1 else "")
    if p[0] == "M":
        def recs(s, f):
            return "[" + "; ".join(f(x.split(",")) for x in s.split(";") if x) + "]"
        toks = recs(p[1], lambda a: "{| c_lo := %s; c_hi := %s; c_line := %s; c_pure := %s; c_id := %s |}" % (a[0], a[1], a[2], "true" if a[3] == "1" else "false", a[4]))
        anch = recs(p[2], lambda a: "{| a_lo := %s; a_hi := %s; a_line_hi := %s; a_kind := %s |}" % (a[1], a[2], a[3], a[0]))
        cont = recs(p[3], lambda a: "(%s, %s)" % (a[0], a[1]))
        return "merge_render %s %s %s" % (toks, anch, cont)
    raise ValueError(line)


VM_PREAMBLE = "From Cddl Require Import Base.Bytes Fmt.Render Fmt.LitParse Fmt.Oracle Comments.Merge Comments.Lex.\nOpen Scope N_scope."

# witnesses of the findings repaired in /repo (findings.d/C06.json "fixed"): the fixed corpus, runs first, must pass
FIXED_WITNESSES = {
    "float-integral f413e66 (+4743917)": ["a = 1.0", "a = 1.5e3", "a = 0x1p4", "a = -0.0", "a = 1e21", "a = 1.0..2.0", "a = { 1.0: int }"],
    "text-not-escaped 030ea7c": ['a = "q\\"x"', 'a = "a\\\\b"', 'a = { "k\\"": int }'],
    "unwrap-dropped 5fdde4e": ["a = ~b\nb = [int]", "a = ~b<int>"],
    "tag-without-type 39ac196": ["a = #6", "a = #6.32"],
    "operator-glued-to-name 36b2064": ["a = &b .size 1\nb = (x: 1)", "a = ~b .size 1", "a = &b .. 5"],
    "cborseq 8d55c20": ["a = bstr .cborseq b", 'a = "x" .cborseq [ int ]'],
    "control-glued-to-controller 36b2064": ['a = "x" .abnf bstr', "a = 1 .hex lc", 'a = "x" .abnf b64\'AA\''],
    "comment first choice f022991": ["a = int ; c1\n / tstr", "a = int\n; c\n/ tstr"],
}

WITNESSES = {
    "kf-c06-int-zero": ["a = -0"],
    "kf-c06-bytes-quote": ['a = h"it\'s"'],
    "kf-c06-comma-dropped-after-hash": ["a = [#, 1*2 int]", "a = [#1, (int)]"],
    "kf-c06-newline-in-literal-deleted": ['a = [ "x\ny" // int // tstr ]'],
    "kf-c06-comment-breaks-reparse": ["a = [ int, ; c1\n tstr // bool // nil ]", "a = [ int // tstr ; c1\n ]"],
    "kf-c06-comment-migrates": ["a = #1 / ; c\n#3 / #4"],
}


def fix_shape(drv, shape):
    """neutralise every classified construct (to a fixpoint); returns (ids, neutralised shape)"""
    ids = classify(shape)
    cur = shape
    allids = list(ids)
    for _ in range(4):
        if not ids:
            break
        cur = neutralise(cur, ids)
        # re-read the shape through the parser (the neutralised text may normalise differently)
        ids = classify(cur)
        allids += [i for i in ids if i not in allids]
    return allids, cur


def comment_culprits(r):
    """comments (by text) that a C16 hazard classifier holds for, and comments that change slot between parse 1 and 2"""
    hz = {t: h for t, h in hazards_of(r).items() if h}
    mig = []
    if r.get("ok1") and r.get("s1") == r.get("s0"):
        a = {x[1]: (x[0], json.dumps(x[2], sort_keys=True)) for x in r["c0"]}
        b = {x[1]: (x[0], json.dumps(x[2], sort_keys=True)) for x in r["c1"]}
        ra = {k.rstrip(): v for k, v in a.items()}
        rb = {k.rstrip(): v for k, v in b.items()}
        mig = [k for k in a if rb.get(k.rstrip()) != ra[k.rstrip()]]
    return hz, mig


def explain_comment_failures(drv, items, rounds=4):
    """items: list of (text, record) of failing documents with comments. Repeatedly removes the comments a known comment
    finding's classifier holds for (C16 hazard, or a comment that is re-attached to another slot after printing) and runs the
    rest again. Returns a list of (text, record, ids, final verdict): ids = the findings used; final verdict "ok" = explained."""
    state = [{"t": t, "r": r, "cur_t": t, "cur_r": r, "ids": [], "done": None} for t, r in items]
    for _ in range(rounds):
        batch = []
        for st in state:
            if st["done"] is not None:
                continue
            hz, mig = comment_culprits(st["cur_r"])
            if not hz and not mig:
                st["done"] = verdict(st["cur_r"])
                continue
            for c, hs in hz.items():
                st["ids"] += [h for h in hs if h not in st["ids"]]
            if mig and "comment-migrates" not in st["ids"]:
                st["ids"].append("comment-migrates")
            t2 = st["cur_t"]
            for c in set(list(hz) + mig):
                t2 = remove_comment(t2, c)
            st["cur_t"] = t2
            batch.append(st)
        if not batch:
            break
        for st, r2 in zip(batch, roundtrips(drv, [st["cur_t"] for st in batch])):
            st["cur_r"] = r2
            if verdict(r2) == "ok":
                st["done"] = "ok"
    for st in state:
        if st["done"] is None:
            st["done"] = verdict(st["cur_r"])
    return [(st["t"], st["r"], st["ids"], st["done"], st["cur_t"], st["cur_r"]) for st in state]


def run(tier, seed):
    res = Result(PROP, tier, seed)
    proved = common.prove(res, PROP, PROP_FILE, EXTRACT)
    drv = common.build_harness("c06")
    orc = common.build_oracle("fmt", ["fmt_model"])
    rng = random.Random(seed)
    quick = tier == "quick"
    wide = 1 if proved else 3
    open_findings = {kf["id"]: kf for kf in common.known_findings(PROP)}
    evaluations = 0
    hist = {}
    known_hits = {}

    def hit(fid):
        known_hits[fid] = known_hits.get(fid, 0) + 1
        if fid in open_findings:
            res.known(open_findings[fid])

    # ---- A. literal and marker renderers: model vs code, and the round-trip flag vs the code's own round trip
    cat = literal_catalogue(rng, (60 if quick else 3000) * wide, drv) + marker_catalogue()
    impl = common.run_tool(drv, [c[1] for c in cat])
    model = [bytes.fromhex(x) if x != "?" else b"?" for x in common.run_tool(orc, [c[2] for c in cat])]
    docs = [("a = " + c[3]) if (c[3] is not None and not c[3].startswith("a = ")) else c[3] for c in cat]
    rts = roundtrips(drv, [d for d in docs if d is not None])
    rt_iter = iter(rts)
    lit_stats = {}
    for c, a, m, d in zip(cat, impl, model, docs):
        evaluations += 1
        cls = c[0]
        st = lit_stats.setdefault(cls, {"n": 0, "model_roundtrips": 0})
        st["n"] += 1
        rendering, _, flag = m.rpartition(b"\t")
        if not _:
            rendering, flag = m, b""
        flag = flag.decode()
        got = bytes.fromhex(a[3:]) if a.startswith("OK ") else a.encode()
        if cls == "tag":
            rendering += b"(x)"          # the driver prints the whole TaggedData node with the type `x`
        if cls == "cut":
            rendering = b"x" + rendering  # ... and the whole member key `x`
        if got != rendering:
            res.violation("renderer model and code differ on %s: code prints %r, Fmt/Render.v gives %r" % (c[1].replace("\t", " "), got, rendering),
                          {"kind": "literal", "driver_line": c[1], "oracle_line": c[2], "impl": a, "model": m.hex()})
        if flag == "1":
            st["model_roundtrips"] += 1
        if d is not None:
            r = next(rt_iter)
            evaluations += 1
            real = verdict(r) == "ok"
            if flag in ("0", "1") and real != (flag == "1"):
                res.violation("literal round trip: model says %s for %s but the crate's parse(print(parse(%r))) is %s"
                              % ("round-trips" if flag == "1" else "does not round-trip", c[2].replace("\t", " "), d, verdict(r)),
                              {"kind": "doc", "text": d, "oracle_line": c[2], "model": m.hex()})

    # ---- B. fixed corpus first (witnesses of repaired findings must pass: a recurrence is a VIOLATION), then the open findings
    fixed_texts = [t for ts in FIXED_WITNESSES.values() for t in ts]
    for t, r in zip(fixed_texts, roundtrips(drv, fixed_texts)):
        evaluations += 1
        if verdict(r) != "ok":
            res.violation("a repaired finding is back: %r is formatted as %r (%s)" % (t, r.get("p1"), verdict(r)), {"kind": "doc", "text": t})
    fixed_c = roundtrips(drv, [w[1] for w in C16_FIXED_WITNESSES])
    fixed_b = roundtrips(drv, [w[0] for w in C16_FIXED_WITNESSES])
    for w, bb, rr in zip(C16_FIXED_WITNESSES, fixed_b, fixed_c):
        evaluations += 1
        if verdict(bb) != "ok" or comment_verdict(bb["s0"], w[2], rr) != "ok":
            res.violation("a repaired comment finding is back: %r is formatted as %r" % (w[1], rr.get("p1")), {"kind": "doc", "text": w[1]})
    for fid, texts in WITNESSES.items():
        rs = roundtrips(drv, texts)
        failing = [t for t, r in zip(texts, rs) if verdict(r) not in ("ok", "rejected")]
        evaluations += len(texts)
        if fid in open_findings:
            if failing:
                hit(fid)
            else:
                res.notes.append("finding %s apparently repaired: none of its witnesses fails any more" % fid)
        elif failing:
            res.violation("witness of %s fails but the finding is not listed as open: %r" % (fid, failing[0]), {"kind": "doc", "text": failing[0]})

    # ---- C. generated and corpus documents without comments
    g = Gen(rng, defects=0.06)
    n_docs = (2200 if quick else 40000) * wide
    shapes = []
    while len(shapes) < n_docs:
        d = g.doc(depth=rng.choice([0, 1, 1, 1, 2, 2, 3]))
        if len(json.dumps(d)) < 6000:
            shapes.append(d)
    texts = [render_shape(s, rng if i % 2 else None) for i, s in enumerate(shapes)]
    corpus = corpus_texts()
    rs = roundtrips(drv, texts + [t for _, t in corpus])
    verdicts = {}
    distinct = set()
    pending = []       # (text, record) failing, to classify
    corpus_free = []
    for i, (t, r) in enumerate(zip(texts + [t for _, t in corpus], rs)):
        evaluations += 1
        v = verdict(r)
        verdicts[v] = verdicts.get(v, 0) + 1
        if r.get("ok0") and len(t) > 12:
            distinct.add(t)
        if v in ("ok", "rejected"):
            if i >= len(texts) and r.get("ok0") and r["c0"]:
                corpus_free.append(r["s0"])
            continue
        if v == "panic":
            res.violation("printing or re-parsing panicked on %r" % t[:200], {"kind": "doc", "text": t})
            continue
        pending.append((t, r))
    # comment-free renderings of the corpus files that carry comments
    rs_cf = roundtrips(drv, [render_shape(s) for s in corpus_free])
    for s, r in zip(corpus_free, rs_cf):
        evaluations += 1
        if verdict(r) != "ok" or r["s0"] != s:
            pending.append((render_shape(s), r))
    # classification: neutralise the classified constructs, the rest of the document must pass
    fixed = []
    for t, r in pending:
        s0 = r["s0"]
        if r["c0"]:
            # a corpus file with comments: judge the comment-free rendering here, the comments in part D
            ids, cur = fix_shape(drv, s0)
        else:
            ids, cur = fix_shape(drv, s0)
        fixed.append((t, r, ids, cur))
    rs2 = roundtrips(drv, [render_shape(cur) for _, _, _, cur in fixed])
    unexplained = []
    for (t, r, ids, cur), r2 in zip(fixed, rs2):
        evaluations += 1
        v2 = verdict(r2)
        if ids and v2 == "ok":
            for i in ids:
                hit(i)
            continue
        if not ids and r["c0"]:
            continue          # corpus file whose failure needs its comments: handled in part D
        unexplained.append((t, r, ids, cur, r2))
    for t, r, ids, cur, r2 in unexplained[:5]:
        def still(shs):
            rr = roundtrips(drv, [render_shape(x) for x in shs])
            return [verdict(x) not in ("ok", "rejected") and not classify(x["s0"]) for x in rr]
        small = shrink(cur, still, 80) if verdict(r2) not in ("ok", "rejected") else cur
        st = render_shape(small)
        res.violation("formatting does not preserve the document (%s)%s: %r prints as %r" %
                      (verdict(r), " even with the known-finding constructs %s neutralised" % ids if ids else "", st[:300],
                       (roundtrips(drv, [st])[0].get("p1") or "")[:300]),
                      {"kind": "doc", "text": st, "original": t})
    for _ in unexplained[5:]:
        res.violation("further unexplained formatting failures (%d in total)" % len(unexplained), {"kind": "count"}, no_input=True)
        break

    # ---- D. documents WITH comments: corpus files as they are, generated documents with random comment subsets
    n_c = (750 if quick else 12000) * wide
    base_shapes = []
    while len(base_shapes) < n_c // 3:
        s = g.doc(nrules=rng.choice([1, 2, 3]), depth=rng.choice([0, 1, 1, 2]))
        if len(json.dumps(s)) < 4000:
            base_shapes.append(fix_shape(drv, s)[1])
    base_rs = roundtrips(drv, [render_shape(s) for s in base_shapes] + comment_bases())
    base_shapes = base_shapes + [None] * len(comment_bases())
    ctexts, cmeta = [], []
    for s, b in zip(base_shapes, base_rs):
        if verdict(b) != "ok":
            continue
        rules = doc_tokens(b["s0"])
        gaps = all_gaps(rules)
        for _ in range(3):
            chosen = rng.sample(gaps, min(len(gaps), rng.choice([1, 1, 2, 3, 5])))
            cm = make_comments(rng, rules, chosen)
            ctexts.append(render_tokens(rules, rng if rng.random() < 0.5 else None, cm, final_newline=rng.random() < 0.8))
            cmeta.append(b["s0"])
    for n, t in corpus:
        ctexts.append(t)
        cmeta.append(None)
    rs = roundtrips(drv, ctexts)
    cstats = {}
    todo = []
    for t, base, r in zip(ctexts, cmeta, rs):
        evaluations += 1
        v = verdict(r)
        if r.get("ok0") and base is not None and r["s0"] != base:
            v = "comment-changes-parse"
        cstats[v] = cstats.get(v, 0) + 1
        if v in ("ok", "rejected"):
            continue
        if v in ("panic", "comment-changes-parse"):
            res.violation("%s on a document with comments: %r" % (v, t[:300]), {"kind": "doc", "text": t})
            continue
        todo.append((t, r))
    bad_c = []
    for t, r, ids, final, cur_t, cur_r in explain_comment_failures(drv, todo):
        evaluations += 1
        if final != "ok" and cur_r.get("ok0"):
            # what is left fails although no comment finding applies: if its comment-free rendering fails too and is
            # explained by the comment-free findings (part C), the comments are not the cause
            sids, cur = fix_shape(drv, cur_r["s0"])
            two = roundtrips(drv, [render_shape(cur_r["s0"]), render_shape(cur)]) if sids else []
            if sids and verdict(two[0]) not in ("ok", "rejected") and verdict(two[1]) == "ok":
                for i in sids:
                    hit(i)
                final = "ok"
                if not ids:
                    continue
        if final == "ok" and ids:
            if any(i.startswith("kf-c16-") for i in ids):
                hit("kf-c06-comment-breaks-reparse")
            if "comment-migrates" in ids:
                hit("kf-c06-comment-migrates")
            for i in ids:
                known_hits["via " + i] = known_hits.get("via " + i, 0) + 1
        else:
            bad_c.append((t, r, verdict(r)))
    for t, r, v in bad_c[:5]:
        res.violation("formatting a document with comments fails (%s) and no known comment finding explains it: %r prints as %r"
                      % (v, t[:300], (r.get("p1") or "")[:300]), {"kind": "doc", "text": t})

    # ---- E. vm_compute slice: the extracted oracle equals evaluation inside Coq
    sl = [c[2] for c in rng.sample(cat, 130)] + [c[2] for c in cat[:10]]
    vm = common.vm_compute_slice(PROP, VM_PREAMBLE, [coq_expr_of(l) for l in sl])
    orc_sl = common.run_tool(orc, sl, shards=1)
    vm_bad = [(l, x, y) for l, x, y in zip(sl, vm, orc_sl) if x is not None and x.encode("latin-1") != bytes.fromhex(y)]
    if vm_bad:
        res.violation("extracted oracle and vm_compute disagree on %r: %r vs %r" % vm_bad[0], {"kind": "extraction", "case": list(vm_bad[0])}, no_input=True)

    if not proved and not res.violations:
        res.violation(res.proof_broken, {"kind": "proof-obligation", "detail": res.proof_broken}, no_input=True)
    res.coverage.update({
        "evaluations": evaluations,
        "distinct_nontrivial": len(distinct),
        "rule": "documents: structure-directed random CDDL (sockets, generics, unwrap, cut, &, all occurrence forms, ranges, every control "
                "operator, tags, every literal kind incl. integral/huge/negative-zero floats and texts with quotes/backslashes, nested groups, "
                ">2 choices and >3 entries to reach the layout branches), rendered with canonical and with random blanks/newlines, plus every "
                "*.cddl file of /repo as it is and re-rendered without comments; literals: catalogue + random values per kind, each rendered by "
                "the real Display impl and by Fmt/Render.v, each also embedded in a document and round-tripped on the crate; "
                "distinct_nontrivial = distinct accepted document texts longer than 12 characters",
        "generator_histogram": g.hist,
        "verdict_split_documents": verdicts,
        "verdict_split_commented_documents": cstats,
        "literal_classes": lit_stats,
        "known_finding_hits": known_hits,
        "corpus_files": len(corpus),
        "vm_compute_slice": len(sl),
        "samples": [{"text": t[:160], "verdict": verdict(r)} for t, r in list(zip(texts, rs))[:0]] + [{"text": t[:160]} for t in texts[:6]],
    })
    res.assumptions = [
        "f64 Display digit generation (shortest round-trip digits) enters Fmt/Render.v as given decimal mantissa/exponent (read from the "
        "crate's own `{:e}` rendering of the same value); only the layout (fraction point, zero padding, no exponent) is modelled; "
        "checked against the crate for a float catalogue each run",
        "data_encoding HEXLOWER / BASE64URL_NOPAD = RFC 4648 base16 / base64url without padding (Render.hexbytes, Render.b64_enc), checked each run",
        "the 1.5 kLoC of layout heuristics in ast/mod.rs are NOT modelled: structural preservation is established differentially only",
    ]
    return res.finish()


def replay(path):
    r = json.load(open(path))["replay"]
    drv = common.build_harness("c06")
    common.coq_build(EXTRACT)
    orc = common.build_oracle("fmt", ["fmt_model"])
    if r.get("kind") == "literal":
        print("impl  :", unwrap_L(common.run_tool(drv, [r["driver_line"]])[0]))
        print("model :", bytes.fromhex(common.run_tool(orc, [r["oracle_line"]])[0]))
        print("vm    :", common.vm_compute_slice(PROP, VM_PREAMBLE, [coq_expr_of(r["oracle_line"])])[0])
        return 0
    if r.get("text") is not None:
        rr = roundtrips(drv, [r["text"]])[0]
        print("source          :", repr(r["text"]))
        print("verdict         :", verdict(rr))
        if rr.get("ok0"):
            print("printed         :", repr(rr.get("p1")))
            print("shape(source)   :", json.dumps(rr.get("s0")))
            print("shape(reparsed) :", json.dumps(rr.get("s1")))
            print("printed again   :", repr(rr.get("p2")))
            print("comments        :", [(x[0], x[1]) for x in rr.get("c0", [])], "->", [(x[0], x[1]) for x in rr.get("c1", [])] if rr.get("c1") is not None else None)
            print("classifiers     :", classify(rr["s0"]), {k: v for k, v in hazards_of(rr).items() if v})
        if r.get("oracle_line"):
            print("model           :", bytes.fromhex(common.run_tool(orc, [r["oracle_line"]])[0]))
        return 0
    print(json.dumps(r, indent=1))
    return 0
