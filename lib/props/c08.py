"""C08 (DESIGN.md section 6): theorems over Sem.v + metamorphic run of the real validators (lib/sem/meta.py)."""
import json
from ..sem import meta
from .. import common
PROP = "C08"
PROP_FILE = "theories/Props/C08.v"

def run(tier, seed):
    return meta.run_c08(PROP, PROP_FILE, tier, seed)

def replay(path):
    r = json.load(open(path))["replay"]
    drv = common.build_harness("c01")
    from ..sem import runner
    for k in ("schema", "refactored", "schema2"):
        if k in r and r[k]:
            if r.get("doc_json"):
                print("json", k, runner.impl_json_text(drv, [(r[k], r["doc_json"])])[0])
            if r.get("doc_cbor"):
                print("cbor", k, runner.impl_cbor_bytes(drv, [(r[k], bytes.fromhex(r["doc_cbor"]))])[0])
    for sc in r.get("schemas", []):
        if r.get("doc_json"):
            print("json", sc.strip(), runner.impl_json_text(drv, [(sc, r["doc_json"])])[0])
        print("cbor", sc.strip(), runner.impl_cbor_bytes(drv, [(sc, bytes.fromhex(r["doc_cbor"]))])[0])
    return 0
