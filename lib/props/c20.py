"""C20 - ParentVisitor returns the syntactic parent of every AST node (DESIGN.md 6, C20; design.d/C20.md).

Per document: the Rust driver (harness/src/bin/c20.rs) parses it, builds the real ParentVisitor, walks the real AST
itself and prints (a) the AST as a labelled tree (label = equivalence class under the crate's own ==), (b) the
answer of the real `CDDLType::parent` at every node. The extracted Coq model (Parent/Arena.v) is run on the same
labelled tree. Checked per node:
  1. implementation == model, exactly (ties the model to the code; any difference is a VIOLATION);
  2. implementation == label of the TRUE syntactic parent; a difference is a KNOWN-FINDING only when the narrow
     classifier of the open finding (equal nodes share the first registered parent) holds at that node, otherwise a
     VIOLATION; in particular a reachable node for which the query returns None (node never indexed) is a VIOLATION;
  2b. the crate's == between two nodes that both carry a span at different positions is allowed only for the kinds of
     the committed baseline (Identifier); for any other kind it is a VIOLATION ("equality of <kind> ignores position"),
     and a wrong parent is the known finding only when the colliding nodes differ by baseline-ignored positions alone;
  3. root has no parent, every answer is a walked node, == is an equivalence, typed Parent queries agree.
"""
import json, os, random, time
from .. import common
from ..common import Result

PROP = "C20"
PROP_FILE = "theories/Props/C20.v"
EXTRACT = "theories/Extract/ExtractParent.vo"
PREAMBLE = ("From Coq Require Import List NArith. Import ListNotations.\n"
            "From Cddl Require Import Parent.Tree Parent.Arena.\nOpen Scope N_scope.")

KF_COLLISION = "kf-c20-equal-nodes-share-first-parent"
# The model variant is fixed: the Type2::Unwrap arm registers its generic arguments (/repo commit 2a3eb9a).
# The pre-repair behaviour (Arena.v, fx = false) is never selected by the check: if it comes back it is a VIOLATION.
FX = 1
# Committed baseline, measured on /repo (seeds 0-3, 8,000 documents): the node kinds whose == ignores the node's own
# position, i.e. for which two nodes at DIFFERENT spans compare equal. Only Identifier (hand-written PartialEq on the
# printed text, src/ast/mod.rs:238). The open finding is about nodes that carry no position of their own (identifier
# text, literal values, control operators, span-less entries built from those, and nodes whose spans coincide);
# an == between two span-carrying nodes with different spans of any other kind is a VIOLATION.
SPAN_IGNORING_BASELINE = {11}
# kinds for which two == nodes may have different children (number or == classes): none
CONTENT_IGNORING_BASELINE = set()
# witnesses of FIXED findings: run first, must be entirely correct (no known-finding classifier applies to them)
FIXED_CORPUS = ["a = ~b<int>", "a = ~b<int, tstr>", "a = [~b<1>, ~c<2>]", "a = ~b<c<d>>"]   # all nodes pairwise distinct

KIND_NAMES = {0: "CDDL", 1: "Rule", 2: "TypeRule", 3: "GroupRule", 4: "Group", 5: "GroupChoice", 6: "GenericParams",
              7: "GenericParam", 8: "GenericArgs", 9: "GenericArg", 10: "GroupEntry", 11: "Identifier", 12: "Type",
              13: "TypeChoice", 14: "Type1", 16: "Operator", 17: "RangeCtlOp", 18: "ControlOperator", 19: "Occurrence",
              20: "Occur", 21: "Value", 22: "ValueMemberKeyEntry", 23: "TypeGroupnameEntry", 24: "MemberKey",
              25: "NonMemberKey",
              100: "Type2::IntValue", 101: "Type2::UintValue", 102: "Type2::FloatValue", 103: "Type2::TextValue",
              104: "Type2::UTF8ByteString", 105: "Type2::B16ByteString", 106: "Type2::B64ByteString",
              107: "Type2::Typename", 108: "Type2::ParenthesizedType", 109: "Type2::Map", 110: "Type2::Array",
              111: "Type2::Unwrap", 112: "Type2::ChoiceFromInlineGroup", 113: "Type2::ChoiceFromGroup",
              114: "Type2::TaggedData", 115: "Type2::DataMajorType", 116: "Type2::Any"}
K_UNWRAP = 111
# node kinds the parser can produce (NonMemberKey is never built by pest_bridge.rs)
EXPECTED_KINDS = sorted(set(KIND_NAMES) - {25})


def findings():
    """open findings of this property: known_findings.json (assembled) or, before assembly, findings.d/C20.json"""
    out = {f["id"]: f for f in common.known_findings(PROP)}
    p = os.path.join(common.VERIF, "findings.d", "C20.json")
    if os.path.exists(p):
        for f in json.load(open(p)).get("findings", []):
            if f.get("status") == "open" and f.get("property") == PROP:
                out.setdefault(f["id"], f)
    return out


# ---------------------------------------------------------------------------
# generator of CDDL documents, biased towards repeated sub-expressions
# ---------------------------------------------------------------------------

PRELUDE = ["int", "uint", "nint", "tstr", "text", "bstr", "bytes", "bool", "float", "float16", "float32", "float64",
           "number", "any", "nil", "null", "true", "false", "tdate", "time", "uri", "b64url", "b64legacy", "regexp",
           "biguint", "bignint", "bigint", "integer", "unsigned", "decfrac", "bigfloat", "eb64url", "eb64legacy",
           "eb16", "encoded-cbor", "mime-message", "cbor-any", "undefined"]
CTRLS = [".size", ".bits", ".regexp", ".cbor", ".within", ".and", ".lt", ".le", ".gt", ".ge", ".eq", ".ne",
         ".default"]      # .cborseq is not accepted by the crate's grammar
SMALL_NAMES = ["int", "tstr", "bool", "x", "y"]
SMALL_LITS = ["1", "2", "-1", "1.5", '"a"', '"b"', "h'01'", "'u'", "b64'AQ'"]
SMALL_KEYS = ["x", "y", '"k"', "1"]


class Gen:
    """mode: 'repeat' (sub-expressions re-used verbatim with high probability, tiny vocabulary),
             'mixed'  (moderate re-use), 'distinct' (every identifier, literal and control used at most once)."""

    def __init__(self, rng, mode, depth):
        self.rng, self.mode, self.depth = rng, mode, depth
        self.reuse = {"repeat": 0.5, "mixed": 0.2, "distinct": 0.0}[mode]
        self.pool = {}
        self.n = 0
        self.prelude = list(PRELUDE)
        rng.shuffle(self.prelude)
        self.ctrls = list(CTRLS)
        rng.shuffle(self.ctrls)
        self.rule_names = []
        self.params = []
        self.constructs = set()
        self.budget = rng.choice([12, 25, 40, 60, 90])   # bounds the document size (about 4 AST nodes per unit)

    def memo(self, cat, f):
        p = self.pool.get(cat)
        if p and self.rng.random() < self.reuse:
            c = self.rng.choice(p)
            if self.budget > 0 or len(c) < 16:
                self.constructs.add("reused-" + cat)
                self.budget -= len(c) // 6
                return c
        s = f()
        self.pool.setdefault(cat, []).append(s)
        return s

    def fresh(self, pre="n"):
        self.n += 1
        return "%s%d" % (pre, self.n)

    def name(self):
        r = self.rng
        if self.mode == "distinct":
            if self.prelude and r.random() < 0.6:
                return self.prelude.pop()
            return self.fresh("u")
        cands = SMALL_NAMES + self.rule_names + self.params
        if self.mode == "mixed" and r.random() < 0.4:
            cands = PRELUDE[:12] + self.rule_names
        return r.choice(cands)

    def lit(self):
        r = self.rng
        if self.mode == "distinct":
            self.n += 1
            return r.choice(["%d", "-%d", "%d.5", '"s%d"', "h'%04x'", "'t%d'"]) % self.n
        if self.mode == "mixed" and r.random() < 0.5:
            return r.choice([str(r.randrange(100)), '"%s"' % r.choice("abcdef"), "-%d" % r.randrange(1, 9)])
        return r.choice(SMALL_LITS)

    def occur(self):
        r = self.rng
        return r.choice(["?", "*", "+", "%d*%d" % (r.randrange(3), r.randrange(3, 6)), "%d*" % r.randrange(1, 4),
                         "*%d" % r.randrange(1, 4)])

    def generic_args(self, d):
        k = self.rng.choice([1, 1, 2, 3])
        self.constructs.add("generic-args")
        return "<" + ", ".join(self.type1(d - 1) for _ in range(k)) + ">"

    def type2(self, d):
        return self.memo("type2", lambda: self._type2(d))

    def _type2(self, d):
        r = self.rng
        self.budget -= 1
        if self.budget <= 0:
            d = 0
        leaf = ["lit", "lit", "name", "name", "name", "any", "major"]
        deep = ["paren", "map", "map", "map", "array", "array", "array", "unwrap", "unwrap_ga", "choice_inline",
                "choice_inline", "choice_name", "choice_name_ga", "tagged", "tagged", "name_ga", "name_ga"]
        k = r.choice(leaf + (deep if d > 0 else []) + (deep if d > 1 else []))
        self.constructs.add("t2-" + k)
        if k == "lit":
            return self.lit()
        if k == "name":
            return self.name()
        if k == "any":
            return "#"
        if k == "major":
            return r.choice(["#%d" % r.randrange(8), "#%d.%d" % (r.randrange(8), r.randrange(30))])
        if k == "paren":
            return "( " + self.type(d - 1) + " )"
        if k == "map":
            return "{ " + self.group(d - 1) + " }"
        if k == "array":
            return "[ " + self.group(d - 1) + " ]"
        if k == "unwrap":
            return "~" + self.name()
        if k == "unwrap_ga":
            return "~" + self.name() + self.generic_args(d)
        if k == "choice_inline":
            return "&( " + self.group(d - 1) + " )"
        if k == "choice_name":
            return "&" + self.name()
        if k == "choice_name_ga":
            return "&" + self.name() + self.generic_args(d)
        if k == "tagged":
            return "#6.%d( %s )" % (r.randrange(1, 300), self.type(d - 1))
        return self.name() + self.generic_args(d)

    def type1(self, d):
        return self.memo("type1", lambda: self._type1(d))

    def _type1(self, d):
        r = self.rng
        x = r.random()
        if x < 0.62:
            return self.type2(d)
        if x < 0.78:
            self.constructs.add("range")
            return "%s %s %s" % (self.lit_num(), r.choice(["..", "..."]), self.lit_num())
        if self.mode == "distinct":
            if not self.ctrls:
                return self.type2(d)
            c = self.ctrls.pop()
        else:
            c = r.choice(CTRLS[:4] if self.mode == "repeat" else CTRLS)
        self.constructs.add("control")
        return "%s %s %s" % (self.type2(max(d - 1, 0)), c, self.type2(max(d - 1, 0)))

    def lit_num(self):
        if self.mode == "distinct":
            self.n += 1
            return str(self.n)
        return self.rng.choice(["0", "1", "5", "10"])

    def type(self, d):
        return self.memo("type", lambda: " / ".join(self.type1(d) for _ in range(self.rng.choice([1, 1, 1, 2, 2, 3]))))

    def member_key(self, d):
        r = self.rng
        k = r.choice(["bare", "bare", "text", "int", "arrow", "arrow", "cut"])
        self.constructs.add("key-" + k)
        if self.mode == "distinct":
            if k == "bare":
                return self.fresh("k") + ":"
            if k == "text":
                return '"%s":' % self.fresh("k")
            if k == "int":
                self.n += 1
                return "%d:" % self.n
        else:
            if k == "bare":
                return r.choice(["x", "y", "z"]) + ":"
            if k == "text":
                return r.choice(['"k"', '"l"']) + ":"
            if k == "int":
                return r.choice(["1", "2"]) + ":"
        if k == "arrow":
            return self.type1(max(d - 1, 0)) + " =>"
        return self.type1(max(d - 1, 0)) + " ^ =>"

    def entry(self, d):
        return self.memo("entry", lambda: self._entry(d))

    def _entry(self, d):
        r = self.rng
        self.budget -= 1
        if self.budget <= 0:
            d = 0
        k = r.choice(["vmk", "vmk", "vmk", "type", "tge", "tge", "tge_ga", "inline"] if d > 0 else ["vmk", "type", "tge", "tge"])
        self.constructs.add("entry-" + k)
        occ = (self.occur() + " ") if r.random() < 0.35 else ""
        if occ:
            self.constructs.add("occurrence")
        if k == "vmk":
            return occ + self.member_key(d) + " " + self.type(d)
        if k == "type":
            return occ + self.type(d)
        if k == "tge":
            return occ + self.name()
        if k == "tge_ga":
            return occ + self.name() + self.generic_args(d)
        return occ + "( " + self.group(d - 1) + " )"

    def group(self, d):
        return self.memo("group", lambda: self._group(d))

    def _group(self, d):
        r = self.rng
        d = max(d, 0)
        ngc = r.choice([1, 1, 1, 2])
        if ngc > 1:
            self.constructs.add("group-choice")
        return " // ".join(", ".join(self.entry(d) for _ in range(r.choice([0, 1, 2, 2, 3, 4] if self.budget > 0 else [0, 1])))
                           for _ in range(ngc))

    def document(self):
        r = self.rng
        nrules = r.randrange(1, 7)
        names = ["r%d" % i for i in range(nrules)] if self.mode != "distinct" else [self.fresh("r") for _ in range(nrules)]
        if self.mode != "distinct":
            self.rule_names = list(names)
        lines = []
        for nm in names:
            self.params = []
            gp = ""
            if r.random() < 0.2:
                ps = (["t", "k", "v"][:r.choice([1, 2, 3])] if self.mode != "distinct"
                      else [self.fresh("p") for _ in range(r.choice([1, 2]))])
                gp = "<" + ", ".join(ps) + ">"
                self.constructs.add("generic-params")
                if self.mode != "distinct":
                    self.params = ps
            x = r.random()
            if x < 0.75:
                lines.append("%s%s = %s" % (nm, gp, self.type(self.depth)))
            elif x < 0.93:
                self.constructs.add("group-rule")
                lines.append("%s%s = ( %s )" % (nm, gp, self.group(self.depth - 1)))
            else:
                self.constructs.add("choice-alternate")
                lines.append("%s = %s" % (nm, self.type(self.depth)))
                lines.append("%s /= %s" % (nm, self.type(max(self.depth - 1, 0))))
            if self.mode != "distinct" and r.random() < 0.08:
                lines.append("; note")
                self.constructs.add("comment")
        return "\n".join(lines) + "\n"


TEMPLATES = [
    "a = [int, int]", "a = {x: int, y: int}", "a = [int, tstr, int]", "a = int\nb = int", "a = [1, 1]",
    "a = [* int]\nb = [* int]", "a = {x: int}\nb = {x: int}", "a = tstr .size 3 / bstr .size 3", "a = 1..5 / 1..5",
    "a = uint .size uint", "a = 1..1", "a = ~b<int>", "a = ~b<int, tstr>\nb<t, u> = [t, u]", "a = ~b", "a = &b<int>",
    "a = [? int, ? int]", "a = [? int, ? tstr]", "a = { * tstr => any, * tstr => any }", "a = b\nb = a",
    "a = [ (int, int), (int, int) ]", "a = { x: { x: int } }", "a = [[int], [int]]", "a<t> = [t, t]\nb = a<int> / a<int>",
    "a = #6.1(int) / #6.1(int)", "a = #1 / #1", "a = # / #", "a = (int) / (int)", "a = &(x: 1, y: 1)",
    "g = (int, int)\nh = (int, int)", "a = int\na /= int", "a = { \"k\": 1, \"k\": 1 }", "a = { 1: int, 1: int }",
    "a = { int => tstr, int => tstr }", "a = { int ^ => tstr, int ^ => tstr }", "a = [2*3 int, 2*3 int]",
    "a = h'01' / h'01' / 'x' / 'x' / b64'AQ' / b64'AQ'", "a = -1 / -1 / 1.5 / 1.5", "a = \"s\" / \"s\"",
    "a = int", "a = {}", "a = []", "a = [int // int]", "a = { x: int // x: int }", "a = b<int, int>",
    "a = [ + ( int, tstr ) ]", "a = { ? x: int, ? y: tstr, z: bool }", "a = [ * x, * y ]\nb = [ + x, + y ]", "a = int ; c\nb = int ; c\n", "a = $x / $x", "$x /= int\n$x /= int", "a = [$$g, $$g]",
]


DEEP_LEVELS = [20, 40, 65, 70, 100, 130]
DEEP_WRAPPERS = ["map", "map-same-key", "array", "array-keyed", "paren", "tag", "choice", "mixed"]


def deep_doc(rng, wrapper, levels):
    """one rule whose type nests `levels` containers deep (all of these parse in linear time)"""
    x = rng.choice(["[ + int ]", "int", "{ leaf: tstr }", "1 .. 5", "tstr .size 3", "~b<int>"])
    for i in range(levels, 0, -1):
        w = wrapper if wrapper != "mixed" else rng.choice(["map", "map-same-key", "array", "array-keyed", "paren", "tag", "choice"])
        if w == "map":
            x = "{ k%d: %s }" % (i, x)
        elif w == "map-same-key":
            x = "{ k: %s }" % x
        elif w == "array":
            x = "[ %s ]" % x
        elif w == "array-keyed":
            x = "[ ? k%d: %s ]" % (i, x)
        elif w == "paren":
            x = "( %s )" % x
        elif w == "tag":
            x = "#6.%d( %s )" % (i, x)
        else:
            x = "&( k%d: %s )" % (i, x)
    return "config = %s\n" % x


def gen_docs(rng, n_random):
    docs = gen_docs_shallow(rng, n_random)
    # deep-nesting family: every wrapper at every level count, spread over the list so that the shards share them
    deep = [("deep-%s-%d" % (w, lv), deep_doc(rng, w, lv)) for w in DEEP_WRAPPERS for lv in DEEP_LEVELS]
    step = max(1, len(docs) // (len(deep) + 1))
    for j, d in enumerate(deep):
        docs.insert(min(len(docs), (j + 1) * step + j), d)
    return docs


def gen_docs_shallow(rng, n_random):
    docs = [("template", t) for t in TEMPLATES]
    # template variations: the same rule body under 2..3 rule names, and a body repeated inside an array
    for _ in range(max(10, n_random // 20)):
        g = Gen(rng, "mixed", 2)
        body = g.type(2)
        k = rng.choice([2, 3])
        docs.append(("same-body", "".join("r%d = %s\n" % (i, body) for i in range(k))))
        docs.append(("repeated-entry", "r0 = [ %s ]\n" % ", ".join([g.entry(1)] * rng.choice([2, 3]))))
    for i in range(n_random):
        mode = ["repeat", "repeat", "mixed", "mixed", "distinct"][i % 5]
        depth = rng.choice([1, 2, 2, 3, 3, 4])
        for attempt in range(6):
            g = Gen(rng, mode, depth)
            text = g.document()
            if len(text) <= 700:
                break
        docs.append((mode, text))
    return docs


# ---------------------------------------------------------------------------
# evaluation of one document
# ---------------------------------------------------------------------------

def parse_tree(tok):
    nodes = [tuple(int(x) for x in t.split(".")) for t in tok.split(" ")]
    n = len(nodes)
    parent, path, child_idx = [None] * n, [None] * n, [0] * n
    stack = []          # (node index, remaining children)
    for i, (k, l, c) in enumerate(nodes):
        while stack and stack[-1][1] == 0:
            stack.pop()
        if stack:
            p, rem = stack[-1]
            parent[i] = p
            child_idx[i] = nodes[p][2] - rem
            stack[-1] = (p, rem - 1)
            path[i] = path[p] + [child_idx[i]]
        else:
            if i != 0:
                raise ValueError("forest")
            path[i] = []
        stack.append((i, c))
    while stack and stack[-1][1] == 0:
        stack.pop()
    if stack:
        raise ValueError("truncated tree")
    return nodes, parent, path, child_idx


def coq_term(tok):
    """the flat token list as a Gallina list N (parsed into a tree inside the model: Arena.parse_tree)"""
    return "[" + "; ".join(x for t in tok.split(" ") for x in t.split(".")) + "]%N"


def evaluate(text, impl_line, model_line_for, fx):
    """Returns (violations [(what, extra)], known {finding id: example}, stats dict). model_line_for(tok) -> model output."""
    ev = {"viol": [], "known": {}, "stats": {}}
    st = ev["stats"]
    if impl_line.startswith("REJECT"):
        st["status"] = "rejected" if impl_line == "REJECT" else "rejected (parser panic)"
        return ev
    if not impl_line.startswith("OK\t"):
        st["status"] = "failed"
        ev["viol"].append(("document accepted by cddl_from_str but ParentVisitor::new did not succeed: %s" % impl_line, {}))
        return ev
    parts = impl_line.split("\t")
    if len(parts) < 7:
        ev["viol"].append(("driver output has %d fields, 7 expected" % len(parts), {}))
        return ev
    tok, ans, ptr, flags = parts[1], parts[2].split(" "), parts[3], parts[4]
    spans, eqspan = parts[5].split(" "), parts[6]
    nodes, parent, path, child_idx = parse_tree(tok)
    n = len(nodes)
    kids = [[] for _ in range(n)]
    for i in range(1, n):
        kids[parent[i]].append(i)
    st.update(status="ok", nodes=n, tok=tok)
    model_line = model_line_for(tok)
    mitems = model_line.split(" ")
    if len(ans) != n or len(mitems) != n or len(ptr) != n or len(spans) != n:
        ev["viol"].append(("output length mismatch: %d nodes, %d answers, %d model answers (%s)" % (n, len(ans), len(mitems), model_line[:60]), {}))
        return ev
    model = [m.split("@")[0] for m in mitems]
    mfirst = [m.split("@")[1] for m in mitems]

    class _Paths:      # positions are rendered only for messages (a deeply nested node has a path of ~1000 elements)
        def __getitem__(self, i):
            q = path[i]
            if len(q) > 24:     # abbreviated; the preorder index identifies the node
                return "%s...%s(depth %d, preorder #%d)" % (".".join(map(str, q[:8])), ".".join(map(str, q[-8:])), len(q), i)
            return ".".join(map(str, q)) if q else "r"
    path_s = _Paths()
    labels = [x[1] for x in nodes]
    if flags:
        for f in flags.split(","):
            ev["viol"].append(("driver flag %s: %s" % (f, {"eq-not-equivalence": "the crate's == on CDDLType values is not an equivalence relation on this document",
                                                           "root-typed-some": "CDDL::parent returned Some"}.get(f, "typed Parent query disagrees with CDDLType::parent")), {"flag": f}))
    # --- the crate's == must not ignore positions or content, except for the committed baseline ----------------------
    span_ignoring = set()
    if eqspan:
        for e in eqspan.split(","):
            k, a, b = (int(x) for x in e.split(":"))
            span_ignoring.add(k)
            if k not in SPAN_IGNORING_BASELINE:
                ev["viol"].append(("equality of %s ignores position: nodes %s (span %s) and %s (span %s) compare == (not in the baseline %s)"
                                   % (KIND_NAMES.get(k, k), path_s[a], spans[a], path_s[b], spans[b],
                                      sorted(KIND_NAMES[x] for x in SPAN_IGNORING_BASELINE)), {"node": b, "eqspan": e}))
    first_sig = {}
    for i in range(n):
        sig = (nodes[i][0], tuple(labels[j] for j in kids[i]))
        f = first_sig.setdefault(labels[i], (sig, i))
        if f[0] != sig and nodes[i][0] not in CONTENT_IGNORING_BASELINE:
            ev["viol"].append(("equality of %s ignores part of its content: nodes %s and %s compare == but their children differ"
                               % (KIND_NAMES.get(nodes[i][0], nodes[i][0]), path_s[f[1]], path_s[i]), {"node": i}))
            break

    def position_free(a, b):
        """a == b is of the kind the open finding is about: same shape, and wherever both carry a span and the spans
        differ the kind is in the baseline (so the two values differ by nothing but baseline-ignored positions)"""
        if nodes[a][0] != nodes[b][0] or len(kids[a]) != len(kids[b]):
            return False
        if spans[a] != "-" and spans[b] != "-" and spans[a] != spans[b] and nodes[a][0] not in SPAN_IGNORING_BASELINE:
            return False
        return all(position_free(x, y) for x, y in zip(kids[a], kids[b]))
    if ans[0] != "-":
        ev["viol"].append(("the document root has a parent: query at the CDDL node returned class %s" % ans[0], {"node": 0}))
    if labels.count(labels[0]) != 1:
        ev["viol"].append(("another node is == to the CDDL root", {"node": 0}))
    wrong = unindexed = ptr_diff = collisions = 0
    wrong_kinds = {}
    for i in range(n):
        kind = nodes[i][0]
        if ans[i] == "?":
            ev["viol"].append(("parent query at node %s (%s) returned a value that is == to no node of the document" % (path_s[i], KIND_NAMES.get(kind, kind)), {"node": i}))
            continue
        if ans[i] != model[i]:
            ev["viol"].append(("parent query at node %s (%s, class %d): implementation returns %s, arena model (first registered parent wins, fx=%d) returns %s"
                               % (path_s[i], KIND_NAMES.get(kind, kind), labels[i], ans[i], fx, model[i]), {"node": i, "impl": ans[i], "model": model[i]}))
            continue
        if i == 0:
            continue
        truth = str(labels[parent[i]])
        if ans[i] == truth:
            if ptr[i] == "~":
                ptr_diff += 1       # equal under ==, but a different object than the true parent
            continue
        wrong += 1
        wrong_kinds[KIND_NAMES.get(kind, str(kind))] = wrong_kinds.get(KIND_NAMES.get(kind, str(kind)), 0) + 1
        # --- classification of a wrong answer -------------------------------------------------------------
        if ans[i] == "-":
            # a reachable node that is not indexed: always a violation (unreachable while impl == model holds, by
            # C20_visit_spec; kept as an independent check of the property text)
            unindexed += 1
            ev["viol"].append(("node %s (%s) is reachable from the root but the parent query returns None (never registered)"
                               % (path_s[i], KIND_NAMES.get(kind, kind)), {"node": i}))
            continue
        m = int(mfirst[i]) if mfirst[i].isdigit() and int(mfirst[i]) < n else None
        if (m is not None and m != i and labels[m] == labels[i] and parent[m] is not None
                and str(labels[parent[m]]) == ans[i] and labels[parent[m]] != labels[parent[i]]
                and position_free(m, i)):
            collisions += 1
            ev["known"].setdefault(KF_COLLISION, {"node": path_s[i], "kind": KIND_NAMES.get(kind, kind), "first_registered_equal_node": path_s[m]})
        else:
            ev["viol"].append(("parent query at node %s (%s) returns class %s, the true parent has class %s, and it is not explained by an earlier "
                               "registered node that is == and carries no distinguishing position" % (path_s[i], KIND_NAMES.get(kind, kind), ans[i], truth), {"node": i}))
    st.update(depth=max(len(p) for p in path), span_ignoring=span_ignoring, wrong=wrong, unindexed=unindexed, collisions=collisions, ptr_diff=ptr_diff, wrong_kinds=wrong_kinds,
              nodup=len(set(labels)) == n, kinds=[x[0] for x in nodes], has_unwrap_args=any(
                  nodes[i][0] == K_UNWRAP and nodes[i][2] >= 2 for i in range(n)), model_line=model_line)
    return ev


def run(tier, seed):
    res = Result(PROP, tier, seed)
    phases, t0 = {}, time.time()

    def phase(name):
        nonlocal t0
        phases[name] = round(time.time() - t0, 1)
        t0 = time.time()
    proved = common.prove(res, PROP, PROP_FILE, [EXTRACT])
    phase("prove+audit")
    drv = common.build_harness("c20")
    orc = common.build_oracle("parent", ["parent_model"])
    phase("build driver+oracle")
    rng = random.Random(seed)
    n_random = 2000 if tier == "quick" else 40000
    if not proved:
        n_random *= 3
    kfs = findings()
    fx = FX

    def run_batch(texts):
        impl = common.run_tool(drv, ["P\t" + t.encode().hex() for t in texts])
        toks = sorted({l.split("\t")[1] for l in impl if l.startswith("OK\t")})
        mod = common.run_tool(orc, ["T\t%d\t%s" % (fx, t) for t in toks])
        return impl, dict(zip(toks, mod))

    # --- 1. witnesses of the open findings, replayed on the real code ------------------------------------------
    for kid, kf in kfs.items():
        text = kf.get("witness", {}).get("text")
        if text is None:
            continue
        impl, cache = run_batch([text])
        ev = evaluate(text, impl[0], lambda tok: cache[tok], fx)
        if kid in ev["known"]:
            res.known(kf)
        else:
            res.notes.append("finding %s apparently repaired: witness %r no longer shows it (%s)" % (kid, text, impl[0][:120]))
        for what, extra in ev["viol"]:
            res.violation("witness %r: %s" % (text, what), dict(extra, cmd="P", text=text, fx=fx))

    # --- 1b. witnesses of fixed findings: every answer must be the true parent ---------------------------------
    impl_f, cache_f = run_batch(FIXED_CORPUS)
    for text, line in zip(FIXED_CORPUS, impl_f):
        ev = evaluate(text, line, lambda tok: cache_f[tok], fx)
        for what, extra in ev["viol"]:
            res.violation("fixed-finding witness %r: %s" % (text, what), dict(extra, cmd="P", text=text, fx=fx))
        if ev["stats"].get("status") != "ok":
            res.violation("fixed-finding witness %r is no longer accepted: %s" % (text, line[:100]), {"cmd": "P", "text": text, "fx": fx})
        elif ev["stats"].get("wrong", 0) != 0 and not ev["viol"]:
            res.violation("fixed-finding witness %r: %d parent answers differ from the true parent" % (text, ev["stats"]["wrong"]),
                          {"cmd": "P", "text": text, "fx": fx})
    phase("witness replays")
    # --- 2. generated documents -----------------------------------------------------------------------------------
    docs = gen_docs(rng, n_random)
    texts = [d[1] for d in docs]
    impl, cache = run_batch(texts)
    phase("run implementation and model")
    evaluations = node_evals = 0
    cls_hist, status_hist, kind_hist, coll_hist, size_hist = {}, {}, {}, {}, {}
    wrong_kinds, constructs_seen = {}, {}
    docs_with_repeats = docs_nodup = docs_nodup_all_correct = docs_unwrap_args = 0
    wrong_total = unindexed_total = ptr_diff_total = 0
    distinct, samples = set(), []
    deep_ok = {}
    span_ignoring_seen = {}
    ok_cases = []
    for (cls, text), line in zip(docs, impl):
        evaluations += 1
        cls_hist[cls] = cls_hist.get(cls, 0) + 1
        if line.startswith("PANIC") or line.startswith("CRASH"):
            res.violation("driver %s on an input document (parse or ParentVisitor::new panicked)" % line, {"cmd": "P", "text": text, "fx": fx})
            status_hist["panic"] = status_hist.get("panic", 0) + 1
            continue
        try:
            ev = evaluate(text, line, lambda tok: cache[tok], fx)
        except (ValueError, IndexError, KeyError) as e:
            res.violation("unreadable driver output (%s): %s" % (e, line[:120]), {"cmd": "P", "text": text, "fx": fx})
            continue
        st = ev["stats"]
        status_hist[st["status"]] = status_hist.get(st["status"], 0) + 1
        for what, extra in ev["viol"]:
            res.violation("%r: %s" % (text, what), dict(extra, cmd="P", text=text, fx=fx))
        for kid, ex in ev["known"].items():
            if kid in kfs:
                res.known(kfs[kid])
            else:
                res.violation("%r: node %s shows the defect class %s, which is not an open finding" % (text, ex["node"], kid),
                              {"cmd": "P", "text": text, "fx": fx})
        if st["status"] != "ok" or "kinds" not in st:
            continue
        ok_cases.append((text, st["tok"], st["model_line"], st["nodes"]))
        if cls.startswith("deep-"):
            deep_ok[cls] = {"nodes": st["nodes"], "tree_depth": st["depth"], "wrong_parent_answers": st["wrong"]}
        for k in st["span_ignoring"]:
            span_ignoring_seen[KIND_NAMES.get(k, str(k))] = span_ignoring_seen.get(KIND_NAMES.get(k, str(k)), 0) + 1
        node_evals += st["nodes"]
        for k in st["kinds"]:
            kind_hist[k] = kind_hist.get(k, 0) + 1
        for k, v in st["wrong_kinds"].items():
            wrong_kinds[k] = wrong_kinds.get(k, 0) + v
        b = st["collisions"]
        bucket = "0" if b == 0 else "1-2" if b <= 2 else "3-9" if b <= 9 else "10-29" if b <= 29 else "30+"
        coll_hist[bucket] = coll_hist.get(bucket, 0) + 1
        sb = "<20" if st["nodes"] < 20 else "20-59" if st["nodes"] < 60 else "60-149" if st["nodes"] < 150 else "150-399" if st["nodes"] < 400 else "400+"
        size_hist[sb] = size_hist.get(sb, 0) + 1
        wrong_total += st["wrong"]
        unindexed_total += st["unindexed"]
        ptr_diff_total += st["ptr_diff"]
        docs_unwrap_args += 1 if st["has_unwrap_args"] else 0
        if st["nodup"]:
            docs_nodup += 1
            if st["wrong"] == 0:
                docs_nodup_all_correct += 1
        else:
            docs_with_repeats += 1
        if st["nodes"] >= 10:
            distinct.add(text)
        if len(samples) < 6 and cls not in ("template",) and st["nodes"] < 60:
            samples.append({"class": cls, "text": text, "nodes": st["nodes"], "wrong_parent_answers": st["wrong"],
                            "collisions": st["collisions"], "unindexed": st["unindexed"]})
    missing_kinds = [KIND_NAMES[k] for k in EXPECTED_KINDS if k not in kind_hist]
    if missing_kinds and len(ok_cases) > 500:
        res.violation("generator degenerate: node kinds never produced: %s" % ", ".join(missing_kinds), {"kind": "generator"}, no_input=True)
    deep_missing = [c for c, _ in docs if c.startswith("deep-") and c not in deep_ok]
    if deep_missing:
        res.violation("deep-nesting documents not accepted or not compared (generator degenerate): %s" % ", ".join(deep_missing[:8]),
                      {"kind": "generator"}, no_input=True)
    rej = status_hist.get("rejected", 0) + status_hist.get("rejected (parser panic)", 0)
    if evaluations and rej > 0.35 * evaluations:
        res.violation("generator degenerate: %d of %d documents rejected by the parser" % (rej, evaluations), {"kind": "generator"}, no_input=True)

    phase("compare")
    # --- 3. vm_compute slice: the extracted oracle equals the model evaluated inside Coq -------------------------
    small = [c for c in ok_cases if c[3] <= 45]      # printing long lists of N dominates the cost inside coqc
    sl = rng.sample(small, min(100 if tier == "quick" else 200, len(small)))
    if sl:
        vm = common.vm_compute_slice(PROP, PREAMBLE, ["answers_flat %s %s" % ("true" if fx else "false", coq_term(c[1])) for c in sl])
        bad = [(c[0], v, c[2]) for c, v in zip(sl, vm) if v != c[2]]
        if bad:
            res.violation("extracted oracle and vm_compute disagree on %r: %s vs %s" % bad[0], {"kind": "extraction", "case": bad[0]}, no_input=True)
    phase("vm_compute slice")
    if not proved and not res.violations:
        res.violation(res.proof_broken, {"kind": "proof-obligation", "detail": res.proof_broken}, no_input=True)
    res.coverage.update({
        "phase_seconds": phases,
        "evaluations": evaluations,
        "node_queries_compared": node_evals,
        "distinct_nontrivial": len(distinct),
        "rule": "generated CDDL documents (1-6 rules, depth <= 4) in three vocabularies: 'repeat' (sub-expressions re-used verbatim, "
                "5 names / 9 literals), 'mixed', 'distinct' (every identifier, literal and control operator occurs once); plus hand "
                "templates (`a = [int, int]`, same body in two rules, ...) and same-body / repeated-entry variations. Every node of "
                "every accepted document is queried; distinct_nontrivial = distinct accepted documents with at least 10 AST nodes",
        "model_variant_fx": fx,
        "class_histogram": cls_hist, "status_split": status_hist,
        "node_kind_histogram": {KIND_NAMES.get(k, str(k)): v for k, v in sorted(kind_hist.items())},
        "node_kinds_never_generated": missing_kinds + ["NonMemberKey (never built by the parser)"],
        "document_size_histogram_nodes": size_hist,
        "collisions_per_document_histogram": coll_hist,
        "documents_with_repeated_equal_nodes": docs_with_repeats,
        "documents_all_nodes_distinct": docs_nodup,
        "documents_all_nodes_distinct_and_every_answer_correct": docs_nodup_all_correct,
        "documents_with_unwrap_generic_args": docs_unwrap_args,
        "kinds_whose_equality_ignores_the_span_baseline": sorted(KIND_NAMES[k] for k in SPAN_IGNORING_BASELINE),
        "kinds_whose_equality_ignores_the_span_observed_documents": span_ignoring_seen,
        "deep_nesting_family": {"levels": DEEP_LEVELS, "wrappers": DEEP_WRAPPERS, "documents_accepted_and_compared": len(deep_ok),
                                "documents_generated": len(DEEP_LEVELS) * len(DEEP_WRAPPERS), "per_document": deep_ok},
        "wrong_parent_answers_total": wrong_total,
        "wrong_parent_answers_by_node_kind": wrong_kinds,
        "unindexed_nodes_total": unindexed_total,
        "answers_equal_but_not_pointer_identical_to_true_parent": ptr_diff_total,
        "vm_compute_slice": len(sl),
        "samples": samples,
    })
    res.assumptions = [
        "the label of a node is its equivalence class under the crate's own PartialEq on CDDLType, computed by the driver by comparing "
        "every pair of walked nodes (the driver also checks that == is reflexive, symmetric and transitive on each document)",
        "the driver's own walk over the AST types defines the true syntactic parent (harness/src/bin/c20.rs)",
        "a parent answer is identified by the class of the returned CDDLType value; pointer identity is recorded separately",
    ]
    return res.finish()


def replay(path):
    r = json.load(open(path))["replay"]
    drv = common.build_harness("c20")
    common.coq_build([EXTRACT])
    orc = common.build_oracle("parent", ["parent_model"])
    if "text" not in r:
        print("no input recorded:", r)
        return 0
    fx = FX
    line = common.run_tool(drv, ["P\t" + r["text"].encode().hex()])[0]
    print("text  :", repr(r["text"]))
    print("impl  :", line)
    if line.startswith("OK\t"):
        tok = line.split("\t")[1]
        m = common.run_tool(orc, ["T\t%d\t%s" % (fx, tok)])[0]
        print("model :", m)
        print("vm    :", common.vm_compute_slice(PROP, PREAMBLE, ["answers_flat %s %s" % ("true" if fx else "false", coq_term(tok))])[0])
        ev = evaluate(r["text"], line, lambda t: m, fx)
        for what, _ in ev["viol"]:
            print("VIOLATION:", what)
        for k, ex in ev["known"].items():
            print("known class:", k, ex)
    return 0
