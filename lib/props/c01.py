"""C01 - JSON validation verdicts equal RFC 8610 semantics on the core language (DESIGN.md 6, C01)."""
from ..sem import vcheck
PROP = "C01"
PROP_FILE = "theories/Props/C01.v"

def run(tier, seed):
    return vcheck.run(PROP, PROP_FILE, "json", tier, seed)

def replay(path):
    return vcheck.replay(PROP, "json", path)
