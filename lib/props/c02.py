"""C02 - CBOR validation verdicts equal RFC 8610 semantics on the core language (DESIGN.md 6, C02)."""
from ..sem import vcheck
PROP = "C02"
PROP_FILE = "theories/Props/C02.v"

def run(tier, seed):
    return vcheck.run(PROP, PROP_FILE, "cbor", tier, seed)

def replay(path):
    return vcheck.replay(PROP, "cbor", path)
