"""C16 - comments are recognised only as comments and survive formatting intact (DESIGN.md 6, C16; design.d/C16.md).

Shares the driver (harness/src/bin/c06.rs, built as bin c16), the oracle (fmt) and the document generator with C06.
"""
import json, random
from .. import common
from ..common import Result
from . import c06 as base
from .c06 import (Gen, roundtrips, render_shape, render_tokens, doc_tokens, all_gaps, make_comments, remove_comment,
                  comment_verdict, hazards_of, fix_shape, verdict, coq_expr_of, VM_PREAMBLE, unhex)

PROP = "C16"
PROP_FILE = "theories/Props/C16.v"
EXTRACT = ["theories/Extract/ExtractFmt.vo"]

WITNESSES = base.C16_WITNESSES


def lex_model(orc, texts):
    """comments of each text according to Comments/Lex.v (list of str), None where the lexer ends inside a literal"""
    outs = common.run_tool(orc, ["K\t" + t.encode("utf-8").hex() for t in texts])
    res = []
    for o in outs:
        s = bytes.fromhex(o).decode("ascii")
        if "!" in s:
            res.append(None)
            continue
        res.append([bytes.fromhex(x).decode("utf-8", "replace") for x in s.split(",") if x != ""])
    return res


def merge_lines(drv, texts):
    """driver M dumps -> (oracle M line, actual assigned texts per anchor, id->text)"""
    outs = common.run_tool(drv, ["M\t" + t.encode("utf-8").hex() for t in texts])
    res = []
    for o in outs:
        if not o.startswith("{"):
            res.append(None)
            continue
        d = json.loads(o)
        toks = ";".join("%d,%d,%d,%d,%d" % (t[0], t[1], t[2], 1 if t[3] else 0, i) for i, t in enumerate(d["toks"]))
        anchors = ";".join("%s,%d,%d,%d" % (a[0], a[1], a[2], a[3]) for a in d["anchors"])
        conts = ";".join("%d,%d" % (c[0], c[1]) for c in d["containers"])
        res.append(("M\t%s\t%s\t%s" % (toks, anchors, conts), [[unhex(x) for x in a] for a in d["assigned"]], [unhex(t[4]) for t in d["toks"]]))
    return res


def explain(drv, items, rounds=4):
    """items: (base shape, text, source comment texts, record, verdict). Remove the comments some finding's classifier holds
    for, run again; explained when what is left passes. Returns (item, ids, final verdict)."""
    state = [{"it": it, "t": it[1], "src": list(it[2]), "r": it[3], "ids": [], "done": None} for it in items]
    for _ in range(rounds):
        batch = []
        for st in state:
            if st["done"] is not None:
                continue
            hz = {c: h for c, h in hazards_of(st["r"]).items() if h} if st["r"].get("ok0") else {}
            if not hz:
                st["done"] = comment_verdict(st["it"][0], st["src"], st["r"])
                continue
            for c, hs in hz.items():
                st["ids"] += [h for h in hs if h not in st["ids"]]
                st["t"] = remove_comment(st["t"], c)
                if c in st["src"]:
                    st["src"].remove(c)
            batch.append(st)
        if not batch:
            break
        for st, r2 in zip(batch, roundtrips(drv, [st["t"] for st in batch])):
            st["r"] = r2
            if comment_verdict(st["it"][0], st["src"], r2) == "ok":
                st["done"] = "ok"
    for st in state:
        if st["done"] is None:
            st["done"] = comment_verdict(st["it"][0], st["src"], st["r"])
    return [(st["it"], st["ids"], st["done"], st["t"], st["src"]) for st in state]


def run(tier, seed):
    res = Result(PROP, tier, seed)
    proved = common.prove(res, PROP, PROP_FILE, EXTRACT)
    drv = common.build_harness("c16")
    orc = common.build_oracle("fmt", ["fmt_model"])
    rng = random.Random(seed)
    quick = tier == "quick"
    wide = 1 if proved else 3
    open_findings = {kf["id"]: kf for kf in common.known_findings(PROP)}
    evaluations = 0
    known_hits = {}

    def hit(fid):
        known_hits[fid] = known_hits.get(fid, 0) + 1
        if fid in open_findings:
            res.known(open_findings[fid])

    # ---- fixed corpus first (witnesses of repaired findings must pass), then the witnesses of the open findings
    fixed_b = roundtrips(drv, [w[0] for w in base.C16_FIXED_WITNESSES])
    fixed_c = roundtrips(drv, [w[1] for w in base.C16_FIXED_WITNESSES])
    for w, bb, rr in zip(base.C16_FIXED_WITNESSES, fixed_b, fixed_c):
        evaluations += 2
        if verdict(bb) != "ok" or comment_verdict(bb["s0"], w[2], rr) != "ok":
            res.violation("a repaired finding is back: %r is formatted as %r" % (w[1], rr.get("p1")),
                          {"kind": "doc", "base": w[0], "text": w[1], "comments": w[2]})
    probe = base.probe_comment_findings(drv)
    for fid, ws in WITNESSES.items():
        failing = probe[fid]
        evaluations += 2 * len(ws)
        if fid in open_findings:
            if failing:
                hit(fid)
            else:
                res.notes.append("finding %s apparently repaired: its witness passes" % fid)
        elif failing:
            res.violation("witness of %s fails but the finding is not listed as open: %r" % (fid, failing[0][1]),
                          {"kind": "doc", "base": failing[0][0], "text": failing[0][1], "comments": failing[0][2]})

    # ---- base documents (comment-free, passing C06's checks after neutralising C06's findings)
    g = Gen(rng, defects=0.0)
    n_base = (110 if quick else 1500) * wide
    shapes = []
    while len(shapes) < n_base:
        s = g.doc(nrules=rng.choice([1, 1, 2, 3]), depth=rng.choice([0, 1, 1, 2, 2]))
        if len(json.dumps(s)) < 2500:
            shapes.append(fix_shape(drv, s)[1])
    structured = base.comment_bases()
    base_rs = roundtrips(drv, structured + [render_shape(s) for s in shapes])
    for t, b in zip(structured, base_rs):
        if verdict(b) != "ok":
            res.violation("a structured base document does not survive formatting (%s): %r prints as %r" % (verdict(b), t, b.get("p1")),
                          {"kind": "doc", "text": t, "comments": []})
    shapes = [None] * len(structured) + shapes
    bases = [b for b in base_rs if verdict(b) == "ok"]
    evaluations += len(base_rs)
    # a comment-free base document (C06's known-finding constructs already neutralised) whose formatted text is rejected or
    # parses to other rules/choices/entries violates the last clause of C16 as well
    bad_bases = [(s, b) for s, b in zip(shapes, base_rs) if verdict(b) in ("print-rejected", "shape-diff", "panic")]
    for s, b in bad_bases[:3]:
        if s is None:
            continue
        t = render_shape(s)
        res.violation("the formatted text of a comment-free document does not parse to the same rules, choices and entries (%s): %r prints as %r"
                      % (verdict(b), t[:300], (b.get("p1") or "")[:300]), {"kind": "doc", "text": t, "comments": []})

    # ---- comment injection: one comment at EVERY inter-token gap, then random subsets
    cases = []          # (base shape, text, source comments, class)
    for b in bases:
        rules = doc_tokens(b["s0"])
        gaps = all_gaps(rules)
        for gp in gaps:
            cm = make_comments(rng, rules, [gp])
            last = gp == gaps[-1]
            cases.append((b["s0"], render_tokens(rules, None, cm, final_newline=not (last and rng.random() < 0.5)),
                          [c for v in cm.values() for c in v], "single"))
        for _ in range(6 if quick else 12):
            chosen = [rng.choice(gaps) for _ in range(rng.choice([2, 2, 3, 4, 6, 10]))]
            cm = make_comments(rng, rules, chosen)
            cases.append((b["s0"], render_tokens(rules, rng if rng.random() < 0.6 else None, cm, final_newline=rng.random() < 0.8),
                          [c for v in cm.values() for c in v], "subset"))
    rs = roundtrips(drv, [c[1] for c in cases])
    stats, slot_hist = {}, {}
    n_comments = n_attached = n_orphans = 0
    failing = []
    distinct = set()
    printed = []
    for (bshape, t, src, cls), r in zip(cases, rs):
        evaluations += 1
        v = comment_verdict(bshape, src, r)
        stats[cls + ":" + v] = stats.get(cls + ":" + v, 0) + 1
        distinct.add(t)
        if r.get("ok0"):
            n_comments += len(src)
            n_attached += len(r["c0"])
            n_orphans += len(src) - len(r["c0"])
            for x in r["c0"]:
                slot_hist[x[0]] = slot_hist.get(x[0], 0) + 1
            if r.get("p1") is not None:
                printed.append(r["p1"])
        if v != "ok":
            failing.append((bshape, t, src, r, v))
    unexplained = []
    for it, ids, final, left_t, left_src in explain(drv, failing):
        evaluations += 1
        if final == "ok" and ids:
            for i in ids:
                hit(i)
        else:
            unexplained.append((it, ids, final, left_t, left_src))
    for (bshape, t, src, r, v), ids, final, left_t, left_src in unexplained[:6]:
        # shrink what is left after removing the comments of known findings: drop comments one at a time while the failure stays
        cur_t, cur_src = left_t, list(left_src)
        for c in list(left_src):
            t2 = remove_comment(cur_t, c)
            s2 = [x for x in cur_src if x != c]
            r2 = roundtrips(drv, [t2])[0]
            if comment_verdict(bshape, s2, r2) not in ("ok",) and s2:
                cur_t, cur_src = t2, s2
        rr = roundtrips(drv, [cur_t])[0]
        res.violation("comment handling: %s%s on %r, printed %r, attached %r" %
                      (comment_verdict(bshape, cur_src, rr), " (after removing the comments of known findings %s)" % ids if ids else "",
                       cur_t[:300], (rr.get("p1") or "")[:300], [(x[0], x[1]) for x in rr.get("c0", [])][:6]),
                      {"kind": "doc", "base": render_shape(bshape), "text": cur_t, "comments": cur_src})
    if len(unexplained) > 6:
        res.violation("%d further unexplained comment failures" % (len(unexplained) - 6), {"kind": "count"}, no_input=True)

    # ---- the lexical model against the real parser: source texts with comments and printed texts
    lex_texts = [c[1] for c in cases if 'h"' not in c[1]][: (4000 if quick else 60000)] + [p for p in printed if 'h"' not in p][: (2000 if quick else 30000)]
    lex_texts += ["a = \"x;y\" ; c1\n", "a = 'x;y' ; c1\nb = h'01 ;in\n 02' ;c2", "a = b64'AQ ;x\nID' / \"\\\";\" ;c\n", ";only", "a = 1 ;c\r\nb = 2 ; d\re\n"]
    model_k = lex_model(orc, lex_texts)
    real_k = common.run_tool(drv, ["K\t" + t.encode("utf-8").hex() for t in lex_texts])
    lex_stats = {"agree": 0, "rejected": 0}
    for t, mk, rk in zip(lex_texts, model_k, real_k):
        evaluations += 1
        if not rk.startswith("OK "):
            lex_stats["rejected"] += 1
            continue
        real = [unhex(x) for x in json.loads(rk[3:])]
        if mk != real:
            res.violation("lexical model (Comments/Lex.v) and the real parser disagree on the comments of %r: model %r, parser %r" % (t[:200], mk, real),
                          {"kind": "lex", "text": t})
        else:
            lex_stats["agree"] += 1

    # ---- the merge model against the real attachment
    m_texts = [c[1] for c in cases][: (3000 if quick else 50000)]
    ml = merge_lines(drv, m_texts)
    m_or = common.run_tool(orc, [x[0] for x in ml if x is not None])
    it = iter(m_or)
    merge_stats = {"agree": 0, "rejected": 0, "orphans": 0, "dropped": 0}
    merge_slice = []
    for t, x in zip(m_texts, ml):
        evaluations += 1
        if x is None:
            merge_stats["rejected"] += 1
            continue
        line, actual, texts = x
        o = bytes.fromhex(next(it)).decode()
        per, orph, drop = o.split("|")
        model = [[texts[int(i)] for i in a.split(",") if i != ""] for a in per.split(";")] if actual else []
        merge_stats["orphans"] += len([i for i in orph.split(",") if i])
        merge_stats["dropped"] += len([i for i in drop.split(",") if i])
        if model != actual:
            res.violation("merge model (Comments/Merge.v) and pest_bridge disagree on %r: model %r, AST %r" % (t[:200], model, actual),
                          {"kind": "merge", "text": t, "oracle_line": line})
        else:
            merge_stats["agree"] += 1
            if len(line) < 900:
                merge_slice.append(line)

    # ---- vm_compute slice
    sl = rng.sample(merge_slice, min(90, len(merge_slice))) + ["K\t" + t.encode().hex() for t in rng.sample([x for x in lex_texts if len(x) < 120], 50)]
    vm = common.vm_compute_slice(PROP, VM_PREAMBLE, [coq_expr_of(l) for l in sl])
    orc_sl = common.run_tool(orc, sl, shards=1)
    vm_bad = [(l, x, y) for l, x, y in zip(sl, vm, orc_sl) if x is not None and x.encode("latin-1") != bytes.fromhex(y)]
    if vm_bad:
        res.violation("extracted oracle and vm_compute disagree on %r: %r vs %r" % vm_bad[0], {"kind": "extraction", "case": list(vm_bad[0])}, no_input=True)

    if not proved and not res.violations:
        res.violation(res.proof_broken, {"kind": "proof-obligation", "detail": res.proof_broken}, no_input=True)
    res.coverage.update({
        "evaluations": evaluations,
        "distinct_nontrivial": len(distinct),
        "rule": "base documents: structure-directed random CDDL (as C06, with C06's known-finding constructs neutralised so that the comment-free "
                "document round-trips); a comment (texts with ';', quotes, apostrophes, brackets, non-ASCII, empty) is injected at EVERY inter-token "
                "gap, one at a time (last one also without final line break), and in random subsets of 2-10 gaps with random layout; "
                "distinct_nontrivial = distinct commented document texts",
        "base_documents": len(bases), "structured_base_documents": len(structured),
        "verdict_split": stats,
        "source_comments": n_comments, "attached_comments": n_attached, "orphaned_or_dropped_comments": n_orphans,
        "attached_slot_histogram": slot_hist,
        "known_finding_hits": known_hits,
        "lexer_correspondence": lex_stats,
        "merge_correspondence": merge_stats,
        "generator_histogram": g.hist,
        "vm_compute_slice": len(sl),
        "samples": [{"text": c[1][:200], "comments": c[2]} for c in cases[:5]],
    })
    res.assumptions = [
        "the anchors, tight spans and container extents fed to the merge model are recomputed by the driver from the public AST spans, "
        "mirroring visit_anchor_slots / type2_span / entry_tight_end of pest_bridge.rs (those functions are private)",
        "comment texts are compared modulo trailing blanks (Display trims them in some positions); a comment the merge leaves unattached "
        "(orphan / non-contiguous) is not required to be printed",
        "the real printer (1.5 kLoC of layout code) is not modelled; the model renderer of Comments/Lex.v only states what a sound renderer guarantees",
    ]
    return res.finish()


def replay(path):
    r = json.load(open(path))["replay"]
    drv = common.build_harness("c16")
    common.coq_build(EXTRACT)
    orc = common.build_oracle("fmt", ["fmt_model"])
    t = r.get("text")
    if t is None:
        print(json.dumps(r, indent=1))
        return 0
    rr = roundtrips(drv, [t])[0]
    print("source   :", repr(t))
    if r.get("base"):
        b = roundtrips(drv, [r["base"]])[0]
        print("verdict  :", comment_verdict(b.get("s0"), r.get("comments", []), rr))
    if rr.get("ok0"):
        print("attached :", [(x[0], x[1]) for x in rr["c0"]])
        print("hazards  :", {k: v for k, v in hazards_of(rr).items() if v})
        print("printed  :", repr(rr.get("p1")))
        print("comments in the printed text (parser) :", rr.get("k1"))
        print("comments in the printed text (model)  :", lex_model(orc, [rr["p1"]])[0])
    print("comments in the source (model lexer)  :", lex_model(orc, [t])[0])
    ml = merge_lines(drv, [t])[0]
    if ml:
        print("merge model :", bytes.fromhex(common.run_tool(orc, [ml[0]])[0]).decode(), " AST:", ml[1])
    return 0
