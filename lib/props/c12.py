"""C12 - duplicate rule definitions and undefined references are always caught (DESIGN.md 6, C12).

Documents are generated from a structured description, so the generator KNOWS the rule list,
the operators and every referenced name with its position.  Each document is sent
  * as text to the real crate: cddl::cddl_from_str (duplicate check only) and
    cddl::ast::CDDL::from_slice (duplicate check + undefined-reference check), and
  * as abstract description to the model extracted from Coq (Rules/Dup.v, Rules/RefCheck.v), which
    also prints the verdict of the executable specification (Spec.Unresolved) and a class marker
    (documents of the class of the finding repaired in /repo commit a8c9ab3; statistics only).
Compared: Ok / Err, the rule name in the error, and the line and byte offset of the later
definition (duplicates) or of the reported reference (undefined names)."""
import importlib.util, json, os, random
from .. import common
from ..common import Result

PROP = "C12"
PROP_FILE = "theories/Props/C12.v"
EXTRACT = "theories/Extract/ExtractRules.vo"

RFC_PRELUDE = ["any", "uint", "nint", "int", "bstr", "bytes", "tstr", "text", "tdate", "time", "number", "biguint",
               "bignint", "bigint", "integer", "unsigned", "decfrac", "bigfloat", "eb64url", "eb64legacy", "eb16",
               "encoded-cbor", "uri", "b64url", "b64legacy", "regexp", "mime-message", "cbor-any", "float16", "float32",
               "float64", "float16-32", "float32-64", "float", "false", "true", "bool", "nil", "null", "undefined"]
PRELUDE_NEAR = ["Int", "INT", "string", "str", "b64", "float16-64", "float32-16", "float128", "nil2", "nul", "Null", "tstr2",
                "uint8", "encoded_cbor", "encoded-cbo", "mime_message", "mime-messages", "cbor_any", "cbor-an", "bigint2",
                "big-int", "eb32", "eb64", "eb64url2", "b64-url", "t-date", "tdat", "tim", "numbers", "unsign", "bigfloa",
                "decfra", "regex", "ur", "uris", "boolean", "fals", "tru", "undefine", "an", "anyy", "byte", "text2", "bst"]

# ---------------------------------------------------------------------------
# fragments: a body is a list of str | Ref
# ---------------------------------------------------------------------------

class Ref:
    __slots__ = ("pfx", "id", "site")

    def __init__(self, pfx, id, site):
        # the socket prefix is always printed immediately before the identifier: since /repo 837f856 typename / groupname
        # are compound-atomic (`$ a` is a syntax error, as in RFC 8610)
        self.pfx, self.id, self.site = pfx, id, site

def N(name, site="hand"):
    if name.startswith("$$"):
        return Ref("$$", name[2:], site)
    if name.startswith("$"):
        return Ref("$", name[1:], site)
    return Ref("", name, site)

def B(s, site="hand"):
    """hand-written body: names between backticks are references"""
    out = []
    for k, part in enumerate(s.split("`")):
        out.append(N(part, site) if k % 2 else part)
    return out

class Rule:
    __slots__ = ("name", "op", "params", "body")

    def __init__(self, name, op, body, params=()):
        self.name, self.op, self.params, self.body = name, op, list(params), body

    @property
    def sock(self):
        return 2 if self.name.startswith("$$") else 1 if self.name.startswith("$") else 0

    @property
    def id(self):
        return self.name.lstrip("$")

class Case:
    """a document: text + abstract description + positions"""

    def __init__(self, cls, rules, seps=None, lead=""):
        self.cls = cls
        self.rules = rules
        out = bytearray(lead.encode())
        self.rule_pos, self.ref_pos, self.ref_sites = [], [], []
        for k, r in enumerate(rules):
            if k > 0:
                out += (seps[k - 1] if seps else "\n").encode()
            self.rule_pos.append(len(out))
            pfx = "$" * r.sock
            out += (pfx + r.id).encode()
            if r.params:
                out += ("<" + ", ".join(r.params) + ">").encode()
            out += (" " + r.op + " ").encode()
            pos, sites = [], []
            for piece in r.body:
                if isinstance(piece, Ref):
                    out += piece.pfx.encode()
                    pos.append(len(out))
                    sites.append(piece.site)
                    out += piece.id.encode()
                else:
                    out += piece.encode()
            self.ref_pos.append(pos)
            self.ref_sites.append(sites)
        out += b"\n"
        self.text = bytes(out)

    def line_of(self, off):
        return self.text[:off].count(b"\n") + 1

    def model_line(self):
        rs = []
        for r in self.rules:
            refs = [("1" if p.pfx else "0") + "." + p.id.encode().hex() for p in r.body if isinstance(p, Ref)]
            rs.append("%d,%s,%s,%s,%s" % (r.sock, r.id.encode().hex(), "1" if r.op == "=" else "0",
                                          "|".join(p.encode().hex() for p in r.params), "|".join(refs)))
        return "M\t" + ";".join(rs)

    def gallina(self):
        def nm(s):
            return "[" + "; ".join(str(b) for b in s.encode()) + "]"
        rs = []
        for r in self.rules:
            refs = ["mkRef %s %s" % ("true" if p.pfx else "false", nm(p.id)) for p in r.body if isinstance(p, Ref)]
            rs.append("mkRule %d %s %s [%s] [%s]" % (r.sock, nm(r.id), "true" if r.op == "=" else "false",
                                                    "; ".join(nm(p) for p in r.params), "; ".join(refs)))
        return "c12_render [" + "; ".join(rs) + "]"

    def expect(self, verdict):
        """model verdict ('OK n' | 'DUP i name' | 'UNDEF i j name') -> the line the Rust driver prints"""
        p = verdict.split(" ")
        if p[0] == "OK":
            return verdict
        if p[0] == "DUP":
            i = int(p[1])
            off = self.rule_pos[i]
            return "DUP %s %d %d" % (p[2], self.line_of(off), off)
        if p[0] == "UNDEF":
            i, j = int(p[1]), int(p[2])
            off = self.ref_pos[i][j]
            return "UNDEF %s %d %d" % (p[3], self.line_of(off), off)
        return "?" + verdict

    def site_of(self, verdict):
        p = verdict.split(" ")
        if p[0] == "UNDEF":
            return self.ref_sites[int(p[1])][int(p[2])]
        return None

    def replay_dict(self):
        return {"class": self.cls, "text": self.text.decode(), "text_hex": self.text.hex(), "model_line": self.model_line(),
                "gallina": self.gallina(), "rule_pos": self.rule_pos, "ref_pos": self.ref_pos}

# ---------------------------------------------------------------------------
# structure-directed random generator
# ---------------------------------------------------------------------------

LITS = ["1", "0", "-2", "1.5", "\"s\"", "\"zz\"", "'yy'", "h'00ff'", "#2", "#7.25", "#6.1", "0x1f", "\"a = int\"", "\"; zz\""]
CTL_OPS = ["size", "bits", "regexp", "cbor", "within", "and", "lt", "le", "gt", "ge", "eq", "ne", "default"]
OCCS = ["? ", "* ", "+ ", "2*3 ", "2* ", "*3 ", "?", "* ", "+", "0*1 "]
BAREWORDS = ["k", "key", "zz", "int", "a", "u-1", "Int", "t", "b.c"]
SOCKET_IDS = ["a", "b", "s", "zz", "ext", "g"]

def esafe(f):
    """a bare group entry (or a member key) that starts with "(" and continues after the matching ")" is taken by the
    inline-group alternative of group_entry first (PEG ordered choice, C03 territory): parenthesise it once more"""
    if f and isinstance(f[0], str) and f[0].lstrip().startswith("("):
        return ["("] + f + [")"]
    return f

# text the grammar's S (and pest's implicit skipping) allows between two tokens: comments end at the line break
GAPS = [" ; the shared header\n  ", "\n  ", " ; zz = int\n", " ;\n", "\t; ~ hdr & colours <zz>\n\t", " ; café\n ", " ; a\n ; b\n  "]

class Gen:
    def __init__(self, rng, rule_names, undef_pool, shadow_pool, p_undef, p_gap=0.0):
        self.rng = rng
        self.p_gap = p_gap                   # probability of a comment / line break at each position where S is allowed
        self.rule_names = rule_names         # printed names of the document's rules
        self.undef_pool = undef_pool
        self.shadow_pool = shadow_pool       # identifiers defined only under a socket prefix
        self.p_undef = p_undef
        self.params = []
        self.other_params = []

    def gap(self, default):
        if self.p_gap and self.rng.random() < self.p_gap:
            return self.rng.choice(GAPS)
        return default

    # ---- names ----
    def pick(self, site):
        rng = self.rng
        amp = site == "enum_name"            # after "&" the grammar wants a groupname: "$x" is not one, "$$x" is
        if rng.random() < self.p_undef:
            r = rng.random()
            if r < 0.12 and self.shadow_pool:
                return Ref("", rng.choice(self.shadow_pool), site)
            if r < 0.25 and self.other_params:
                return Ref("", rng.choice(self.other_params), site)
            return Ref("", rng.choice(self.undef_pool), site)
        opts = ["prelude"] * 3 + ["socket"]
        plain_rules = [n for n in self.rule_names if not n.startswith("$$") and not (amp and n.startswith("$"))]
        if plain_rules:
            opts += ["rule"] * 4
        if self.params:
            opts += ["param"] * 4
        k = rng.choice(opts)
        if k == "prelude":
            return Ref("", rng.choice(RFC_PRELUDE), site)
        if k == "param":
            return Ref("", rng.choice(self.params), site)
        if k == "rule":
            return N(rng.choice(plain_rules), site)
        return Ref("$$" if amp else "$", rng.choice(SOCKET_IDS), site)

    def generic_args(self, d):
        n = self.rng.choice([1, 1, 2])
        out = [self.gap(""), "<", self.gap("")]          # between the name and "<", and after "<"
        for k in range(n):
            if k:
                out += [self.gap(""), ",", self.gap(" ")]
            f, _ = self.type1(d, "generic_arg")
            out += f
        out += [self.gap(""), ">"]
        return out

    def named(self, site, d):
        f = [self.pick(site)]
        if d > 0 and self.rng.random() < (0.3 if self.p_gap else 0.15):
            f += self.generic_args(d - 1)
        return f

    # ---- types: every function returns (fragment, level) with level 2 = type2, 1 = type1, 0 = type ----
    def type2(self, d, site):
        rng = self.rng
        opts = ["name"] * 6 + ["lit"]
        if d > 0:
            opts += ["paren"] * 2 + ["map"] * 3 + ["arr"] * 3 + ["unwrap", "enumname", "enumgroup", "tag", "tag", "tagt", "tagany"]
        k = rng.choice(opts)
        if k == "name":
            return self.named(site, d), 2
        if k == "lit":
            return [rng.choice(LITS)], 2
        if k == "paren":
            f, _ = self.type(d - 1, "paren")
            return ["("] + f + [")"], 2
        if k == "map":
            return ["{"] + self.group(d - 1, True) + ["}"], 2
        if k == "arr":
            return ["["] + self.group(d - 1, False) + ["]"], 2
        if k == "unwrap":
            return ["~", self.gap(rng.choice(["", " "]))] + self.named("unwrap", d), 2
        if k == "enumname":
            if rng.random() < 0.2:
                return ["&", self.gap(""), Ref("$$", rng.choice(SOCKET_IDS), "enum_socket")], 2
            return ["&", self.gap(rng.choice(["", " "]))] + self.named("enum_name", d), 2
        if k == "enumgroup":
            return ["&("] + self.group(d - 1, True) + [")"], 2
        if k == "tag":
            f, _ = self.type(d - 1, "tag_content")
            return ["#6.%d(" % rng.choice([0, 1, 32, 999])] + f + [")"], 2
        if k == "tagt":
            f, _ = self.type(d - 1, "tag_number_type")
            out = ["#6.<"] + f + [">"]
            if rng.random() < 0.5:
                g, _ = self.type(d - 1, "tag_content")
                out += ["("] + g + [")"]
            return out, 2
        f, _ = self.type(d - 1, "tag_content")
        return [rng.choice(["#6(", "#("])] + f + [")"], 2

    def as2(self, fl):
        f, level = fl
        return f if level == 2 else ["("] + f + [")"]

    def bound(self, site):
        if self.rng.random() < 0.5:
            return [self.rng.choice(["0", "1", "5", "-3", "1.5", "10"])]
        return [self.pick(site)]

    def type1(self, d, site):
        rng = self.rng
        r = rng.random()
        if r < 0.72:
            return self.type2(d, site)
        if r < 0.82:
            op = rng.choice([" .. ", " ... ", "..", "..."])
            lo, hi = self.bound("range_lo"), self.bound("range_hi")
            if isinstance(lo[0], Ref) and op in ("..", "..."):
                op = " " + op                      # `b..c` would otherwise be lexed differently (C03)
            if self.p_gap:
                op = self.gap(" ") + op.strip() + self.gap(" ")
            return lo + [op] + hi, 1
        tgt = self.as2(self.type2(d, "ctl_target"))
        arg = self.as2(self.type2(d - 1 if d > 0 else 0, "ctl_arg"))
        return tgt + [self.gap(" "), "." + rng.choice(CTL_OPS), self.gap(" ")] + arg, 1

    def type(self, d, site):
        rng = self.rng
        n = rng.choice([1] * 13 + [2] * 5 + [3] * 2)
        if n == 1:
            return self.type1(d, site)
        out = []
        for k in range(n):
            if k:
                out.append(rng.choice([" / ", " / ", "/", " /\n  "]))
            f, _ = self.type1(d, "choice_arm")
            out += f
        return out, 0

    # ---- groups ----
    def group(self, d, in_map):
        rng = self.rng
        out = []
        for c in range(rng.choice([1, 1, 1, 1, 2])):
            if c:
                out.append(" // ")
            n = rng.choice([0, 1, 1, 2, 2, 3])
            for k in range(n):
                e = self.entry(d, in_map)
                if k:
                    sep = rng.choice([", ", ", ", ", ", ",", " ", ",\n  ", ", ; zz = int\n  "])
                    first = next((p for p in e if not (isinstance(p, str) and p == "")), "")
                    if sep == " " and isinstance(first, str) and first.lstrip().startswith("("):
                        sep = ", "           # "#6.<t> (x)" / "#2 (x)" would read the next entry as tag content
                    out.append(sep)
                out += e
            if n and rng.random() < 0.15:
                out.append(",")
        return out

    def key1(self, d):
        f, level = self.type1(d, "key_arrow")
        return esafe(f)

    def entry(self, d, in_map):
        rng = self.rng
        occ = rng.choice(OCCS) if rng.random() < 0.35 else ""
        if occ and self.p_gap:
            occ = occ.strip() + self.gap(" ")            # after an occurrence indicator
        opts = ["bare"] * 4 + ["bareword"] * 2 + ["valuekey", "arrow", "arrow", "gsocket"]
        if in_map:
            opts += ["bareword", "arrow"]
        if d > 0:
            opts += ["inline", "inline", "sockcolon"]
        k = rng.choice(opts)
        site_v = "map_value" if in_map else "array_entry_value"
        if k == "bare":
            f, _ = self.type(d, "group_entry_occ" if occ else ("map_entry_bare" if in_map else "array_entry"))
            return [occ] + esafe(f)
        if k == "bareword":
            f, _ = self.type(d, site_v)
            return [occ, rng.choice(BAREWORDS), self.gap(rng.choice(["", "", " "])), ":", self.gap(rng.choice([" ", ""]))] + f
        if k == "valuekey":
            f, _ = self.type(d, site_v)
            return [occ, rng.choice(["\"k\"", "1", "\"zz\"", "-1"]), rng.choice([": ", " => ", " ^ => "])] + f
        if k == "arrow":
            f, _ = self.type(d, site_v)
            cut = [self.gap(" "), "^"] if rng.random() < 0.3 else []
            return [occ] + self.key1(d) + cut + [self.gap(rng.choice([" ", ""])), "=>", self.gap(rng.choice([" ", ""]))] + f
        if k == "gsocket":
            out = [occ, Ref("$$", rng.choice(SOCKET_IDS), "group_socket")]
            if d > 0 and rng.random() < 0.3:
                out += self.generic_args(d - 1)
            return out
        if k == "inline":
            return [occ, "("] + self.group(d - 1, in_map) + [")"]
        f, _ = self.type(d, site_v)
        out = [occ, Ref("$", rng.choice(SOCKET_IDS), "key_socket_colon")]
        if rng.random() < 0.5:
            out += self.generic_args(d - 1)
        return out + [self.gap(""), ":", self.gap(" ")] + f

    # ---- rule bodies ----
    def type_body(self, d):
        return self.type(d, "rule_type")[0]

    def group_body(self, d, op):
        rng = self.rng
        r = rng.random()
        if r < 0.55:
            return ["("] + self.group(d, True) + [")"]
        if r < 0.75:
            f, _ = self.type(d, "group_rule_occ")
            return [rng.choice(["? ", "* ", "+ "])] + esafe(f)
        if op == "//=":
            if r < 0.85:
                f, _ = self.type(d, "group_rule_value")
                return [rng.choice(BAREWORDS), ": "] + f
            if r < 0.93:
                f, _ = self.type(d, "group_rule_value")
                return self.key1(d) + [" => "] + f
            return esafe(self.type(d, "group_rule_bare")[0])
        return ["("] + self.group(d, False) + [")"]

FAMILIES = [["a", "A", "$a", "$$a", "a-b", "a.b", "a_b", "@a"], ["g", "$$g", "$g", "G", "g1"], ["b", "$b", "b2", "B"],
            ["t", "u", "$t"], ["int", "tstr", "$int", "uri"], ["a$b", "a$", "_", "@"]]
UNDEF_BASE = ["zz", "u-1", "x.y", "@q", "_p", "Int", "string", "TSTR", "float16-64", "zz1", "q$r", "Any", "nil2"]
PARAM_NAMES = ["t", "u", "v", "K", "a", "int", "zz9"]
SEPS = ["\n", "\n", "\n", "\n\n", " ", "  ", "\n; a = int\n", " ; zz\n", "\n;\n; café = zz\n", "\n\t"]

def variants(name):
    out = {name.swapcase(), name + "2", name + "-x", name.upper(), name.lower(), "_" + name}
    return [v for v in out if v != name]

def random_doc(rng, p_undef=None):
    fam = rng.sample(FAMILIES, rng.choice([1, 2, 2, 3]))
    pool = []
    for f in fam:
        pool += rng.sample(f, rng.randrange(1, min(4, len(f)) + 1))
    pool = pool[:6]
    n = rng.choice([1, 2, 2, 3, 3, 4, 4, 5, 6, 7, 8])
    heads, seen = [], set()
    p_dup = rng.choice([0.0, 0.1, 0.3])
    for _ in range(n):
        name = rng.choice(pool)
        sock = 2 if name.startswith("$$") else 1 if name.startswith("$") else 0
        if name in seen:
            plain = rng.random() < p_dup
        else:
            plain = rng.random() < 0.65
        if sock == 1:
            op, kind = ("=" if plain else "/="), "type"
        elif sock == 2:
            op, kind = ("=" if plain else "//="), "group"
        elif plain:
            op, kind = "=", rng.choice(["type", "type", "group"])
        else:
            op, kind = rng.choice([("/=", "type"), ("//=", "group")])
        seen.add(name)
        params = rng.sample(PARAM_NAMES, rng.choice([1, 1, 2])) if rng.random() < 0.3 else []
        heads.append((name, op, kind, params))
    ids_plain = {h[0] for h in heads if not h[0].startswith("$")}
    ids_sock = {h[0].lstrip("$") for h in heads if h[0].startswith("$")}
    undef = [u for u in UNDEF_BASE if u not in ids_plain and u not in ids_sock]
    for h in heads:
        undef += [v for v in variants(h[0].lstrip("$")) if v not in ids_plain and v not in ids_sock and v not in RFC_PRELUDE]
    shadow = sorted(i for i in ids_sock if i not in ids_plain and i not in RFC_PRELUDE)
    if p_undef is None:
        p_undef = rng.choice([0.0, 0.0, 0.02, 0.05, 0.1, 0.3])
    g = Gen(rng, [h[0] for h in heads], undef, shadow, p_undef, p_gap=rng.choice([0.0, 0.0, 0.0, 0.05, 0.15, 0.4]))
    rules = []
    all_params = sorted({p for h in heads for p in h[3]})
    for name, op, kind, params in heads:
        g.params = params
        g.other_params = [p for p in all_params if p not in params and p not in ids_plain and p not in ids_sock and p not in RFC_PRELUDE]
        d = rng.choice([0, 1, 1, 2, 2, 3, 4])
        body = g.type_body(d) if kind == "type" else g.group_body(d, op)
        rules.append(Rule(name, op, body, params))
    seps = [rng.choice(SEPS) for _ in range(len(rules) - 1)]
    lead = rng.choice(["", "", "", "\n", "; header zz = int\n", "  "])
    return Case("random", rules, seps, lead)

# ---------------------------------------------------------------------------
# position catalogue: a name planted at every syntactic site
# ---------------------------------------------------------------------------

# contexts with a type hole: (label, builder(fragment, level) -> (fragment, level))
def _p(f, level, want):
    return f if level >= want else ["("] + f + [")"]

TYPE_CTX = [
    ("choice_first", lambda f, l: (_p(f, l, 1) + [" / int"], 0)),
    ("choice_last", lambda f, l: (["int / tstr / "] + _p(f, l, 1), 0)),
    ("paren", lambda f, l: (["("] + f + [")"], 2)),
    ("array_entry", lambda f, l: (["["] + esafe(f) + ["]"], 2)),
    ("array_second", lambda f, l: (["[int, "] + esafe(f) + ["]"], 2)),
    ("array_nocomma", lambda f, l: (["[int "] + esafe(f) + [" tstr]"], 2)),
    ("array_occ_star", lambda f, l: (["[* "] + esafe(f) + ["]"], 2)),
    ("array_occ_range", lambda f, l: (["[2*3 "] + esafe(f) + ["]"], 2)),
    ("array_occ_opt", lambda f, l: (["[?"] + esafe(f) + ["]"], 2)),
    ("map_value_bareword", lambda f, l: (["{k: "] + f + ["}"], 2)),
    ("map_value_bareword_opt", lambda f, l: (["{? zz: "] + f + [", * tstr => any}"], 2)),
    ("map_value_text", lambda f, l: (["{\"k\": "] + f + ["}"], 2)),
    ("map_value_int", lambda f, l: (["{1: "] + f + ["}"], 2)),
    ("map_value_arrow", lambda f, l: (["{\"k\" => "] + f + ["}"], 2)),
    ("map_value_cut", lambda f, l: (["{tstr ^ => "] + f + ["}"], 2)),
    ("map_key_arrow", lambda f, l: (["{"] + esafe(_p(f, l, 1)) + [" => int}"], 2)),
    ("map_key_cut", lambda f, l: (["{"] + esafe(_p(f, l, 1)) + [" ^ => int}"], 2)),
    ("map_key_occ", lambda f, l: (["{* "] + esafe(_p(f, l, 1)) + [" => any}"], 2)),
    ("map_entry_bare", lambda f, l: (["{"] + esafe(f) + ["}"], 2)),
    ("map_second_choice", lambda f, l: (["{k: int // j: "] + f + ["}"], 2)),
    ("array_second_choice", lambda f, l: (["[int // "] + esafe(f) + ["]"], 2)),
    ("inline_group", lambda f, l: (["[("] + esafe(f) + [")]"], 2)),
    ("inline_group_occ", lambda f, l: (["[* (int, "] + esafe(f) + [")]"], 2)),
    ("inline_group_map", lambda f, l: (["{(k: "] + f + [")}"], 2)),
    ("inline_group_nested", lambda f, l: (["[(int, ("] + esafe(f) + [", tstr))]"], 2)),
    ("tag_content", lambda f, l: (["#6.32("] + f + [")"], 2)),
    ("tag_number_type", lambda f, l: (["#6.<"] + f + [">"], 2)),
    ("tag_number_type_content", lambda f, l: (["#6.<int>("] + f + [")"], 2)),
    ("tag_major_content", lambda f, l: (["#6("] + f + [")"], 2)),
    ("tag_any_content", lambda f, l: (["#("] + f + [")"], 2)),
    ("enum_group_value", lambda f, l: (["&(k: "] + f + [")"], 2)),
    ("enum_group_bare", lambda f, l: (["&("] + esafe(f) + [")"], 2)),
    ("generic_arg_first", lambda f, l: ([Ref("", "pair", "helper"), "<"] + _p(f, l, 1) + [", int>"], 2)),
    ("generic_arg_second", lambda f, l: ([Ref("", "pair", "helper"), "<int, "] + _p(f, l, 1) + [">"], 2)),
    ("generic_arg_unwrap", lambda f, l: (["~", Ref("", "pair", "helper"), "<"] + _p(f, l, 1) + [", int>"], 2)),
    ("generic_arg_enum", lambda f, l: (["&", Ref("", "pair", "helper"), "<"] + _p(f, l, 1) + [", int>"], 2)),
    ("generic_arg_group_socket", lambda f, l: (["[", Ref("$$", "g", "helper"), "<"] + _p(f, l, 1) + [">]"], 2)),
    ("generic_arg_key_socket", lambda f, l: (["{", Ref("$", "s", "helper"), "<"] + _p(f, l, 1) + [">: int}"], 2)),
    ("range_lo", lambda f, l: (_p(f, l, 2) + [" .. 5"], 1)),
    ("range_hi", lambda f, l: (["0 .. "] + _p(f, l, 2), 1)),
    ("range_excl_lo", lambda f, l: (_p(f, l, 2) + [" ... 9"], 1)),
    ("range_hi_tight", lambda f, l: (["0.."] + _p(f, l, 2), 1)),
    ("ctl_target", lambda f, l: (_p(f, l, 2) + [" .size 3"], 1)),
    ("ctl_arg_size", lambda f, l: (["uint .size "] + _p(f, l, 2), 1)),
    ("ctl_arg_and", lambda f, l: (["int .and "] + _p(f, l, 2), 1)),
    ("ctl_arg_within", lambda f, l: (["int .within "] + _p(f, l, 2), 1)),
    ("ctl_arg_default", lambda f, l: (["tstr .default "] + _p(f, l, 2), 1)),
    ("ctl_arg_cbor", lambda f, l: (["bstr .cbor "] + _p(f, l, 2), 1)),
    ("ctl_arg_regexp", lambda f, l: (["tstr .regexp "] + _p(f, l, 2), 1)),
    ("ctl_arg_lt", lambda f, l: (["int .lt "] + _p(f, l, 2), 1)),
    ("ctl_arg_eq", lambda f, l: (["int .eq "] + _p(f, l, 2), 1)),
    ("ctl_arg_ne", lambda f, l: (["int .ne "] + _p(f, l, 2), 1)),
    ("ctl_arg_bits", lambda f, l: (["uint .bits "] + _p(f, l, 2), 1)),
    ("ctl_arg_in_paren", lambda f, l: (["uint .size ("] + f + [")"], 1)),
    # comments / line breaks around the hole
    ("c_array_occ", lambda f, l: (["[* ; any number\n  "] + esafe(f) + [" ; end\n]"], 2)),
    ("c_array_occ_range", lambda f, l: (["[2*3 ; some\n "] + esafe(f) + ["]"], 2)),
    ("c_map_value_bareword", lambda f, l: (["{k ; key\n : ; value\n  "] + f + ["}"], 2)),
    ("c_map_value_arrow", lambda f, l: (["{\"k\" ; key\n => ; value\n  "] + f + ["}"], 2)),
    ("c_map_key_arrow", lambda f, l: (["{ ; key\n  "] + esafe(_p(f, l, 1)) + [" ; arrow\n => ; value\n int}"], 2)),
    ("c_map_key_cut", lambda f, l: (["{"] + esafe(_p(f, l, 1)) + [" ; cut\n ^ ; arrow\n => int}"], 2)),
    ("c_generic_arg_first", lambda f, l: ([Ref("", "pair", "helper"), " ; open\n < ; arg\n "] + _p(f, l, 1) + [" ; sep\n , int>"], 2)),
    ("c_generic_arg_second", lambda f, l: ([Ref("", "pair", "helper"), "<int, ; second\n "] + _p(f, l, 1) + [" ; close\n >"], 2)),
    ("c_generic_arg_unwrap", lambda f, l: (["~ ; unwrap\n ", Ref("", "pair", "helper"), " ; open\n <"] + _p(f, l, 1) + [", int>"], 2)),
    ("c_generic_arg_enum", lambda f, l: (["& ; enum\n ", Ref("", "pair", "helper"), "<"] + _p(f, l, 1) + [" ; sep\n , int>"], 2)),
    ("c_range_hi", lambda f, l: (["0 ; lo\n .. ; hi\n "] + _p(f, l, 2), 1)),
    ("c_range_lo", lambda f, l: (_p(f, l, 2) + [" ; lo\n .. 5"], 1)),
    ("c_ctl_arg", lambda f, l: (["uint ; target\n .size ; argument\n "] + _p(f, l, 2), 1)),
    ("c_ctl_target", lambda f, l: (_p(f, l, 2) + [" ; target\n .size 3"], 1)),
    ("c_tag_content", lambda f, l: (["#6.32( ; content\n "] + f + [" ; end\n )"], 2)),
    ("c_tag_number_type", lambda f, l: (["#6.< ; tag type\n "] + f + [" ; end\n >"], 2)),
    ("c_choice", lambda f, l: (["int ; first\n / ; second\n "] + _p(f, l, 1), 0)),
    ("c_paren", lambda f, l: (["( ; open\n "] + f + [" ; close\n )"], 2)),
    ("c_enum_group_value", lambda f, l: (["& ; enum\n ( ; open\n k: "] + f + [")"], 2)),
]

# sites with a name hole
NAME_SITES = [
    ("plain", lambda r: ([r], 2)),
    ("unwrap", lambda r: (["~", r], 2)),
    ("unwrap_generic", lambda r: (["~", r, "<int>"], 2)),
    ("enum_name", lambda r: (["&", r], 2)),
    ("enum_name_generic", lambda r: (["& ", r, "<int>"], 2)),
    ("generic_head", lambda r: ([r, "<int, tstr>"], 2)),
    # the same sites with a comment / a line break wherever S is allowed around the name
    ("unwrap_comment", lambda r: (["~ ; the shared header\n  ", r], 2)),
    ("unwrap_newline", lambda r: (["~\n  ", r], 2)),
    ("unwrap_generic_comment", lambda r: (["~ ; c\n ", r, " ; args\n  <int>"], 2)),
    ("enum_name_comment", lambda r: (["& ; enumerate\n  ", r], 2)),
    ("enum_name_newline", lambda r: (["&\n\t", r], 2)),
    ("enum_name_generic_comment", lambda r: (["&; c\n", r, "; d\n<; e\n int ; f\n>"], 2)),
    ("generic_head_comment", lambda r: ([r, " ; args\n  < ; first\n int ; sep\n , ; second\n tstr ; end\n >"], 2)),
    ("plain_comment_after", lambda r: ([r, " ; trailing\n  "], 2)),
]

# rule-level contexts: (label, op, params, builder(fragment, level) -> body)
RULE_CTX = [
    ("type_rule", "=", [], lambda f, l: f),
    ("type_increment", "/=", [], lambda f, l: f),
    ("type_rule_generic", "=", ["t"], lambda f, l: ["[t, "] + esafe(f) + ["]"]),
    ("group_rule_paren", "=", [], lambda f, l: ["(k: "] + f + [")"]),
    ("group_rule_occ", "=", [], lambda f, l: ["? "] + esafe(f)),
    ("group_increment_bare", "//=", [], lambda f, l: esafe(f)),
    ("group_increment_value", "//=", [], lambda f, l: ["k: "] + f),
    ("group_increment_key", "//=", [], lambda f, l: esafe(_p(f, l, 1)) + [" => int"]),
    ("group_increment_generic", "//=", ["t"], lambda f, l: ["(t, "] + esafe(f) + [")"]),
]

HELPERS = [Rule("pair", "=", B("[`x`, `y`]"), ["x", "y"])]

def plant_case(name_site, ctx_chain, rule_ctx, names, cls, where="middle"):
    """names: list of names planted left to right (one per hole; the hole is duplicated for 2 names)"""
    sl, sb = name_site
    frag, level = sb(N(names[0], "plant:" + sl + "@" + "/".join(c[0] for c in ctx_chain)))
    for lab, cb in ctx_chain:
        frag, level = cb(frag, level)
    if len(names) > 1:
        f2, l2 = sb(N(names[1], "plant2:" + sl))
        frag, level = ["["] + esafe(frag) + [", "] + f2 + ["]"], 2
    rl, op, params, rb = rule_ctx
    target = Rule("r", op, rb(frag, level), params)
    other = Rule("d1", "=", B("`int`"))
    rules = {"first": [target, other], "middle": [other, target], "last": [other, target]}[where] + HELPERS
    if where == "last":
        rules = [other] + HELPERS + [target]
    return Case(cls, rules)

def catalogue(rng, n_deep):
    cases = []
    # every name site x every single context x every rule context: undefined and resolved fillers
    for si, ns in enumerate(NAME_SITES):
        for ci, ctx in enumerate([None] + TYPE_CTX):
            chain = [] if ctx is None else [ctx]
            for ri, rc in enumerate(RULE_CTX):
                if si > 0 and ri > 1 and (si + ci + ri) % 3:
                    continue                    # thin the product for the rarer name sites
                where = ["first", "middle", "last"][(si + ci + ri) % 3]
                cases.append(plant_case(ns, chain, rc, ["zz"], "plant-undef", where))
                filler = ["d1", "int", "t" if rc[2] else "mime-message", "$zz", "pair"][(ci + ri) % 5]
                if filler == "$zz" and ns[0].startswith("enum"):
                    filler = "$$zz"
                cases.append(plant_case(ns, chain, rc, [filler], "plant-resolved", where))
    # all ordered pairs of contexts for the plain name site (depth 2), type rule
    for k1, c1 in enumerate(TYPE_CTX):
        for k2, c2 in enumerate(TYPE_CTX):
            ns = NAME_SITES[0] if not (c1[0].startswith("c_") or c2[0].startswith("c_")) else NAME_SITES[6 + (k1 + k2) % 8]
            cases.append(plant_case(ns, [c1, c2], RULE_CTX[0], ["zz"], "plant-undef-depth2"))
    # random deeper chains (depth 3-4), two planted names: the first in source order must be reported
    for _ in range(n_deep):
        chain = [rng.choice(TYPE_CTX) for _ in range(rng.choice([3, 3, 4]))]
        ns = rng.choice(NAME_SITES)
        rc = rng.choice(RULE_CTX)
        names = rng.choice([["zz"], ["zz", "yy"], ["int", "yy"], ["zz", "int"], ["d1"], ["x"], ["t"], ["pair", "zz"]])
        cases.append(plant_case(ns, chain, rc, names, "plant-deep", rng.choice(["first", "middle", "last"])))
    return cases

# ---------------------------------------------------------------------------
# exhaustive small scope for the duplicate check
# ---------------------------------------------------------------------------

def body_for(op, k, name=""):
    if name.startswith("$$"):
        return B(["(x: `int`)", "`tstr`", "? `int`"][k % 3])
    if name.startswith("$"):
        return B(["`int`", "[`tstr`]", "{k: `tstr`}"][k % 3])
    if op == "//=":
        return B(["(x: `int`)", "`tstr`", "k: `int`"][k % 3])
    if op == "/=":
        return B(["`int`", "[`tstr`]"][k % 2])
    return B(["`int`", "(x: `int`)", "{k: `tstr`}"][k % 3])

def exhaustive_dup():
    cases, scope = [], []
    def seqs(names_ops, maxlen):
        out = [[]]
        layer = [[]]
        for _ in range(maxlen):
            layer = [s + [x] for s in layer for x in names_ops]
            out += layer
        return out
    def add(names, maxlen, label):
        opts = []
        for n in names:
            for op in ("=", "/=", "//="):
                if n.startswith("$$") and op == "/=":
                    continue
                if n.startswith("$") and not n.startswith("$$") and op == "//=":
                    continue
                opts.append((n, op))
        k = 0
        for s in seqs(opts, maxlen):
            rules = [Rule(n, op, body_for(op, i + len(s), n)) for i, (n, op) in enumerate(s)]
            cases.append(Case("exhaustive-dup", rules))
            k += 1
        scope.append("%s: all sequences of 0..%d rules over names %s x syntactically valid operators (%d documents)" % (label, maxlen, names, k))
    add(["a", "b"], 4, "dup-2x3")
    add(["a", "A"], 3, "dup-case")
    add(["a-b", "a.b"], 3, "dup-punct")
    add(["$a", "a"], 4, "dup-type-socket")
    add(["$$g", "g"], 4, "dup-group-socket")
    add(["$a", "$$a"], 3, "dup-both-sockets")
    add(["a", "a_b", "@a"], 3, "dup-3names")
    return cases, scope

# ---------------------------------------------------------------------------
# near misses and prelude table probes
# ---------------------------------------------------------------------------

def near_misses():
    R = Rule
    docs = [
        ("same-name-type-then-group", [R("a", "=", B("`int`")), R("a", "=", B("(x: `int`)"))]),
        ("same-name-group-then-type", [R("a", "=", B("(x: `int`)")), R("b", "=", B("`a`")), R("a", "=", B("`tstr`"))]),
        ("type-increment-then-plain-group", [R("a", "/=", B("`int`")), R("a", "=", B("(x: `int`)"))]),
        ("group-increment-then-plain-type", [R("a", "//=", B("(x: `int`)")), R("a", "=", B("`int`"))]),
        ("group-increment-then-plain-type-far", [R("a", "//=", B("(x: `int`)"))] + [R("f%d" % k, "=", B("`int`")) for k in range(12)] + [R("a", "=", B("`int`"))]),
        ("plain-far-apart", [R("a", "=", B("`int`"))] + [R("f%d" % k, "/=", B("`int`")) for k in range(20)] + [R("a", "=", B("`int`"))]),
        ("late-plain-redefined-late", [R("f%d" % k, "=", B("`int`")) for k in range(10)] + [R("f7", "=", B("`int`"))]),
        ("late-increment-then-plain", [R("f%d" % k, "=", B("`int`")) for k in range(6)] + [R("h", "//=", B("`int`")), R("f9", "=", B("`h`")), R("h", "=", B("`int`"))]),
        ("plain-then-increments", [R("a", "=", B("`int`")), R("a", "/=", B("`tstr`")), R("a", "//=", B("(x: `int`)")), R("a", "/=", B("`bool`"))]),
        ("only-increments", [R("a", "/=", B("`int`")), R("a", "//=", B("`tstr`")), R("a", "/=", B("`bool`")), R("a", "//=", B("k: `int`"))]),
        ("generic-vs-plain", [R("a", "=", B("`t`"), ["t"]), R("a", "=", B("`int`"))]),
        ("plain-vs-generic", [R("a", "=", B("`int`")), R("a", "=", B("`t`"), ["t"])]),
        ("generic-different-params", [R("a", "=", B("`t`"), ["t"]), R("a", "=", B("[`t`, `u`]"), ["t", "u"])]),
        ("generic-increment-ok", [R("a", "=", B("`t`"), ["t"]), R("a", "/=", B("[`u`]"), ["u"])]),
        ("socket-vs-plain-distinct", [R("$a", "=", B("`int`")), R("a", "=", B("`tstr`"))]),
        ("plain-vs-socket-distinct", [R("a", "=", B("`int`")), R("$a", "=", B("`tstr`")), R("$$a", "=", B("(x: `int`)"))]),
        ("socket-dup", [R("$a", "/=", B("`int`")), R("$a", "=", B("`tstr`"))]),
        ("socket-dup-plain-twice", [R("$a", "=", B("`int`")), R("b", "=", B("`$a`")), R("$a", "=", B("`tstr`"))]),
        ("group-socket-dup", [R("$$g", "//=", B("(x: `int`)")), R("$$g", "=", B("(y: `int`)"))]),
        ("group-socket-vs-plain", [R("$$g", "//=", B("(x: `int`)")), R("g", "=", B("(y: `int`)")), R("$g", "=", B("`int`"))]),
        ("case-differs", [R("a", "=", B("`int`")), R("A", "=", B("`int`")), R("b", "=", B("[`a`, `A`]"))]),
        ("case-differs-ref", [R("a", "=", B("`int`")), R("b", "=", B("`A`"))]),
        ("punct-differs", [R("a-b", "=", B("`int`")), R("a.b", "=", B("`int`")), R("a_b", "=", B("`int`")), R("@a", "=", B("`int`")), R("c", "=", B("[`a-b`, `a.b`, `a_b`, `@a`, `ab`]"))]),
        ("prelude-redefined", [R("int", "=", B("`tstr`")), R("b", "=", B("`int`"))]),
        ("prelude-redefined-twice", [R("int", "=", B("`tstr`")), R("uint", "/=", B("`int`")), R("int", "=", B("`bool`"))]),
        ("param-outside-rule", [R("a", "=", B("`t`"), ["t"]), R("b", "=", B("`t`"))]),
        ("param-outside-rule-before", [R("b", "=", B("`t`")), R("a", "=", B("`t`"), ["t"])]),
        ("param-leak-same-name-increment", [R("a", "/=", B("`t`"), ["t"]), R("a", "/=", B("`t`"))]),
        ("param-leak-same-name-increment-rev", [R("a", "/=", B("`t`")), R("a", "/=", B("`t`"), ["t"])]),
        ("param-shadows-rule", [R("t", "=", B("`int`")), R("a", "=", B("`t`"), ["t"]), R("b", "=", B("`t`"))]),
        ("param-shadows-prelude", [R("a", "=", B("[`int`, `uint`]"), ["int"]), R("b", "=", B("`int`"))]),
        ("param-named-like-undefined", [R("a", "=", B("[`zz`]"), ["zz"]), R("b", "=", B("`a`<`zz`>"))]),
        ("param-second-of-two", [R("a", "=", B("{`t` => `u`}"), ["t", "u"]), R("b", "=", B("`a`<`int`, `u`>"))]),
        ("param-in-group-rule", [R("g", "=", B("(k: `t`)"), ["t"]), R("b", "=", B("{`g`<`int`>, `t`}"))]),
        ("param-used-as-own-arg", [R("a", "=", B("`b`<`t`>"), ["t"]), R("b", "=", B("[`u`, `t`]"), ["u"])]),
        ("param-case-differs", [R("a", "=", B("[`t`, `T`]"), ["t"])]),
        ("param-case-differs-upper", [R("a", "=", B("{k: `K`, j: `k`}"), ["K"])]),
        ("param-prefix-of-name", [R("a", "=", B("[`t`, `t1`, `t-x`]"), ["t"])]),
        ("rule-own-name-is-not-param", [R("a", "=", B("[`a`, `t`]"), ["t"])]),
        ("unused-rule-with-undefined", [R("a", "=", B("`int`")), R("unused", "=", B("[`zz`]"))]),
        ("undefined-only-in-later-increment", [R("a", "=", B("`int`")), R("a", "/=", B("`zz`"))]),
        ("forward-reference", [R("a", "=", B("`b`")), R("b", "=", B("`a`"))]),
        ("reference-to-increment-only", [R("a", "=", B("`b`")), R("b", "/=", B("`int`"))]),
        ("reference-to-group-increment-only", [R("a", "=", B("[`g`]")), R("g", "//=", B("(x: `int`)"))]),
        ("socket-refs-never-checked", [R("a", "=", B("[`$x`, &`$$y`, `$$z`, ~`$x`]"))]),
        ("socket-ref-then-undefined", [R("a", "=", B("`$x` / ~`$x` / `zz`"))]),
        ("bareword-key-is-not-a-reference", [R("a", "=", B("{zz: `int`, yy : `tstr`, ? ww: `bool`}"))]),
        ("arrow-key-is-a-reference", [R("a", "=", B("{`zz` => `int`}"))]),
        ("text-and-comment-are-not-references", [R("a", "=", B("\"zz\" / 'yy' ; ww\n / `int`"))]),
        ("comment-between-unwrap-and-name", [R("a", "=", B("~ ; the shared header\n  `hdr`"))]),
        ("comment-between-enum-and-name", [R("a", "=", B("& ; enumerate\n  `colours`"))]),
        ("comment-between-unwrap-and-defined-name", [R("a", "=", B("~ ; the shared header\n  `hdr`")), R("hdr", "=", B("{k: `int`}"))]),
        ("comment-between-enum-and-name-in-array", [R("a", "=", B("[`int`, & ; enumerate\n  `colours`<`int`>]"))]),
        ("comment-between-unwrap-and-name-ctl-arg", [R("a", "=", B("`bstr` .cbor ~ ; c\n `hdr`"))]),
        ("comment-between-name-and-generic-args", [R("a", "=", B("`int` / `p` ; args\n  <`zz`>")), R("p", "=", B("`t`"), ["t"])]),
        ("comment-inside-generic-args", [R("a", "=", B("`p`< ; first\n `int` ; sep\n , `zz` ; end\n >")), R("p", "=", B("[`t`, `u`]"), ["t", "u"])]),
        ("comment-around-arrow-and-colon", [R("a", "=", B("{`kk` ; key\n ^ ; cut\n => ; value\n `int`, k ; c\n : ; d\n `vv`}"))]),
        ("comment-after-occurrence", [R("a", "=", B("[* ; many\n `zz`, ? ; maybe\n `int`]"))]),
        ("first-in-source-order", [R("a", "=", B("[`zz2`, `zz1`]")), R("b", "=", B("`zz0`"))]),
        ("first-in-source-order-later-rule", [R("a", "=", B("[`int`]")), R("b", "=", B("{k: `yy`, `xx` => `int`}"))]),
        ("dup-before-undefined", [R("a", "=", B("`zz`")), R("a", "=", B("`int`"))]),
        ("undefined-before-dup", [R("b", "=", B("`zz`")), R("a", "=", B("`int`")), R("a", "=", B("`int`"))]),
        # the open finding's class and its neighbours
        ("kf-type-socket-base", [R("$a", "=", B("`int`")), R("b", "=", B("`a`"))]),
        ("kf-type-socket-base-increment", [R("b", "=", B("[`a`]")), R("$a", "/=", B("`int`"))]),
        ("kf-group-socket-base", [R("$$g", "//=", B("(x: `int`)")), R("b", "=", B("[`g`]"))]),
        ("kf-group-socket-base-enum", [R("$$g", "//=", B("(x: `int`)")), R("b", "=", B("&`g`"))]),
        ("kf-neighbour-also-plain", [R("$a", "=", B("`int`")), R("a", "=", B("`tstr`")), R("b", "=", B("`a`"))]),
        ("kf-neighbour-socket-ref", [R("$a", "=", B("`int`")), R("b", "=", B("`$a`"))]),
        ("kf-neighbour-then-real-undefined", [R("$a", "=", B("`int`")), R("b", "=", B("[`a`, `zz`]"))]),
        ("kf-neighbour-undefined-first", [R("$a", "=", B("`int`")), R("b", "=", B("[`zz`, `a`]"))]),
        ("empty-document", []),
    ]
    return [Case("near:" + lab, rules) for lab, rules in docs]

def prelude_probes(code_names):
    names = sorted(set(RFC_PRELUDE) | set(code_names) | set(PRELUDE_NEAR))
    cases = []
    for n in names:
        cases.append(Case("prelude-probe", [Rule("a", "=", B("`%s`" % n))]))
        cases.append(Case("prelude-probe", [Rule("a", "=", B("{k: [* `%s`]}" % n))]))
    return cases

def code_prelude():
    spec = importlib.util.spec_from_file_location("prelude_names", os.path.join(common.VERIF, "gen", "prelude_names.py"))
    m = importlib.util.module_from_spec(spec)
    spec.loader.exec_module(m)
    try:
        return m.extract(common.REPO)[1]
    except SystemExit:
        return []

# ---------------------------------------------------------------------------
# grammar tie: where can a typename / groupname occur at all?
# ---------------------------------------------------------------------------

EXPECTED_NAME_SITES = {"typename": ["member_key", "rule", "type2"], "groupname": ["group_entry", "rule", "type2"],
                       "id": ["bareword", "generic_param", "groupname", "typename"]}

def grammar_name_sites():
    """rules of /repo/cddl.pest whose right-hand side mentions typename / groupname / id.
    The position catalogue above was written against exactly these sites: a grammar change that adds a
    site is reported (the catalogue would not place a reference there)."""
    import re
    src = open(os.path.join(common.REPO, "cddl.pest"), encoding="utf-8").read()
    out, i, n = [], 0, len(src)
    while i < n:                                  # blank out string literals and // comments
        ch = src[i]
        if ch == '"':
            j = i + 1
            while j < n and src[j] != '"':
                j += 2 if src[j] == "\\" else 1
            out.append('""')
            i = j + 1
        elif ch == "'" and i + 2 < n and src[i + 2] == "'":
            out.append("''")
            i += 3
        elif src.startswith("//", i):
            while i < n and src[i] != "\n":
                i += 1
        else:
            out.append(ch)
            i += 1
    clean = "".join(out)
    heads = list(re.finditer(r"^([A-Za-z_][A-Za-z0-9_]*)\s*=\s*[_@$!]?\s*\{", clean, flags=re.M))
    sites = {k: [] for k in EXPECTED_NAME_SITES}
    for k, m in enumerate(heads):
        body = clean[m.end():heads[k + 1].start() if k + 1 < len(heads) else len(clean)]
        for name in sites:
            if re.search(r"(?<![A-Za-z0-9_])%s(?![A-Za-z0-9_])" % name, body):
                sites[name].append(m.group(1))
    return {k: sorted(v) for k, v in sites.items()}

# ---------------------------------------------------------------------------
# running
# ---------------------------------------------------------------------------

SLICE_PRE = "From Cddl Require Import Rules.Doc Rules.RefCheck.\nLocal Open Scope N_scope."

def evaluate(cases, drv, orc):
    impl = common.run_tool(drv, ["P\t" + c.text.hex() for c in cases])
    model = common.run_tool(orc, [c.model_line() for c in cases])
    return impl, model

def judge(c, impl_line, model_line):
    """returns (status, detail): status in ok | violation"""
    ip = impl_line.split("\t")
    mp = model_line.split("\t")
    if len(ip) != 2 or len(mp) != 4:
        return "violation", "malformed output: implementation %r, model %r" % (impl_line, model_line)
    want_plain, want_checked, want_spec = c.expect(mp[0]), c.expect(mp[1]), c.expect(mp[2])
    if ip[0] != want_plain:
        return "violation", "cddl_from_str: implementation `%s`, model (duplicate check, theorem dup_spec) `%s`" % (ip[0], want_plain)
    if want_checked != want_spec:
        return "violation", ("internal: model `%s` differs from the executable specification `%s` (contradicts theorem refcheck_eq_spec; "
                             "stale extraction?)") % (want_checked, want_spec)
    if ip[1] == want_spec:
        return "ok", ""
    extra = ""
    if mp[3] == "1":
        extra = (" [the document is of the socket-shadow class: a reference resolved only by the identifier of a `$x` / `$$x` rule head; "
                 "the defect repaired in /repo commit a8c9ab3 has returned?]")
    return "violation", "CDDL::from_slice: implementation `%s`, model = specification (theorem refcheck_spec) `%s`%s" % (ip[1], want_spec, extra)

# witnesses of repaired findings: run first on every run; a relapse is a VIOLATION
FIXED_WITNESSES = [
    ("a8c9ab3:type-socket-head", [("$a", "=", "`int`"), ("b", "=", "`a`")]),
    ("a8c9ab3:type-socket-increment-later", [("b", "=", "[`a`]"), ("$a", "/=", "`int`")]),
    ("a8c9ab3:group-socket-head", [("$$g", "//=", "(x: `int`)"), ("b", "=", "[`g`]")]),
    ("a8c9ab3:group-socket-head-enum", [("$$g", "//=", "(x: `int`)"), ("b", "=", "&`g`")]),
]

def fixed_witnesses():
    return [Case("fixed-witness:" + lab, [Rule(n, op, B(body)) for n, op, body in rules]) for lab, rules in FIXED_WITNESSES]

def own_findings():
    kfs = [k for k in common.known_findings(PROP)]
    if not kfs:
        p = os.path.join(common.VERIF, "findings.d", PROP + ".json")
        if os.path.exists(p):
            kfs = [e for e in json.load(open(p)).get("findings", []) if e.get("status") == "open"]
    return kfs

def witness_case(kf):
    rules = [Rule(r["name"], r["op"], B(r["body"]), r.get("params", [])) for r in kf["witness"]["rules"]]
    return Case("witness:" + kf["id"], rules)

def run(tier, seed):
    res = Result(PROP, tier, seed)
    proved = common.prove(res, PROP, PROP_FILE, [EXTRACT])
    if not proved:
        common.coq_build([EXTRACT])          # the models do not depend on the proofs: keep the oracle current
    drv = common.build_harness("c12")
    orc = common.build_oracle("rules", ["rules_model"])
    rng = random.Random(seed)
    n_random = 6000 if tier == "quick" else 150000
    n_deep = 1500 if tier == "quick" else 40000
    if not proved:
        n_random *= 3
        n_deep *= 3
    code_names = code_prelude()
    kfs = own_findings()
    witnesses = [witness_case(k) for k in kfs]
    ex_cases, ex_scope = exhaustive_dup()
    cases = witnesses + fixed_witnesses() + near_misses() + prelude_probes(code_names) + ex_cases + catalogue(rng, n_deep)
    n_fixed = len(cases)
    cases += [random_doc(rng) for _ in range(n_random)]
    impl, model = evaluate(cases, drv, orc)

    hist, verdicts, sites_undef, sites_all, nrules_hist = {}, {}, {}, {}, {}
    distinct, shadow_class = set(), 0
    syntax_unexpected = 0
    for k, (c, a, b) in enumerate(zip(cases, impl, model)):
        cls = c.cls.split(":")[0]
        hist[cls] = hist.get(cls, 0) + 1
        nrules_hist[len(c.rules)] = nrules_hist.get(len(c.rules), 0) + 1
        status, detail = judge(c, a, b)
        ip = a.split("\t")
        v = (ip[1] if len(ip) == 2 else a).split(" ")[0]
        verdicts[v] = verdicts.get(v, 0) + 1
        for ss in c.ref_sites:
            for s in ss:
                key = s.split("@")[0]
                sites_all[key] = sites_all.get(key, 0) + 1
        mp = b.split("\t")
        if len(mp) == 4:
            shadow_class += mp[3] == "1"
            s = c.site_of(mp[1])
            if s:
                sites_undef[s.split("@")[0]] = sites_undef.get(s.split("@")[0], 0) + 1
        if len(c.rules) >= 2 or any(c.ref_pos):
            distinct.add(c.text)
        if status == "ok":
            continue
        if a.startswith("CRASH") or "PANIC" in a:
            detail = "implementation crashed: " + a
        if "SYNTAX" in a:
            syntax_unexpected += 1
        res.violation(detail + "\n" + c.text.decode(), c.replay_dict())

    # open findings (none at present): replay the witness (first cases of the batch); a witness that still fails
    # has already been recorded as a violation above unless the finding is open
    for kf, c, a, b in zip(kfs, witnesses, impl, model):
        status, detail = judge(c, a, b)
        if status == "ok":
            res.notes.append("finding %s apparently repaired: %s -> %s" % (kf["id"], c.text.decode().replace("\n", " | "), a))

    # vm_compute slice: guards extraction
    sl_idx = sorted(rng.sample(range(n_fixed, len(cases)), min(140, len(cases) - n_fixed)) +
                    rng.sample(range(0, n_fixed), 40))
    sl = [cases[i] for i in sl_idx if len(cases[i].text) < 700][:120]
    try:
        vm = common.vm_compute_slice(PROP, SLICE_PRE, [c.gallina() for c in sl])
        orc_sl = common.run_tool(orc, [c.model_line() for c in sl], shards=1)
        bad = [(c.model_line(), x, y) for c, x, y in zip(sl, vm, orc_sl) if x != y]
        if bad:
            res.violation("extracted oracle and vm_compute disagree on %s: %r vs %r" % bad[0], {"kind": "extraction", "case": list(bad[0])}, no_input=True)
    except RuntimeError as e:
        if proved:
            res.violation("vm_compute slice failed: %s" % str(e)[-400:], {"kind": "vm-slice"}, no_input=True)
        sl = []
    try:
        sites = grammar_name_sites()
    except OSError as e:
        sites = {"error": str(e)}
    if sites != EXPECTED_NAME_SITES and not res.violations:
        res.violation("cddl.pest: the rules in which typename / groupname / id occur changed: %r (expected %r); the position "
                      "catalogue and the abstraction of documents were written against the expected sites" % (sites, EXPECTED_NAME_SITES),
                      {"kind": "grammar-sites", "found": sites, "expected": EXPECTED_NAME_SITES}, no_input=True)
    if not proved and not res.violations:
        res.violation(res.proof_broken, {"kind": "proof-obligation", "detail": res.proof_broken}, no_input=True)
    n_err = sum(v for k, v in verdicts.items() if k != "OK")
    res.coverage.update({
        "evaluations": len(cases),
        "distinct_nontrivial": len(distinct),
        "rule": "distinct document texts with at least two rules or at least one reference; every document is parsed by "
                "cddl_from_str and CDDL::from_slice and its abstract description (rule heads, operators, generic parameters, "
                "references in source order) is run through the extracted Coq model and the executable specification; "
                "verdict, reported name, line and byte offset are compared",
        "exhaustive": True,
        "exhaustive_scope": ex_scope + ["position catalogue: %d name sites x (no context + %d one-level contexts) x %d rule contexts (thinned for the rarer name sites), undefined and resolved fillers; all %d ordered pairs of contexts at depth 2"
                                        % (len(NAME_SITES), len(TYPE_CTX), len(RULE_CTX), len(TYPE_CTX) ** 2),
                                        "prelude table: every name of RFC 8610 Appendix D, of the code's table, and %d near-miss spellings, each at two sites" % len(PRELUDE_NEAR)],
        "class_histogram": hist,
        "verdict_split": verdicts,
        "rules_per_document": {str(k): v for k, v in sorted(nrules_hist.items())},
        "reference_sites_generated": sites_all,
        "reference_sites_reported_undefined": sites_undef,
        "socket_shadow_class_documents": shadow_class,
        "unexpected_syntax_errors": syntax_unexpected,
        "vm_compute_slice": len(sl),
        "prelude_names_in_code": len(code_names),
        "grammar_name_sites": sites,
        "samples": [{"class": c.cls, "text": c.text.decode(), "impl": a, "model": b}
                    for c, a, b in list(zip(cases, impl, model))[n_fixed:n_fixed + 6]],
    })
    res.assumptions = ["the pest parse tree of a generated text has exactly the rules, generic parameters and typename/groupname "
                       "occurrences the generator recorded (tied on every run: a mismatch shows as a verdict/position difference)",
                       "HashMap/HashSet<String> behave as finite maps/sets keyed by string equality (modelled as association lists)",
                       "the checker's prelude set is the constant table found by gen/prelude_names.py (the translator fails if "
                       "find_first_undefined_reference stops building it from that table); validated by the prelude probes"]
    if n_err * 10 < len(cases) or verdicts.get("OK", 0) * 10 < len(cases):
        res.notes.append("generator verdict split is lopsided: %r" % verdicts)
    return res.finish()

def replay(path):
    r = json.load(open(path))["replay"]
    if "text_hex" not in r:
        print("replay file carries no input (%s)" % r.get("kind"))
        return 0
    drv = common.build_harness("c12")
    common.coq_build([EXTRACT])
    orc = common.build_oracle("rules", ["rules_model"])
    print("text  :", json.dumps(r["text"]))
    print("impl  :", common.run_tool(drv, ["P\t" + r["text_hex"]])[0])
    print("model :", common.run_tool(orc, [r["model_line"]])[0], " (plain, checked [model of the code], checked [specification], classifier; positions are (rule, reference) indices)")
    print("vm    :", common.vm_compute_slice(PROP, SLICE_PRE, [r["gallina"]])[0])
    print("rule offsets:", r["rule_pos"], " reference offsets:", r["ref_pos"])
    return 0
