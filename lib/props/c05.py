"""C05 - no entry point panics, aborts, overflows the stack or hangs (DESIGN.md 6, C05).

Proof part: Props/C05.v (alias chasing, allocation of the fixed decoder, decoder fuel, partial
arithmetic).  Run part (the main body): every public entry point is executed by the driver
harness/src/bin/c05.rs, one case per line, under catch_unwind, an address-space limit, an 8 MiB
stack and a per-case watchdog, in a release and a debug build.  A crash / panic / hang is either
explained by the narrow classifier of an open finding (KNOWN-FINDING) or it is a VIOLATION.
"""
import json, os, random, re, shutil, subprocess, time
from concurrent.futures import ThreadPoolExecutor
from .. import common
from ..common import Result

PROP = "C05"
PROP_FILE = "theories/Props/C05.v"
AS_LIMIT = 1 << 30          # RLIMIT_AS for the driver: 1 GiB
STACK_LIMIT = 8 << 20       # RLIMIT_STACK: 8 MiB (the main thread runs the cases)
ENTRY = {"P": "parse (cddl_from_str)", "S": "checked parse (CDDL::from_slice)", "F": "format (to_string)",
         "J": "validate_json_from_str", "C": "validate_cbor_from_slice", "V": "validate_csv_from_str", "D": "decode_cbor"}


# ---------------------------------------------------------------------------
# running the driver
# ---------------------------------------------------------------------------

def _limits():
    import resource
    resource.setrlimit(resource.RLIMIT_AS, (AS_LIMIT, AS_LIMIT))
    resource.setrlimit(resource.RLIMIT_STACK, (STACK_LIMIT, STACK_LIMIT))
    resource.setrlimit(resource.RLIMIT_CORE, (0, 0))


def _cmd(binary):
    pr = shutil.which("prlimit")
    if pr:
        return [pr, "--as=%d" % AS_LIMIT, "--stack=%d" % STACK_LIMIT, "--core=0", binary], None
    return [binary], _limits


def parse_line(l):
    f = l.split("\t")
    r = {"v": f[0], "wall": 0, "cpu": 0, "detail": ""}
    try:
        r["wall"] = int(f[1]); r["cpu"] = int(f[2])
    except (IndexError, ValueError):
        pass
    r["detail"] = "\t".join(f[3:])
    return r


def run_cases(binary, lines, case_ms=4000, shards=common.NPROC, per_shard=120, extra_env=None):
    """Feed `lines` to the driver; returns result dicts aligned with `lines`.
    v in OK ERR PANIC TIMEOUT STACK ALLOC CRASH HANG.  A process that dies is restarted after
    the case that killed it; a case past its deadline is reported by the driver's watchdog
    (TIMEOUT) or, as a backstop, by the Python-side timeout (HANG)."""
    if not lines:
        return []
    n = len(lines)
    shards = max(1, min(shards, (n + per_shard - 1) // per_shard))
    # interleave so that expensive neighbours spread over the shards
    idx = [list(range(s, n, shards)) for s in range(shards)]
    cmd, pre = _cmd(binary)
    env = dict(os.environ)
    env["VERIF_CASE_MS"] = str(case_ms)
    env["RUST_BACKTRACE"] = "0"      # an allocator abort otherwise symbolises a backtrace (slow, and not ours to time)
    if extra_env:
        env.update(extra_env)

    def one(ix):
        res = {}
        todo = list(ix)
        while todo:
            inp = "\n".join(lines[i] for i in todo) + "\n"
            p = subprocess.Popen(cmd, stdin=subprocess.PIPE, stdout=subprocess.PIPE, stderr=subprocess.PIPE,
                                 env=env, preexec_fn=pre)
            hung = False
            try:
                out, err = p.communicate(inp.encode(), timeout=case_ms / 1000.0 * 10 + 1.0 * len(todo) + 120)
            except subprocess.TimeoutExpired:
                p.kill()
                out, err = p.communicate()
                hung = True
            # result lines are marked "@@\t"; anything else is the library's own printing to stdout
            outl = [l[3:] for l in out.decode("utf-8", "replace").split("\n") if l.startswith("@@\t")]
            for i, l in zip(todo, outl):
                res[i] = parse_line(l)
            k = len(outl)
            if k >= len(todo):
                break
            if outl and outl[-1].startswith("TIMEOUT"):
                todo = todo[k:]
                continue
            tail = err.decode("utf-8", "replace")[-3000:]
            if hung:
                v = "HANG"
            elif "has overflowed its stack" in tail:
                v = "STACK"
            elif "memory allocation of" in tail:
                v = "ALLOC"
            else:
                v = "CRASH"
            m = re.search(r"memory allocation of (\d+) bytes failed", tail)
            res[todo[k]] = {"v": v, "wall": 0, "cpu": 0, "detail": "rc=%s%s" % (p.returncode, " alloc=%s" % m.group(1) if m else "")}
            todo = todo[k + 1:]
        return res

    with ThreadPoolExecutor(max_workers=shards) as ex:
        parts = list(ex.map(one, idx))
    merged = {}
    for p in parts:
        merged.update(p)
    return [merged.get(i, {"v": "CRASH", "wall": 0, "cpu": 0, "detail": "no output"}) for i in range(n)]


def hx(s):
    return (s if isinstance(s, bytes) else s.encode("utf-8", "surrogatepass")).hex()


def line_of(case):
    """case = dict(ep=..., schema=str|None, doc=str|bytes|None)"""
    ep = case["ep"]
    if ep in ("P", "S", "F", "G"):
        return "%s\t%s" % (ep, hx(case["schema"]))
    if ep == "D":
        return "D\t%s%s" % (hx(case["doc"]), "\t%d" % case["reps"] if case.get("reps") else "")
    if ep == "V":
        return "V\t%s\t%s\t%s" % (hx(case["schema"]), hx(case["doc"]), "1" if case.get("header") else "0")
    return "%s\t%s\t%s" % (ep, hx(case["schema"]), hx(case["doc"]))


def replay_of(case, profile, r):
    d = {"ep": case["ep"], "profile": profile, "family": case.get("fam", ""), "observed": r["v"], "detail": r["detail"][:300]}
    if case.get("schema") is not None:
        d["schema"] = case["schema"] if len(case["schema"]) < 4000 else None
        d["schema_hex"] = hx(case["schema"])
    if case.get("doc") is not None:
        d["doc_hex"] = hx(case["doc"])
    if case.get("header"):
        d["header"] = True
    return d


# ---------------------------------------------------------------------------
# alias / reference graphs of a schema (read off the crate's AST by the driver, command G)
# ---------------------------------------------------------------------------

class Ids(dict):
    """identifier -> small integer (the Coq model's names are N)"""
    def of(self, name):
        if name not in self:
            self[name] = len(self) + 1
        return self[name]


def parse_graph(alias_s, refs_s, starts_s, cfg_s=""):
    alias, refs, flags, gen_edges = [], [], {}, set()
    for ent in [e for e in alias_s.split(";") if e]:
        n, _, cs = ent.partition(":")
        alias.append((n, [None if c == "-" else c for c in cs.split(",") if c != ""]))
    for ent in [e for e in refs_s.split(";") if e]:
        head, _, rs = ent.partition(":")
        n, _, fl = head.partition("|")
        ts = []
        for r in [x for x in rs.split(",") if x]:
            if r.endswith("^"):
                r = r[:-1]
                gen_edges.add((n, r))
            ts.append(r)
        refs.append((n, ts))
        flags[n] = flags.get(n, "") + fl
    gc = set(n for n, f in flags.items() if "(" in f and "/" in f)
    gcalt = [(n, [t for t in ts if t in gc]) for n, ts in refs if n in gc]
    grp = set(n for n, f in flags.items() if "(" in f)
    groups = [(n, [t for t in ts if t in grp]) for n, ts in refs if n in grp]
    return {"alias": alias, "refs": refs, "flags": flags, "gen_edges": gen_edges, "gcalt": gcalt, "groups": groups,
            "starts": sorted(set(x for x in starts_s.split(",") if x)), "cfg": sorted(set(x for x in cfg_s.split(",") if x))}


def adjacency(env):
    adj = {}
    for n, ts in env:
        adj.setdefault(n, set()).update(t for t in ts if t is not None)
    return adj


def reaches(adj, a, b):
    """is there a non-empty path a -> ... -> b"""
    seen, todo = set(), list(adj.get(a, ()))
    while todo:
        x = todo.pop()
        if x == b:
            return True
        if x in seen:
            continue
        seen.add(x)
        todo.extend(adj.get(x, ()))
    return False


def cyclic(env):
    adj = adjacency(env)
    return any(reaches(adj, n, n) for n in adj)


def generic_cycle(g):
    """a reference cycle that passes through a generic instantiation or a generic argument"""
    adj = adjacency(g["refs"])
    return any(u == v or reaches(adj, v, u) for (u, v) in g["gen_edges"])


def oracle_line(hits, env, start, ids):
    h = "|".join((",".join(str(ids.of(x)) for x in hs) if hs else "-") for hs in hits)
    e = ";".join("%d:%s" % (ids.of(n), ",".join("-" if t is None else str(ids.of(t)) for t in ts)) for n, ts in env)
    return "A\t%s\t%s\t%d" % (h, e, ids.of(start))


def coq_env(env, ids):
    return "[" + "; ".join("(%d, [%s])" % (ids.of(n), "; ".join("Other" if t is None else "Alias %d" % ids.of(t) for t in ts))
                           for n, ts in env) + "]%N"


class Graphs:
    """alias / reference environments of schemas and the Coq functions acyclic_alias / chase_seq /
    calls evaluated on them by the extracted oracle; batched."""

    def __init__(self, drv, orc):
        self.drv, self.orc = drv, orc
        self.g = {}
        self.q = {}

    def prefetch(self, schemas):
        todo = [s for s in dict.fromkeys(schemas) if s not in self.g]
        # (a schema whose parse does not return has no graph: the nesting classifiers look at its text only)
        rs = run_cases(self.drv, [line_of({"ep": "G", "schema": s}) for s in todo], case_ms=1500, per_shard=4)
        for s, r in zip(todo, rs):
            g = None
            if r["v"] == "OK":
                f = r["detail"].split("\t") + ["", "", "", ""]
                g = parse_graph(f[0], f[1], f[2], f[3])
            self.g[s] = g
        lines = []
        for s in todo:
            g = self.g[s]
            if g is None or len(g["refs"]) > 400:
                continue
            ids = Ids()
            if g["refs"]:
                lines.append(((s, "root", None), oracle_line([[]], g["refs"], g["refs"][0][0], ids)))
        outs = common.run_tool(self.orc, [l for _, l in lines]) if lines else []
        for (k, _), o in zip(lines, outs):
            f = o.split(" ")
            self.q[k] = (f[0] == "1", f[1], int(f[2], 16)) if len(f) == 3 else (True, "?", 0)

    def get(self, schema):
        if schema not in self.g:
            self.prefetch([schema])
        return self.g[schema]


# ---------------------------------------------------------------------------
# classification of crashes: open findings with narrow classifiers
# ---------------------------------------------------------------------------

def src_line(path, n):
    try:
        with open(path) as f:
            return f.read().split("\n")[n - 1]
    except (OSError, IndexError):
        return ""


def panic_site(detail):
    m = re.match(r"(\S+):(\d+) (.*)", detail)
    if not m:
        return "", 0, detail
    return m.group(1), int(m.group(2)), m.group(3)


def doc_text(doc):
    if doc is None:
        return ""
    return doc if isinstance(doc, str) else doc.decode("utf-8", "replace")


def json_ints(doc):
    return [int(x) for x in re.findall(r"(?<![\w.])-?\d+(?![\w.])", doc_text(doc))][:50]


def strip_literals(schema):
    t = re.sub(r'"(?:\\.|[^"\\])*"', '""', schema)
    t = re.sub(r"(?:h|b64)?'(?:\\.|[^'\\])*'", "''", t)
    return re.sub(r";[^\n]*", "", t)


def nest_depth(schema):
    """(deepest nesting of [ { ( < in the schema text, number of brackets still open at its end)"""
    d = mx = 0
    for ch in strip_literals(schema):
        if ch in "[{(<":
            d += 1
            mx = max(mx, d)
        elif ch in "]})>" and d > 0:
            d -= 1
    return mx, d


def classify(case, r, profile, graphs):
    """Returns the id of the open finding whose classifier holds on this failing case, else None."""
    v = r["v"]
    schema = case.get("schema")
    if v == "PANIC":
        f, ln, msg = panic_site(r["detail"])
        # the location is the absolute path of the source the driver was compiled from
        code = src_line(f, ln) if "/src/validator/" in f else ""
        if "/abnf_to_pest-" in f and schema and ".abnf" in schema:
            return "kf-c05-abnf-to-pest-panic"
        if "/pest_meta-" in f and f.endswith("/src/parser.rs") and "incorrect string literal" in msg and schema and ".abnf" in schema \
                and re.search(r"%x(?:[dD][89a-fA-F][0-9a-fA-F]{2}|0*1[1-9a-fA-F][0-9a-fA-F]{4}|0*[2-9a-fA-F][0-9a-fA-F]{5,})", schema):
            return "kf-c05-abnf-invalid-scalar-panic"
        if profile == "debug" and "assertion failed: self.map_entry_candidates.is_none()" in msg \
                and "debug_assert!(self.map_entry_candidates.is_none())" in code and case["ep"] in ("J", "C", "V"):
            return "kf-c05-map-entry-candidates-assert"
        return None
    if v in ("TIMEOUT", "HANG") and schema is not None:
        depth, still_open = nest_depth(schema)
        if still_open >= 14:
            return "kf-c05-parse-exponential-nesting"
        if case["ep"] == "F" and depth >= 16:
            return "kf-c05-display-exponential-nesting"
        if case["ep"] in ("P", "S") and depth >= 30:
            return "kf-c05-parse-exponential-nesting"
        if case["ep"] in ("J", "C", "V") and depth >= 16:
            return "kf-c05-validate-exponential-nesting"
    if v in ("STACK", "ALLOC", "TIMEOUT", "HANG") and schema is not None and case["ep"] in ("J", "C", "V"):
        g = graphs.get(schema)
        if g is None:
            return None
        if v in ("STACK", "TIMEOUT", "HANG"):
            if cyclic(g["gcalt"]):
                return "kf-c05-group-choice-alternate-cycle"
            gadj = adjacency(g["groups"])
            if any(reaches(gadj, x, x) or any(reaches(gadj, y, y) for y in gadj if reaches(gadj, x, y)) for x in g["cfg"]):
                return "kf-c05-choice-from-group-cycle"
        if generic_cycle(g):
            return "kf-c05-generic-cycle"
        if v == "STACK" and ".abnf" in schema and not cyclic(g["refs"]):
            return "kf-c05-abnf-left-recursion-stack"
        if v in ("TIMEOUT", "HANG"):
            acyc, _, calls = graphs.q.get((schema, "root", None), (False, "?", 0))
            if acyc and calls >= (1 << 16):
                return "kf-c05-exponential-choice-paths"
    return None


# ---------------------------------------------------------------------------
# generators
# ---------------------------------------------------------------------------

JDOCS = ['1', '"abc"', '[1]', '{"a":1}', 'null', 'true', '1.5', '[]', '{}', '-1', '[1,"a"]', '[[1]]']
CDOCS = ['01', '63616263', '8101', 'a1616101', 'f6', 'f5', 'f93e00', '80', 'a0', 'c101', '4101', '20', '820161 61'.replace(" ", "")]


def cbor_head(major, width, n):
    if width == 0:
        return bytes([major << 5 | n])
    return bytes([major << 5 | {1: 24, 2: 25, 4: 26, 8: 27}[width]]) + n.to_bytes(width, "big")


def cbor_text(t):
    b = t.encode("utf-8", "surrogatepass")
    n = len(b)
    w = 0 if n < 24 else 1 if n < 256 else 2 if n < 65536 else 4
    return cbor_head(3, w, n) + b


def gen_heads(tier):
    """(b) hostile CBOR heads: every major x every head width x announced lengths 2^k-1, 2^k, 2^k+1,
    truncated after the head, with a few bytes after it, and nested in containers."""
    out = []
    for major in range(8):
        for width in (0, 1, 2, 4, 8):
            if width == 0:
                vals = list(range(24)) + [31]
            else:
                vals = sorted(set(v for k in range(8 * width + 1) for v in ((1 << k) - 1, 1 << k, (1 << k) + 1)
                                  if 0 <= v < (1 << (8 * width))))
            for n in vals:
                h = cbor_head(major, width, n) if not (width == 0 and n == 31) else bytes([major << 5 | 31])
                out.append(("head/truncated", h))
                out.append(("head/+3", h + b"\x00\x01\x02"))
                out.append(("head/in-array", b"\x81" + h))
                out.append(("head/in-indef", b"\x9f" + h + b"\xff"))
                if tier == "thorough" or width in (0, 8) or n in (0, 1, 23, 24, 255, 256, 65535, 65536):
                    out.append(("head/in-tag", b"\xc1" + h))
                    out.append(("head/in-map-key", b"\xa1" + h))
                    out.append(("head/in-map-val", b"\xa1\x00" + h))
                    out.append(("head/as-chunk", bytes([0x5f if major != 3 else 0x7f]) + h))
                    out.append(("head/twice", h + h))
    # heads whose payload is present up to the chunking boundary of read_len
    for n in (4095, 4096, 4097, 8191, 8192, 8193, 12288, 65535):
        for have in (n - 1, n, n + 1):
            for major in (2, 3):
                out.append(("head/chunk-boundary", cbor_head(major, 4, n) + b"a" * have))
    return out


def nest_cbor(kind, d):
    if kind == "arr":
        return b"\x81" * d + b"\x00"
    if kind == "map":
        return b"\xa1\x00" * d + b"\x00"
    if kind == "mapkey":
        return b"\xa1" * d + b"\x00" + b"\x00" * d
    if kind == "tag":
        return b"\xc1" * d + b"\x00"
    if kind == "indef":
        return b"\x9f" * d + b"\x00" + b"\xff" * d
    if kind == "indefmap":
        return b"\xbf\x00" * d + b"\x00" + b"\xff" * d
    if kind == "unterminated":
        return b"\x9f" * d
    return b"\x5f" * d


def nest_json(kind, d):
    if kind == "arr":
        return "[" * d + "1" + "]" * d
    if kind == "obj":
        return '{"a":' * d + "1" + "}" * d
    if kind == "mixed":
        return '[{"a":' * d + "1" + "}]" * d
    return "[" * d


def nest_schema(kind, d):
    if kind == "arr":
        return "a = " + "[" * d + "int" + "]" * d
    if kind == "map":
        return "a = " + "{a: " * d + "int" + "}" * d
    if kind == "paren":
        return "a = " + "(" * d + "int" + ")" * d
    if kind == "group":
        return "a = [" + "(" * d + "int" + ")" * d + "]"
    if kind == "mapgroup":
        return "a = {" + "(" * d + "a: int" + ")" * d + "}"
    if kind == "tag":
        return "a = " + "#6.1(" * d + "int" + ")" * d
    if kind == "choice":
        return "a = " + "(int / " * d + "tstr" + ")" * d
    if kind == "generic":
        return "g<t> = [t]\na = " + "g<" * d + "int" + ">" * d
    if kind == "rules":
        return "".join("r%d = [r%d]\n" % (i, i + 1) for i in range(d)) + "r%d = int\n" % d
    if kind == "grules":
        return "r0 = [g0]\n" + "".join("g%d = (g%d)\n" % (i, i + 1) for i in range(d)) + "g%d = (int)\n" % d
    return "a = " + "[" * d


SCHEMA_NEST = ["arr", "map", "paren", "group", "mapgroup", "tag", "choice", "generic", "rules", "grules", "open"]
REC_SCHEMAS = ["a = any", "a = [* a] / int", "a = {* tstr => a} / int", "a = #6.1(a) / int / [a]", "a = [a] / {a: a} / int"]


def gen_depth(depths, tier, schema_depths=None):
    """(b) nesting depth of documents and schemas"""
    out = []
    for d in depths:
        for k in ("arr", "map", "mapkey", "tag", "indef", "indefmap", "unterminated", "bstr"):
            doc = nest_cbor(k, d)
            out.append({"ep": "D", "doc": doc, "fam": "depth/cbor-" + k, "depth": d})
            for s in (REC_SCHEMAS if tier == "thorough" or d in (1, 8, 64) else REC_SCHEMAS[:2]):
                out.append({"ep": "C", "schema": s, "doc": doc, "fam": "depth/cbor-" + k, "depth": d})
        for k in ("arr", "obj", "mixed", "open"):
            doc = nest_json(k, d)
            for s in (REC_SCHEMAS if tier == "thorough" or d in (1, 8, 64) else REC_SCHEMAS[:3]):
                out.append({"ep": "J", "schema": s, "doc": doc, "fam": "depth/json-" + k, "depth": d})
        for k in (SCHEMA_NEST if (schema_depths is None or d in schema_depths) else []):
            s = nest_schema(k, d)
            for ep in "PSF":
                out.append({"ep": ep, "schema": s, "fam": "depth/schema-" + k, "depth": d})
            out.append({"ep": "J", "schema": s, "doc": nest_json("arr", d), "fam": "depth/schema-" + k, "depth": d})
            out.append({"ep": "J", "schema": s, "doc": nest_json("obj", d), "fam": "depth/schema-" + k, "depth": d})
            out.append({"ep": "C", "schema": s, "doc": nest_cbor("arr", d), "fam": "depth/schema-" + k, "depth": d})
            out.append({"ep": "C", "schema": s, "doc": nest_cbor("tag", d), "fam": "depth/schema-" + k, "depth": d})
        out.append({"ep": "V", "schema": "a = [* [* any]]", "doc": ",".join(["x"] * d) + "\n", "fam": "depth/csv", "depth": d})
    return out


# positions of a name X in the root rule; X enters a cycle (or is ill-typed, or undefined)
POS = [
    "{X}", "{X} .size 3", "tstr .size {X}", "{X} .and int", "int .and {X}", "{X} .within int", "int .within {X}",
    "{X} .eq 1", "{X} .ne 1", "{X} .lt 1", "{X} .le 1", "{X} .gt 1", "{X} .ge 1", "int .lt {X}", "int .eq {X}", "tstr .ne {X}",
    "{X} .regexp \"a\"", "tstr .regexp {X}", "{X} .pcre \"a\"", "tstr .pcre {X}", "{X} .default 1", "int .default {X}",
    "{X}..5", "1..{X}", "{X}...5", "{X}..{X}", "~{X}", "&{X}", "&({X})", "[{X}]", "[* {X}]", "[+ {X}]", "[? {X}]", "[2*3 {X}]",
    "[int, {X}]", "[{X}, int]", "[* {X}, int]", "{{ {X} }}", "{{ * {X} }}", "{{ {X} => int }}", "{{ * {X} => int }}", "{{ + {X} => {X} }}",
    "{{ a: {X} }}", "{{ ? a: {X} }}", "{{ {X}: int }}", "{{ * tstr => {X} }}", "{{ a: int, {X} }}", "({X})", "[({X})]", "[* ({X})]",
    "{{ ({X}) }}", "[({X} // int)]", "{X} / int", "int / {X}", "int / {X} / tstr", "#6.1({X})", "#6.24(bstr .cbor {X})", "{X}<int>", "gg<{X}>", "[gg<{X}>]",
    "[* gg<{X}>]", "{{ a: gg<{X}> }}", "{X} .cat \"b\"", "\"a\" .cat {X}", "{X} .det \"b\"", "\"a\" .det {X}", "{X} .plus 1", "1 .plus {X}",
    "tstr .abnf {X}", "bstr .abnfb {X}", "tstr .abnf (\"x\" .cat {X})", "{X} .feature \"f\"", "tstr .feature {X}", "{X} .bits bb", "uint .bits {X}", "bstr .bits {X}",
    "bstr .cbor {X}", "bstr .cborseq {X}", "{X} .cbor int", "{X} .cborseq int", "$sock", "[$$gsock]", "{{ $$gsock }}",
    "{{ {X} ^ => int }}", "[{X} .size 2]", "{{ * {X} .size 2 => int }}", "{{ a: {X} .size 2 }}", "[* {X} .eq 1]", "~{X} .size 2",
    "b64url .size {X}", "uri .eq {X}", "time .lt {X}", "{X} .b64u tstr", "tstr .b64u {X}", "{X} .hex bstr", "tstr .printf {X}", "tstr .json {X}", "tstr .join {X}",
]
# how one name of a cycle refers to the next
LINK = [
    "{Y}", "{Y} / int", "int / {Y}", "[{Y}]", "[* {Y}]", "{{ a: {Y} }}", "{{ * tstr => {Y} }}", "({Y})", "~{Y}", "{Y} .size 3", "tstr .size {Y}",
    "{Y} .and int", "int .within {Y}", "#6.2({Y})", "&{Y}", "{Y}..9", "gg<{Y}>", "{Y} .cat \"z\"", "\"z\" .cat {Y}", "1 .plus {Y}", "{Y} .eq 1", "{{ {Y} => int }}",
]
GLINK = ["({Y})", "(* {Y})", "(? {Y})", "(a: int, {Y})", "(int // {Y})", "(({Y}))", "(+ ({Y}))"]
SUFFIX = "gg<t> = t\nbb = &(x: 0, y: 1)\n$sock /= {X}\n$$gsock //= (a: {X})\n"


def cyc_schema(pos, k, links, kind="type"):
    names = ["c%d" % i for i in range(k)]
    def braces(t):
        return t.replace("{{", "{").replace("}}", "}")
    s = "r0 = " + braces(pos.replace("{X}", names[0])) + "\n"
    for i, n in enumerate(names):
        nxt = names[(i + 1) % k]
        body = braces(links[i % len(links)].replace("{Y}", nxt))
        s += "%s = %s\n" % (n, body)
    return s + SUFFIX.replace("{X}", names[0])


HANDWRITTEN = [
    # plain recursion: the validators' own guards (visited rules, active group references, zero-width iterations) must hold
    "a = a", "a = b\nb = a", "a = b\nb = c\nc = a", "a = [a]", "a = {a}", "a = (a)", "a = [* a]", "a = [+ a]", "a = {* a => a}", "a = { a: a }", "a = [a, a]",
    "a = a / int", "a = int / a", "a = #6.1(a)", "a = [b]\nb = (b)", "a = [b]\nb = (c)\nc = (b)", "a = {b}\nb = (b)", "a = {b}\nb = (c)\nc = (b)", "a = [* b]\nb = (* b)",
    "a = [+ b]\nb = (+ b)", "a = {* b}\nb = (* b)", "a = [* a] / int", "a = {* tstr => a} / int", "a = [a] / [a, a] / int", "a = b / c\nb = c / a\nc = a / b / int",
    # generics that grow or loop
    "a = b<int>\nb<t> = b<t>", "a = b<int>\nb<t> = c<t>\nc<t> = b<t>", "a = b<a>\nb<t> = t", "a = b<int>\nb<t> = [b<t>]", "a = b<int>\nb<t> = b<[t]>",
    "a = b<int>\nb<t> = t .size t", "a = b<int, tstr>\nb<t> = t", "a = b\nb<t> = t", "a = b<int>\nb = int", "a = int<tstr>", "a = [b<int>]\nb<t> = (t, b<t>)",
    # sockets and choice alternates
    "a = $x\n$x /= $x", "a = $x\n$x /= a", "a = [$$g]\n$$g //= ($$g)", "a = {$$g}\n$$g //= ($$g)", "a /= a", "a /= b\nb /= a", "a = $x", "a = [$$g]", "a = {$$g}",
    "a = {g}\ng //= (g)", "a = [g]\ng //= (g)", "a = {g}\ng //= (h)\nh //= (g)", "a = {g}\ng = (a: int)\ng //= (g)",
    # type used as group and vice versa, undefined names, occurrences on types
    "a = undefinedname", "a = [undefinedname]", "a = { undefinedname }", "a = { undefinedname => int }", "a = b\nb = (int, tstr)", "a = [b]\nb = int", "a = {b}\nb = int",
    "a = &b\nb = int", "a = ~b\nb = int", "a = ~int", "a = ~undefined", "a = &int", "a = ~b\nb = (int)", "a = b .size 3\nb = (int)", "a = * int", "a = ? int",
    # occurrence bounds
    "a = [18446744073709551615*18446744073709551615 int]", "a = [5*2 int]", "a = [99999999999999999999*int]", "a = {18446744073709551615* tstr => int}",
    "a = [*18446744073709551615 int]", "a = [18446744073709551615* int]", "a = [9223372036854775808*9223372036854775809 int]", "a = [0*0 int]", "a = [4294967296*4294967297 int]",
    "a = [* (* int)]", "a = [+ (* int)]", "a = [* (? int)]", "a = [+ ()]", "a = [* ()]", "a = {* ()}", "a = [+ g]\ng = ()", "a = [* g]\ng = (* int)", "a = [* g]\ng = (* g)",
    "a = [+ g]\ng = (? g)", "a = {+ g}\ng = (? g)", "a = [1000000*2000000 g]\ng = (* int)", "a = [* [* [* [* int]]]]",
    # .size / ranges with boundary arguments
    "a = tstr .size 18446744073709551615", "a = uint .size 18446744073709551615", "a = bstr .size 18446744073709551615", "a = uint .size 16", "a = uint .size 17",
    "a = uint .size 4294967296", "a = uint .size 4294967297", "a = int .size 8", "a = nint .size 2", "a = tstr .size -1", "a = tstr .size 1.5", "a = tstr .size \"x\"", "a = tstr .size (1..18446744073709551615)",
    "a = tstr .size (18446744073709551615..1)", "a = bstr .size (0..0)", "a = -9223372036854775808..9223372036854775807", "a = 0..18446744073709551615", "a = 1.5..2", "a = 1..2.5", "a = \"a\"..\"b\"",
    "a = 18446744073709551615..0", "a = -1..18446744073709551615", "a = 1e308..1e309", "a = uint .lt 18446744073709551615", "a = int .ge -9223372036854775808", "a = float .lt 1e400", "a = uint .eq 99999999999999999999",
    # .bits
    "a = uint .bits 1", "a = uint .bits (1 / 2)", "a = uint .bits x\nx = &(b: 64, c: 18446744073709551615)", "a = bstr .bits x\nx = &(b: 64, c: 18446744073709551615)", "a = uint .bits x\nx = &(b: -1)",
    "a = bstr .bits x\nx = 4294967296", "a = uint .bits x\nx = 63 / 64 / 65", "a = bstr .bits 18446744073709551615", "a = uint .bits tstr", "a = tstr .bits 1",
    # regular expressions
    "a = tstr .regexp \"(a*)*b\"", "a = tstr .pcre \"(a*)*b\"", "a = tstr .regexp \"(\"", "a = tstr .regexp \"[\"", "a = tstr .pcre \"(?<=a+)b\"", "a = tstr .pcre \"\\\\1\"", "a = tstr .pcre \"(a*)*\\\\1b\"",
    "a = tstr .pcre \"(?=(a+)+b)\"", "a = tstr .regexp \"(a|aa)+$\"", "a = tstr .regexp \"a{100}{100}\"", "a = tstr .regexp \"\\\\p{Greek}{1000}\"", "a = tstr .regexp 1", "a = tstr .regexp int", "a = int .regexp \"a\"",
    "a = tstr .regexp \"(?i)\\\\u{1100}\"", "a = tstr .pcre \"(?P<n>a)(?P=n)*$\"", "a = regexp", "a = { * regexp => int }",
    # ABNF
    "a = tstr .abnf \"x\"", "a = tstr .abnf \"x\\nx = y\"", "a = tstr .abnf \"x\\nx = x\"", "a = tstr .abnf \"x\\nx = \\\"a\\\" x / x\"", "a = tstr .abnf \"y\\nx = \\\"a\\\"\"", "a = tstr .abnf \"x\\n\"",
    "a = tstr .abnf \"x\\n=\"", "a = tstr .abnf \"fn\\nfn = \\\"a\\\"\"", "a = tstr .abnf \"ANY\\nANY = \\\"a\\\"\"", "a = tstr .abnf \"x\\nx = %x80-FFFFFFFF\"", "a = tstr .abnf \"x\\nx = %d99999999999999999999\"",
    "a = tstr .abnf \"x\\nx = 99999999999*99999999999\\\"a\\\"\"", "a = bstr .abnfb \"x\\nx = %xFF\"", "a = tstr .abnf 1", "a = tstr .abnf (\"x\" .cat 1)", "a = tstr .abnf (\"x\\n\" .det \"x = 1*%x61\")",
    "a = tstr .abnf \"x\\nx = *(*\\\"a\\\")\"", "a = tstr .abnf \"x\\nx = *x\"", "a = tstr .abnf \"x\\nx = [x] \\\"a\\\"\"", "a = tstr .abnf \"x-y\\nx-y = \\\"a\\\"\"", "a = tstr .abnf \"x\\nx = \\\"a\\\"\\nx = \\\"b\\\"\"",
    "a = tstr .abnf \"x\\nx = %x61.62.63-64\"", "a = tstr .abnf \"x\\nx = <prose>\"", "a = tstr .abnf \"x\\nx =/ \\\"a\\\"\"", "a = bstr .abnfb \"x\\nx = %x00-FF\"", "a = bstr .abnf \"x\\nx = %x00-7F\"", "a = int .abnf \"x\\nx = \\\"1\\\"\"",
    # .cat / .det / .plus
    "a = tstr .cat 1", "a = 1 .cat 2", "a = \"a\" .cat 'b'", "a = 'a' .cat \"b\"", "a = h'00' .cat \"b\"", "a = b64'AA' .cat h'ff'", "a = \"a\" .det h'ff'", "a = 'a' .cat h'ff'", "a = \"a\" .cat int", "a = h'ff' .cat 'a'",
    "a = \"a\" .cat b\nb = \"x\" / \"y\" / b2\nb2 = \"z\"", "a = \"a\" .cat (\"b\" .cat (\"c\" .cat \"d\"))", "a = (\"a\" .cat \"b\") .cat \"c\"", "a = \"\" .det \"\"", "a = \"  a\\n  b\" .det \"\\n   c\"",
    "a = 1 .plus 18446744073709551615", "a = 18446744073709551615 .plus 1", "a = -9223372036854775808 .plus -1", "a = 9223372036854775807 .plus 9223372036854775807", "a = 1.5 .plus 1e308", "a = 1e308 .plus 1e308", "a = 1 .plus \"a\"", "a = int .plus 1",
    "a = 1 .plus 1.5", "a = -1 .plus 18446744073709551615", "a = 1 .plus b\nb = 1 / 2 / 18446744073709551615",
    # other controls
    "a = tstr .feature 1", "a = tstr .feature [1]", "a = tstr .feature \"x\"", "a = int .default \"x\"", "a = int .default [1, 2]", "a = bstr .cbor 1", "a = bstr .cborseq 1", "a = bstr .cborseq int",
    "a = tstr .cbor int", "a = bstr .cbor a", "a = bstr .cborseq a", "a = bstr .cborseq [* a]", "a = [a .cbor int]", "a = int .within tstr", "a = int .and tstr", "a = (int / tstr) .and (tstr / bool)",
    "a = tstr .b64u \"x\"", "a = tstr .b64c 1", "a = tstr .hex h'00'", "a = tstr .hexlc int", "a = tstr .base10 1", "a = tstr .printf [\"%d\", 1]", "a = tstr .json int", "a = tstr .join [\"a\", 1]", "a = tstr .b32 bstr", "a = tstr .b45 bstr",
    "a = tstr .decimal 1", "a = tstr .unknownctl 1",
    # prelude names
    "a = time", "a = tdate", "a = uri", "a = b64url", "a = b64legacy", "a = regexp", "a = mime-message", "a = cbor-any", "a = biguint", "a = bignint", "a = bigint", "a = decfrac", "a = bigfloat",
    "a = eb64url", "a = eb64legacy", "a = eb16", "a = encoded-cbor", "a = float16", "a = null", "a = nil", "a = undefined", "a = any", "a = bytes", "a = [* time]", "a = {* uri => tdate}", "a = t\nt = u\nu = time / uri / tdate / b64url",
    # tags and majors
    "a = #", "a = #0", "a = #1.5", "a = #7.25", "a = #7.255", "a = #7.256", "a = #6", "a = #6.18446744073709551615(int)", "a = #6.99999999999999999999(int)", "a = #8", "a = #2.18446744073709551615",
    "a = #0.18446744073709551616", "a = #6.<b>(int)\nb = uint", "a = #1.<b>\nb = b", "a = #6.0(tstr)", "a = #6.1(number)", "a = #6.2(bstr) / #6.3(bstr)", "a = #6.4([int, int])", "a = #6.1(a) / int", "a = #3.5", "a = #7.<b>\nb = 1..300",
    # map keys
    "a = { 1 => int }", "a = { -1 => int }", "a = { 1.5 => int }", "a = { \"a\" ^ => int }", "a = { * int => int }", "a = { + any => any }", "a = { ? (a: int // b: tstr) }", "a = {(((((((int)))))))}",
    "a = { a: int, a: tstr }", "a = { * tstr => int, * tstr => tstr }", "a = { 1*2 a: int }", "a = { a: int // a: tstr // a: bool }", "a = { ? a: int, ? a: int }", "a = { * (a: int) }", "a = { [1] => int }", "a = { {a: 1} => int }",
    "a = { * [* int] => {* tstr => a} }", "a = [* (int, tstr)]", "a = [* (int // tstr)]", "a = [int, * (tstr, int), ? bool]", "a = [a: int, b: tstr]",
]
HAND_JDOCS = ['1', '-1', '"abc"', '"::"', '1.5', 'true', 'null', '[]', '[1]', '[1,"a"]', '{}', '{"a":1}', '[[1]]', '9223372036854775807', '-9223372036854775808',
              '18446744073709551615', '1e300', '"' + "a" * 44 + '"', '"2020-01-01T00:00:00Z"', '"9999-99-99T99:99:99Z"', '"http://[::1"', '"%"', '"a://b/%zz"', '"AA=="', '"\\u0000"',
              '{"a":[1,{"a":null}]}', '1e999', '-0', '0.1', '12345678901234567890123']
HAND_CDOCS = ['01', '20', '63616263', '43010203', 'f93e00', 'f5', 'f6', 'f7', '80', '8101', '82016161', 'a0', 'a1616101', 'c101', 'c11bffffffffffffffff', 'c13bffffffffffffffff',
              'c1fb7ff0000000000000', 'c1fbfff8000000000000', 'c1fb7ff8000000000000', 'c1f97c00', 'c1fbc3e0000000000001', 'c074323032302d30312d30315430303a30303a30305a', 'c06161', 'c001', 'c24101', 'c340', 'c240',
              'c4820102', 'c482c2410102', 'c5820102', 'c48101', 'c4a0', 'c48201f6', 'c4821bffffffffffffffff1bffffffffffffffff', 'd8184101', 'd818428101', 'd81841ff', 'd8184118', 'd81801', 'd8204161', 'd820623a3a',
              'd8216141', 'd822624141', 'd8236128', 'd823645b615d2b', 'd8246161', 'd9d9f701', 'f0', 'f820', 'f8ff', '1bffffffffffffffff', '3bffffffffffffffff', 'fb7ff8000000000000', 'a201010102', '5f4101ff', '7f6161ff',
              '9f01ff', 'bf0101ff', 'a2616101616102', '8301820203820405', 'c1c1c101', 'd81845820102ff', 'd81843010203']
HAND_CSV = ['1,2\n3,4\n', 'a,b\n1,2\n', '"::",9223372036854775807\n', '', '\n\n', '"unterminated', 'a,"b""c",\n', '1e999,-0,0x10\n', ',,,\n', '\u00e9,\ud7ff\n']


HUGE = [2 ** 32 - 1, 2 ** 32, 10 ** 13, 2 ** 63, 2 ** 64 - 1]
# entries that can match without consuming an element (rules they need are appended)
ZERO_WIDTH = [("()", ""), ("(? tstr, ? bool)", ""), ("zg", "zg = (? tstr)\n"), ("zh", "zh = (? tstr, * bool)\n"), ("(())", ""), ("((? tstr))", ""),
              ("(* ())", ""), ("(? ())", ""), ("ze", "ze = ()\n"), ("(zi)", "zi = (* zj)\nzj = (? bool)\n"), ("(? tstr // ? bool)", ""), ("(* tstr)", "")]


def gen_bounded_zero_width(rng, tier):
    """occurrence bounds n*m written in the schema must not drive the number of steps: huge upper bounds (and huge
    lower bounds, which simply fail) on entries that can match zero-width, in arrays and in map groups, short documents."""
    occs = []
    for m in HUGE:
        occs += ["0*%d" % m, "*%d" % m, "1*%d" % m, "2*%d" % m, "%d*%d" % (m, m), "%d*" % m, "%d*%d" % (m - 1, m)]
    out = []
    ctxs = [("[%s, int]", "arr"), ("[%s]", "arr"), ("[int, %s]", "arr"), ("[tstr, %s, int]", "arr"), ("[* (%s), int]", "arr"), ("[? int, %s]", "arr"),
            ("{ %s, a: int }", "map"), ("{ %s }", "map"), ("{ a: int, %s }", "map")]
    jdocs = {"arr": ['[1]', '[]', '["x",1]', '[true]'], "map": ['{"a":1}', '{}']}
    cdocs = {"arr": ['8101', '80', '82617801', '81f5'], "map": ['a1616101', 'a0']}
    for occ in occs:
        for z, rules in ZERO_WIDTH:
            for ctx, kind in ctxs:
                if tier != "thorough" and rng.random() > 0.34:
                    continue
                s = "a = " + ctx % ("%s %s" % (occ, z)) + "\n" + rules
                jd = jdocs[kind] if tier == "thorough" else rng.sample(jdocs[kind], 2)
                cd = cdocs[kind] if tier == "thorough" else rng.sample(cdocs[kind], 2)
                for d in jd:
                    out.append({"ep": "J", "schema": s, "doc": d, "fam": "hostile/bounded-zero-width"})
                for d in cd:
                    out.append({"ep": "C", "schema": s, "doc": bytes.fromhex(d), "fam": "hostile/bounded-zero-width"})
    # the coordinator's witnesses of the seeded defect, always
    for s, d, cb in (("a = [0*18446744073709551615 (), int]", "[1]", "8101"), ("a = [*9999999999999 (? tstr, ? bool), int]", "[1]", "8101"),
                     ("a = [1*9999999999999 g]\ng = (? tstr)", "[]", "80"), ("a = {0*18446744073709551615 (), a: int}", '{"a":1}', "a1616101")):
        out.append({"ep": "J", "schema": s, "doc": d, "fam": "hostile/bounded-zero-width"})
        out.append({"ep": "C", "schema": s, "doc": bytes.fromhex(cb), "fam": "hostile/bounded-zero-width"})
        out.append({"ep": "V", "schema": "a = [* r]\n" + s.replace("a = ", "r = ", 1), "doc": "1\n", "fam": "hostile/bounded-zero-width"})
    return out


def cddl_text(t):
    """a CDDL text literal whose value (after CDDL unescaping) is t"""
    return '"' + t.replace("\\", "\\\\").replace('"', '\\"').replace("\n", "\\n") + '"'


HOSTILE_PATTERNS = {
    "trailing-backslash": ["abc\\", "\\", "[A-Z]:\\\\", "\\\\", "a\\\\\\", "\u00e9\\", "\\d\\", "a|b\\", "(a)\\", "[a]\\", "\\.\\\\", "x{2}\\"],
    "unfinished-escape": ["\\x", "\\x4", "a\\x{", "\\x{41", "\\u", "\\u{", "\\u{12", "\\u00", "\\p", "\\p{", "\\p{Gree", "\\P{", "\\k<", "\\c", "a\\Q", "\\0", "\\8", "\\b\\B\\A\\z\\",
                          "[\\", "[a\\", "(\\", "\\N{", "\\o{"],
    "unclosed": ["[", "[a-", "[^", "[[:alpha:]", "[[:alpha", "(", "(a", "(?", "(?P<n", "(?P<n>", "(?:", "(?i", "a)", "]", "[]", "[]]", "(()", "[a-\\", "[a-]", "[z-a]", "(?<", "(?<=", "(?#", "{", "}"],
    "dangling-quantifier": ["*", "+", "?", "a**", "a++", "a??", "a{", "a{1", "a{1,", "a{,}", "{1}", "a{2,1}", "a{99999}", "a{4294967296}", "|*", "^*", "$+", "a+?+", "(*)", "(?:+)", "a{1}{2}{3}", "a|*", "\\b+"],
    "multi-byte": ["\u00e9\\d", "\\d\u00e9", "\\\u00e9", "\u65e5\\\\\u672c", "\\\U0001f600", "[\u00e9-\\x{ffff}]", "\\\\\u00e9\\\\", "\U0001f600\\.", "\u00e9*\\w", "\\p{L}\u00e9\\", "(\u00e9|\\\u00e9)",
                   "\u00e9{2}\\s", "[\\\u00e9]", "\\\u0301", "a\u0301\\b", "\\W\U0001f600\\W", "\ufeff\\"],
    "empty": ["", " ", "|", "()", "(?:)", "^$", "[^\\s\\S]"],
}
PATTERN_VALUES = ["abc", "C:\\", "", "a", "\u00e9", "abc\\", "\U0001f600.", "aaaaaaaaaaaaaaaaaaaaaaaaaaaaaaab", "\u65e5\\\u672c"]
HOSTILE_ABNF = ['"a" \\', "%x", "%x4", "%x41-", "%x41.", "%d", "%d65-", "%b2", "%b", '"abc', '"', "(", '("a"', "[", '["a"', "*", "1*", "*2", "1*2", "2*1\"a\"", "<", "<abc", '"a" /', "/", '"\u00e9"',
                "%xE9", "%x110000", "%xD800", '"a" ; c', ";", "", " ", '\\', '"\\"', "%s\"a\"", "%i\"A\"", '*"a" *"a" *"a"', "1*1*\"a\"", '"a" "a" /', "x", "y", "x-y", "1x", "%x41 %x", '"a"\\n']


def gen_patterns(rng, tier):
    """hostile patterns for the regexp-like controls (.regexp, .pcre, .abnf, .abnfb): patterns ending in a backslash, in an
    unfinished escape, an unclosed class or group, a dangling quantifier, very long alternations, multi-byte characters next
    to escapes, the empty pattern - at top level, in a map member, in a map key, in an array element, JSON and CBOR (and CSV),
    against matching and non-matching values.  Only "returns Ok or Err" is required."""
    out = []
    pats = [(cls, p) for cls, ps in HOSTILE_PATTERNS.items() for p in ps]
    words = ["w%d" % i for i in range(3000)]
    pats += [("long-alternation", "|".join(words)), ("long-alternation", "(" + "|".join("a" * (i % 7 + 1) for i in range(2000)) + ")+\\"),
             ("long-alternation", "|".join(["\\d"] * 1500)), ("long-alternation", "|" * 4000), ("long-alternation", "(a|" * 200 + "b" + ")" * 200),
             ("long-alternation", "|".join("\u00e9%d\\." % i for i in range(1500)))]

    def contexts(ctl, lit, val, binary=False):
        """(schema, json document or None, cbor document)"""
        base = "bstr" if binary else "tstr"
        t = "%s %s %s" % (base, ctl, lit)
        enc = (cbor_head(2, 0 if len(val.encode()) < 24 else 1 if len(val.encode()) < 256 else 2, len(val.encode())) + val.encode()) if binary else cbor_text(val)
        j = None if binary else json.dumps(val)
        res = [("a = %s" % t, j, enc),
               ("a = { k: %s }" % t, None if j is None else '{"k": %s}' % j, b"\xa1\x61k" + enc),
               ("a = [* %s]" % t, None if j is None else "[%s]" % j, b"\x81" + enc),
               ("a = [int, %s]" % t, None if j is None else "[1, %s]" % j, b"\x82\x01" + enc)]
        if not binary:
            res.append(("a = { * %s => int }" % t, "{%s: 1}" % j, b"\xa1" + enc + b"\x01"))
        return res

    for cls, pat in pats:
        lit = cddl_text(pat)
        ctls = [".regexp", ".pcre"] if len(pat) < 3000 or tier == "thorough" else [".regexp"]
        vals = PATTERN_VALUES if tier == "thorough" else (["abc", "C:\\"] + rng.sample(PATTERN_VALUES[2:], 1))
        for ctl in ctls:
            for val in vals:
                cx = contexts(ctl, lit, val)
                if tier != "thorough":
                    cx = [cx[0]] + rng.sample(cx[1:], 2)
                for schema, j, cb in cx:
                    out.append({"ep": "J", "schema": schema, "doc": j, "fam": "hostile/pattern-" + cls})
                    out.append({"ep": "C", "schema": schema, "doc": cb, "fam": "hostile/pattern-" + cls})
        out.append({"ep": "V", "schema": "a = [* [* tstr .regexp %s]]" % lit, "doc": "abc,C:\\\n", "fam": "hostile/pattern-" + cls})
        for ep in "PSF":
            out.append({"ep": ep, "schema": "a = tstr .regexp %s" % lit, "fam": "hostile/pattern-" + cls})
    # ABNF grammars: "<rule>\n<grammar>"; the hostile text is a rule body, a whole grammar, or the rule name
    grammars = []
    for body in HOSTILE_ABNF:
        grammars += ["x\nx = " + body, "x\nx = \"a\"\ny = " + body, "x\n" + body]
    grammars += ["x\nx = " + " / ".join('"w%d"' % i for i in range(300)), "x\n" + "".join('r%d = "a"\n' % i for i in range(400)) + 'x = r0', "\\\nx = \"a\"", "x\\\nx = \"a\"",
                 "\nx = \"a\"", "x\n\n\nx = \"a\"\n\n", "x\r\nx = \"a\"\r\n", "\u00e9\n\u00e9 = \"a\""]
    for gtext in grammars:
        lit = cddl_text(gtext)
        for ctl, binary in ((".abnf", False), (".abnfb", True)):
            for val in (["a", "abc\\"] if tier != "thorough" else ["a", "abc\\", "", "\u00e9", "w7"]):
                cx = contexts(ctl, lit, val, binary)
                if tier != "thorough":
                    cx = [cx[0], rng.choice(cx[1:])]
                for schema, j, cb in cx:
                    if j is not None:
                        out.append({"ep": "J", "schema": schema, "doc": j, "fam": "hostile/pattern-abnf"})
                    out.append({"ep": "C", "schema": schema, "doc": cb, "fam": "hostile/pattern-abnf"})
    return out


def gen_hostile(rng, tier, n_cyc):
    """(c) cyclic / ill-typed / nonsensical schemas"""
    out = []
    combos = []
    for pos in POS:
        for k in (1, 2, 3, 4):
            combos.append((pos, k))
    if tier != "thorough":
        combos = rng.sample(combos, min(len(combos), n_cyc))
    for pos, k in combos:
        variants = [["{Y}"], [rng.choice(LINK) for _ in range(k)]]
        if tier == "thorough":
            variants.append([rng.choice(LINK)])
        for links in variants:
            s = cyc_schema(pos, k, links)
            jd = rng.sample(JDOCS, 4 if tier == "thorough" else 2)
            cd = rng.sample(CDOCS, 3 if tier == "thorough" else 1)
            for d in jd:
                out.append({"ep": "J", "schema": s, "doc": d, "fam": "hostile/cycle", "pos": pos, "k": k})
            for d in cd:
                out.append({"ep": "C", "schema": s, "doc": bytes.fromhex(d), "fam": "hostile/cycle", "pos": pos, "k": k})
            for ep in "PSF":
                out.append({"ep": ep, "schema": s, "fam": "hostile/cycle", "pos": pos, "k": k})
    # group-rule cycles
    for gl in GLINK:
        for k in ((1, 2) if tier != "thorough" else (1, 2, 3)):
            for root in ("[{X}]", "{{ {X} }}", "[* {X}]", "{{ * {X} }}", "&{X}", "[({X})]"):
                names = ["g%d" % i for i in range(k)]
                s = "r0 = " + root.replace("{X}", names[0]).replace("{{", "{").replace("}}", "}") + "\n"
                s += "".join("%s = %s\n" % (n, gl.replace("{Y}", names[(i + 1) % k])) for i, n in enumerate(names))
                for d in (['[1]', '{"a":1}', '1', '[]'] if tier == "thorough" else ['[1]', '{"a":1}']):
                    out.append({"ep": "J", "schema": s, "doc": d, "fam": "hostile/group-cycle"})
                for d in (['8101', 'a1616101', '01'] if tier == "thorough" else ['8101']):
                    out.append({"ep": "C", "schema": s, "doc": bytes.fromhex(d), "fam": "hostile/group-cycle"})
    hand = HANDWRITTEN
    for s in hand:
        jd = HAND_JDOCS if tier == "thorough" else rng.sample(HAND_JDOCS, 3) + ['"abc"', '1', '[1,"a"]', '{"a":1}']
        cd = HAND_CDOCS if tier == "thorough" else rng.sample(HAND_CDOCS, 3) + ['63616263', '01', '8101', 'a1616101']
        for d in dict.fromkeys(jd):
            out.append({"ep": "J", "schema": s, "doc": d, "fam": "hostile/handwritten"})
        for d in dict.fromkeys(cd):
            out.append({"ep": "C", "schema": s, "doc": bytes.fromhex(d), "fam": "hostile/handwritten"})
        for d in (HAND_CSV if tier == "thorough" else HAND_CSV[:1]):
            out.append({"ep": "V", "schema": s, "doc": d, "fam": "hostile/handwritten", "header": d.startswith("a,b")})
        for ep in "PSF":
            out.append({"ep": ep, "schema": s, "fam": "hostile/handwritten"})
    # prelude boundary values
    tvals = ['0', '-1', '253402300799', '253402300800', '-62167219200', '-62167219201', '9223372036854775', '9223372036854776', '-9223372036854775', '-9223372036854776',
             '9223372036854775807', '-9223372036854775808', '18446744073709551615', '1e18', '1e19', '-1e19', '1.7976931348623157e308', '0.5', '8.64e15', '8.64e15']
    for v in tvals:
        out.append({"ep": "J", "schema": "a = time", "doc": v, "fam": "hostile/prelude-time"})
        out.append({"ep": "J", "schema": "a = [* t]\nt = time / tstr", "doc": "[" + v + "]", "fam": "hostile/prelude-time"})
    uris = ['::', ':', '', 'a:', 'a://', 'a://[', 'a://[::1', 'a://[::1]:99999999999', 'a://b:65536', 'a://%', 'a://b/%', 'a://b/%z', 'a://b?%', 'a://b#%', 'a:/\u00e9', '1a:b', 'a b:c', 'http://a@@b',
            'http://[v1.x]', 'http://[::ffff:999.1.1.1]', 'a://' + 'x' * 300, '//', '/', '#', '?', 'a:b#c#d', 'A:\\', 'a:%00', '%41:b', ':a', '::a', 'a::', 'a:::', '1:', '+:', 'a+-.:', 'a_b:c', 'a:[', 'a://]', 'a://[]']
    for u in uris:
        out.append({"ep": "J", "schema": "a = uri", "doc": json.dumps(u), "fam": "hostile/prelude-uri"})
        out.append({"ep": "C", "schema": "a = uri", "doc": b"\xd8\x20" + cbor_text(u), "fam": "hostile/prelude-uri"})
        out.append({"ep": "C", "schema": "a = uri", "doc": cbor_text(u), "fam": "hostile/prelude-uri"})
    dates = ['2020-01-01T00:00:00Z', '9999-12-31T23:59:60Z', '0000-00-00T00:00:00Z', '2020-02-30T00:00:00Z', '2020-01-01T24:00:00Z', '2020-01-01T00:00:00+99:99', '2020-01-01T00:00:00.' + '9' * 40 + 'Z',
             '2020-01-01', 'T', '', '-2020-01-01T00:00:00Z', '+10000-01-01T00:00:00Z', '2020-01-01t00:00:00z', '2020-01-01T00:00:00-00:00', '99999-01-01T00:00:00Z', '2020-13-01T00:00:00Z', '\u0662\u0660\u0662\u0660-01-01T00:00:00Z']
    for dt in dates:
        out.append({"ep": "J", "schema": "a = tdate", "doc": json.dumps(dt), "fam": "hostile/prelude-tdate"})
        out.append({"ep": "C", "schema": "a = tdate", "doc": b"\xc0" + cbor_text(dt), "fam": "hostile/prelude-tdate"})
    b64 = ['', 'A', 'AA', 'AAA', 'AAAA', 'A===', '====', 'AA==', 'A A', '-_', '+/', 'AAAAA', '\u00e9', 'A' * 1001, '=A']
    for x in b64:
        for nm in ("b64url", "b64legacy"):
            out.append({"ep": "J", "schema": "a = " + nm, "doc": json.dumps(x), "fam": "hostile/prelude-b64"})
    # catastrophic patterns against long inputs (regex crate: linear; fancy-regex: backtracking with a step limit)
    for ctl, pat in ((".regexp", "(a*)*b"), (".pcre", "(a*)*b"), (".pcre", "(a*)*\\\\1b"), (".pcre", "^(a+)+$"), (".regexp", "^(a|aa)+$"), (".pcre", "(?=(a+)+b)a*c"), (".pcre", "(a*)*(?<!x)b"),
                     (".regexp", "(.*)*(.*)*(.*)*x"), (".pcre", "((a*)*)*\\\\2x")):
        for n in (20, 40, 4000) if tier != "thorough" else (20, 30, 40, 1000, 4000, 60000):
            out.append({"ep": "J", "schema": 'a = tstr %s "%s"' % (ctl, pat), "doc": '"' + "a" * n + '"', "fam": "hostile/regex"})
            b = b"a" * n
            out.append({"ep": "C", "schema": 'a = tstr %s "%s"' % (ctl, pat), "doc": b"\x7a" + n.to_bytes(4, "big") + b, "fam": "hostile/regex"})
    # exponential choice DAGs: inside the property's size bound (a few hundred bytes)
    for k in ((8, 12, 24) if tier != "thorough" else (8, 12, 16, 20, 24, 28, 40)):
        dag = "".join("a%d = a%d / a%d\n" % (i, i + 1, i + 1) for i in range(k)) + "a%d = bool\n" % k
        out.append({"ep": "J", "schema": "r = a0 .size 3\n" + dag, "doc": '"abc"', "fam": "hostile/choice-dag", "k": k})
        out.append({"ep": "J", "schema": dag, "doc": '"abc"', "fam": "hostile/choice-dag", "k": k})
        out.append({"ep": "C", "schema": dag, "doc": bytes.fromhex("01"), "fam": "hostile/choice-dag", "k": k})
    return out


# ---------------------------------------------------------------------------
# correspondence families: the Coq models predict what the real code does
# ---------------------------------------------------------------------------

STR_HITS = ["text", "tstr"]
NUM_HITS = ["uint", "nint", "integer", "int", "number", "float", "float16", "float32", "float64", "float16-32", "float32-64", "unsigned"]
UINT_HITS = ["uint"]
# json.rs visit_control_operator: the `||` chain of helpers asked about the TARGET name
CTL_HITS = {".size": [STR_HITS, UINT_HITS], ".eq": [STR_HITS, NUM_HITS], ".ne": [STR_HITS, NUM_HITS], ".lt": [STR_HITS, NUM_HITS],
            ".le": [STR_HITS, NUM_HITS], ".gt": [STR_HITS, NUM_HITS], ".ge": [STR_HITS, NUM_HITS], ".regexp": [STR_HITS]}
LEAVES = ["tstr", "text", "uint", "int", "float", "bool", "nint", "number", "bstr", "null", "any", "undefinedleaf"]


def gen_alias_family(rng, n):
    """r0 = n0 <ctl> <arg> over a random alias environment n0..n5: the Coq model chase_seq predicts
    exactly which of these make validate_json_from_str overflow the stack."""
    out = []
    for _ in range(n):
        k = rng.choice([1, 2, 2, 3, 3, 4, 5, 6])
        names = ["n%d" % i for i in range(k)]
        env = []
        text = ""
        for i, nm in enumerate(names):
            choices = []
            for _ in range(rng.choice([1, 1, 1, 2, 2, 3])):
                c = rng.random()
                if c < 0.45:
                    choices.append(rng.choice(names))                # alias, possibly closing a cycle
                elif c < 0.60 and i + 1 < k:
                    choices.append(names[i + 1])                     # forward alias: long acyclic chains
                elif c < 0.85:
                    choices.append(rng.choice(LEAVES))               # prelude name / undefined name
                else:
                    choices.append(None)                             # not a name
            lits = ['1', '"x"', '[int]', '{a: int}', '(int)', '#6.1(int)', '1..3', '-5']
            body = " / ".join(c if c is not None else rng.choice(lits) for c in choices)
            op = "=" if i == 0 or rng.random() < 0.85 or not any(n2 == nm for n2, _ in env) else "/="
            env.append((nm, choices))
            text += "%s %s %s\n" % (nm, op, body)
        # a second definition of an existing name through /= (the helpers look at every rule of the name)
        if rng.random() < 0.25:
            nm = rng.choice(names)
            c = rng.choice(names + LEAVES)
            env.append((nm, [c]))
            text += "%s /= %s\n" % (nm, c)
        ctl = rng.choice(list(CTL_HITS))
        arg = {".size": "3", ".regexp": '"a"'}.get(ctl, "1")
        schema = "r0 = n0 %s %s\n" % (ctl, arg) + text
        full_env = [("r0", ["n0"])] + env
        doc = rng.choice(['"ab"', '1', '-2', '1.5'])
        out.append({"ep": "J", "schema": schema, "doc": doc, "fam": "model/alias-chase", "env": full_env, "hits": CTL_HITS[ctl], "start": "n0", "ctl": ctl})
    return out


def gen_arith():
    """the partial operations of Robust/Arith.v against the code: (oracle line, case, expectation reader)"""
    out = []
    edge = 9223372036854775
    ns = sorted(set([0, 1, -1, edge, edge + 1, -edge, -edge - 1, edge - 1, 2 ** 63 - 1, -2 ** 63, 2 ** 62, 10 ** 15, 10 ** 16, -10 ** 16, 123456789, 253402300799, 253402300800]))
    for n in ns:
        out.append(("R\t0\t%s\t0" % zhex(n), {"ep": "J", "schema": "a = time", "doc": str(n), "fam": "model/arith-mul1000", "profile": "both"}))
    for z in sorted(set([0, 1, -1, 2 ** 63 - 1, 2 ** 63, 2 ** 64 - 1, -2 ** 63, -2 ** 63 - 1, -2 ** 64, 2 ** 62, 253402300799, -62167219201, 10 ** 12])):
        body = cbor_head(0, 8, z) if z >= 0 else cbor_head(1, 8, -1 - z)
        out.append(("R\t1\t%s\t0" % zhex(z), {"ep": "C", "schema": "a = time", "doc": b"\xc1" + body, "fam": "model/arith-try-into", "profile": "both"}))
    for v in (0, 1, 2, 3, 7, 8, 9, 15, 16, 17, 255, 2 ** 32 - 1, 2 ** 32, 2 ** 32 + 1, 2 ** 32 + 8, 2 ** 33, 2 ** 63):
        for i in (0, 1, 5, 255, 256, 65535, 65536, 2 ** 32 - 1, 2 ** 32, 2 ** 56, 2 ** 64 - 1):
            out.append(("R\t2\t%s\t%s" % (zhex(v), zhex(i)), {"ep": "J", "schema": "a = uint .size %d" % v, "doc": str(i), "fam": "model/arith-size-u32", "profile": "both"}))
    big = [0, 1, 5, 2 ** 62, 2 ** 63 - 1, 2 ** 63, 2 ** 64 - 2, 2 ** 64 - 1, -1, -5, -2 ** 62, -2 ** 63 + 1, -2 ** 63]
    for a in big:
        for b in big:
            out.append(("R\t3\t%s\t%s" % (zhex(a), zhex(b)), {"ep": "J", "schema": "a = %d .plus %d" % (a, b), "doc": "0", "fam": "model/arith-plus", "profile": "both"}))
    return out


def zhex(z):
    return ("-" if z < 0 else "") + "%x" % abs(z)


def gen_readlen():
    out = []
    for n in (0, 1, 23, 24, 255, 256, 4095, 4096, 4097, 8191, 8192, 8193, 12287, 12288, 12289, 20000, 65535, 65536, 2 ** 20, 2 ** 31, 2 ** 32 - 1, 2 ** 40, 2 ** 63, 2 ** 64 - 1):
        for have in sorted(set(h for h in (0, 1, n - 1, n, n + 1, 4096, 4097, 8192, 10000) if 0 <= h <= 70000)):
            w = 8
            out.append(("L\t%x\t%d" % (n, have), {"ep": "D", "doc": cbor_head(2, w, n) + b"\x00" * have, "fam": "model/read-len", "n": n, "have": have}))
    return out


# ---------------------------------------------------------------------------
# (d) growth: time at n, 2n, 4n
# ---------------------------------------------------------------------------

def growth_input(family, n):
    """returns list of (entry point, case) for an input of about n bytes"""
    if family == "long-array":
        k = n // 2
        return [("J", {"schema": "a = [* int]", "doc": "[" + ",".join(["1"] * k) + "]"}),
                ("C", {"schema": "a = [* int]", "doc": b"\x9a" + (n - 5).to_bytes(4, "big") + b"\x01" * (n - 5)}),
                ("D", {"doc": b"\x9a" + (n - 5).to_bytes(4, "big") + b"\x01" * (n - 5)}),
                ("V", {"schema": "a = [* [* int]]", "doc": "\n".join(",".join(["1"] * 15) for _ in range(n // 30)) + "\n"})]
    if family == "wide-map":
        k = n // 10
        doc = "{" + ",".join('"k%05d":1' % i for i in range(k)) + "}"
        cb = b"\xb9" + (n // 8).to_bytes(2, "big") + b"".join(b"\x66k" + ("%05d" % i).encode() + b"\x01" for i in range(n // 8))
        return [("J", {"schema": "a = {* tstr => int}", "doc": doc}), ("C", {"schema": "a = {* tstr => int}", "doc": cb}), ("D", {"doc": cb})]
    if family == "many-rules":
        s = "".join("r%05d = int\n" % i for i in range(n // 13))
        return [("P", {"schema": s}), ("S", {"schema": s}), ("F", {"schema": s}), ("J", {"schema": s, "doc": "1"}), ("C", {"schema": s, "doc": b"\x01"})]
    if family == "long-choice":
        k = n // 8
        s = "a = " + " / ".join("%05d" % (10000 + i) for i in range(k)) + "\n"
        return [("P", {"schema": s}), ("S", {"schema": s}), ("F", {"schema": s}), ("J", {"schema": s, "doc": str(10000 + k - 1)})]
    if family == "long-literal":
        s = 'a = "' + "x" * (n // 2) + "\" / h'" + "ab" * (n // 4 - 8) + "'\n"
        return [("P", {"schema": s}), ("S", {"schema": s}), ("F", {"schema": s}), ("J", {"schema": s, "doc": '"' + "x" * (n // 2) + '"'}),
                ("C", {"schema": "a = tstr / bstr", "doc": b"\x7a" + (n - 5).to_bytes(4, "big") + b"x" * (n - 5)}), ("D", {"doc": b"\x5a" + (n - 5).to_bytes(4, "big") + b"x" * (n - 5)})]
    if family == "many-comments":
        s = "; comment\n" * (n // 10 - 1) + "a = int\n"
        return [("P", {"schema": s}), ("S", {"schema": s}), ("F", {"schema": s})]
    if family == "nested-64":
        # documents nested 64 deep, repeated; the schema side is recursive (nesting inside a schema is an open finding)
        unit_j = "[" * 63 + "1" + "]" * 63
        k = max(1, n // 128)
        unit_c = b"\x81" * 63 + b"\x01"
        cb = b"\x99" + (n // 64).to_bytes(2, "big") + unit_c * (n // 64)
        sch = "a = [* b]\nb = [b] / int\n"
        big = "a = [" + ", ".join(["[" * 6 + "int" + "]" * 6] * max(1, n // 17)) + "]\n"
        return [("J", {"schema": sch, "doc": "[" + ",".join([unit_j] * k) + "]"}), ("C", {"schema": sch, "doc": cb}), ("D", {"doc": cb}),
                ("P", {"schema": big}), ("F", {"schema": big})]
    if family == "long-text-regexp":
        return [("J", {"schema": 'a = tstr .regexp "(a*)*b"', "doc": '"' + "a" * (n - 2) + '"'}),
                ("J", {"schema": 'a = tstr .pcre "(a*)*b"', "doc": '"' + "a" * (n - 2) + '"'})]
    if family == "csv-rows":
        return [("V", {"schema": "a = [* [tstr, int, float]]", "doc": "".join('"r%d",%d,1.5\n' % (i, i) for i in range(n // 14))})]
    return []


GROWTH_FAMILIES = ["long-array", "wide-map", "many-rules", "long-choice", "long-literal", "many-comments", "nested-64", "long-text-regexp", "csv-rows"]


# ---------------------------------------------------------------------------
# witnesses of every property's findings (a)
# ---------------------------------------------------------------------------

def harvest_witnesses():
    """schemas / documents out of findings.d/*.json (all properties): every schema goes through parse,
    checked parse and format, every (schema, document) pair through the validators, every hex string
    through the decoder."""
    schemas, pairs, hexes = [], [], []

    def looks_hex(x):
        return isinstance(x, str) and len(x) % 2 == 0 and len(x) > 0 and re.fullmatch(r"[0-9a-fA-F]+", x) is not None

    def walk(o, ctx):
        if isinstance(o, dict):
            sch = [o[k] for k in ("schema", "text", "malformed_schema", "cddl") if isinstance(o.get(k), str)]
            docs = [o[k] for k in ("doc", "document", "json", "document_hex", "malformed_document_hex", "doc_hex") if isinstance(o.get(k), str)]
            docs += [x for x in o.get("instances", []) if isinstance(x, str)] if isinstance(o.get("instances"), list) else []
            for s in sch:
                schemas.append(s)
                for d in docs:
                    pairs.append((s, d))
            for k in ("inputs_hex",):
                if isinstance(o.get(k), list):
                    hexes.extend(x for x in o[k] if looks_hex(x))
            for d in docs:
                if looks_hex(d):
                    hexes.append(d)
            for v in o.values():
                walk(v, ctx)
        elif isinstance(o, list):
            for v in o:
                walk(v, ctx)

    d = os.path.join(common.VERIF, "findings.d")
    srcs = 0
    if os.path.isdir(d):
        for f in sorted(os.listdir(d)):
            if f.endswith(".json") and f != PROP + ".json":      # this property's own witnesses are replayed separately
                try:
                    walk(json.load(open(os.path.join(d, f))), f)
                    srcs += 1
                except (OSError, ValueError):
                    pass
    out = []
    for s in dict.fromkeys(schemas):
        for ep in "PSF":
            out.append({"ep": ep, "schema": s, "fam": "witness/other-properties"})
    for s, dd in dict.fromkeys(pairs):
        out.append({"ep": "J", "schema": s, "doc": dd, "fam": "witness/other-properties"})
        out.append({"ep": "V", "schema": s, "doc": dd, "fam": "witness/other-properties"})
        if looks_hex(dd):
            out.append({"ep": "C", "schema": s, "doc": bytes.fromhex(dd), "fam": "witness/other-properties"})
    for h in dict.fromkeys(hexes):
        out.append({"ep": "D", "doc": bytes.fromhex(h), "fam": "witness/other-properties"})
    # the fixed decoder findings of C11/C05 (commit 5cd60cf and predecessors)
    for h in ("9b0000001000000000", "5bff00000000000000", "7bffffffffffffffff", "bb0000001000000000", "5f5f4100ffff", "7f7f6161ffff", "f800", "f81f",
              "9b7fffffffffffffff", "bb7fffffffffffffff", "9bffffffffffffffff", "5b0000000100000000", "9a7fffffff", "ba7fffffff", "5a7fffffff00"):
        out.append({"ep": "D", "doc": bytes.fromhex(h), "fam": "witness/fixed-decoder"})
        out.append({"ep": "C", "schema": "a = any", "doc": bytes.fromhex(h), "fam": "witness/fixed-decoder"})
    return out, srcs


def my_fixed_witnesses():
    p = os.path.join(common.VERIF, "findings.d", PROP + ".json")
    out = []
    if os.path.exists(p):
        for w in json.load(open(p)).get("fixed_witnesses", []):
            for profile in (["release", "debug"] if w.get("profile", "both") == "both" else [w["profile"]]):
                out.append((profile, {"ep": w["ep"], "schema": w.get("schema"), "doc": bytes.fromhex(w["doc_hex"]) if "doc_hex" in w else w.get("doc"),
                                      "fam": "witness/fixed-c05", "was": w.get("id")}))
    return out


def my_findings():
    p = os.path.join(common.VERIF, "findings.d", PROP + ".json")
    if os.path.exists(p):
        return [f for f in json.load(open(p)).get("findings", []) if f.get("status") == "open"]
    return common.known_findings(PROP)


# ---------------------------------------------------------------------------
# the check
# ---------------------------------------------------------------------------

FAIL = ("PANIC", "STACK", "ALLOC", "TIMEOUT", "HANG", "CRASH")


class Tally:
    def __init__(self):
        self.per_ep = {}
        self.fam = {}
        self.known_hits = {}
        self.unexplained = []
        self.beyond = {}
        self.distinct = set()
        self.evaluations = 0

    def add(self, case, r, profile, kf, beyond=False):
        ep = case["ep"]
        e = self.per_ep.setdefault(ENTRY.get(ep, ep), {"cases": 0, "ok": 0, "err": 0, "failures_by_class": {}, "max_depth_in_bound": 0, "profiles": {}})
        e["cases"] += 1
        e["profiles"][profile] = e["profiles"].get(profile, 0) + 1
        self.evaluations += 1
        self.fam[case.get("fam", "?")] = self.fam.get(case.get("fam", "?"), 0) + 1
        if not beyond and case.get("depth"):
            e["max_depth_in_bound"] = max(e["max_depth_in_bound"], case["depth"])
        if r["v"] == "OK":
            e["ok"] += 1
        elif r["v"] == "ERR":
            e["err"] += 1
        else:
            key = (kf or ("outside-bound:" + r["v"] if beyond else "UNEXPLAINED:" + r["v"]))
            e["failures_by_class"][key] = e["failures_by_class"].get(key, 0) + 1
            if kf:
                self.known_hits[kf] = self.known_hits.get(kf, 0) + 1
        key = (ep, case.get("schema"), case.get("doc") if not isinstance(case.get("doc"), bytes) else case["doc"].hex())
        if (case.get("schema") and len(case["schema"]) > 8) or (case.get("doc") is not None and len(case["doc"]) > 2):
            self.distinct.add(hash(key))


def source_digest():
    import hashlib
    h = hashlib.sha256()
    roots = [os.path.join(common.REPO, x) for x in ("src", "Cargo.toml", "Cargo.lock", "cddl.pest", "build.rs")]
    files = []
    for r in roots:
        if os.path.isdir(r):
            for d, _, fs in os.walk(r):
                files += [os.path.join(d, f) for f in fs]
        elif os.path.exists(r):
            files.append(r)
    for f in sorted(files):
        h.update(f.encode())
        try:
            h.update(open(f, "rb").read())
        except OSError:
            pass
    return h.hexdigest()


def fresh_drivers():
    """cargo decides by modification times; a source file restored with its old time stamp (or changed with a
    preserved one) leaves a stale library in the shared target directory.  The drivers of this check are tied to
    the CONTENT of /repo: when the digest differs from the one of the last build the cddl artifacts are cleaned."""
    default_cache = os.path.join(common.VERIF, ".cache")
    if os.path.realpath(common.CACHE) != os.path.realpath(default_cache):
        # a private cache (VERIF_CACHE, e.g. seeded-defect experiments): nobody else's artifacts in it, plain cargo
        return {"release": common.build_harness("c05"), "debug": common.build_harness("c05", profile="debug")}
    stamp = os.path.join(common.CACHE, "c05_source.digest")
    dig = source_digest()
    try:
        old = open(stamp).read()
    except OSError:
        old = ""
    if old != dig:
        with common.Lock("cargo"):
            for prof in (["--release"], []):
                common.sh(["cargo", "clean", "--offline", "-p", "cddl"] + prof, cwd=os.path.join(common.VERIF, "harness"),
                          env={"CARGO_TARGET_DIR": common.TARGET}, timeout=600)
    drv = {"release": common.build_harness("c05"), "debug": common.build_harness("c05", profile="debug")}
    if old != dig and source_digest() == dig:
        with open(stamp, "w") as f:
            f.write(dig)
    return drv


def run(tier, seed):
    res = Result(PROP, tier, seed)
    proved = common.prove(res, PROP, PROP_FILE, ["theories/Extract/ExtractRobust.vo"])
    drv = fresh_drivers()
    orc = common.build_oracle("robust", ["robust_model"])
    graphs = Graphs(drv["release"], orc)
    rng = random.Random(seed)
    quick = tier != "thorough"
    wide = not proved
    case_ms = 3000 if quick else 5000
    tally = Tally()
    findings = {f["id"]: f for f in my_findings()}
    notes = res.notes

    phases = {}
    tp = [time.time()]

    def phase(name):
        phases[name] = round(phases.get(name, 0) + time.time() - tp[0], 1)
        tp[0] = time.time()
        if os.environ.get("VERIF_DEBUG"):
            print("phase %-16s %6.1fs" % (name, phases[name]), flush=True)

    def judge(cases, results, profile, beyond=False):
        bad = [(c, r) for c, r in zip(cases, results) if r["v"] in FAIL]
        graphs.prefetch([c["schema"] for c, r in bad if c.get("schema") is not None and r["v"] != "PANIC" and c["ep"] in "JCV"])
        for c, r in zip(cases, results):
            kf = None
            if r["v"] in FAIL:
                kf = classify(c, r, profile, graphs)
                if kf is not None and kf not in findings:
                    kf = None
            tally.add(c, r, profile, kf, beyond)
            if r["v"] in FAIL and kf is None and not beyond:
                if r["v"] not in ("OK", "ERR"):
                    tally.unexplained.append((c, r, profile))

    def execute(cases, profile, ms=None, judge_it=True, beyond=False):
        rs = run_cases(drv[profile], [line_of(c) for c in cases], case_ms=ms or case_ms)
        if judge_it:
            judge(cases, rs, profile, beyond)
        return rs

    # ---- 0. the harness sees what it has to see ------------------------------------------
    for profile in ("release", "debug"):
        # (the endless loop gets a short watchdog of its own, the others a long one: a loaded machine needs a
        # second of cpu time just to run into the end of an 8 MiB stack)
        st = run_cases(drv[profile], ["K\t0", "K\t1", "K\t2", "P\t" + hx("a = int")], case_ms=10000, per_shard=1)
        st3 = run_cases(drv[profile], ["K\t3"], case_ms=300)
        got = [r["v"] for r in st[:3] + st3 + st[3:]]
        if got != ["PANIC", "STACK", "ALLOC", "TIMEOUT", "OK"]:
            res.violation("harness self-test (%s build): expected PANIC STACK ALLOC TIMEOUT OK, observed %s - crashes would go unnoticed" % (profile, got),
                          {"kind": "self-test", "observed": got}, no_input=True)
    phase("prove+build+selftest")
    # ---- 1. replay of the open findings --------------------------------------------------
    wcases = []
    for kid, kf in findings.items():
        w = kf["witness"]
        for profile in (["release", "debug"] if w.get("profile", "both") == "both" else [w["profile"]]):
            wcases.append((kid, profile, {"ep": w["ep"], "schema": w.get("schema"),
                                          "doc": bytes.fromhex(w["doc_hex"]) if "doc_hex" in w else w.get("doc"), "fam": "witness/c05"}))
    wres = {}
    for profile in ("release", "debug"):
        sel = [(kid, c) for kid, pr, c in wcases if pr == profile]
        rs = run_cases(drv[profile], [line_of(c) for _, c in sel], case_ms=1500 if quick else case_ms, per_shard=1)
        graphs.prefetch([c["schema"] for (_, c), r in zip(sel, rs) if r["v"] in FAIL and c.get("schema")])
        for (kid, c), r in zip(sel, rs):
            tally.add(c, r, profile, kid if r["v"] in FAIL else None)
            if r["v"] in FAIL:
                k2 = classify(c, r, profile, graphs)
                if k2 == kid:
                    wres[kid] = True
                else:
                    res.violation("witness of %s fails (%s %s) but its classifier does not hold on it (classified as %s)" % (kid, r["v"], r["detail"][:120], k2),
                                  replay_of(c, profile, r))
    for kid, kf in findings.items():
        if wres.get(kid):
            res.known(kf)
        else:
            notes.append("finding %s apparently repaired: its witness returns normally" % kid)
    # the witnesses of the repaired findings of this property: a recurrence is a VIOLATION (no classifier left for them)
    fixed_w = my_fixed_witnesses()
    for profile in ("release", "debug"):
        sel = [c for pr, c in fixed_w if pr == profile]
        execute(sel, profile, ms=1500 if quick else case_ms)
    phase("replay-findings")
    # ---- 2. inputs ------------------------------------------------------------------------
    wit, wit_srcs = harvest_witnesses()
    heads = gen_heads(tier)
    head_cases = [{"ep": "D", "doc": b, "fam": f} for f, b in heads]
    head_cases += [{"ep": "C", "schema": s, "doc": b, "fam": f} for f, b in heads
                   for s in (("a = any", "a = [* any]", "a = bstr / tstr / {* any => any}") if not quick else ("a = any",))
                   if (not quick or f in ("head/truncated", "head/in-array", "head/chunk-boundary"))]
    in_depths = [1, 2, 3, 4, 8, 12, 16, 32, 48, 63, 64] if quick else list(range(1, 65))
    # nesting inside a SCHEMA costs exponential time in parse / format / validation (open findings): the small
    # depths run in full, depth 64 (and in thorough every depth) is probed with a short watchdog
    small_schema_depths = [1, 2, 3, 4, 8, 12]
    probe_schema_depths = [64] if quick else [14, 16, 20, 24, 32, 48, 64]
    out_depths = [65, 128, 1000, 10000] if quick else [65, 96, 128, 160, 200, 256, 400, 512, 1000, 2000, 3000, 5000, 10000, 20000]
    depth_cases = gen_depth(in_depths, tier, schema_depths=small_schema_depths)
    probe_cases = [c for c in gen_depth(probe_schema_depths, tier, schema_depths=probe_schema_depths) if c["fam"].startswith("depth/schema-")]
    if quick:
        probe_cases = [c for c in probe_cases if c["ep"] in "PSF" or (c["ep"] == "J" and c["doc"].startswith("[")) or (c["ep"] == "C" and c["doc"][:1] == b"\x81")]
    beyond_cases = [dict(c, fam=c["fam"].replace("depth/", "beyond/")) for c in gen_depth(out_depths, "quick", schema_depths=[] if quick else [65, 128])]
    hostile = gen_hostile(rng, tier, (30 if quick else 0) * (3 if wide else 1))
    # phase 1: one document per (schema, entry point); phase 2: the rest, for schemas that did not hang
    first, rest, seen_se = [], [], set()
    for c in hostile:
        k = (c["ep"], c["schema"])
        (rest if k in seen_se else first).append(c)
        seen_se.add(k)
    bzw = gen_bounded_zero_width(rng, tier)
    pat_cases = gen_patterns(rng, tier)
    alias_cases = gen_alias_family(rng, (200 if quick else 5000) * (3 if wide else 1))
    # ---- 3. run ---------------------------------------------------------------------------
    t_run = time.time()
    phase("generate")
    execute(wit, "release", ms=1500 if quick else case_ms); execute(wit, "debug", ms=1500 if quick else case_ms)
    phase("witnesses")
    execute(head_cases, "release")
    execute([c for c in head_cases if (c["ep"] == "D" and (not quick or c["fam"] in ("head/truncated", "head/+3", "head/in-array", "head/chunk-boundary"))) or not quick], "debug")
    phase("heads")
    execute(depth_cases, "release"); execute(depth_cases, "debug")
    execute(probe_cases, "release", ms=400 if quick else 1500)
    phase("depth")
    rb = execute(beyond_cases, "release", ms=1000 if quick else case_ms, beyond=True)
    phase("beyond")
    hms = 1500 if quick else case_ms
    r1 = execute(first, "release", ms=hms)
    hung = set((c["ep"], c["schema"]) for c, r in zip(first, r1) if r["v"] in ("TIMEOUT", "HANG", "ALLOC"))
    rest = [c for c in rest if (c["ep"], c["schema"]) not in hung]
    execute(rest, "release", ms=hms)
    dbg = first[::3] if quick else first + rest
    dbg = [c for c in dbg if (c["ep"], c["schema"]) not in hung]
    execute(dbg, "debug", ms=hms)
    execute(bzw, "release", ms=hms)
    execute(bzw if not quick else bzw[::3], "debug", ms=hms)
    execute(pat_cases, "release", ms=max(hms, 3000))
    execute(pat_cases if not quick else pat_cases[::3], "debug", ms=max(hms, 3000))
    phase("hostile")
    # outside the bound: where does depth start to hurt (reported, not judged)
    by = {}
    for c, r in zip(beyond_cases, rb):
        k = "%s %s" % (ENTRY.get(c["ep"], c["ep"]), c["fam"])
        if r["v"] in FAIL:
            by[k] = min(by.get(k, 10 ** 9), c["depth"])
    tally.beyond = {k: "first failure at depth %d" % v for k, v in sorted(by.items())}
    # ---- 4. the Coq models predict the code -------------------------------------------------
    mismatches = 0
    #   4a. alias chasing: the guarded model returns for every environment (C05_chase_seq_terminates), so
    #       validate_json_from_str has to return on every schema of the family, cyclic or not
    l_seq = []
    for c in alias_cases:
        ids = Ids()
        l_seq.append(oracle_line(c["hits"], c["env"], c["start"], ids))
    pred = common.run_tool(orc, l_seq)
    obs = run_cases(drv["release"], [line_of(c) for c in alias_cases], case_ms=1000 if quick else 3000, per_shard=10)
    obs_d = run_cases(drv["debug"], [line_of(c) for c in alias_cases[::4]], case_ms=1000 if quick else 3000, per_shard=10)
    pred_hist = {"Y": 0, "N": 0, "O": 0, "?": 0}
    acyc_hist = {"acyclic": 0, "cyclic": 0}
    agree = {"returned": 0}
    for c, p, r in zip(alias_cases, pred, obs):
        a, o, _ = (p.split(" ") + ["", "", ""])[:3]
        pred_hist[o if o in pred_hist else "?"] += 1
        acyc_hist["acyclic" if a == "1" else "cyclic"] += 1
        if o == "O":
            res.violation("oracle contradicts theorem C05_chase_seq_terminates on %r" % c["schema"], {"kind": "oracle", "schema": c["schema"]}, no_input=True)
    for (c, r), profile in [((c, r), "release") for c, r in zip(alias_cases, obs)] + [((c, r), "debug") for c, r in zip(alias_cases[::4], obs_d)]:
        tally.add(c, r, profile, None)
        if r["v"] in FAIL and run_cases(drv[profile], [line_of(c)], case_ms=12000)[0]["v"] in FAIL:
            mismatches += 1
            res.violation("validate_json_from_str (%s build): %s %s on an alias schema; the guarded alias-chase model returns for every environment: schema %r doc %s"
                          % (profile, r["v"], r["detail"][:100], c["schema"], c["doc"]), replay_of(c, profile, r))
        else:
            agree["returned"] += 1
    phase("alias-model")
    #   4b. partial arithmetic
    ar = gen_arith()
    ar_pred = common.run_tool(orc, [l for l, _ in ar], shards=1)
    arith_stats = {}
    for profile in ("release", "debug"):
        sel = [(l, c, p) for (l, c), p in zip(ar, ar_pred) if c["profile"] in (profile, "both")]
        rs = run_cases(drv[profile], [line_of(c) for _, c, _ in sel], case_ms=case_ms)
        for (l, c, p), r in zip(sel, rs):
            fam = c["fam"]
            if fam == "model/arith-size-u32":
                want = "OK" if p == "A" else "ERR"
            else:
                # the checked operation is None -> the code reports a validation error; otherwise either verdict
                want = "ERR" if p == "P" else "OKERR"
            got = r["v"]
            ok = (got == want) or (want == "OKERR" and got in ("OK", "ERR"))
            kf = classify(c, r, profile, graphs) if got in FAIL else None
            tally.add(c, r, profile, kf)
            st = arith_stats.setdefault(fam + "/" + profile, {"cases": 0, "panics": 0, "agree": 0})
            st["cases"] += 1; st["panics"] += got == "PANIC"; st["agree"] += ok; st["none_class"] = st.get("none_class", 0) + (p == "P")
            if not ok or (got in FAIL and kf not in findings):
                res.violation("%s (%s build): model says %s, %s returned %s %s on schema %r doc %s" %
                              (fam, profile, p, ENTRY[c["ep"]], got, r["detail"][:100], c["schema"], hx(c["doc"]) if isinstance(c["doc"], bytes) else c["doc"]),
                              dict(replay_of(c, profile, r), model=p))
    phase("arith-model")
    #   4c. read_len: the chunked read returns what the model returns (and no allocation abort)
    rl = gen_readlen()
    rl_pred = common.run_tool(orc, [l for l, _ in rl], shards=4)
    rl_obs = run_cases(drv["release"], [line_of(c) for _, c in rl], case_ms=case_ms)
    rl_max = 0
    for (l, c), p, r in zip(rl, rl_pred, rl_obs):
        tally.add(c, r, "release", None)
        f = p.split(" ")
        want = "OK" if f[0].startswith("OK") else "ERR"
        try:
            mx = int(f[1], 16)
            rl_max = max(rl_max, mx - c["have"])
            if mx > c["have"] + 65536:
                res.violation("read_len model requests %d bytes for %d present (n=%d)" % (mx, c["have"], c["n"]), {"kind": "alloc-model", "line": l}, no_input=True)
        except (IndexError, ValueError):
            pass
        if r["v"] != want:
            res.violation("decode_cbor(byte string head announcing %d bytes, %d present): model %s, implementation %s %s" % (c["n"], c["have"], p, r["v"], r["detail"][:80]),
                          dict(replay_of(c, "release", r), model=p))
    phase("readlen-model")
    # ---- 5. growth: time at n, 2n, 4n -------------------------------------------------------
    growth = {}
    sizes = [16384, 32768, 65536]
    reps = 1 if quick else 4
    glist = []
    for fam in GROWTH_FAMILIES:
        for n in sizes:
            for ep, c in growth_input(fam, n):
                c = dict(c, ep=ep, fam="growth/" + fam, n=n)
                if ep == "D":
                    c["reps"] = 20
                glist.append(c)
    for profile in ("release", "debug") if not quick else ("release",):
        best = {}

        # glibc: no mmap for large blocks and no trimming, so that a repeated case re-uses its pages instead of
        # faulting them in again (page faults are what a loaded machine makes slow)
        keep = {"MALLOC_MMAP_THRESHOLD_": "33554432", "MALLOC_TRIM_THRESHOLD_": "1073741824", "MALLOC_TOP_PAD_": "67108864"}

        def measure(indices, count_them):
            nsh = 8
            rs = run_cases(drv[profile], [line_of(glist[i]) for i in indices], case_ms=20000 if quick else 60000, shards=nsh, per_shard=1, extra_env=keep)
            for i, r in zip(indices, rs):
                c = glist[i]
                if count_them:
                    kf = classify(c, r, profile, graphs) if r["v"] in FAIL else None
                    tally.add(c, r, profile, kf)
                    if r["v"] in FAIL and kf is None:
                        tally.unexplained.append((c, r, profile))
                if r["v"] in ("OK", "ERR"):
                    best[i] = min(best.get(i, 10 ** 12), max(r["cpu"], 1))
            # a fresh process pays page faults for every allocation, which swamps a fast function: the fast cases
            # run again, twice in a row in the same process, and the warm second pass counts
            fast = [i for i, r in zip(indices, rs) if r["v"] in ("OK", "ERR") and r["cpu"] < 100000]
            if fast:
                order = fast + [fast[0]] * ((-len(fast)) % nsh)
                r2 = run_cases(drv[profile], [line_of(glist[i]) for i in order + order], case_ms=20000, shards=nsh, per_shard=1, extra_env=keep)
                for i, r in zip(order, r2[len(order):]):
                    if r["v"] in ("OK", "ERR"):
                        best[i] = min(best.get(i, 10 ** 12), max(r["cpu"], 1))

        def ratios(byn):
            ts = [best.get(byn[n]) for n in sizes]
            if None in ts:
                return ts, None, None
            # a larger input of the same family does not take less time: a measurement above the one of the next size
            # is noise of a loaded machine and is clamped to it (real super-polynomial growth is monotone, unaffected)
            ts = [min(ts[0], ts[1], ts[2]), min(ts[1], ts[2]), ts[2]]
            floor = 2000.0   # below 2 ms the measurement is noise
            return ts, max(ts[1], floor) / max(ts[0], floor), max(ts[2], floor) / max(ts[1], floor)

        def too_fast(r1, r2, ep=None):
            # a generous polynomial: geometric mean of the two doublings at most 10, no single doubling above 16;
            # decode_cbor, whose model is proven to need linear fuel (C05_decode_terminates), must stay below
            # quadratic growth: not both doublings above 3 with t(4n) / t(n) above 10 (linear: 2 and 4, quadratic: 4 and 16;
            # a single large doubling is the allocator changing strategy, not growth)
            if r1 is None:
                return False
            if ep == "D" and r1 * r2 > 10.0 and min(r1, r2) > 3.0:
                return True
            return r1 > 16 or r2 > 16 or r1 * r2 > 100.0

        for rep in range(reps):
            measure(list(range(len(glist))), rep == 0)
        # group: same family, entry point and position in the family's list
        groups = {}
        for i, c in enumerate(glist):
            pos = [j for j, d in enumerate(glist) if d["fam"] == c["fam"] and d["n"] == c["n"]].index(i)
            groups.setdefault((c["fam"], c["ep"], pos), {})[c["n"]] = i
        # a suspicious group is measured again (minimum over more repetitions) before it is judged
        suspicious = [i for (fam, ep, pos), byn in groups.items() if too_fast(*ratios(byn)[1:], ep=ep) for i in byn.values()]
        for _ in range(4):
            if not suspicious:
                break
            measure(suspicious, False)
            suspicious = [i for (fam, ep, pos), byn in groups.items() if too_fast(*ratios(byn)[1:], ep=ep) for i in byn.values() if i in suspicious]
        for (fam, ep, pos), byn in sorted(groups.items()):
            ts, r1, r2 = ratios(byn)
            key = "%s %s #%d %s" % (fam, ENTRY[ep], pos, profile)
            if r1 is None:
                growth[key] = {"cpu_us": ts, "note": "a size did not return normally"}
                continue
            growth[key] = {"cpu_us": ts, "ratio_2n_over_n": round(r1, 2), "ratio_4n_over_2n": round(r2, 2)}
            if too_fast(r1, r2, ep=ep):
                c = glist[byn[sizes[2]]]
                res.violation("growth of %s on family %s: cpu time %s us at n=%s grows faster than allowed (%s)" % (ENTRY[ep], fam, ts, sizes,
                              "decode_cbor must stay below quadratic growth: both doublings above 3, t(4n)/t(n) = %.1f > 10" % (r1 * r2) if ep == "D" and r1 * r2 <= 100 and max(r1, r2) <= 16
                              else "mean ratio above 10 per doubling, or one doubling above 16"),
                              dict(replay_of(c, profile, {"v": "SLOW", "detail": str(ts)}), kind="growth"))
            if ts[2] > 30e6:
                c = glist[byn[sizes[2]]]
                res.violation("%s on family %s needs %d us of cpu time for a 64 KiB input (budget 30 s)" % (ENTRY[ep], fam, ts[2]),
                              dict(replay_of(c, profile, {"v": "SLOW", "detail": str(ts)}), kind="budget"))
    phase("growth")
    # ---- 6. unexplained failures are violations -----------------------------------------------
    # every one of them is first re-run alone with a four times longer watchdog (a loaded machine must not
    # turn into a finding)
    confirmed = []
    for c, r, profile in tally.unexplained[:60]:
        r2 = run_cases(drv[profile], [line_of(c)], case_ms=max(4 * case_ms, 12000))[0]
        k2 = None
        if r2["v"] in FAIL:
            if c.get("schema") is not None:
                graphs.prefetch([c["schema"]])
            k2 = classify(c, r2, profile, graphs)
        if k2 is not None and k2 in findings:
            tally.known_hits[k2] = tally.known_hits.get(k2, 0) + 1
            notes.append("classified on re-run as %s: %s %s -> %s" % (k2, ENTRY.get(c["ep"], c["ep"]), r["v"], r2["v"]))
        elif r2["v"] in FAIL:
            confirmed.append((c, r2, profile))
        else:
            notes.append("not confirmed on re-run: %s %s on %s -> %s" % (ENTRY.get(c["ep"], c["ep"]), r["v"], c.get("fam"), r2["v"]))
    tally.unexplained = confirmed + tally.unexplained[60:]
    seen_v = set()
    if os.environ.get("VERIF_DEBUG"):
        for c, r, profile in tally.unexplained:
            print("UNEXPLAINED", profile, c["ep"], r["v"], r["detail"][:150], repr((c.get("schema") or "")[:150]),
                  (hx(c["doc"])[:60] if isinstance(c.get("doc"), bytes) else str(c.get("doc"))[:60]), flush=True)
    for c, r, profile in tally.unexplained:
        sig = (c["ep"], c.get("fam"), r["v"], r["detail"][:60])
        if sig in seen_v and len(seen_v) > 12:
            continue
        seen_v.add(sig)
        res.violation("%s (%s build) %s %s on family %s: schema %r doc %s" %
                      (ENTRY.get(c["ep"], c["ep"]), profile, r["v"], r["detail"][:160], c.get("fam"), (c.get("schema") or "")[:200],
                       (hx(c["doc"])[:80] if isinstance(c.get("doc"), bytes) else str(c.get("doc"))[:80])), replay_of(c, profile, r))
    for kid, n in tally.known_hits.items():
        if kid in findings:
            res.known(findings[kid])
    # ---- 7. vm_compute slice: guards the extraction ---------------------------------------------
    sl_exprs, sl_lines = [], []
    for c in rng.sample(alias_cases, min(55, len(alias_cases))):
        ids = Ids()
        sl_lines.append(oracle_line(c["hits"], c["env"], c["start"], ids))
        hits = "[" + "; ".join("[" + "; ".join(str(ids.of(h)) for h in hs) + "]" for hs in c["hits"]) + "]%N"
        sl_exprs.append("chase_report %s %s %d%%N" % (hits, coq_env(c["env"], ids), ids.of(c["start"])))
    for l, c in rl:
        if c["have"] <= 600 and len(sl_exprs) < 95:
            sl_lines.append(l)
            sl_exprs.append("alloc_report %d%%N (repeat 0%%N %d)" % (c["n"], c["have"]))
    for l, _ in ar[::8]:
        f = l.split("\t")
        sl_lines.append(l)
        zs = [("(%s)%%Z" % (("-" if x.startswith("-") else "") + str(int(x.lstrip("-"), 16)))) for x in f[2:4]]
        sl_exprs.append("arith_report %s%%N %s %s" % (f[1], zs[0], zs[1]))
    try:
        vm = common.vm_compute_slice(PROP, "From Cddl Require Import Base.Bytes Robust.Chase Robust.Alloc Robust.Arith.", sl_exprs)
        osl = common.run_tool(orc, sl_lines, shards=1)
        bad = [(l, x, y) for l, x, y in zip(sl_lines, vm, osl) if x != y]
        if bad:
            res.violation("extracted oracle and vm_compute disagree on %r: %r vs %r" % bad[0], {"kind": "extraction", "case": bad[0]}, no_input=True)
    except RuntimeError as e:
        if proved:
            res.violation("vm_compute slice failed: %s" % str(e)[-300:], {"kind": "vm-slice"}, no_input=True)
    phase("vm-slice")
    # crashes with their input first (only the first 20 violations are printed)
    res.violations.sort(key=lambda v: 0 if isinstance(v[1], dict) and v[1].get("observed") in FAIL else 1)
    if not proved and not res.violations:
        res.violation(res.proof_broken, {"kind": "proof-obligation", "detail": res.proof_broken}, no_input=True)
    # ---- evidence ------------------------------------------------------------------------------
    res.coverage.update({
        "evaluations": tally.evaluations,
        "distinct_nontrivial": len(tally.distinct),
        "rule": "one entry point on one input per case, release and debug builds, RLIMIT_AS 1 GiB, 8 MiB stack, per-case watchdog %d ms; "
                "distinct_nontrivial = distinct (entry point, schema, document) with a schema longer than 8 bytes or a document longer than 2 bytes" % case_ms,
        "per_entry_point": tally.per_ep,
        "family_histogram": dict(sorted(tally.fam.items())),
        "known_finding_hits": tally.known_hits,
        "outside_bound_depths": tally.beyond,
        "alias_chase_prediction": {"cases": len(alias_cases), "model_outcomes": pred_hist, "acyclic_alias": acyc_hist, "agreement": agree, "mismatches": mismatches},
        "arith_correspondence": arith_stats,
        "read_len_correspondence": {"cases": len(rl), "largest_request_minus_bytes_present": rl_max},
        "growth_cpu_us": growth,
        "witness_sources": wit_srcs,
        "vm_compute_slice": len(sl_exprs),
        "exhaustive": True,
        "exhaustive_scope": ["CBOR heads: every major type x every head width x announced lengths 2^k-1, 2^k, 2^k+1 (all k), truncated / followed by 3 bytes / inside array, indefinite array%s"
                             % ("" if quick else ", tag, map key, map value, chunk, doubled"),
                             "nesting depths %s for every document / schema nesting family" % ("1..64" if not quick else in_depths)],
        "samples": [{"ep": c["ep"], "schema": c.get("schema"), "doc": c.get("doc") if not isinstance(c.get("doc"), bytes) else c["doc"].hex(), "family": c["fam"]}
                    for c in (first[:3] + alias_cases[:3] + head_cases[40:42])],
        "run_seconds": round(time.time() - t_run, 1),
        "phase_seconds": phases,
    })
    res.assumptions = [
        "stack exhaustion, allocator aborts and panics inside dependencies are observed by running the driver (RLIMIT_AS 1 GiB, 8 MiB stack), not proven",
        "the alias environment of a schema is read off the crate's own AST (driver command G); Vec growth requests at most double the requested capacity",
        "MAX_PREALLOC and the shape of read_len are read from src/validator/cbor_value.rs by gen/robust_consts.py",
        "cpu time is the main thread's run time from /proc/self/schedstat; growth ratios are minima over %d repetitions" % reps,
    ]
    return res.finish()


def replay(path):
    r = json.load(open(path))["replay"]
    if "ep" not in r:
        print("nothing to re-run:", r)
        return 0
    c = {"ep": r["ep"], "schema": bytes.fromhex(r["schema_hex"]).decode("utf-8", "replace") if "schema_hex" in r else None,
         "doc": bytes.fromhex(r["doc_hex"]) if "doc_hex" in r else None, "header": r.get("header")}
    if c["doc"] is not None and c["ep"] in ("J", "V"):
        c["doc"] = c["doc"].decode("utf-8", "replace")
    orc = None
    try:
        common.coq_build(["theories/Extract/ExtractRobust.vo"])
        orc = common.build_oracle("robust", ["robust_model"])
    except RuntimeError:
        pass
    for profile in ("release", "debug"):
        drv = common.build_harness("c05", profile=profile)
        rr = run_cases(drv, [line_of(c)], case_ms=60000)[0]
        print("impl (%s): %s wall=%dus cpu=%dus %s" % (profile, rr["v"], rr["wall"], rr["cpu"], rr["detail"][:300]))
        if rr["v"] in FAIL and orc:
            g = Graphs(drv, orc)
            if c.get("schema"):
                g.prefetch([c["schema"]])
            print("classifier  :", classify(c, rr, profile, g))
    if c.get("schema") and orc:
        g = Graphs(common.build_harness("c05"), orc)
        gr = g.get(c["schema"])
        if gr:
            ids = Ids()
            print("alias env   :", gr["alias"], "chase starts:", gr["starts"])
            for st in gr["starts"]:
                print("model chase from %s (no hits): %s" % (st, common.run_tool(orc, [oracle_line([[]], gr["alias"], st, ids)], shards=1)[0]))
    return 0
