"""C15 - source positions in the AST and in parse errors are accurate (DESIGN.md 6, C15; design.d/C15.md).

Accepted documents: the driver walks the real AST and prints every span-carrying node; the property's clauses are
checked directly on that output (bounds, UTF-8 boundaries, line = the Coq model's ast_line via the oracle, nesting,
sibling order without overlap - also through the Coq-proved events_wfb -, identifier text, rule span starts at its
name, and every span is the span of a pest pair of the corresponding grammar rule).
Rejected documents: the reported Position is compared with the Coq model (ErrRange.convert_pest_error given pest's
failure offset; Span.pest_span_to_position / position_from_ast_span for errors raised by the bridge) and the
property's clauses are checked directly.
"""
import json, os, random, re
from .. import common
from ..common import Result

PROP = "C15"
PROP_FILE = "theories/Props/C15.v"
EXTRACT = "theories/Extract/ExtractPos.vo"
VM_PREAMBLE = "From Cddl Require Import Base.Bytes Pos.Span Pos.ErrRange Pos.Tree."

# ---------------------------------------------------------------------------
# generator of CDDL texts (structure-directed; every construct of cddl.pest)
# ---------------------------------------------------------------------------

CONTROLS = ["size", "bits", "regexp", "cbor", "cborseq", "within", "and", "lt", "le", "gt", "ge", "eq", "ne", "default",
            "cat", "plus", "abnf", "abnfb", "feature", "det", "b64u", "hex", "printf", "json", "join", "pcre", "iregexp"]
PRELUDE = ["int", "uint", "nint", "tstr", "text", "bstr", "bytes", "bool", "nil", "null", "any", "float", "float16-32",
           "number", "true", "false", "tdate", "uri", "encoded-cbor", "mime-message", "b64url"]
IDS = ["a", "b", "foo", "my-type", "x.y", "t1", "_u", "@v", "Z9", "long-name.with.dots", "k", "n-1", "a$b"]
UNI = ["é", "€", "𝄞", "ü", "日本", "ñ", "😀"]
COMMENT_WORDS = ["note", "the", "é", "€uro", "x", "日本語", "see", "§3", "ok", "", "naïve", "𝄞"]


class Gen:
    def __init__(self, rng, eol, unicode_rate, comment_rate, wild_ws):
        self.rng, self.eol = rng, eol
        self.unicode_rate, self.comment_rate, self.wild_ws = unicode_rate, comment_rate, wild_ws
        self.names = []
        self.feat = set()

    def nl(self):
        if self.eol == "mixed":
            return self.rng.choice(["\n", "\r\n"])
        return self.eol

    def comment(self):
        r = self.rng
        words = [r.choice(COMMENT_WORDS) for _ in range(r.randrange(0, 4))]
        if r.random() < self.unicode_rate:
            words.append(r.choice(UNI))
        self.feat.add("comment")
        if any(ord(c) > 127 for w in words for c in w):
            self.feat.add("comment-utf8")
        return ";" + r.choice(["", " "]) + " ".join(words)

    def ws(self, must=False):
        """separator between two tokens (S of the grammar)"""
        r = self.rng
        x = r.random()
        if x < self.comment_rate:
            return r.choice(["", " "]) + self.comment() + self.nl() + r.choice(["", " ", "  ", "\t"])
        if x < self.comment_rate + self.wild_ws:
            return r.choice(["  ", "\t", self.nl() + "  ", " " + self.nl() + "\t", self.nl() + self.nl() + " ", " \t "])
        if not must and x > 0.93:
            return ""
        return " "

    def ident(self):
        return self.rng.choice(IDS)

    def text(self):
        r = self.rng
        parts = []
        for _ in range(r.randrange(0, 4)):
            k = r.random()
            if k < self.unicode_rate:
                parts.append(r.choice(UNI)); self.feat.add("text-utf8")
            elif k < self.unicode_rate + 0.15:
                parts.append(r.choice(["\\n", "\\\"", "\\\\", "\\u00e9", "\\u{1F600}", "\\ud83d\\ude00", "\\/", "\\t"]))
            else:
                parts.append(r.choice(["abc", "x", " ", "k1", ";", "=>", "//", "a b", "'", "é" if r.random() < self.unicode_rate else "e"]))
        return '"' + "".join(parts) + '"'

    def value(self):
        r = self.rng
        k = r.randrange(12)
        if k == 0:
            return r.choice(["0", "1", "23", "255", "65536", "18446744073709551615"])
        if k == 1:
            return r.choice(["0x1F", "0b101", "0xff", "0X1f"])
        if k == 2:
            return r.choice(["-1", "-24", "-0x10", "-0b1"])
        if k == 3:
            return r.choice(["1.5", "-2.0e3", "1e10", "0.0", "1.5e-3", "3.14"])
        if k == 4:
            return r.choice(["0x1.8p3", "-0x1p-2", "0x1p+4"])
        if k in (5, 6, 7):
            return self.text()
        if k == 8:
            self.feat.add("bytes")
            return r.choice(["h'0aFF'", "h'0a ff'", "h''", "h'01 ; c\n 02'", "b64'AQID'", "b64'AQ'", "b64''", "h\"abc\""])
        if k == 9:
            self.feat.add("bytes")
            u = r.choice(UNI) if r.random() < self.unicode_rate else "u"
            return "'" + r.choice(["", "utf8 ", "x;y", "a\"b"]) + u + "'"
        if k == 10 and r.random() < 0.25:
            self.feat.add("bad-literal")
            return r.choice(["18446744073709551616", "99999999999999999999", "h'0g'", "h'abc'", "b64'!!'", "b64'A'", "-9999999999999999999999"])
        return r.choice(["1", "2", "10"])

    def typename(self, group=False):
        r = self.rng
        x = r.random()
        if x < 0.08:
            self.feat.add("socket")
            gap = ""
            if r.random() < 0.2:
                gap = r.choice([" ", "\t", "  ", " " + self.comment() + self.nl() + " ", self.nl()]); self.feat.add("socket-blank")
            return ("$$" if group else "$") + gap + self.ident()
        if x < 0.40 and self.names:
            return r.choice(self.names)
        if x < 0.85 and not group:
            return r.choice(PRELUDE)
        return self.ident()

    def generic_args(self, depth):
        n = self.rng.choice([1, 1, 2, 3])
        self.feat.add("generic-args")
        return "<" + self.ws() + (self.ws() + "," + self.ws()).join(self.type1(depth - 1) for _ in range(n)) + self.ws() + ">"

    def generic_params(self):
        n = self.rng.choice([1, 1, 2, 3])
        self.feat.add("generic-params")
        ps = self.rng.sample(["T", "K", "V", "t-1", "p.q"], n)
        return "<" + self.ws() + (self.ws() + "," + self.ws()).join(ps) + self.ws() + ">"

    def type2(self, depth):
        r = self.rng
        k = r.randrange(20) if depth > 0 else r.randrange(8)
        if k < 3:
            return self.value()
        if k < 8:
            t = self.typename()
            if r.random() < 0.12 and depth > 0:
                t += self.generic_args(depth)
            return t
        if k < 10:
            self.feat.add("paren")
            return "(" + self.ws() + self.type(depth - 1) + self.ws() + ")"
        if k < 13:
            self.feat.add("map")
            return "{" + self.ws() + self.group(depth - 1) + self.ws() + "}"
        if k < 15:
            self.feat.add("array")
            return "[" + self.ws() + self.group(depth - 1) + self.ws() + "]"
        if k == 15:
            self.feat.add("unwrap")
            return "~" + r.choice(["", " "]) + self.typename() + (self.generic_args(depth) if r.random() < 0.1 else "")
        if k == 16:
            self.feat.add("choice-from-group")
            if r.random() < 0.5:
                return "&" + r.choice(["", " "]) + "(" + self.ws() + self.group(depth - 1) + self.ws() + ")"
            return "&" + r.choice(["", " "]) + self.typename(group=True)
        if k in (17, 18):
            self.feat.add("tag")
            c = r.randrange(8)
            if c == 0:
                return "#6." + r.choice(["32", "0", "55799", "4294967296"]) + "(" + self.ws() + self.type(depth - 1) + self.ws() + ")"
            if c == 1:
                return "#6(" + self.ws() + self.type(depth - 1) + self.ws() + ")"
            if c == 2:
                return "#6.<" + self.ws() + self.type(0) + self.ws() + ">(" + self.type(depth - 1) + ")"
            if c == 3:
                return r.choice(["#6.32", "#6"])
            if c == 4:
                return r.choice(["#1.5", "#7.25", "#0", "#2", "#7.<uint>", "#3"])
            if c == 5:
                return "#"
            if c == 6:
                return "#(" + self.type(depth - 1) + ")"
            if r.random() < 0.2:
                self.feat.add("bad-literal")
                return "#6.99999999999999999999(int)"
            return "#6.1(tdate)"
        return self.typename()

    def type1(self, depth):
        r = self.rng
        t = self.type2(depth)
        x = r.random()
        if x < 0.12:
            self.feat.add("range")
            lo, hi = r.choice([("0", "10"), ("-5", "5"), ("1.0", "2.5"), ("a", "b"), ("0x00", "0xff")])
            op = r.choice(["..", "..."])
            if r.random() < 0.7:
                return lo + self.ws(True) + op + self.ws(True) + hi
            return lo + op + hi if lo[0].isdigit() or lo[0] == "-" else lo + " " + op + " " + hi
        if x < 0.27:
            self.feat.add("control")
            return t + self.ws(True) + "." + r.choice(CONTROLS) + self.ws(True) + self.type2(min(depth, 1))
        return t

    def type(self, depth):
        n = self.rng.choice([1, 1, 1, 2, 2, 3])
        if n > 1:
            self.feat.add("type-choice")
        return (self.ws() + "/" + self.ws()).join(self.type1(depth) for _ in range(n))

    def occur(self):
        self.feat.add("occurrence")
        return self.rng.choice(["?", "*", "+", "2*", "*3", "1*4", "0*1", "0x2*0b11", "3*3", "10*"])

    def entry(self, depth):
        r = self.rng
        o = (self.occur() + self.ws()) if r.random() < 0.3 else ""
        k = r.randrange(12)
        if k < 4:
            self.feat.add("bareword-key")
            key = self.ident() if r.random() < 0.9 else "$" + self.ident()
            return o + key + r.choice(["", " "]) + ":" + self.ws() + self.type(depth)
        if k < 6:
            self.feat.add("value-key")
            return o + r.choice([self.text(), "1", "-2", "1.5"]) + r.choice(["", " "]) + ":" + self.ws() + self.type(depth)
        if k < 8:
            self.feat.add("arrow-key")
            arrow = r.choice(["=>", "=>", "^ =>", "^=>"])
            return o + self.type1(min(depth, 1)) + self.ws(True) + arrow + self.ws() + self.type(depth)
        if k < 10:
            return o + self.type(depth)
        if k == 10:
            self.feat.add("groupname-entry")
            return o + self.typename(group=True) + (self.generic_args(depth) if r.random() < 0.1 and depth > 0 else "")
        self.feat.add("inline-group")
        return o + "(" + self.ws() + self.group(depth - 1) + self.ws() + ")"

    def group_choice(self, depth):
        r = self.rng
        n = r.choice([0, 1, 1, 2, 2, 3, 4]) if depth > 0 else r.choice([0, 1, 1, 2])
        es = [self.entry(max(depth, 0)) for _ in range(n)]
        out = ""
        for i, e in enumerate(es):
            if i:
                out += self.ws() + ("," if r.random() < 0.85 else "") + self.ws(True)
            out += e
        if es and r.random() < 0.2:
            out += self.ws() + ","
        return out

    def group(self, depth):
        n = self.rng.choice([1, 1, 1, 1, 2, 3])
        if n > 1:
            self.feat.add("group-choice")
        return (self.ws(True) + "//" + self.ws(True)).join(self.group_choice(depth) for _ in range(n))

    def rule(self, idx):
        r = self.rng
        depth = r.choice([0, 1, 1, 2, 2, 3])
        if r.random() < 0.08 and self.names:
            name = r.choice(self.names); self.feat.add("repeated-name")
        else:
            name = self.ident() + (str(idx) if r.random() < 0.8 else "")
        if r.random() < 0.05:
            name = ("$$" if r.random() < 0.5 else "$") + name; self.feat.add("socket")
        gp = self.generic_params() if r.random() < 0.1 else ""
        if r.random() < 0.75:
            op = "=" if r.random() < 0.85 else "/="
            body = self.type(depth)
            self.feat.add("type-rule" if op == "=" else "type-choice-alternate")
        else:
            op = "=" if r.random() < 0.8 else "//="
            self.feat.add("group-rule" if op == "=" else "group-choice-alternate")
            o = (self.occur() + self.ws()) if r.random() < 0.3 else ""
            body = o + "(" + self.ws() + self.group(depth) + self.ws() + ")"
        self.names.append(name)
        return name + gp + self.ws() + op + self.ws() + body

    def doc(self):
        r = self.rng
        n = r.choice([1, 1, 2, 2, 3, 4, 6])
        out = ""
        if r.random() < 0.2:
            out += self.comment() + self.nl()
        if r.random() < 0.1:
            out += self.nl()
        for i in range(n):
            out += self.rule(i)
            if i < n - 1 and r.random() < 0.08:
                out += r.choice([" ", "  ", "\t"]); self.feat.add("rules-on-one-line")
            elif i < n - 1 or r.random() < 0.7:
                out += self.nl() * r.choice([1, 1, 1, 2, 3])
                if r.random() < 0.15:
                    out += self.comment() + self.nl()
            if r.random() < 0.05:
                out += "  "
        return out


def gen_doc(rng):
    eol = rng.choice(["\n", "\n", "\r\n", "mixed"])
    g = Gen(rng, eol, rng.choice([0.0, 0.1, 0.3, 0.6]), rng.choice([0.0, 0.03, 0.1, 0.25]), rng.choice([0.0, 0.05, 0.2]))
    t = g.doc()
    feats = set(g.feat)
    if "\r\n" in t:
        feats.add("crlf")
    if "\t" in t:
        feats.add("tab")
    if not t.endswith("\n"):
        feats.add("no-trailing-newline")
    if "\n\n" in t or "\r\n\r\n" in t:
        feats.add("blank-line")
    return t, feats


INSERTS = list(" \n;\"'(){}[],:=/.*?#<>$@^-+~&x9_\t\r") + ["é", "€", "𝄞", "//", "=>", "..", "\r\n", "ü"]

SPECIAL = [
    "", " ", "\n", "\r\n", "\t \n", "; only a comment", "; only a comment\n", "; é\n; 日本\n", ";", "\n\n; c\n\n",
    "a = é", "a = $ x", "a = ; é\n", "a = {? b: int}", "a = xé", "a = \"é\" é", "a", "a =", "a = ", "a = \n", "a =\r\n",
    "a = [\r\n  1,\r\n", "a = { b: int,\n  c }\n", "= int", "a = int\nb", "a = int\n\n\nb = \n", "a = 1 ..", "a = tstr .foo 3",
    "a = $$ g\n", "a = { $ k: int }", "a = [* $$ grp ]", "a = $\tx / $ ; c\n y", "a<T> = [T]\nb = a<$ t>\n", "a = ~ $ x",
    "a = b\n", "a = 1\na = 2", "a = 1\r\nb = 2\r\na = 3", "é = int", "a = é\n", "a = 日本", "; é\na = int ; ü\n€",
    "a = int\r\nb = é", "a = \"é\r\n", "a = 'é", "a = h'é'", "a = int ; é", "a = ; é", "a = ; 日本\n ", "a = [ ; 𝄞\n",
    "a = #6.32", "a = #6", "a = #", "a = #7.25", "a = #6.<b>(int)\nb = 1", "a = {1*2 \"k\" ^ => tstr, * tstr => any}",
    "a = \"é\" a = 2", "x = \"日本\" b = 'é' b = 1\n", "a = 1 ; é\r\nb = \"ü€\" c = 2 b = 3", "a = 1 a = 2",
    "a = (int / tstr)\n", "g = (a: int, b: tstr)\n", "g //= (x: 1 // y: 2)\n", "a /= 1 .. 5\n", "a = 1...5", "a = 0x1.8p3",
    "a<T, K> = {* K => T}\n", "a = b<int, [* tstr]>\nb<X, Y> = [X, Y]\n", "a = &(x: 1, y: 2) / &g\ng = (z: 3)\n",
    "a = ~b\nb = [int]\n", "a = bstr .size (1..4)\n", "a = tstr .regexp \"[a-z]+é\"\n", "a = 18446744073709551616",
    "a = h'0g'", "a = b64'!!'", "a = [99999999999999999999*3 int]", "a = #6.99999999999999999999(int)", "a = tstr .nope 3",
    "\ufeffa = int", "a\u00a0= int", "a = int\u2028b = tstr", "a = int\x0cb = 2", "a = \"x\ty\"", "a = {\n\t? \"kéy\" : int, ; tréma\n}\n",
]


def mutate(rng, t):
    """single edit at a random character position"""
    chars = list(t)
    if not chars:
        return rng.choice(INSERTS)
    i = rng.randrange(len(chars) + 1)
    # prefer the neighbourhood of a multi-byte character now and then
    nonascii = [j for j, c in enumerate(chars) if ord(c) > 127]
    if nonascii and rng.random() < 0.3:
        i = max(0, min(len(chars), rng.choice(nonascii) + rng.choice([-1, 0, 1, 2])))
    op = rng.randrange(3)
    if op == 0 and i < len(chars):
        del chars[i]
    elif op == 1 or i >= len(chars):
        chars.insert(i, rng.choice(INSERTS))
    else:
        chars[i] = rng.choice(INSERTS)
    return "".join(chars)


def gen_cases(rng, n_docs, n_trunc_docs):
    cases = [("special", s, set()) for s in SPECIAL]
    trunc_left = n_trunc_docs
    for _ in range(n_docs):
        t, feats = gen_doc(rng)
        cases.append(("generated", t, feats))
        for _ in range(rng.choice([1, 2, 2, 3])):
            cases.append(("mutant", mutate(rng, t), set()))
        if rng.random() < 0.15:
            cases.append(("mutant2", mutate(rng, mutate(rng, t)), set()))
        if rng.random() < 0.3:
            cases.append(("truncated", t[:rng.randrange(len(t) + 1)], set()))
        if trunc_left > 0 and len(t) < 160 and (any(ord(c) > 127 for c in t) or rng.random() < 0.3):
            trunc_left -= 1
            for k in range(len(t)):
                cases.append(("prefix", t[:k], set()))
    return cases


# ---------------------------------------------------------------------------
# checking one document
# ---------------------------------------------------------------------------

PAIR_KIND = {
    "RuleT": {"rule"}, "RuleG": {"rule"},
    "Ident.rulename": {"typename", "groupname"}, "Ident.ref": {"typename", "groupname"},
    "Ident.param": {"id"}, "Ident.key": {"bareword", "typename"},
    "GenericParams": {"generic_params"}, "GenericArgs": {"generic_args"},
    "Type": {"type_expr"}, "Type1": {"type1"},
    "Op.Range": {"range_op"}, "Op.Ctl": {"control_op"},
    "Group": {"group"}, "GroupChoice": {"group_choice"},
    "GE.Value": {"group_entry"}, "GE.Name": {"group_entry"}, "GE.Inline": {"group_entry"},
    "Occ.Exact": {"occur_n"}, "Occ.Star": {"occur_star"}, "Occ.Plus": {"occur_plus"}, "Occ.Opt": {"occur_opt"},
    "MK.Type1": {"member_key"}, "MK.Bareword": {"member_key"}, "MK.Value": {"member_key"},
}
TAG_KINDS = {"Tagged", "Major", "Any"}
# node kinds that legitimately have no source text (the bridge synthesises them): the empty content Type of a
# tag written without parentheses (`#6.32`), pest_bridge.rs convert_tag_expr
DEFAULT_SPAN_OK = {"Type.emptytag"}
SKIP_RE = re.compile(rb"^(?:[ \t\r\n]|;[^\n]*(?:\n|$))+$")


def pair_kinds(kind):
    if kind in PAIR_KIND:
        return PAIR_KIND[kind]
    if kind.startswith("T2"):
        return {"tag_expr", "type2"} if kind.split(".")[1] in TAG_KINDS else {"type2"}
    return set()


def is_boundary(b, i):
    return i == len(b) or (0 <= i < len(b) and (b[i] & 0xC0) != 0x80)


def line_col_of(b, i):
    """spec: 1 + line feeds before i ; 1 + characters after the last line feed before i"""
    pre = b[:i]
    line = 1 + pre.count(b"\n")
    tail = pre[pre.rfind(b"\n") + 1:]
    col = 1 + sum(1 for c in tail if (c & 0xC0) != 0x80)
    return line, col


class Node:
    __slots__ = ("kind", "s", "e", "line", "parent", "extra", "kids")

    def __init__(self, f):
        p = f.split(":")
        self.kind, self.s, self.e, self.line, self.parent = p[0], int(p[1]), int(p[2]), int(p[3]), int(p[4])
        self.extra = bytes.fromhex(p[5][1:]) if p[5].startswith("x") else None
        self.kids = []


def parse_ok(out):
    f = out.split("\t")
    nodes = [Node(x) for x in f[1].split(" ")] if f[1] != "-" else []
    pairs = set()
    if f[2] != "-":
        for x in f[2].split(" "):
            k, s, e = x.split(":")
            pairs.add((k, int(s), int(e)))
    return nodes, pairs, f[3]


def check_accepted(b, nodes, pairs):
    """returns (problems, kf_hits, stats) ; problems = list of (clause, description)"""
    problems, kf, defaults = [], set(), {}
    n = len(b)
    for i, nd in enumerate(nodes):
        if nd.parent >= 0:
            nodes[nd.parent].kids.append(i)
    transparent = set()
    for i, nd in enumerate(nodes):
        where = "%s(%d,%d,%d)#%d" % (nd.kind, nd.s, nd.e, nd.line, i)
        if (nd.s, nd.e, nd.line) == (0, 0, 0):
            defaults[nd.kind] = defaults.get(nd.kind, 0) + 1
            if nd.kind not in DEFAULT_SPAN_OK:
                problems.append(("default-span", "%s carries the synthesised span (0,0,0) but corresponds to source text" % where))
            transparent.add(i)
            continue
        if not (0 <= nd.s <= nd.e <= n):
            problems.append(("bounds", "%s not within 0 <= start <= end <= %d" % (where, n)))
            continue
        if not (is_boundary(b, nd.s) and is_boundary(b, nd.e)):
            problems.append(("char-boundary", "%s not on UTF-8 character boundaries" % where))
        if nd.parent >= 0:
            p = nodes[nd.parent]
            if (p.s, p.e, p.line) != (0, 0, 0) and not (p.s <= nd.s and nd.e <= p.e):
                problems.append(("nesting", "%s not inside its parent %s(%d,%d)" % (where, p.kind, p.s, p.e)))
        if pair_kinds(nd.kind) and not any((k, nd.s, nd.e) in pairs for k in pair_kinds(nd.kind)):
            problems.append(("pair-span", "%s is not the span of any pest pair of rule %s" % (where, "/".join(sorted(pair_kinds(nd.kind))))))
        if nd.extra is not None:
            src = b[nd.s:nd.e]
            if src != nd.extra:
                problems.append(("ident-text", "%s covers %r but the identifier is %r" % (where, src.decode("utf-8", "replace"), nd.extra.decode("utf-8", "replace"))))
        if nd.kind in ("RuleT", "RuleG"):
            first = nodes[nd.kids[0]] if nd.kids else None
            if first is None or first.kind != "Ident.rulename" or first.s != nd.s:
                problems.append(("rule-start", "%s does not start at its name %s" % (where, (first.s, first.e) if first else None)))
    # siblings in source order without overlap (transparent nodes hand their children to their parent)
    def children(i):
        out = []
        for k in nodes[i].kids:
            if k in transparent:
                out += children(k)
            else:
                out.append(k)
        return out
    tops = [i for i, nd in enumerate(nodes) if nd.parent < 0]
    events = []

    def walk(lst):
        prev = None
        for k in lst:
            nd = nodes[k]
            if prev is not None and nd.s < prev.e:
                problems.append(("sibling-order", "%s(%d,%d)#%d starts before the end of its preceding sibling %s(%d,%d)" % (nd.kind, nd.s, nd.e, k, prev.kind, prev.s, prev.e)))
            prev = nd
            events.append(2 * nd.s)
            walk(children(k))
            events.append(2 * nd.e + 1)
    walk([t for t in tops if t not in transparent])
    return problems, kf, defaults, events


def parse_err(f):
    """f = fields after ERR / checked"""
    origin, pp, pl, pc, idx, line, col, a, bb, msg = f[:10]
    return {"origin": origin, "pest": None if pp == "-" else (int(pp), int(pl), int(pc)), "index": int(idx), "line": int(line),
            "col": int(col), "a": int(a), "b": int(bb), "msg": bytes.fromhex(msg[1:]).decode("utf-8", "replace")}


def model_line_for_error(h, e):
    if e["origin"] == "pest":
        return "E\t%s\t%d" % (h, e["pest"][0])
    if "is already defined" in e["msg"]:
        return "A\t%s\t%d\t%d" % (h, e["a"], e["b"])
    return "S\t%s\t%d\t%d" % (h, e["a"], e["b"])


def hexnums(s):
    return [int(x, 16) for x in s.split(" ")] if s else []


def check_rejected(b, e, model_out):
    """clauses checked directly + comparison with the model; returns (problems, kf, cls)"""
    problems, kf = [], set()
    n = len(b)
    mi, ml, mc, ma, mb = hexnums(model_out)
    got = (e["index"], e["line"], e["col"], e["a"], e["b"])
    if got != (mi, ml, mc, ma, mb):
        problems.append(("model", "reported (index,line,column,range) = %s but the model of %s gives %s" % (got, e["origin"], (mi, ml, mc, ma, mb))))
    if not (0 <= e["a"] <= e["b"]):
        problems.append(("range-inverted", "range (%d,%d) is inverted" % (e["a"], e["b"])))
    if not (0 <= e["index"] <= n and e["b"] <= n):
        problems.append(("err-bounds", "index %d / range (%d,%d) outside the input of %d bytes" % (e["index"], e["a"], e["b"], n)))
    else:
        if (e["line"], e["col"]) != line_col_of(b, e["index"]):
            problems.append(("err-linecol", "line %d column %d are not those of index %d (%s)" % (e["line"], e["col"], e["index"], line_col_of(b, e["index"]))))
        if not is_boundary(b, e["b"]):
            problems.append(("err-char-boundary", "range end %d is inside a multi-byte character" % e["b"]))
        if not (is_boundary(b, e["index"]) and is_boundary(b, e["a"])):
            problems.append(("err-char-boundary", "index %d / range start %d is inside a multi-byte character" % (e["index"], e["a"])))
    if e["origin"] == "pest":
        pp, pl, pc = e["pest"]
        if not (0 <= pp <= n) or not is_boundary(b, pp):
            problems.append(("pest-offset", "pest failure offset %d not a character boundary of the input" % pp))
        elif (pl, pc) != line_col_of(b, pp):
            problems.append(("pest-linecol", "pest line_col (%d,%d) at %d differs from the specification %s" % (pl, pc, pp, line_col_of(b, pp))))
        cls = "pest:" + ("forward" if e["a"] == pp and e["b"] > pp else "backward" if e["a"] < pp else "zero-width")
        if pp == n:
            cls += ":at-end-of-input"
    else:
        if (e["index"], e["line"], e["col"], e["a"], e["b"]) == (0, 1, 1, 0, 0):
            cls = e["origin"] + ":default-position"
        elif "is already defined" in e["msg"]:
            cls = e["origin"] + ":duplicate-rule(position_from_ast_span)"
        else:
            cls = e["origin"] + ":" + re.sub(r"(missing definition for rule|Invalid control operator|out of range).*", r"\1", re.sub(r"[:\"].*", "", e["msg"])).strip()[:50]
    return problems, kf, cls


# ---------------------------------------------------------------------------
# the check
# ---------------------------------------------------------------------------

# witnesses of the findings repaired in /repo (findings.d/C15.json "fixed"); they run first on every run
FIXED_WITNESSES = [
    ("2fbd55d range end inside a multi-byte character", "a = é"),
    ("2fbd55d range start / index inside a multi-byte character", "a = ; é\n"),
    ("2fbd55d", "a = xé"), ("2fbd55d", "a = [ ; 𝄞\n"), ("2fbd55d", "; 日本\n="),
    ("837f856 identifier span covers the blank after a socket prefix", "a = $ x"),
    ("837f856", "a = [* $$ grp ]"), ("837f856", "a = $ ; c\n x"),
    ("781e531 member key span is the whole group entry", "a = {? b: int}"),
    ("781e531", "a = {1*2 \"k\" ^ => tstr, * tstr => any, 1: int}"),
]


def load_findings():
    kfs = common.known_findings(PROP)
    if not kfs:   # fragment not assembled yet
        p = os.path.join(common.VERIF, "findings.d", "C15.json")
        if os.path.exists(p):
            kfs = [e for e in json.load(open(p)).get("findings", []) if e["status"] == "open"]
    return {k["id"]: k for k in kfs}


def evaluate(drv, orc, texts):
    """run driver + oracle on texts; returns list of dicts with problems / kf / class"""
    hexes = [t.encode("utf-8").hex() for t in texts]
    impl = common.run_tool(drv, ["P\t" + h for h in hexes])
    olines, slots = [], []
    parsed = []
    for h, t, out in zip(hexes, texts, impl):
        b = t.encode("utf-8")
        if out.startswith("OK\t"):
            nodes, pairs, checked = parse_ok(out)
            problems, kf, defaults, events = check_accepted(b, nodes, pairs)
            rec = {"verdict": "accepted", "nodes": nodes, "problems": problems, "kf": kf, "defaults": defaults, "impl": out}
            starts = [nd.s for nd in nodes if (nd.s, nd.e, nd.line) != (0, 0, 0) and 0 <= nd.s <= len(b)]
            rec["line_nodes"] = [nd for nd in nodes if (nd.s, nd.e, nd.line) != (0, 0, 0) and 0 <= nd.s <= len(b)]
            slots.append((len(parsed), "L")); olines.append("L\t%s\t%s" % (h, ",".join(map(str, starts)) or "-"))
            slots.append((len(parsed), "W")); olines.append("W\t%d\t%s" % (len(b), ",".join(map(str, events)) or "-"))
            if checked != "-":
                ce = parse_err(checked.split(","))
                rec["checked"] = ce
                slots.append((len(parsed), "C")); olines.append(model_line_for_error(h, ce))
            parsed.append(rec)
        elif out.startswith("ERR\t"):
            e = parse_err(out.split("\t")[1:])
            rec = {"verdict": "rejected", "err": e, "problems": [], "kf": set(), "impl": out}
            slots.append((len(parsed), "E")); olines.append(model_line_for_error(h, e))
            parsed.append(rec)
        elif out.startswith("NOPOS"):
            parsed.append({"verdict": "rejected-nopos", "problems": [], "kf": set(), "impl": out, "cls": "no-position"})
        else:
            parsed.append({"verdict": "driver", "problems": [("driver", "driver answered %r" % out[:80])], "kf": set(), "impl": out})
    model = common.run_tool(orc, olines)
    for (i, what), ol, mo in zip(slots, olines, model):
        rec = parsed[i]
        b = texts[i].encode("utf-8")
        rec.setdefault("model", []).append(ol.split("\t")[0] + " -> " + mo)
        if what == "L":
            ml = hexnums(mo)
            for nd, l in zip(rec["line_nodes"], ml):
                if nd.line != l:
                    rec["problems"].append(("line", "%s(%d,%d) carries line %d but its start is on line %d (model ast_line)" % (nd.kind, nd.s, nd.e, nd.line, l)))
                if l != 1 + b[:nd.s].count(b"\n"):
                    rec["problems"].append(("model-line-spec", "model line %d differs from 1 + line feeds before %d" % (l, nd.s)))
        elif what == "W":
            direct_ok = not any(c in ("bounds", "nesting", "sibling-order") for c, _ in rec["problems"])
            if (mo == "wf") != direct_ok:
                rec["problems"].append(("events-wfb", "Coq events_wfb says %s but the direct nesting/order check says %s" % (mo, direct_ok)))
        elif what == "E":
            pr, kf, cls = check_rejected(b, rec["err"], mo)
            rec["problems"] += pr; rec["kf"] |= kf; rec["cls"] = cls
        elif what == "C":
            pr, kf, cls = check_rejected(b, rec["checked"], mo)
            rec["problems"] += [(c, "from_slice/checked: " + d) for c, d in pr]; rec["kf"] |= kf; rec["checked_cls"] = cls
    return parsed, impl


def sweep_check(drv, orc, texts):
    """convert_pest_error at every character-boundary offset of each text: implementation vs model.
    returns (n_offsets, problems[(text, desc)], class histogram)"""
    hexes = [t.encode("utf-8").hex() for t in texts]
    impl = common.run_tool(drv, ["X\t" + h for h in hexes])
    model = common.run_tool(orc, ["X\t" + h for h in hexes])
    n, problems, hist = 0, [], {}
    for t, a, m in zip(texts, impl, model):
        b = t.encode("utf-8")
        try:
            got = [tuple(int(x) for x in e.split(" ")) for e in a.split(",")]
            faithful = [tuple(int(x, 16) for x in e.split(" ")) for e in m.split(",")]
        except ValueError:
            problems.append((t, "sweep output unreadable: impl %r model %r" % (a[:80], m[:80])))
            continue
        if len(got) != len(faithful):
            problems.append((t, "sweep lengths differ: impl %d offsets, model %d" % (len(got), len(faithful))))
            continue
        for g, f in zip(got, faithful):
            n += 1
            p, idx, line, col, lo, hi = g
            cls = "forward" if lo == p and hi > p else "backward" if lo < p else "zero-width"
            if not (is_boundary(b, lo) and is_boundary(b, hi)):
                cls += ":inside-char"
            hist[cls] = hist.get(cls, 0) + 1
            if g != f:
                problems.append((t, "convert_pest_error at offset %d: implementation (index,line,column,a,b) = %s, model %s" % (p, g[1:], f[1:])))
            elif not (lo <= hi <= len(b) and lo <= p and idx == lo and (line, col) == line_col_of(b, idx)
                      and is_boundary(b, lo) and is_boundary(b, hi)):
                problems.append((t, "convert_pest_error at offset %d: %s violates a <= b <= len / a <= offset / index = a / line,column of index / character boundaries" % (p, g[1:])))
    return n, problems, hist


def vm_expr(text, line):
    f = line.split("\t")
    if f[0] == "X":
        bs = common.coq_list(list(bytes.fromhex(f[1])))
        return "err_sweep_render %s" % bs
    if f[0] == "W":
        return "events_wf_render %s%%N %s" % (f[1], common.coq_list([int(x) for x in f[2].split(",")] if f[2] != "-" else []))
    bs = common.coq_list(list(bytes.fromhex(f[1])))
    if f[0] == "E":
        return "err_render %s %s%%N" % (bs, f[2])
    if f[0] == "S":
        return "span_position_render %s %s%%N %s%%N" % (bs, f[2], f[3])
    if f[0] == "A":
        return "ast_position_render %s %s%%N %s%%N" % (bs, f[2], f[3])
    if f[0] == "L":
        return "lines_render %s %s" % (bs, common.coq_list([int(x) for x in f[2].split(",")] if f[2] != "-" else []))
    raise ValueError(line)


def run(tier, seed):
    res = Result(PROP, tier, seed)
    proved = common.prove(res, PROP, PROP_FILE, [EXTRACT])
    drv = common.build_harness("c15")
    orc = common.build_oracle("pos", ["pos_model"])
    rng = random.Random(seed)
    n_docs, n_trunc = (1500, 25) if tier == "quick" else (25000, 300)
    if not proved:
        n_docs, n_trunc = n_docs * 3, n_trunc * 3
    findings = load_findings()

    # 1. corpus first: the witnesses of the repaired findings (any recurrence is a violation), then open findings
    recs, impl_c = evaluate(drv, orc, [w for _, w in FIXED_WITNESSES])
    for (tag, w), rec, out in zip(FIXED_WITNESSES, recs, impl_c):
        for clause, desc in rec["problems"]:
            res.violation("recurrence of a repaired finding (%s) on its witness %r: clause '%s': %s" % (tag, w, clause, desc),
                          {"text_hex": w.encode().hex(), "text": w, "clause": clause, "detail": desc, "impl": out[:2000], "fixed_finding": tag})
    for kid, kf in findings.items():
        w = kf["witness"]["text"]
        recs, _ = evaluate(drv, orc, [w])
        if kid in recs[0]["kf"]:
            res.known(kf)
        else:
            res.notes.append("finding %s apparently repaired: witness %r -> %s" % (kid, w, recs[0]["impl"][:200]))

    # 2. generated documents
    cases = gen_cases(rng, n_docs, n_trunc)
    cls_hist, verdicts, kind_hist, defaults, err_classes, clause_hist, feat_hist = {}, {}, {}, {}, {}, {}, {}
    spans_checked, distinct, kf_counts = 0, set(), {}
    gen_verdicts = {"accepted": 0, "rejected": 0}
    pool, samples = [], []
    BATCH = 4000      # bounded memory: node records are dropped after each batch
    for b0 in range(0, len(cases), BATCH):
        batch = cases[b0:b0 + BATCH]
        recs, impl = evaluate(drv, orc, [c[1] for c in batch])
        if b0 == 0:
            samples = [{"class": c[0], "text": c[1][:160], "impl": o[:300]} for c, o in list(zip(batch, impl))[len(SPECIAL):len(SPECIAL) + 6]]
        for (cls, t, feats), rec in zip(batch, recs):
            cls_hist[cls] = cls_hist.get(cls, 0) + 1
            verdicts[rec["verdict"]] = verdicts.get(rec["verdict"], 0) + 1
            if cls == "generated":
                gen_verdicts["accepted" if rec["verdict"] == "accepted" else "rejected"] += 1
            for f in feats:
                feat_hist[f] = feat_hist.get(f, 0) + 1
            if rec["verdict"] == "accepted":
                for nd in rec["nodes"]:
                    kind_hist[nd.kind] = kind_hist.get(nd.kind, 0) + 1
                spans_checked += len(rec["nodes"])
                for k, v in rec["defaults"].items():
                    defaults[k] = defaults.get(k, 0) + v
                if "checked_cls" in rec:
                    c = "from_slice:" + rec["checked_cls"]
                    err_classes[c] = err_classes.get(c, 0) + 1
            elif "cls" in rec:
                err_classes[rec["cls"]] = err_classes.get(rec["cls"], 0) + 1
            if len(t) > 4:
                distinct.add(t)
            for k in rec["kf"]:
                kf_counts[k] = kf_counts.get(k, 0) + 1
                if k in findings:
                    res.known(findings[k])
                elif len(res.violations) < 200:
                    res.violation("document %r shows the defect %s but no such open finding is listed" % (t[:120], k),
                                  {"text_hex": t.encode().hex(), "text": t, "impl": rec["impl"][:2000], "clause": k})
            for clause, desc in rec["problems"]:
                clause_hist[clause] = clause_hist.get(clause, 0) + 1
                if len(res.violations) < 200:
                    res.violation("C15 clause '%s' fails on %r: %s" % (clause, t[:120], desc),
                                  {"text_hex": t.encode().hex(), "text": t, "clause": clause, "detail": desc, "impl": rec["impl"][:2000],
                                   "model": rec.get("model")})
            # candidates for the vm_compute slice (guards extraction)
            if len(pool) < 3000 and len(t.encode()) <= 90:
                h = t.encode("utf-8").hex()
                if rec["verdict"] == "accepted" and rec["nodes"]:
                    pool.append("L\t%s\t%s" % (h, ",".join(str(nd.s) for nd in rec["line_nodes"]) or "-"))
                elif rec["verdict"] == "rejected":
                    pool.append(model_line_for_error(h, rec["err"]))
        del recs, impl

    # 2b. convert_pest_error at every offset (exhaustive over the character boundaries of each chosen text)
    short = [c[1] for c in cases if len(c[1].encode()) <= 120]
    sweep_texts = [c[1] for c in cases[:len(SPECIAL)]] + rng.sample(short, min(len(short), 600 if tier == "quick" else 8000))
    sweep_n, sweep_problems, sweep_hist = sweep_check(drv, orc, sweep_texts)
    for t, desc in sweep_problems[:50]:
        clause_hist["sweep"] = clause_hist.get("sweep", 0) + 1
        res.violation("C15 error-position model: %s on %r" % (desc, t[:120]),
                      {"text_hex": t.encode().hex(), "text": t, "clause": "sweep", "detail": desc})
    sweep_vm = ["X\t" + t.encode().hex() for t in sweep_texts if 0 < len(t.encode()) <= 30][:10]

    # 3. vm_compute slice of the oracle requests
    sl = rng.sample(pool, min(110, len(pool)))
    sl += sweep_vm + ["E\t%s\t4" % "a = é".encode().hex(), "E\t%s\t9" % "a = ; é\n".encode().hex(), "W\t9\t0,0,3,8,8,15,19,19", "W\t9\t0,8,19,16,19,19"]
    vm = common.vm_compute_slice(PROP, VM_PREAMBLE, [vm_expr(None, l) for l in sl])
    orc_sl = common.run_tool(orc, sl, shards=1)
    vm_bad = [(l, x, y) for l, x, y in zip(sl, vm, orc_sl) if x != y]
    if vm_bad:
        res.violation("extracted oracle and vm_compute disagree on %s: %s vs %s" % vm_bad[0], {"kind": "extraction", "case": list(vm_bad[0])}, no_input=True)

    # generator health
    tot_gen = sum(gen_verdicts.values())
    if tot_gen and not (0.2 <= gen_verdicts["accepted"] / tot_gen):
        res.violation("generator degenerate: only %d of %d generated documents are accepted" % (gen_verdicts["accepted"], tot_gen),
                      {"kind": "generator"}, no_input=True)
    tot = sum(verdicts.values())
    acc = verdicts.get("accepted", 0)
    if tot and not (0.2 <= acc / tot <= 0.8):
        res.violation("generator degenerate: verdict split accepted=%d of %d" % (acc, tot), {"kind": "generator"}, no_input=True)

    if not proved and not res.violations:
        res.violation(res.proof_broken, {"kind": "proof-obligation", "detail": res.proof_broken}, no_input=True)
    res.coverage.update({
        "evaluations": len(cases) + len(FIXED_WITNESSES) + len(findings) + sweep_n,
        "distinct_nontrivial": len(distinct),
        "rule": "documents from a structure-directed CDDL generator (every construct of cddl.pest; LF / CRLF / mixed line ends, tabs, blank lines, "
                "multi-byte UTF-8 in text, byte strings and comments, missing final newline), their single- and double-edit mutants (delete / insert / "
                "replace one character, biased to the neighbourhood of multi-byte characters), random truncations, every prefix of a set of short "
                "documents, and a fixed list of special texts (empty, blanks only, comments only, errors at end of input, witnesses). "
                "distinct_nontrivial = distinct texts longer than 4 characters",
        "class_histogram": cls_hist, "verdict_split": verdicts, "generated_verdicts": gen_verdicts,
        "construct_histogram": dict(sorted(feat_hist.items())),
        "spans_checked": spans_checked, "node_kind_histogram": dict(sorted(kind_hist.items())),
        "default_span_kinds": defaults, "default_span_kinds_allowed": sorted(DEFAULT_SPAN_OK),
        "error_position_classes": dict(sorted(err_classes.items())),
        "known_finding_hits": kf_counts, "violated_clauses": clause_hist, "violations_total": sum(clause_hist.values()),
        "error_offset_sweep": {"texts": len(sweep_texts), "offsets": sweep_n, "classes": sweep_hist, "exhaustive_over": "all character-boundary offsets of each of these texts"},
        "vm_compute_slice": len(sl),
        "samples": samples,
    })
    res.assumptions = [
        "the input is valid UTF-8 (&str): characters are the non-continuation bytes; checked by the Python side decoding every text",
        "pest's failure offset (pest::error::Error::location) is an input of the ErrRange model; the driver prints it next to the crate's Position",
        "pest 2.9.0 Position::line_col is modelled as Span.pest_line_col and compared with pest's own numbers on every rejected text",
        "AST spans are compared with the spans of the real pest pairs (CddlParser::parse), not with a Coq model of the grammar",
    ]
    return res.finish()


def replay(path):
    r = json.load(open(path))["replay"]
    drv = common.build_harness("c15")
    common.coq_build([EXTRACT])
    orc = common.build_oracle("pos", ["pos_model"])
    t = bytes.fromhex(r["text_hex"]).decode("utf-8")
    recs, impl = evaluate(drv, orc, [t])
    rec = recs[0]
    print("text  :", repr(t))
    print("impl  :", impl[0][:3000])
    for m in rec.get("model", []):
        print("model :", m[:1000])
    lines = []
    h = r["text_hex"]
    if rec["verdict"] == "rejected":
        lines.append(model_line_for_error(h, rec["err"]))
    elif rec["verdict"] == "accepted" and len(t.encode()) <= 400:
        lines.append("L\t%s\t%s" % (h, ",".join(str(nd.s) for nd in rec["line_nodes"]) or "-"))
    for l in lines:
        print("vm    :", l.split("\t")[0], "->", common.vm_compute_slice(PROP, VM_PREAMBLE, [vm_expr(None, l)])[0])
    for c, d in rec["problems"]:
        print("FAILS :", c, "-", d)
    for k in rec["kf"]:
        print("KNOWN :", k)
    return 1 if rec["problems"] else 0
