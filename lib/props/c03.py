"""C03 - the parser accepts exactly the RFC 8610/9682 grammar and mirrors it in the AST (DESIGN.md 6, C03; design.d/C03.md).

Per text three comparisons are made:
  tree      CddlParser::parse(Rule::cddl, text)  ==  PegRun over the grammar translated from /repo/cddl.pest  (complete pair tree)
  shape     AST shape of cddl_from_str(text)     ==  Bridge.v applied to the model's pair tree
  language  cddl_from_str accepts                <=> the verified ABNF recogniser derives the text (RFC 8610 App. B + RFC 9682
            + the four documented leniencies + the type1 note).  A difference is attributed to an open finding only if the
            recogniser run on the grammar VARIANT with that finding's deviation switched on (Deviations.v) agrees with the
            crate on this very text; otherwise it is a violation.
"""
import itertools, json, os, random, re
from .. import common
from ..common import Result

PROP = "C03"
PROP_FILE = "theories/Props/C03.v"
EXTRACT = "theories/Extract/ExtractGrammar.vo"

# deviation bits of Grammar/Deviations.v
BITS = {
    1: "kf-c03-id-runs", 2: "kf-c03-dollar-ids", 3: "kf-c03-group-rule-commit", 4: "kf-c03-bytes-no-escapes",
    5: "kf-c03-bsqual-case", 7: "kf-c03-radix-float",       # bit 6 (control-name prefix matching) repaired in 8d55c20
    8: "kf-c03-bytes-member-key",
    9: "kf-c03-implicit-skip", 10: "kf-c03-tag-forms", 11: "kf-c03-control-chars", 12: "kf-c03-escape-scalars",
    13: "kf-c03-paren-entry-commit",
}
SPEC = 0                      # mask 0: the specification (RFC + documented leniencies, names as maximal tokens)
# deviation 8 (byte-string member key) is a BRIDGE rejection where the key is written '..' (recognised below by the bridge's own
# message together with the bridge model's verdict) and a GRAMMAR rejection where it is written h'..' / b64'..' (the bareword
# alternative takes the h / b64); its variant grammar keeps an unconverted copy for the type inside #6.<type> / #7.<type>
CLASSIFY_BITS = [k for k in (1, 2, 3, 4, 5, 7, 8, 9, 10, 11, 12, 13)]
ALL = sum(1 << k for k in CLASSIFY_BITS)

# bridge rejections that are about literal VALUES or duplicate definitions (properties C07 / C12), not about the grammar
SEMANTIC_OK = ("Invalid unsigned integer", "Invalid integer", "Invalid float", "Invalid hexfloat", "Invalid base16 encoding",
               "base64", "Base64", "Tag number out of range", "Occurrence bound out of range", "is already defined",
               "padding", "trailing bits", "invalid length", "invalid symbol", "non-zero")

CONTROLS = ["size", "bits", "regexp", "cbor", "cborseq", "within", "and", "lt", "le", "gt", "ge", "eq", "ne", "default",
            "pcre", "iregexp", "bitfield", "cat", "det", "plus", "abnf", "abnfb", "feature", "b64u", "b64c", "b64u-sloppy",
            "b64c-sloppy", "hex", "hexlc", "hexuc", "b32", "h32", "b45", "base10", "printf", "json", "join"]

# ---------------------------------------------------------------------------
# (a) documents sampled from the ABNF (one function per ABNF rule), size-bounded
# ---------------------------------------------------------------------------

class Gen:
    def __init__(self, rng, exotic=0.03):
        self.r = rng
        self.exotic = exotic          # probability of constructs that fall into a known deviation class
        self.used = {}                # construct histogram
        self.n = 0

    def hit(self, k):
        self.used[k] = self.used.get(k, 0) + 1

    def ex(self):
        return self.r.random() < self.exotic

    def S(self, need=False):
        r = self.r.random()
        if r < 0.45:
            return " " if need or self.r.random() < 0.8 else ""
        if r < 0.60:
            return "" if not need else " "
        if r < 0.75:
            return "\n"
        if r < 0.83:
            self.hit("comment"); return " ; c%d\n" % self.r.randrange(9)
        if r < 0.88:
            self.hit("tab-leniency"); return "\t"
        if r < 0.92:
            return "\r\n"
        if r < 0.96:
            return "  "
        self.hit("comment"); return ";" + self.r.choice(["", "é", " x=y ", "\"'"]) + "\n "

    IDS = ["a", "b", "c1", "foo", "foo-bar", "x.y", "@k", "_u", "int", "tstr", "uint", "any", "bstr", "t", "A-1", "k$v", "p.q-r"]

    def id(self):
        if self.ex():
            self.hit("id-run"); return self.r.choice(["a--b", "a.-b", "x..y", "q-.r"])
        return self.r.choice(self.IDS)

    def typename(self):
        r = self.r.random()
        if r < 0.08:
            self.hit("socket-type"); return "$" + self.r.choice(["s", "ext", "a-b"])
        if self.ex():
            self.hit("dollar-id"); return self.r.choice(["$", "$$$x", "$1", "a$"])
        return self.id()

    def groupname(self):
        r = self.r.random()
        if r < 0.12:
            self.hit("socket-group"); return "$$" + self.r.choice(["g", "ext"])
        return self.r.choice(["g", "grp", "h-1", "a", "b"])

    def uint(self):
        r = self.r.random()
        if r < 0.6:
            return self.r.choice(["0", "1", "2", "7", "10", "23", "255"])
        if r < 0.8:
            self.hit("hex-uint"); return self.r.choice(["0x1F", "0X0a", "0xff"])
        self.hit("bin-uint"); return self.r.choice(["0b101", "0B1", "0b0"])

    def text(self):
        self.hit("text")
        n = self.r.randrange(0, 4)
        pieces = ["a", "b c", "é", "€", "\\n", "\\\"", "\\\\", "\\/", "\\u00e9", "\\u{1F600}", "\\ud83d\\ude00", "x;y", "'", "\\t", "\\u{0}"]
        s = "".join(self.r.choice(pieces) for _ in range(n))
        if self.ex():
            self.hit("ctrl-char"); s += self.r.choice(["\t", "\n", "\x7f"])
        if self.ex():
            self.hit("bad-escape-scalar"); s += self.r.choice(["\\ud800", "\\u{110000}", "\\u{d800}"])
        return '"' + s + '"'

    def bytes(self):
        self.hit("bytes")
        r = self.r.random()
        if r < 0.35:
            s = self.r.choice(["", "ab", "x y", "é", "a;b", '"q"'])
            if self.ex():
                self.hit("bytes-escape"); s += self.r.choice(["\\'", "\\n", "\\q"])
            return "'" + s + "'"
        if r < 0.65:
            return "h'" + self.r.choice(["", "0aff", "0a ff", "00", "DEADbeef"]) + "'"
        if r < 0.9:
            return "b64'" + self.r.choice(["", "AQID", "AQ==", "AQI="]) + "'"
        if self.ex():
            self.hit("bsqual-case"); return self.r.choice(["H'00'", "B64'AQID'"])
        self.hit("h-quoted-leniency"); return 'h"' + self.r.choice(["", "00", "ab cd"]) + '"'

    def number(self):
        r = self.r.random()
        if r < 0.4:
            self.hit("uint"); return self.uint()
        if r < 0.6:
            self.hit("int"); return "-" + self.uint()
        if r < 0.85:
            self.hit("float"); return self.r.choice(["1.5", "-0.5", "2e3", "1E+2", "-1.25e-2", "0.0", "10.01"])
        if self.ex():
            self.hit("radix-float"); return self.r.choice(["0b1.5", "0x1.8", "0b1e2"])
        self.hit("hexfloat"); return self.r.choice(["0x1.8p3", "-0x1p-2", "0XAp+1", "0x0.1P0"])

    def value(self):
        r = self.r.random()
        if r < 0.5:
            return self.number()
        if r < 0.8:
            return self.text()
        return self.bytes()

    def genericarg(self, d):
        self.hit("genericarg")
        n = self.r.choice([1, 1, 2])
        s = "<" + self.S()
        s += self.type1(d - 1) + self.S()
        for _ in range(n - 1):
            s += "," + self.S() + self.type1(d - 1) + self.S()
        return s + ">"

    def genericparm(self):
        self.hit("genericparm")
        n = self.r.choice([1, 1, 2])
        ids = self.r.sample(["t", "u", "k", "v-1"], n)
        s = "<" + self.S() + ids[0] + self.S()
        for i in ids[1:]:
            s += "," + self.S() + i + self.S()
        return s + ">"

    def type2(self, d):
        r = self.r.random()
        if d <= 0:
            r = r * 0.45
        if r < 0.18:
            return self.value()
        if r < 0.45:
            self.hit("typename")
            t = self.typename()
            if d > 0 and self.r.random() < 0.15:
                if self.ex():
                    self.hit("implicit-ws"); t += " "
                t += self.genericarg(d)
            return t
        if r < 0.52:
            self.hit("paren-type"); return "(" + self.S() + self.type(d - 1) + self.S() + ")"
        if r < 0.64:
            self.hit("map"); return "{" + self.S() + self.group(d - 1) + self.S() + "}"
        if r < 0.76:
            self.hit("array"); return "[" + self.S() + self.group(d - 1) + self.S() + "]"
        if r < 0.80:
            self.hit("unwrap"); return "~" + self.S() + self.typename() + (self.genericarg(d) if self.r.random() < 0.2 else "")
        if r < 0.84:
            self.hit("choice-from-group"); return "&" + self.S() + "(" + self.S() + self.group(d - 1) + self.S() + ")"
        if r < 0.87:
            self.hit("choice-from-name"); return "&" + self.S() + self.groupname() + (self.genericarg(d) if self.r.random() < 0.2 else "")
        if r < 0.92:
            self.hit("tag6")
            hn = ""
            q = self.r.random()
            if q < 0.5:
                hn = "." + self.uint()
            elif q < 0.75:
                self.hit("tag6-type"); hn = ".<" + self.type(d - 1) + ">"
                if self.ex():
                    self.hit("implicit-ws"); hn = ".< " + self.type(d - 1) + " >"
            return "#6" + hn + "(" + self.S() + self.type(d - 1) + self.S() + ")"
        if r < 0.94:
            self.hit("simple7")
            q = self.r.random()
            return "#7" + ("" if q < 0.3 else "." + self.uint() if q < 0.7 else ".<" + self.type(d - 1) + ">")
        if r < 0.97:
            self.hit("major")
            if self.ex():
                self.hit("tag-forms"); return self.r.choice(["#1(int)", "#2.<int>", "#7.1(int)", "#0.1(a)"])
            return "#" + str(self.r.randrange(0, 10)) + ("" if self.r.random() < 0.5 else "." + self.uint())
        if r < 0.985:
            self.hit("any"); return "#"
        self.hit("hash-paren-leniency"); return "#(" + self.S() + self.type(d - 1) + self.S() + ")"

    def type1(self, d):
        a = self.type2(d)
        r = self.r.random()
        if r < 0.72:
            return a
        idend = bool(re.search(r"[A-Za-z0-9@_$]$", a))
        if r < 0.84:
            self.hit("rangeop")
            op = self.r.choice(["..", "..."])
            s1 = self.S(need=idend and self.r.random() < 0.9)
            if idend and s1 == "":
                self.hit("tight-range")
            return a + s1 + op + self.S() + self.type2(d - 1)
        self.hit("ctlop")
        name = self.r.choice(CONTROLS)
        if name == "cborseq" and not self.ex():
            name = "cbor"
        if name == "cborseq":
            self.hit("cborseq")
        s1 = self.S(need=idend and self.r.random() < 0.95)
        if idend and s1 == "":
            self.hit("tight-ctlop")
        dot = "."
        if self.ex():
            self.hit("implicit-ws"); dot = ". "
        return a + s1 + dot + name + self.S(need=True) + self.type2(d - 1)

    def type(self, d):
        s = self.type1(d)
        while self.r.random() < 0.25:
            self.hit("type-choice"); s += self.S() + "/" + self.S() + self.type1(d)
        return s

    def occur(self):
        self.hit("occur")
        r = self.r.random()
        if r < 0.5:
            return self.r.choice(["?", "*", "+"])
        a, b = self.uint(), self.uint()
        return self.r.choice([a + "*", "*" + b, a + "*" + b])

    def memberkey(self, d):
        r = self.r.random()
        if r < 0.4:
            self.hit("key-bareword"); return self.r.choice(["a", "b", "k-1", "x.y", "@k", "int"]) + self.S() + ":"
        if r < 0.6:
            self.hit("key-value")
            v = self.r.choice([self.uint(), "-1", "1.5", self.text()])
            if self.ex():
                self.hit("key-bytes"); v = "'k'"
            return v + self.S() + ":"
        self.hit("key-type1")
        cut = ""
        if self.r.random() < 0.3:
            self.hit("cut"); cut = "^" + self.S()
        if self.r.random() < 0.25:
            # a parenthesised type as the key (type2 = "(" S type S ")"), with or without a cut
            self.hit("key-paren"); return "(" + self.S() + self.type(d - 1) + self.S() + ")" + self.S() + cut + "=>"
        return self.type1(d - 1) + self.S() + cut + "=>"

    def grpent(self, d):
        occ = (self.occur() + self.S()) if self.r.random() < 0.3 else ""
        r = self.r.random()
        if r < 0.62 or d <= 0:
            self.hit("entry-type")
            mk = (self.memberkey(d) + self.S()) if self.r.random() < 0.5 else ""
            return occ + mk + self.type(d - 1)
        if r < 0.78:
            self.hit("entry-groupname")
            return occ + self.groupname() + (self.genericarg(d) if self.r.random() < 0.15 else "")
        self.hit("entry-inline-group")
        return occ + "(" + self.S() + self.group(d - 1) + self.S() + ")"

    def optcom(self):
        r = self.r.random()
        if r < 0.7:
            return self.S() + "," + self.S(need=self.r.random() < 0.7)
        return self.S(need=True)

    def grpchoice(self, d):
        n = self.r.choice([0, 1, 1, 2, 2, 3])
        s = ""
        for i in range(n):
            s += self.grpent(d)
            s += self.optcom() if (i < n - 1 or self.r.random() < 0.25) else ""
        return s

    def group(self, d):
        s = self.grpchoice(d)
        while self.r.random() < 0.18:
            self.hit("group-choice"); s += self.S() + "//" + self.S() + self.grpchoice(d)
        return s

    def rule(self, d):
        self.n += 1
        uniq = "%d" % self.n
        gp = ""
        if self.r.random() < 0.12:
            gp = self.genericparm()
            if self.ex():
                self.hit("implicit-ws"); gp = " " + gp
        if self.r.random() < 0.7:
            self.hit("type-rule")
            name = self.r.choice(["r", "ty-", "x.", "$sock", "@", "_"]) + uniq
            op = "=" if self.r.random() < 0.8 else "/="
            return name + gp + self.S() + op + self.S() + self.type(d)
        self.hit("group-rule")
        name = self.r.choice(["g", "grp-", "$$gs"]) + uniq
        op = "=" if self.r.random() < 0.8 else "//="
        r = self.r.random()
        if r < 0.7:
            occ = (self.r.choice(["?", "*", "+", "*2"]) + self.S()) if self.r.random() < 0.3 else ""
            body = occ + "(" + self.S() + self.group(d - 1) + self.S() + ")"
        elif r < 0.85:
            body = self.r.choice(["?", "*", "+"]) + self.S() + (self.memberkey(d) + self.S() if self.r.random() < 0.5 else "") + self.type(d - 1)
        else:
            self.hit("group-rule-general"); body = self.grpent(d)
        return name + gp + self.S() + op + self.S() + body

    def doc(self):
        n = self.r.choice([0, 1, 1, 1, 2, 2, 3])
        s = self.S()
        for _ in range(n):
            s += self.rule(self.r.choice([1, 2, 2, 3])) + self.r.choice(["\n", "\n\n", " ", "\n", " ; eol\n", "\r\n"])
        if n and self.r.random() < 0.1:
            self.hit("final-comment-leniency"); s += ";end"
        return s


# ---------------------------------------------------------------------------
# (b) single edits
# ---------------------------------------------------------------------------
EDIT_CHARS = list(" \n\t=/(){}[]<>,:*+?.#\"'$-^~&;a1x_@\\0e")
TOKEN_RE = re.compile(r'"(?:[^"\\]|\\.)*"|\'[^\']*\'|[A-Za-z@_$][A-Za-z0-9@_$.-]*|\d+|//=|/=|=>|//|\.\.\.|\.\.|\s+|.', re.S)
EDIT_TOKENS = ["a", "=", "/=", "//=", "/", "//", "(", ")", "[", "]", "{", "}", ",", ":", "=>", "?", "*", "+", "1", '"s"',
               "..", ".size", "#6.1", "<", ">", "~", "&", "^", "$", ";c\n", " ", "'b'", "h'00'", "-1", "1.5", "#"]


def char_edit(rng, t):
    if not t:
        return rng.choice(EDIT_CHARS)
    i = rng.randrange(len(t) + 1)
    k = rng.randrange(3)
    if k == 0 and i < len(t):
        return t[:i] + t[i + 1:]
    if k == 1:
        return t[:i] + rng.choice(EDIT_CHARS) + t[i:]
    i = min(i, len(t) - 1)
    return t[:i] + rng.choice(EDIT_CHARS) + t[i + 1:]


def token_edit(rng, t):
    toks = TOKEN_RE.findall(t)
    if not toks:
        return rng.choice(EDIT_TOKENS)
    i = rng.randrange(len(toks))
    k = rng.randrange(4)
    if k == 0:
        del toks[i]
    elif k == 1:
        toks.insert(i, rng.choice(EDIT_TOKENS))
    elif k == 2:
        toks[i] = rng.choice(EDIT_TOKENS)
    else:
        j = rng.randrange(len(toks)); toks[i], toks[j] = toks[j], toks[i]
    return "".join(toks)


# ---------------------------------------------------------------------------
# (c) token strings, (d) short arbitrary strings, (e) probe corpus
# ---------------------------------------------------------------------------
TOKENS = ["a", "b", "=", "/=", "//=", "/", "//", "(", ")", "[", "]", "{", "}", ",", ":", "=>", "?", "*", "+", "1", '"s"',
          "..", ".size", "#6.1", "<", ">", "~", "&", "^", "$"]
ARB = list("ab1 =/()[]{}<>,:*+?.#\"'$-^~&;\n\t\\x")

PROBES = [
    "", " ", "\n", ";c", ";c\n", "a = int", "a = int ;c", "a=int", "a = int\tb = tstr", "a = int\rb = tstr", "a = int\r\nb = tstr",
    "a--b = int", "a.-b = int", "a = b..c", "a = b .. c", "a = b...c", "a = b.size 3", "a = b .size 3", "a = b.. c", "a = 1..2", "a = 1 ..2",
    "g = a: int", "g = 2*3 int", "g = (a: int)", "g = ? a: int", "g //= a: int", "g = 2*3 (a)", "g = (a) => b", "g = a => b", "g = \"k\": 1",
    "g = * a", "g = $$x", "g = $$x<a>", "a = 'it\\'s'", "a = 'a\\qb'", "a = 'x\ny'", "$ x = int", "$$ g = (a)", "a = $ x", "a = $", "$ = int",
    "$$$x = int", "$1 = int", "$x //= (a)", "$$x /= int", "$$x = int", "a = $$x", "a = [$$x]", "a = bstr .cborseq b", "a = bstr .cbor b",
    "a = bstr .cborseq", "a = b .sizefoo", "a = H'00'", "a = B64'AQID'", "a = h'00'", "a = h'zz'", "a = b64'!'", "a = #6.< int >(tstr)",
    "a = #6.<int>(tstr)", "a = #1(int)", "a = #1.5(int)", "a = #2.<int>", "a = #7.<int>", "a = #7.1(int)", "a = # 6.1(int)", "a = #6 .1(int)",
    "a = #6. 1(int)", "a = #6.1 (int)", "a = { 'a': int }", "a = { 'a' => int }", "a = [#1(int)]", "a = #(int)", "a = # (int)", "a = h\"00\"",
    "a = h\"\"", "a = tstr .iregexp \"x\"", "a = tstr .foo \"x\"", "a = tstr . size 3", "a = 0x10", "a = 0X10", "a = 1E5", "a = 0b1.5", "a = 0x1.8",
    "a = 0b1e2", "a = [0b1e2]", "a = 042", "a = [042]", "a = \"\\u{41}\"", "a = \"\\u00e9\"", "a = \"x\\qy\"", "a = \"\\ud800\"", "a = \"\\u{110000}\"",
    "a = \"\\u{0041}\"", "a = \"\\uD83D\\uDE00\"", "a = \"tab\there\"", "a = \"nl\nhere\"", "a = \"\x7f\"", ";c\tx\na = int", ";c\rb\na = int",
    "a<t> = [t]", "a <t> = [t]", "a< t , u > = [t, u]", "a = b<c>", "a = b <c>", "a = b< c , d >", "a = ~ b<c>", "a = & g<c>", "a = ~b <c>",
    "a = {* tstr => any}", "a = {(tstr / int) ^ => bool}", "a = {( tstr )^=> int}", "a = [(1..3) ^ => int]", "g = ((a) ^ => b, (c) => d)", "a = {+ a ^ => int}", "a = {a ^ => int}", "a = {a^=>int}", "a = [1*2 int, 3* tstr, *4 x, ? y]", "a = &(x: 1, y: 2)",
    "a = ~b", "a = & b", "a //= (x: 1)", "a /= int", "g = (a, b)", "a = [a: int]", "a = {\"a\": int}", "a = {1: int}", "a = {-1: int, 1.5: x}",
    "a = int / tstr / [x // y]", "a = 1...3", "a = (int)", "a = ( int / tstr )", "a = [(int, tstr)]", "a = [ * ( int, tstr ) ]", "a = [2*3(int)]",
    "a = [2* 3 int]", "a = [a b]", "a = [a,, b]", "a = [,a]", "a = [a,]", "a = [a , ]", "a = []", "a = {}", "a = [//]", "a = [a // ]", "a = ()",
    "a = [()]", "a = [(a) => b]", "a = [a / b => c]", "a = [0x1*0b11 a]", "a = [*]", "a = [* a]", "a = [*a]", "a = [+a]", "a = [?a]", "a = [1*a]",
    "a = [a: b: c]", "a = {a: b, c => d, \"e\": f, 1: g}", "a = #", "a = #6", "a = #6(int)", "a = #6.32(tstr)", "a = #6.0x20(tstr)", "a = #7.25",
    "a = #1.2", "a = #10", "a = int\nb = tstr\nc = [a, b]", "a = int b = tstr", "a = intb = tstr", "a", "a =", "= int", "a == int", "a = = int",
    "a = int /", "a = / int", "a = int // tstr", "a = (int", "a = int)", "a = [int", "a = {a: }", "a = \"unterminated", "a = 'unterminated",
    "a = -", "a = -a", "a = - 1", "a = 1.", "a = .5", "a = 1e", "a = 0x", "a = 0b2", "a = 00", "a = 1_000", "é = int", "a = é", "a = \"é\"",
    "a = 'é'", ";é\na = int", "a = int ; é", "a = b .size (1..2)", "a = b .size 1..2", "a = 1 .. 2 .. 3", "a = b .lt 3 .gt 1",
    "a = b .b64u-sloppy c", "a = b .b64u c", "a = b .hexlc c", "a = b .abnfb c", "a = b .bitfield c",
    "a = [((uint) / x.y)]", "a = [((a) .size 3)]", "a = [((a) .size 3) .lt 4]", "a = [(((a) / b))]", "a = [((a) / b) => c]",
    "a = [((a) / b) .size 3 => c]", "g //= ((uint) / x)", "g = ? ((a) / b)", "a = [(a) .size 3 => b]", "a = [((a))]", "a = [((a)) / b]",
    "a = #6.<{'k': 1}>(x)", "a = #7.<'a\\qb'>", "a = #6.<\"\\ud800\">(tstr)", "a = #6.<[h'zz']>(x)", "a = #6.<99999999999999999999999>(x)",
    "g //= h'00' : 10", "g = + h'00' : 10", "$$gs= +h'00' :0X0a", "a = [h'00' : 10]", "a = {b64'AQ==': 1}", "g = ? 'k': 1", "a = #6.<{h'00': 1}>(x)",
    "a = [# 1.5:bstr]", "a = [ k : #7.1 (x) => y ]", "a = [#7.1 (x) => y]", "a = [#7.1 (a: int)]", "a = [# (x) => y]", "a = [#(x) => y]",
    "a = [#1 (a: int)]", "a = [#1.2 (x)]", "a = [# ;c\n 1]", "a = [ 1.5 : #7.0x1F ( \"x\")=> [y] ]",
    "a = {$a: 1}", "a = {$a<b>: 1}", "a = [a: x / h\"ab\" => c]", "a = [a: x / h'00' => c]", "a = [a: x / H'00' => c]", "a = [*0]", "a = 0b1 = 2",
    "a = [1p3]", "a = [0x1p3]", "a = [0x1.8p3]", "a = -0x1p-2 b = 1", "g = (#6.1 : 1)", "a = b .abnfb\nx..y", "a = b .hexlc x..y",
]


# (f) one-character sweep: every code point of SWEEP_CPS in every slot of SWEEP_SLOTS (a token class widened or narrowed
# by a single character shows up here whatever the character is)
SWEEP_CPS = list(range(0, 0x180)) + [0x2000, 0x2003, 0x200B, 0x2028, 0x2029, 0x202F, 0x3000, 0xD7FF, 0xE000, 0xFEFF, 0xFFFD, 0xFFFE,
                                     0xFFFF, 0x10000, 0x1F600, 0x10FFFD, 0x10FFFE, 0x10FFFF]
SWEEP_SLOTS = ["%sx = int", "x%s = int", "x%sy = int", "a = %s", "a = x%sy", "a = x%s", "a = 1%s", "a = 0x%s", "a = 0x1%s", "a = 0b%s", "a = 0b1%s",
               "a = \"%s\"", "a = \"\\%s\"", "a = '%s'", ";%s\na = int", "a%s= int", "a =%sint", "a = int%sb = int", "a = [%sx]", "a = [x%s]",
               "a = [x%sy]", "a = [1*%s x]", "a = #%s", "a = #6.%s(x)", "a = x .%s", "a = x .size%s", "a = 1.%s", "a = 1e%s", "a = -%s", "a = {x%s int}",
               "a = {x %s int}", "a = x %s y", "a<t%s> = t", "a = b<%s>", "a = h'0%s'", "a = h\"%s\"", "a %s int"]


# (g) slot fills: every string of one or two tokens in the operator / separator position of each construct
SLOT_TEMPLATES = ["a = [x %s y]", "a = {x %s y}", "a = [%s x]", "a = {x: %s}", "a = (x %s y)", "g = (x %s y)", "a = x %s y",
                  "a<%s> = x", "a = x<%s>", "a = #6%s(x)", "a = [x, %s]", "a %s x"]


def utf8_ok(s):
    try:
        s.encode("utf-8")
        return True
    except UnicodeEncodeError:
        return False


def gen_texts(rng, tier, wide):
    """returns list of (class, text)"""
    out = [("probe", p) for p in PROBES]
    scale = {"quick": 1, "thorough": 40}[tier] * (2 if wide else 1)
    g = Gen(rng)
    sampled = []
    for _ in range(2500 * scale):
        d = g.doc()
        if len(d.encode()) <= 110:
            sampled.append(d)
    out += [("abnf-sample", d) for d in sampled]
    gx = Gen(rng, exotic=0.25)
    for _ in range(300 * scale):
        d = gx.doc()
        if len(d.encode()) <= 110:
            out.append(("abnf-sample-exotic", d))
    base = [d for d in sampled if d.strip()]
    for d in rng.sample(base, min(len(base), 1000 * scale)):
        out.append(("char-edit", char_edit(rng, d)))
        out.append(("token-edit", token_edit(rng, d)))
    for p in PROBES:
        out.append(("char-edit", char_edit(rng, p)))
    # token strings: exhaustive up to length 3 (4 in thorough), plus rule bodies "a = ..." and samples of the next length
    kmax = 3 if tier == "quick" else 4
    for k in range(1, kmax + 1):
        for tup in itertools.product(TOKENS, repeat=k):
            out.append(("tokens-%d" % k, " ".join(tup)))
    for k in range(1, kmax):
        for tup in itertools.product(TOKENS, repeat=k):
            out.append(("body-tokens-%d" % k, "a = " + " ".join(tup)))
    for _ in range(4000 * scale):
        out.append(("tokens-sample", " ".join(rng.choice(TOKENS) for _ in range(kmax + 1 + rng.randrange(2)))))
        out.append(("body-tokens-sample", "a = " + " ".join(rng.choice(TOKENS) for _ in range(kmax + rng.randrange(3)))))
        out.append(("glued-tokens-sample", "".join(rng.choice(TOKENS) for _ in range(2 + rng.randrange(4)))))
    for _ in range(2500 * scale):
        out.append(("arbitrary", "".join(rng.choice(ARB) for _ in range(1 + rng.randrange(7)))))
    for cp in SWEEP_CPS:
        for slot in SWEEP_SLOTS:
            out.append(("char-sweep", slot % chr(cp)))
    fills = [(t,) for t in TOKENS] + list(itertools.product(TOKENS, repeat=2))
    for tpl in SLOT_TEMPLATES:
        for f in fills:
            out.append(("slot-fill", tpl % " ".join(f)))
            if len(f) == 2:
                out.append(("slot-fill", tpl % "".join(f)))
    for n in CONTROLS:
        out.append(("control-probe", "a = b .%s c" % n))
        out.append(("control-probe", "a = b .%s" % n))
        out.append(("control-probe", "a = b .%sx c" % n))
        out.append(("control-probe", "a = b .%s c" % n[:-1]))
    return [(c, t) for c, t in out if utf8_ok(t)], dict(g.used), dict(gx.used)


# ---------------------------------------------------------------------------
# running and classifying
# ---------------------------------------------------------------------------

def hx(t):
    return t.encode("utf-8").hex()


def split_ast(a):
    """impl AST field -> (verdict, payload): ('ok', shape) | ('syntax', msg) | ('semantic', msg) | ('crash', raw)"""
    if a.startswith("Ok"):
        return "ok", a[3:]
    if a.startswith("Err syntax"):
        return "syntax", a[11:]
    if a.startswith("Err semantic"):
        return "semantic", a[13:]
    return "crash", a


def literal_semantic(msg):
    return any(k in msg for k in SEMANTIC_OK)


def evaluate(drv, orc, texts):
    """run both sides; returns per text a dict"""
    impl = common.run_tool(drv, ["B\t" + hx(t) for t in texts])
    mt = common.run_tool(orc, ["T\t" + hx(t) for t in texts])
    mh = common.run_tool(orc, ["H\t" + hx(t) for t in texts])
    mv = common.run_tool(orc, ["V\t%d\t%s" % (SPEC, hx(t)) for t in texts])
    res = []
    for t, b, x, h, v in zip(texts, impl, mt, mh, mv):
        parts = b.split("\t")
        tree = parts[0]
        ast = parts[1] if len(parts) > 1 else b
        res.append({"text": t, "impl_tree": tree, "impl_ast": ast, "model_tree": x, "model_shape": h, "spec": v})
    return res


def variant(orc, mask, texts):
    return common.run_tool(orc, ["V\t%d\t%s" % (mask, hx(t)) for t in texts])


def judge(res, orc, rows, findings, stats, hist):
    """compare; returns list of divergent rows needing classification"""
    div = []
    for r in rows:
        t = r["text"]
        rep = {"text_hex": hx(t), "text": t}
        verdict, payload = split_ast(r["impl_ast"])
        if verdict == "crash" or r["impl_tree"] in ("PANIC",) or r["impl_tree"].startswith("CRASH"):
            res.violation("the parser crashed on %r: %s" % (t, r["impl_ast"][:80]), dict(rep, kind="crash"))
            continue
        if "EFUEL" in (r["model_tree"], r["model_shape"], r["spec"]) or r["model_tree"].startswith("?"):
            res.violation("model out of fuel / oracle failure on %r" % t, dict(rep, kind="model-fuel"), no_input=True)
            continue
        # 1. pair tree
        if r["impl_tree"] != r["model_tree"]:
            res.violation("pair tree of CddlParser::parse differs from the PEG model (grammar translated from cddl.pest) on %r: impl %s | model %s"
                          % (t, r["impl_tree"][:160], r["model_tree"][:160]), dict(rep, kind="tree", impl=r["impl_tree"], model=r["model_tree"]))
            continue
        stats["tree_identical"] += 1
        # 2. AST shape vs bridge model
        if verdict == "ok":
            stats["accepted"] += 1
            if r["model_shape"] != "Ok " + payload:
                res.violation("AST shape differs from the derivation (bridge model) on %r: impl %s | model %s" % (t, payload[:200], r["model_shape"][:200]),
                              dict(rep, kind="shape", impl=payload, model=r["model_shape"]))
                continue
            stats["shape_identical"] += 1
        else:
            stats["rejected-" + verdict] += 1
            if verdict == "syntax" and r["model_shape"] != "Err syntax":
                res.violation("rejection class differs on %r: impl syntax | model %s" % (t, r["model_shape"][:80]), dict(rep, kind="errclass"))
                continue
            if verdict == "semantic" and r["model_shape"] == "Err syntax":
                res.violation("rejection class differs on %r: impl semantic | model syntax" % t, dict(rep, kind="errclass"))
                continue
            if verdict == "semantic" and r["model_shape"].startswith("Ok") and not literal_semantic(payload):
                res.violation("the bridge rejected %r (%s) but the bridge model builds an AST" % (t, payload[:80]), dict(rep, kind="bridge-reject", msg=payload))
                continue
        # 3. language
        if verdict == "semantic" and "Invalid member key value" in payload and r["model_shape"] == "Err semantic":
            stats["language-compared"] += 1
            if r["spec"] == "Y":
                fk = [f for f in findings if f["id"] == "kf-c03-bytes-member-key"]
                if fk:
                    res.known(fk[0]); hist["kf-c03-bytes-member-key"] = hist.get("kf-c03-bytes-member-key", 0) + 1
                else:
                    res.violation("the bridge rejects the byte-string member key in %r, which the ABNF derives, and this is not an open finding" % t,
                                  dict(rep, kind="language-unlisted"))
            else:
                stats["language-agree-N"] += 1
            continue
        if verdict == "semantic" and literal_semantic(payload):
            stats["semantic-skipped"] += 1        # literal value / duplicate definition: C07 / C12, not a grammar question
            continue
        crate = "Y" if verdict == "ok" else "N"
        stats["language-compared"] += 1
        if crate != r["spec"]:
            r["crate"] = crate
            div.append(r)
        else:
            stats["language-agree-" + crate] += 1
    return div


def classify(res, orc, div, findings, stats, hist):
    """attribute divergences to open findings via the deviation switches; anything unexplained is a violation"""
    if not div:
        return
    texts = [r["text"] for r in div]
    allv = variant(orc, ALL, texts)
    fids = {f["id"]: f for f in findings}
    explained = []
    for r, v in zip(div, allv):
        if v == r["crate"]:
            explained.append(r)
            continue
        t = r["text"]
        res.violation("language: cddl_from_str %s %r but the RFC 8610/9682 ABNF (+ documented leniencies) %s it; not explained by the known deviations"
                      % ("accepts" if r["crate"] == "Y" else "rejects", t, "derives" if r["spec"] == "Y" else "does not derive"),
                      {"kind": "language", "text_hex": hx(t), "text": t, "crate": r["crate"], "spec": r["spec"], "all_deviations": v})
    # attribution: which single switch explains the text (several may); "combination" when only several together do
    stats["explained-by-known-deviations"] = stats.get("explained-by-known-deviations", 0) + len(explained)
    explained = explained[:400] if res.tier == "quick" else explained     # attribution is evidence only; quick attributes a prefix
    etexts = [r["text"] for r in explained]
    single = {k: variant(orc, 1 << k, etexts) for k in CLASSIFY_BITS}
    for i, r in enumerate(explained):
        names = [BITS[k] for k in CLASSIFY_BITS if single[k][i] == r["crate"]]
        if not names:
            # find which switches are necessary: switching one off breaks the agreement
            need = [k for k in CLASSIFY_BITS if variant(orc, ALL & ~(1 << k), [r["text"]])[0] != r["crate"]]
            names = [BITS[k] for k in need] or ["combination"]
            hist["combination"] = hist.get("combination", 0) + 1
        for n in names:
            hist[n] = hist.get(n, 0) + 1
            if n in fids:
                res.known(fids[n])
            elif n != "combination":
                res.violation("language divergence on %r is explained by deviation %s, which is not an open finding" % (r["text"], n),
                              {"kind": "language-unlisted", "text_hex": hx(r["text"]), "text": r["text"], "deviation": n})


def load_findings():
    fs = common.known_findings(PROP)
    if not fs:
        p = os.path.join(common.VERIF, "findings.d", PROP + ".json")
        if os.path.exists(p):
            fs = [f for f in json.load(open(p))["findings"] if f["status"] == "open"]
    return fs


def replay_findings(res, drv, orc, findings):
    """every open finding's witnesses are replayed on the implementation and on the specification at the start of every run"""
    allc = [(kf, c) for kf in findings for c in kf["witness"]["cases"]]
    rows = evaluate(drv, orc, [c["text"] for _, c in allc])
    bits = sorted({kf["witness"]["bit"] for kf in findings if "bit" in kf["witness"]})
    vs = {b: variant(orc, 1 << b, [c["text"] for _, c in allc]) for b in bits}
    still, total = {}, {}
    for i, ((kf, c), r) in enumerate(zip(allc, rows)):
        w = kf["witness"]
        verdict, payload = split_ast(r["impl_ast"])
        crate = "Y" if verdict == "ok" else "N"
        total[kf["id"]] = total.get(kf["id"], 0) + 1
        ok = False
        if "bit" in w:
            ok = crate == c["crate"] and crate != r["spec"] and vs[w["bit"]][i] == crate
        elif "shape" in w:
            ok = verdict == "ok" and payload == w["shape"]
        still[kf["id"]] = still.get(kf["id"], 0) + (1 if ok else 0)
    for kf in findings:
        n, k = total.get(kf["id"], 0), still.get(kf["id"], 0)
        if k == 0:
            res.notes.append("finding %s apparently repaired (none of its %d witnesses fails any more)" % (kf["id"], n))
            continue
        res.known(kf)
        if k < n:
            res.notes.append("finding %s: only %d of %d witnesses still fail" % (kf["id"], k, n))


def control_table(res, drv, orc):
    """the registered-name list of Abnf8610.v is the list lookup_control_from_str knows (tie of the hand-written table to token.rs)"""
    probe = CONTROLS + ["foo", "sizes", "siz", "cborse", "SIZE", "b64", "hexl", ""]
    out = common.run_tool(drv, ["K\t" + n for n in probe])
    for n, o in zip(probe, out):
        want = "Y" if n in CONTROLS else "N"
        if o != want:
            res.violation("lookup_control_from_str(.%s) = %s but the documented registered list says %s" % (n, o, want),
                          {"kind": "control-table", "name": n}, no_input=True)


TOKEN_CLASSES = ["uint", "occur", "number (radix-float deviation on)", "id (id-runs, dollar deviations on)", "text (control-chars, escapes on)",
                 "bytes (raw content, case-sensitive qualifier on)", "blanks and comments as documents (control-chars on)",
                 "control operators (probe list)", "text / bytes escape probes"]


def token_sweeps(res, orc, tier):
    """PEG token rule vs ABNF token rule on every string up to length n over the class alphabet (Tokens.v), run in the
    extracted oracle (the Coq theorems C03_*_lang_eq_upto3 state the same for length <= 3)"""
    n = 5 if tier == "quick" else 6
    lines = ["W\t%d\t%d" % (k, n) for k in range(len(TOKEN_CLASSES))]
    out = common.run_tool(orc, lines, multi=True)
    bad = [TOKEN_CLASSES[k] for k, o in enumerate(out) if o != "Y"] if len(out) == len(lines) else ["(oracle crashed)"]
    for b in bad:
        res.violation("token class %s: the rule of the grammar translated from cddl.pest and the ABNF rule (with the stated deviations) differ on some string of length <= %d over the class alphabet"
                      % (b, n), {"kind": "token-sweep", "class": b, "bound": n}, no_input=True)
    return {"bound": n, "classes": TOKEN_CLASSES, "all_equal": not bad}


def run(tier, seed):
    import time
    res = Result(PROP, tier, seed)
    tm = {}
    t0 = time.time()
    proved = common.prove(res, PROP, PROP_FILE, [EXTRACT])
    if not proved:
        # a broken theorem must not leave a stale oracle behind: the extraction target does not depend on the proofs
        ok, log = common.coq_build([EXTRACT])
        if not ok:
            res.notes.append("the model itself no longer builds (%s); the oracle may be stale" % common.failing_coq_item(log))
    tm["prove+audit"] = round(time.time() - t0, 1); t0 = time.time()
    drv = common.build_harness("c03")
    orc = common.build_oracle("grammar", ["grammar_model"])
    rng = random.Random(seed)
    findings = load_findings()
    tm["build"] = round(time.time() - t0, 1); t0 = time.time()
    replay_findings(res, drv, orc, findings)
    control_table(res, drv, orc)
    tm["replay-findings"] = round(time.time() - t0, 1); t0 = time.time()
    tok = token_sweeps(res, orc, tier)
    tm["token-sweeps"] = round(time.time() - t0, 1); t0 = time.time()
    cases, used, used_x = gen_texts(rng, tier, wide=not proved)
    seen, uniq = set(), []
    for c, t in cases:
        if t not in seen:
            seen.add(t); uniq.append((c, t))
    texts = [t for _, t in uniq]
    rows = evaluate(drv, orc, texts)
    tm["evaluate"] = round(time.time() - t0, 1); t0 = time.time()
    stats = {k: 0 for k in ("tree_identical", "accepted", "shape_identical", "rejected-syntax", "rejected-semantic", "semantic-skipped",
                            "language-compared", "language-agree-Y", "language-agree-N", "combination")}
    hist = {}
    div = judge(res, orc, rows, findings, stats, hist)
    classify(res, orc, div, findings, stats, hist)
    tm["classify"] = round(time.time() - t0, 1); t0 = time.time()
    cls = {}
    for (c, _), r in zip(uniq, rows):
        e = cls.setdefault(c, {"n": 0, "accepted": 0})
        e["n"] += 1
        e["accepted"] += 1 if r["impl_ast"].startswith("Ok") else 0
    # vm_compute slice: guards the extraction step
    short = [t for c, t in uniq if len(t) <= 18 and c in ("probe", "abnf-sample", "char-edit", "token-edit", "slot-fill")]
    sl = rng.sample(short, min(len(short), 34))
    exprs = []
    for t in sl:
        cps = common.coq_list([ord(ch) for ch in t])
        exprs += ["cddl_tree " + cps, "cddl_shape " + cps, "variant_verdict 0 " + cps]
    vm = common.vm_compute_slice(PROP, "From Coq Require Import List NArith. Import ListNotations. From Cddl Require Import Grammar.C03Model.", exprs)
    orc_sl = []
    for t in sl:
        orc_sl += [common.run_tool(orc, ["T\t" + hx(t)], shards=1)[0], common.run_tool(orc, ["H\t" + hx(t)], shards=1)[0],
                   common.run_tool(orc, ["V\t0\t" + hx(t)], shards=1)[0]]
    vm_bad = [(e, x, y) for e, x, y in zip(exprs, vm, orc_sl) if x != y]
    if vm_bad:
        res.violation("extracted oracle and vm_compute disagree on %s: %s vs %s" % vm_bad[0], {"kind": "extraction", "case": list(vm_bad[0])}, no_input=True)
    tm["vm-slice"] = round(time.time() - t0, 1)
    res.coverage["timings_s"] = tm
    if not proved and not res.violations:
        res.violation(res.proof_broken, {"kind": "proof-obligation", "detail": res.proof_broken}, no_input=True)
    nontrivial = [t for t in texts if len(t) >= 5]
    res.coverage.update({
        "evaluations": len(texts) * 4 + len(div) * (1 + len(BITS)),
        "texts": len(texts),
        "distinct_nontrivial": len(nontrivial),
        "rule": "distinct texts of at least 5 characters; every text is run through the real parser (pair tree + AST shape), the PEG model, "
                "the bridge model and the verified ABNF recogniser",
        "exhaustive": True,
        "exhaustive_scope": ["every code point of U+0000..U+017F (and %d boundary code points above) in each of %d one-character slots" % (len(SWEEP_CPS) - 0x180, len(SWEEP_SLOTS)),
                             "all strings of at most %d tokens (joined by one blank) over the %d-token alphabet %s" % (3 if tier == "quick" else 4, len(TOKENS), " ".join(TOKENS)),
                             "every string of one or two of those tokens (joined with and without a blank) in each of %d construct slots (%s)" % (len(SLOT_TEMPLATES), "; ".join(SLOT_TEMPLATES)),
                             "all rule bodies 'a = ' + at most %d such tokens" % (2 if tier == "quick" else 3)],
        "class_histogram": cls,
        "construct_histogram": used, "construct_histogram_exotic": used_x,
        "comparison": stats,
        "divergences_by_finding": hist,
        "language_divergences": len(div),
        "vm_compute_slice": len(exprs),
        "token_sweeps": tok,
        "samples": [{"class": c, "text": t, "impl": r["impl_ast"][:120], "spec": r["spec"]} for (c, t), r in list(zip(uniq, rows))[len(PROBES):len(PROBES) + 8]],
    })
    res.assumptions = ["pest's parsing semantics are modelled by hand (Grammar/PegRun.v); validated on every run by comparing complete pair trees",
                       "gen/pest2coq.py prints what cddl.pest says (validated by the same comparison)",
                       "Grammar/Abnf8610.v transcribes RFC 8610 Appendix B and RFC 9682 (the RFC texts are not available offline; transcribed rule by rule, RFC rule text kept beside each definition)",
                       "literal values and duplicate definitions are out of scope here (C07, C12): a text the bridge rejects with a literal-decoder / duplicate-rule message is not compared at the language level"]
    return res.finish()


def replay(path):
    r = json.load(open(path))["replay"]
    drv = common.build_harness("c03")
    common.coq_build([EXTRACT])
    orc = common.build_oracle("grammar", ["grammar_model"])
    if "text_hex" not in r:
        print("replay without an input:", json.dumps(r)[:400])
        return 0
    t = bytes.fromhex(r["text_hex"]).decode("utf-8")
    h = r["text_hex"]
    b = common.run_tool(drv, ["B\t" + h])[0].split("\t")
    print("text       :", repr(t))
    print("impl tree  :", b[0])
    print("model tree :", common.run_tool(orc, ["T\t" + h])[0])
    print("impl ast   :", b[1] if len(b) > 1 else "")
    print("model shape:", common.run_tool(orc, ["H\t" + h])[0])
    print("spec (RFC 8610/9682 + leniencies, names/numbers as maximal tokens) derives:", common.run_tool(orc, ["V\t0\t" + h])[0])
    print("RFC rules only derive:", common.run_tool(orc, ["F\t" + h])[0])
    print("all known deviations switched on:", common.run_tool(orc, ["V\t%d\t%s" % (ALL, h)])[0])
    print("literal ABNF + leniencies (no tokenisation convention):", common.run_tool(orc, ["L\t" + h])[0])
    for k, n in BITS.items():
        print("  with deviation %-28s:" % n, common.run_tool(orc, ["V\t%d\t%s" % (1 << k, h)])[0])
    cps = common.coq_list([ord(ch) for ch in t])
    vm = common.vm_compute_slice(PROP, "From Coq Require Import List NArith. Import ListNotations. From Cddl Require Import Grammar.C03Model.", ["cddl_tree " + cps, "cddl_shape " + cps, "variant_verdict 0 " + cps])
    print("vm_compute :", vm)
    return 0
