"""C11 - CBOR decoding implements RFC 8949 well-formedness and values (DESIGN.md 6, C11)."""
import json, os, random, struct
from .. import common
from ..common import Result

PROP = "C11"
PROP_FILE = "theories/Props/C11.v"

# ---------------------------------------------------------------------------
# structured generator: random data items x random encodings
# ---------------------------------------------------------------------------

def head(rng, major, n, force=None):
    """an encoding of head (major, n); any legal width, non-minimal allowed"""
    widths = [w for w, lim in ((0, 24), (1, 1 << 8), (2, 1 << 16), (4, 1 << 32), (8, 1 << 64)) if n < lim]
    w = force if force is not None else rng.choice(widths if rng.random() < 0.5 else widths[:1])
    if w == 0:
        return bytes([major << 5 | n])
    return bytes([major << 5 | {1: 24, 2: 25, 4: 26, 8: 27}[w]]) + n.to_bytes(w, "big")

TEXTS = ["", "a", "IETF", "é", "€", "\U0001f600", "a\u0000b", "퟿", "", "\U0010ffff"]
BAD_UTF8 = [b"\x80", b"\xc0\x80", b"\xc1\xbf", b"\xe0\x80\x80", b"\xed\xa0\x80", b"\xf4\x90\x80\x80", b"\xf5\x80\x80\x80",
            b"\xe2\x82", b"\xf0\x9f\x98", b"\xff", b"a\xc3"]

def gen_int(rng):
    k = rng.choice([0, 1, 5, 8, 16, 32, 63, 64])
    if k == 0:
        return rng.randrange(0, 24)
    base = 1 << (k - 1) if k > 1 else 1
    return min((1 << 64) - 1, max(0, base + rng.choice([-1, 0, 1, rng.randrange(0, base)])))

def gen_item(rng, depth):
    """returns (encoding bytes, kind tag) of a random well-formed item"""
    kinds = ["uint", "nint", "bytes", "text", "float", "simple"]
    if depth > 0:
        kinds += ["arr", "map", "tag", "arr", "map"]
    k = rng.choice(kinds)
    if k == "uint":
        return head(rng, 0, gen_int(rng))
    if k == "nint":
        return head(rng, 1, gen_int(rng))
    if k in ("bytes", "text"):
        major = 2 if k == "bytes" else 3
        def payload():
            if k == "bytes":
                return bytes(rng.randrange(256) for _ in range(rng.choice([0, 1, 2, 5, 24, 30])))
            return "".join(rng.choice(TEXTS) for _ in range(rng.randrange(0, 3))).encode("utf-8", "surrogatepass")
        if rng.random() < 0.7:
            p = payload()
            return head(rng, major, len(p)) + p
        out = bytes([major << 5 | 31])
        for _ in range(rng.randrange(0, 4)):
            p = payload()
            out += head(rng, major, len(p)) + p
        return out + b"\xff"
    if k == "float":
        w = rng.choice([2, 4, 8])
        if rng.random() < 0.4:
            special = {2: [0x0000, 0x8000, 0x7c00, 0xfc00, 0x7e00, 0x0001, 0x03ff, 0x0400, 0x7bff, 0x3c00, 0x7c01],
                       4: [0, 0x80000000, 0x7f800000, 0xff800000, 0x7fc00000, 1, 0x007fffff, 0x00800000, 0x7f7fffff, 0x3f800000, 0x7f800001],
                       8: [0, 1 << 63, 0x7ff0 << 48, 0xfff0 << 48, 0x7ff8 << 48, 1, 0x3ff0 << 48, (0x7ff0 << 48) + 1]}[w]
            v = rng.choice(special)
        else:
            v = rng.getrandbits(8 * w)
        return bytes([0xe0 | {2: 25, 4: 26, 8: 27}[w]]) + v.to_bytes(w, "big")
    if k == "simple":
        n = rng.choice([0, 19, 20, 21, 22, 23, 32, 33, 255, rng.randrange(0, 24), rng.randrange(32, 256)])
        return bytes([0xe0 | n]) if n < 24 else bytes([0xf8, n])
    if k == "tag":
        return head(rng, 6, gen_int(rng)) + gen_item(rng, depth - 1)
    n = rng.choice([0, 1, 2, 3, 5])
    mult = 1 if k == "arr" else 2
    major = 4 if k == "arr" else 5
    body = b"".join(gen_item(rng, depth - 1) for _ in range(n * mult))
    if rng.random() < 0.6:
        return head(rng, major, n) + body
    return bytes([major << 5 | 31]) + body + b"\xff"

def malformed(rng):
    c = rng.randrange(10)
    if c == 0:   # reserved additional information
        return bytes([rng.randrange(8) << 5 | rng.choice([28, 29, 30])]) + bytes(rng.randrange(256) for _ in range(rng.randrange(0, 3)))
    if c == 1:   # stray break / break as tag content / as map value / in definite array
        return rng.choice([b"\xff", b"\xc1\xff", b"\xa1\x01\xff", b"\x82\x01\xff", b"\xbf\x01\xff", b"\x9f\xff\xff", b"\xd8\x18\xff"])
    if c == 2:   # wrong-major chunk
        return rng.choice([b"\x5f\x61a\xff", b"\x7f\x41a\xff", b"\x5f\x01\xff", b"\x7f\xf6\xff", b"\x5f\x5f\x41\x00\xff\xff", b"\x7f\x7f\x61\x61\xff\xff", b"\x5f\x9f\xff\xff", b"\x7f\xc1\x61a\xff"])
    if c == 3:   # invalid UTF-8 in definite / chunk
        b = rng.choice(BAD_UTF8)
        return head(rng, 3, len(b)) + b if rng.random() < 0.5 else b"\x7f" + head(rng, 3, len(b)) + b + b"\xff"
    if c == 4:   # UTF-8 character split across chunks
        e = "€".encode()
        return b"\x7f" + head(rng, 3, 1) + e[:1] + head(rng, 3, 2) + e[1:] + b"\xff"
    if c == 5:   # two-byte simple below 32, also nested
        n = rng.randrange(0, 32)
        return rng.choice([bytes([0xf8, n]), bytes([0x81, 0xf8, n]), bytes([0x9f, 0xf8, n, 0xff]), bytes([0xbf, 0xf8, n, 0x00, 0xff]), bytes([0xc0, 0xf8, n]), bytes([0xbf, 0x00, 0xf8, n, 0xff])])
    if c == 6:   # indefinite for majors 0,1,6
        return bytes([rng.choice([0, 1, 6]) << 5 | 31]) + b"\x00\xff"
    if c == 7:   # huge announced length
        return head(rng, rng.choice([2, 3, 4, 5]), rng.choice([1 << 32, (1 << 64) - 1, 1 << 40, 1 << 20]), force=8) + b"\x00" * rng.randrange(0, 4)
    if c == 8:   # odd number of items in indefinite map
        return b"\xbf" + gen_item(rng, 1) + b"\xff"
    return bytes(rng.randrange(256) for _ in range(rng.randrange(1, 8)))

def large_cases(rng):
    """containers and strings around the decoder's pre-allocation / chunk size (4096) and well beyond it"""
    out = []
    for n in (4095, 4096, 4097, 5000, 8193, 20000):
        elems = bytes(rng.choice([0x00, 0x17, 0x20, 0xf6, 0x60]) for _ in range(n))
        out.append(("large-array-def", head(rng, 4, n, force=2) + elems + b"\x61z"))          # trailing sibling bytes
        out.append(("large-array-def", b"\x82" + head(rng, 4, n, force=2) + elems + b"\x61z"))  # nested: next sibling must still be found
        out.append(("large-array-indef", b"\x9f" + elems + b"\xff"))
        pairs = b"".join(bytes([0x00, 0x01]) for _ in range(n))
        out.append(("large-map-def", b"\x82" + head(rng, 5, n, force=2) + pairs + b"\x61z"))
        out.append(("large-map-def", head(rng, 5, n, force=4) + pairs))
        out.append(("large-map-indef", b"\xbf" + pairs + b"\xff"))
        data = bytes(rng.randrange(0x20, 0x7f) for _ in range(n))
        out.append(("large-bytes", b"\x82" + head(rng, 2, n, force=2) + data + b"\x01"))
        out.append(("large-text", b"\x82" + head(rng, 3, n, force=2) + data + b"\x01"))
        out.append(("large-text-truncated", head(rng, 3, n, force=2) + data[:-1]))
        # a multi-byte character straddling the 4096-byte chunk boundary of the reader
        t = b"a" * 4095 + "é".encode() + b"b" * (n - 4095 if n > 4097 else 3)
        out.append(("large-text-utf8-boundary", head(rng, 3, len(t), force=2) + t))
    return out


def classify(bs):
    if not bs:
        return "empty"
    return "major%d" % (bs[0] >> 5)

def gen_cases(rng, n_struct):
    cases = []
    for _ in range(n_struct):
        e = gen_item(rng, rng.randrange(0, 5))
        cases.append(("valid", e))
        r = rng.random()
        if r < 0.35 and len(e) > 1:
            cases.append(("prefix", e[:rng.randrange(0, len(e))]))
        elif r < 0.7:
            m = bytearray(e)
            i = rng.randrange(len(m))
            m[i] = rng.choice([m[i] ^ (1 << rng.randrange(8)), rng.randrange(256), 0xff, 0x1f | (m[i] & 0xe0)])
            cases.append(("mutant", bytes(m)))
        elif r < 0.8:
            cases.append(("extended", e + bytes(rng.randrange(256) for _ in range(rng.randrange(1, 3)))))
        else:
            cases.append(("malformed", malformed(rng)))
    return cases

CORPUS = ["5f5f4100ffff", "7f7f6161ffff", "f800", "f81f", "f820", "f7", "f6", "9b0000001000000000", "bf6161f9000100ff",
          "9ff805ff", "bff80500ff", "9ff4ff", "3bffffffffffffffff", "1bffffffffffffffff", "fa7f800001", "f97e00", "f90001",
          "fa00000001", "7f62c3a9ff", "7f61c361a9ff", "62c328", "5f42010243030405ff", "d9d9f780"]

def run(tier, seed):
    res = Result(PROP, tier, seed)
    proved = common.prove(res, PROP, PROP_FILE, ["theories/Extract/ExtractCbor.vo"])
    drv = common.build_harness("c11")
    orc = common.build_oracle("cbor", ["cbor_model"])
    rng = random.Random(seed)
    n_struct = 12000 if tier == "quick" else 400000
    if not proved:
        n_struct *= 3
    # exhaustive scopes via in-process sweeps
    sweeps = [("", 0), ("", 1), ("", 2)]
    sweep_lines = ["DSWEEP\t%s\t%d" % s for s in sweeps]
    if tier == "thorough":
        sweep_lines += ["DSWEEP\t%02x\t2" % b for b in range(256)]          # all 3-byte strings
    else:
        sweep_lines += ["DSWEEP\tf9\t2", "DSWEEP\tf8\t1", "DSWEEP\t9f\t2", "DSWEEP\t5f\t2", "DSWEEP\t7f\t2", "DSWEEP\tbf\t2"]
    cases = [("corpus", bytes.fromhex(h)) for h in CORPUS] + large_cases(rng) + gen_cases(rng, n_struct)
    lines = ["D\t" + c[1].hex() for c in cases]
    impl_s = common.run_tool(drv, sweep_lines, multi=True)
    orc_s = common.run_tool(orc, sweep_lines, multi=True)
    impl = common.run_tool(drv, lines)
    orcl = common.run_tool(orc, lines)
    evaluations = 0
    hist, verdicts, errkinds = {}, {"OK": 0, "ERR": 0}, {}
    distinct = set()
    # sweeps: outputs are multi-line per request; run_tool split them by line already
    def verdict_eq(a, b):
        # property-level comparison: Ok(value) vs Err (kinds only reported)
        if a.startswith("OK") or b.startswith("OK"):
            return a == b
        return a.split(" ")[0] == b.split(" ")[0]
    # reconstruct inputs of sweeps
    sweep_inputs = []
    for l in sweep_lines:
        _, pre, n = l.split("\t")
        n = int(n)
        for k in range(1 << (8 * n)):
            sweep_inputs.append(pre + (k.to_bytes(n, "big").hex() if n else ""))
    if len(impl_s) != len(sweep_inputs) or len(orc_s) != len(sweep_inputs):
        res.violation("sweep output length mismatch impl=%d oracle=%d expected=%d (a process crashed?)" % (len(impl_s), len(orc_s), len(sweep_inputs)),
                      {"kind": "sweep-length"}, no_input=True)
    else:
        for h, a, b in zip(sweep_inputs, impl_s, orc_s):
            evaluations += 1
            if not verdict_eq(a, b):
                res.violation("decode_cbor(%s): implementation %s, model (RFC 8949 by theorem decode_spec) %s" % (h, a, b),
                              {"cmd": "D", "input_hex": h, "impl": a, "model": b})
    for (cls, bs), a, b in zip(cases, impl, orcl):
        evaluations += 1
        hist[cls] = hist.get(cls, 0) + 1
        verdicts[a.split(" ")[0] if a.split(" ")[0] in verdicts else "ERR"] += 1
        if a.startswith("ERR"):
            errkinds[a] = errkinds.get(a, 0) + 1
        if len(bs) > 3:
            distinct.add(bs)
        if not verdict_eq(a, b):
            res.violation("decode_cbor(%s): implementation %s, model (RFC 8949 by theorem decode_spec) %s" % (bs.hex(), a, b),
                          {"cmd": "D", "input_hex": bs.hex(), "impl": a, "model": b})
    # known finding: witness of C11_to_value_injective_refuted replayed on the implementation
    for kf in common.known_findings(PROP):
        if kf["id"] == "kf-c11-undefined-null":
            a6, a7 = common.run_tool(drv, ["D\tf6", "D\tf7"])
            if a6 == a7 and a6.startswith("OK"):
                res.known(kf)
            else:
                res.notes.append("finding %s apparently repaired: f6 -> %s, f7 -> %s" % (kf["id"], a6, a7))
    # vm_compute slice: guards extraction
    sl = rng.sample([c for c in cases if len(c[1]) < 200], 150) + cases[:len(CORPUS)]
    vm = common.vm_compute_slice(PROP, "From Cddl Require Import Base.Bytes Cbor.Wire.",
                                 ["decode_render " + common.coq_list(list(c[1])) for c in sl])
    orc_sl = common.run_tool(orc, ["D\t" + c[1].hex() for c in sl], shards=1)
    vm_bad = [(c[1].hex(), x, y) for c, x, y in zip(sl, vm, orc_sl) if x != y]
    if vm_bad:
        res.violation("extracted oracle and vm_compute disagree on %s: %s vs %s" % vm_bad[0], {"kind": "extraction", "case": vm_bad[0]}, no_input=True)
    if not proved and not res.violations:
        res.violation(res.proof_broken, {"kind": "proof-obligation", "detail": res.proof_broken}, no_input=True)
    res.coverage.update({
        "evaluations": evaluations,
        "distinct_nontrivial": len(distinct),
        "rule": "all byte strings of length <= 2 (and the listed 3-byte families; all 3-byte strings in thorough) enumerated; "
                "structured: random RFC 8949 items (depth <= 4) in random encodings (head widths, definite/indefinite, chunkings, float widths), "
                "proper prefixes, single-byte mutants, extensions, malformed stream; distinct_nontrivial = distinct structured inputs longer than 3 bytes",
        "exhaustive": True,
        "exhaustive_scope": [l.replace("\t", " ") for l in sweep_lines],
        "class_histogram": hist, "verdict_split": verdicts, "error_kinds": errkinds,
        "vm_compute_slice": len(sl),
        "samples": [{"input_hex": c[1].hex()[:200], "class": c[0], "impl": a[:120]} for c, a in list(zip(cases, impl)) if len(c[1]) < 100][len(CORPUS):len(CORPUS) + 6],
    })
    res.assumptions = ["String::from_utf8 = RFC 3629 validity (Utf8.utf8_valid), checked differentially",
                       "half::f16 -> f64 and f32 -> f64 conversions are exact (Wire.widen), checked on all binary16 patterns each run"]
    return res.finish()

def replay(path):
    r = json.load(open(path))["replay"]
    drv = common.build_harness("c11")
    common.coq_build(["theories/Extract/ExtractCbor.vo"])
    orc = common.build_oracle("cbor", ["cbor_model"])
    line = "D\t" + r["input_hex"]
    print("impl  :", common.run_tool(drv, [line])[0])
    print("model :", common.run_tool(orc, [line])[0])
    print("vm    :", common.vm_compute_slice(PROP, "From Cddl Require Import Base.Bytes Cbor.Wire.",
                                            ["decode_render " + common.coq_list(list(bytes.fromhex(r["input_hex"])))])[0])
    return 0
