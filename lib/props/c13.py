"""C13 - CSV validation equals JSON validation of the draft's data-model mapping (DESIGN.md 6, C13).

Correspondence, every run:
  (a) parse_csv_to_json(text, header) of the real crate  ==  map_csv of the Coq model (extracted),
      on RFC 4180 texts written from random rows, on a catalogue of numeric look-alikes, on
      grammar-directed number spellings and their mutants, on a malformed stream, and on two
      exhaustively enumerated small scopes (reader alphabet, number alphabet);
      floats: the model carries the decimal, this module rounds it with Python's float()
      (correctly rounded) and compares the binary64 bit pattern with the crate's;
  (a') for the written texts, the model's records == the rows they were written from
      (run-time confirmation of C13_csv_roundtrip_partial; the excluded class is the known finding);
  (b) validate_csv_from_str(schema, text, header, features)
        == validate_json_from_str(schema, to_string(parse_csv_to_json(text, header)), features)
      on a set of schemas (the property's main clause: any difference is a VIOLATION).
"""
import json, os, random, re, struct
from .. import common
from ..common import Result

PROP = "C13"
PROP_FILE = "theories/Props/C13.v"
EXTRACT = "theories/Extract/ExtractCsv.vo"

NUMBER_GRAMMAR = ('number = [sign] ( 1*DIGIT [ "." *DIGIT ] / "." 1*DIGIT ) [ ("e"/"E") [sign] 1*DIGIT ] ; sign = "+" / "-" ; '
                  'decided borderline spellings (all numbers, following the code): +3 007 .5 5. -0 1e5 1E+5 1.e3 ; '
                  'not numbers: empty field, inf/infinity/nan (any case, any sign), 0x10, 0b1, 1_0, non-ASCII digits, blanks, lone sign, lone ".", "1e", "1e+" ; '
                  'finite value: |D * 10^e| < (2^54 - 1) * 2^970 (round to nearest even)')

# ---------------------------------------------------------------------------
# RFC 4180 writer (the Python twin of Csv/Spec.v write_csv4180, with per-field optional quoting)
# ---------------------------------------------------------------------------
SPECIAL = '",\r\n'

def needs_quote(f):
    return any(c in f for c in SPECIAL)

def write_field(f, q):
    return '"' + f.replace('"', '""') + '"' if (q or needs_quote(f)) else f

def write_csv(rows, quoted, crlf, final):
    """rows: list of list of str; quoted: same shape, bool = quote although not needed"""
    nl = "\r\n" if crlf else "\n"
    lines = [",".join(write_field(f, q) for f, q in zip(r, qs)) for r, qs in zip(rows, quoted)]
    return nl.join(lines) + (nl if final and lines else "")

def reader_expectation(rows, quoted, text):
    """what C13_csv_roundtrip_partial + the two refuted classes say the reader returns:
    the UTF-8 signature at the very start is dropped, then a record that is one empty unquoted field vanishes.
    returns (expected rows, set of deviation classes hit)"""
    rows = [list(r) for r in rows]
    dev = set()
    if text.startswith("\ufeff") and rows:
        rows[0][0] = rows[0][0][1:]
        dev.add("bom")
    out = []
    for r, qs in zip(rows, quoted):
        if len(r) == 1 and r[0] == "" and not qs[0]:
            dev.add("lone-empty")
            continue
        out.append(r)
    return out, dev

def render_rows(rows):
    return "OK [" + ",".join("[" + ",".join(f.encode().hex() for f in r) + "]" for r in rows) + "]"

# ---------------------------------------------------------------------------
# generators
# ---------------------------------------------------------------------------
CATALOGUE = ("007 1e5 +3 0x10 NaN inf -inf Infinity -0 1_0 ١٢٣ 18446744073709551615 18446744073709551616 "
             "-9223372036854775808 -9223372036854775809 1e400 1e-400 .5 5. 1.e3 e5 - + . 1e 1e+ 0b1 1,5 "
             "+nan -NAN nan +Infinity iNfInItY infinit INF +inf +.5 -.5e-3 +-1 -+1 ++1 --1 1e99999999999999999999 "
             "1e-99999999999999999999 0e99999999999999999999 -0e99999999999999999999 -0.0 -0e0 -.0 00 -00 +0 +007 -007 1E+5 1e+05 "
             "1.5E-3 9223372036854775807 9223372036854775808 -1 1.0 1. 0 0.0 1e0 1e-0 1e+0 1.e 1.e+ .e1 +.e1 .0e1 1..2 1.2.3 "
             "1e1e1 1e1.5 0o17 0X1F 1f 1d 1L 1u8 １２ 1\u00a0 ½ 1'000 1,000 $1 1% (1) 1/2 1e 0x 0e e +e1 -e1 "
             "4.9e-324 2.4703282292062327e-324 2.4703282292062328e-324 1.7976931348623157e308 1.7976931348623158e308 "
             "1.7976931348623159e308 -1.7976931348623159e308 true false null").split(" ")
CATALOGUE += ["", " 7", "7 ", " 7 ", "1 2", "\t1", "1\t", "1\n", "\n1", "1\r", "\"1\"", "1\"", "7\u200b", "\ufeff7", "1\x002", "\x001"]

T64 = ((1 << 54) - 1) << 970          # the rounding threshold of Csv/Spec.v

def boundary_numbers():
    out = []
    for base in (1 << 63, 1 << 64, (1 << 63) - 1):
        for d in (-2, -1, 0, 1, 2):
            n = base + d
            for s in ("", "+", "-"):
                out += [s + str(n), s + "0" + str(n), s + str(n) + ".0", s + str(n) + "e0", s + str(n) + "."]
    ds = str(T64)
    for n in (T64 - 1, T64, T64 + 1):
        s = str(n)
        out += [s, "-" + s, s + ".0", s[0] + "." + s[1:] + "e308", "0." + s + "e309", s + "000e-3", "." + s + "E+309",
                s[:20] + "e" + str(len(s) - 20), s + "e-0"]
    out += [ds[0] + "." + ds[1:17] + "e308", ds[0] + "." + ds[1:18] + "e308", ds[0] + "." + ds[1:19] + "e308",
            "1" + "0" * 308, "1" + "0" * 309, "0." + "0" * 400 + "1", "0." + "0" * 320 + "1", "1" + "0" * 400 + "e-400",
            "1" + "0" * 400 + "e-90", "1" + "0" * 400 + "e-92", "1" + "0" * 400 + "e-91", "9" * 400, "-" + "9" * 309, "9" * 308, "9" * 309,
            "0" * 400 + "1", "0" * 400 + ".5", "1e308", "1e309", "2e308", "17976931348623158e292", "1e-323", "1e-324", "5e-324", "3e-324", "2e-324"]
    return out

def gen_number(rng):
    sign = rng.choice(["", "", "+", "-"])
    r = rng.random()
    if r < 0.1:
        ip = "".join(rng.choice("0123456789") for _ in range(rng.choice([21, 25, 40, 310, 400])))
    elif r < 0.2:
        ip = ""
    else:
        ip = ("0" * rng.choice([0, 0, 0, 1, 3])) + "".join(rng.choice("0123456789") for _ in range(rng.choice([1, 1, 2, 3, 8, 15, 19, 20])))
    fr = rng.choice(["", "", ".", "." + "".join(rng.choice("0123456789") for _ in range(rng.choice([1, 2, 5, 17, 30])))])
    if rng.random() < 0.5:
        ex = ""
    else:
        ex = rng.choice("eE") + rng.choice(["", "+", "-"]) + rng.choice(
            [str(rng.randrange(0, 30)), str(rng.randrange(280, 340)), "0" * 3 + str(rng.randrange(0, 400)), str(rng.randrange(10 ** 5, 10 ** 25)), ""][: 5 if rng.random() < 0.1 else 4])
    return sign + ip + fr + ex

MUT_CHARS = list("+-.eE0 xX_,inaf") + ["١", "\u00a0"]

def mutate(rng, s):
    if not s:
        return rng.choice(MUT_CHARS)
    k = rng.randrange(4)
    i = rng.randrange(len(s))
    if k == 0:
        return s[:i] + s[i + 1:]
    if k == 1:
        return s[:i] + rng.choice(MUT_CHARS) + s[i:]
    if k == 2:
        return s[:i] + rng.choice(MUT_CHARS) + s[i + 1:]
    return s + rng.choice(MUT_CHARS)

def number_text(sp, other="k"):
    """the spelling in the first row (column 0) and in the second row (column 1)"""
    f = write_field(sp, False)
    o = write_field(other, False)
    return "%s,%s\n%s,%s\n" % (f, o, o, f)

FIELD_PIECES = ["a", "b", "Z", "é", "€", "\U0001f600", " ", "\t", "\"", "\"\"", ",", "\r", "\n", "\r\n", "1", "42", "-7", "3.14", "1e5", "007", "inf", "NaN",
                "x y", "\ufeff", "\x00", ";", "'", "#", "\\", "0x10", "+3", ".5", "-", "e", "E", "."]

def gen_field(rng):
    r = rng.random()
    if r < 0.12:
        return ""
    if r < 0.3:
        return rng.choice(CATALOGUE)
    if r < 0.4:
        return gen_number(rng)
    return "".join(rng.choice(FIELD_PIECES) for _ in range(rng.choice([1, 1, 2, 3, 5])))

def gen_rows(rng):
    nrows = rng.choice([0, 1, 1, 2, 3, 4, 6])
    width = rng.choice([1, 2, 3, 4])
    ragged = rng.random() < 0.4
    rows = []
    for _ in range(nrows):
        w = rng.choice([1, 2, 3, 5]) if ragged else width
        rows.append([gen_field(rng) for _ in range(w)])
    return rows

def gen_conformant(rng):
    rows = gen_rows(rng)
    mode = rng.choice(["min", "min", "all", "rand"])
    quoted = [[(mode == "all") or (mode == "rand" and rng.random() < 0.3) for _ in r] for r in rows]
    # keep most cases outside the known-finding class: quote a lone empty field 85% of the time
    for r, qs in zip(rows, quoted):
        if len(r) == 1 and r[0] == "" and rng.random() < 0.85:
            qs[0] = True
    crlf = rng.random() < 0.5
    final = rng.random() < 0.6
    return rows, quoted, write_csv(rows, quoted, crlf, final), ("crlf" if crlf else "lf") + ("+final" if final else "") + "/" + mode

MALFORMED_FIXED = ["a\"b,\"c\"d", "\"a\"b\"", "\"a\" ,b", "\"a", "\"a\n", "\"a\"\"", "\"a\"\"\"", "a\rb", "a\r\rb", "a\n\nb", "a\r\n\r\nb\r\n", "\r", "\n", "\r\n",
                   "\n\n\n", "a,\r", "x,\ry", "\"x\"\r", "\"x\"\ry", "\"\"\"\"", "\"\r\"\r", "a\n\rb", "a\r\n\nb", "a\n\r\nb", "\ufeffa,b", "\ufeff", "\ufeff\n\ufeffx",
                   "a\ufeff", "\ufeff\ufeffa", "\ufeff\"a\"", "\"\ufeffa\"", "\ufeff1", "\ufeff\r\n1", "a\x00b", "\x00", "1\x00", "\"\x00\"", "a,b\"", "a,\"b", "a,\"b\"c",
                   "a,\"b\"\"", "\"a,b", "\"a\nb", ",", ",,", ",\n,", "\n,", "\"\",\"\"", "\"\"", "\"\"\n\"\"", " \"a\"", "\"a\" ", "a \"b\" c", "1,\"2\",3\r4", "1\r\n2\r3\n4",
                   "1,2\n3\n4,5,6\n", "7\n\n\n8", "\r\n\r\n9", "9\r\n\r\n", "\"\"\r\n\r\n\"\"", "\xef\xbb", "ï»¿1"]

def gen_malformed(rng):
    alpha = ['"', '"', ',', ',', '\r', '\n', '\r\n', 'a', '1', ' ', 'é', '\ufeff', '\x00', '-', '.', 'e', '+', '0', '"1"', '""']
    return "".join(rng.choice(alpha) for _ in range(rng.randrange(1, 14)))

def enum_strings(alpha, maxlen):
    out = [""]
    layer = [""]
    for _ in range(maxlen):
        layer = [s + c for s in layer for c in alpha]
        out += layer
    return out

# ---------------------------------------------------------------------------
# validation tie (b)
# ---------------------------------------------------------------------------
SCHEMAS = [
    'r = [* [tstr, uint]]',
    'r = [* [* (tstr / int / float)]]',
    'r = [+ [tstr, ? number]]',
    'r = [[* tstr], * [uint, float]]',
    'r = [* [tstr, int, float]]',
    'r = [* [+ any]]',
    'r = [2*3 [+ tstr]]',
    'r = [* [tstr .size (1..3), uint .le 100]]',
    'r = [* [tstr, uint .feature "f1"]]',
    'r = [* [tstr, uint / (tstr .feature "f2")]]',
    'r = [* row]\nrow = [name: tstr, ? age: uint, * tstr]',
    'r = [* [tstr, nint / float]]',
    'r = [? [tstr, tstr], * [(uint / ""), (float / "")]]',
    'r = [* [tstr, -5..5]]',
    'r = [* [tstr, 0.5..2.5]]',
    'r = [* [',                         # does not parse: both sides must report the CDDL error
]
FEATURES = ["-", "-", "f1", "f2", "f1,f2"]

def gen_table(rng):
    """table-like texts: a text column, then typed columns, a few look-alikes mixed in"""
    kinds = [rng.choice(["uint", "int", "float", "text", "mix"]) for _ in range(rng.choice([1, 1, 2, 2, 3]))]
    def cell(k):
        if rng.random() < 0.12:
            return rng.choice(CATALOGUE[:40])
        if k == "uint":
            return str(rng.choice([0, 1, 7, 42, 100, 101, 65536, (1 << 64) - 1]))
        if k == "int":
            return str(rng.choice([-1, -5, 5, 0, -100, 3, -(1 << 63)]))
        if k == "float":
            return rng.choice(["1.5", "2.5", "0.5", "-2.5", "1e5", "3.0", "2.75", "1e-3"])
        if k == "text":
            return rng.choice(["a", "bc", "hello", "", "x y", "é"])
        return gen_field(rng)
    rows = []
    if rng.random() < 0.5:
        rows.append([rng.choice(["name", "n", "id", "v", "1", "age"]) for _ in range(1 + len(kinds))])
    for _ in range(rng.choice([0, 1, 2, 3, 4])):
        rows.append([rng.choice(["a", "bob", "x", "é", "abcd", "12", ""])] + [cell(k) for k in kinds])
    if rng.random() < 0.15 and rows:
        rows[rng.randrange(len(rows))].append("extra")
    quoted = [[rng.random() < 0.1 for _ in r] for r in rows]
    for r, qs in zip(rows, quoted):
        if len(r) == 1 and r[0] == "":
            qs[0] = True
    return write_csv(rows, quoted, rng.random() < 0.5, rng.random() < 0.7)

# ---------------------------------------------------------------------------
# canonicalisation of the model's float tokens
# ---------------------------------------------------------------------------
F_TOKEN = re.compile(r"F([+-])([0-9a-f]+)e([+-])([0-9a-f]+)")

def _fbits(m):
    sign, D, es, E = m.group(1), int(m.group(2), 16), m.group(3), int(m.group(4), 16)
    s = "%s%de%s%d" % ("-" if sign == "-" else "", D, "-" if es == "-" else "", E)
    return "f%016x" % struct.unpack(">Q", struct.pack(">d", float(s)))[0]

def canon_model(o):
    return F_TOKEN.sub(_fbits, o)

TOKEN_CLASS = re.compile(r"(?<![0-9a-f])([suif])")

def open_findings():
    """open C13 entries of known_findings.json (assembled); falls back to the fragment findings.d/C13.json"""
    kfs = common.known_findings(PROP)
    if kfs:
        return kfs
    p = os.path.join(common.VERIF, "findings.d", PROP + ".json")
    if os.path.exists(p):
        return [e for e in json.load(open(p)).get("findings", []) if e.get("status") == "open"]
    return []

def p_line(text, hdr):
    return "P\t%s\t%s" % (text.encode("utf-8").hex(), hdr)

def coq_bool(h):
    return "true" if h == "1" else "false"

def vm_batch(pairs):
    """parse_render of every (text, header) inside Coq, in ONE vm_compute (results joined by LF, which no result contains)"""
    items = "; ".join("(%s, %s)" % (common.coq_list(list(t.encode())), coq_bool(h)) for t, h in pairs)
    expr = "flat_map (fun p : list N * bool => parse_render (fst p) (snd p) ++ [10]) [%s]" % items
    out = common.vm_compute_slice(PROP, "From Cddl Require Import Base.Bytes Csv.Reader Csv.Coerce.", [expr])[0]
    return out.split("\n")[:-1] if out.endswith("\n") else ["?" + out[:80]] * len(pairs)

# ---------------------------------------------------------------------------
def run(tier, seed):
    import time
    res = Result(PROP, tier, seed)
    phases, t0 = {}, time.time()
    def mark(name):
        nonlocal t0
        phases[name] = round(time.time() - t0, 1)
        t0 = time.time()
    proved = common.prove(res, PROP, PROP_FILE, [EXTRACT])
    mark("prove+audit (includes waiting for the shared coq lock)")
    drv = common.build_harness("c13")
    orc = common.build_oracle("csv", ["csv_model"])
    mark("build harness+oracle (includes waiting for the shared cargo lock)")
    rng = random.Random(seed)
    quick = tier == "quick"
    scale = 1 if quick else 25
    if not proved:
        scale *= 3

    # ---- known findings: replay the witnesses first
    for kf in open_findings():
        w = kf.get("witness", {})
        if kf["id"] == "kf-c13-empty-line-dropped":
            text = bytes.fromhex(w["text_hex"]).decode()
            rows = w["rfc4180_rows"]
            got = common.run_tool(drv, [p_line(text, "0")])[0]
            want = "OK [" + ",".join("[" + ",".join("s" + f.encode().hex() for f in r) + "]" for r in rows) + "]"
            tie = common.run_tool(drv, ["V\t%s\t%s\t0\t-" % (w["schema"].encode().hex(), text.encode().hex())])[0]
            if got != want:
                res.known(kf)
                res.coverage["known_finding_replay"] = {"text": text, "impl": got, "rfc4180_mapping": want, "schema": w["schema"], "verdicts": tie}
            else:
                res.notes.append("finding %s apparently repaired: %r now maps to %s" % (kf["id"], text, got))

    # ---- (a) mapping cases: (class, text, header, meta)
    cases = []
    def add(cls, text, meta=None, headers="01"):
        for h in headers:
            cases.append((cls, text, h, meta))
    for t in MALFORMED_FIXED:
        add("malformed-corpus", t)
    for sp in CATALOGUE + boundary_numbers():
        add("numeric-catalogue", number_text(sp))
        add("numeric-catalogue", sp, headers="0")                     # alone, no line break
        add("numeric-catalogue", "k\n" + write_field(sp, True) + "\n", headers="0")   # quoted
    conf = []
    for _ in range(2500 * scale):
        rows, quoted, text, style = gen_conformant(rng)
        conf.append((rows, quoted, text))
        add("rfc4180/" + style, text, ("conf", len(conf) - 1), headers="01n" if rng.random() < 0.2 else "01")
    for _ in range(3000 * scale):
        sp = gen_number(rng)
        if rng.random() < 0.5:
            sp = mutate(rng, sp)
            if rng.random() < 0.3:
                sp = mutate(rng, sp)
            cls = "number-mutant"
        else:
            cls = "number-grammar"
        if rng.random() < 0.5:
            add(cls, number_text(sp))
        else:
            add(cls, "k\n" + write_field(sp, False), headers="0")
    for _ in range(2500 * scale):
        add("malformed-random", gen_malformed(rng))
    # exhaustive small scopes
    reader_alpha = ['"', ',', '\r', '\n', 'a', '1']
    number_alpha = ['0', '7', '+', '-', '.', 'e', 'E', 'i']
    n_reader = 5 if quick else 6
    n_number = 4 if quick else 5
    for s in enum_strings(reader_alpha, n_reader):
        add("exhaustive-reader", s)
    for s in enum_strings(number_alpha, n_number):
        add("exhaustive-number", "k\n" + s, headers="0")
    if not quick:
        big = ",".join(str(i) for i in range(3000)) + "\r\n" + "\"" + "x" * 9000 + "\"\"" + "\r\n" * 3 + "1e5," * 2000
        add("beyond-8KiB-buffer", big)
        add("beyond-8KiB-buffer", "\ufeff" + big)

    lines = [p_line(t, h) for _, t, h, _ in cases]
    impl = common.run_tool(drv, lines)
    model = common.run_tool(orc, lines)
    hist, kinds = {}, {"s": 0, "u": 0, "i": 0, "f": 0}
    distinct = set()
    dev_seen = {}
    for (cls, text, h, meta), a, b in zip(cases, impl, model):
        top = cls.split("/")[0]
        hist[cls] = hist.get(cls, 0) + 1
        if len(text.encode()) >= 4 and not top.startswith("exhaustive"):
            distinct.add((text, h))
        for m in TOKEN_CLASS.findall(a[3:] if a.startswith("OK ") else ""):
            kinds[m] += 1
        bc = canon_model(b)
        if a != bc:
            res.violation("parse_csv_to_json(%r, header=%s): implementation %s, model %s" % (text[:80], h, a[:200], bc[:200]),
                          {"cmd": "P", "text_hex": text.encode().hex(), "header": h, "impl": a, "model": bc, "class": cls})
    mark("mapping correspondence")
    # ---- (a') round trip of the written texts through the model's record reader
    rlines = ["R\t" + t.encode().hex() for _, _, t in conf]
    rmodel = common.run_tool(orc, rlines)
    kf_ids = [k["id"] for k in open_findings()]
    for (rows, quoted, text), got in zip(conf, rmodel):
        exp, dev = reader_expectation(rows, quoted, text)
        for d in dev:
            dev_seen[d] = dev_seen.get(d, 0) + 1
        if got != render_rows(exp):
            res.violation("read_csv(write_csv4180 rows) differs from the rows outside the excluded classes: text %r rows %r got %s" % (text[:80], rows, got[:200]),
                          {"cmd": "R", "text_hex": text.encode().hex(), "rows": rows, "quoted": quoted, "model": got, "expected": render_rows(exp)})
        elif "lone-empty" in dev and "kf-c13-empty-line-dropped" not in kf_ids:
            res.violation("a record of one empty field written as an empty line is dropped (RFC 4180 reads it as a record) and no open finding covers it: %r" % text[:80],
                          {"cmd": "R", "text_hex": text.encode().hex(), "rows": rows, "quoted": quoted, "model": got})

    mark("round trip")
    # ---- (b) validation tie
    vcases = []
    tables = [gen_table(rng) for _ in range(260 * scale)]
    tables += [c[2] for c in conf[:120 * scale]] + [number_text(sp) for sp in CATALOGUE[:60]] + MALFORMED_FIXED[:30]
    for t in tables:
        for sc in (SCHEMAS if quick and rng.random() < 0.35 or not quick else rng.sample(SCHEMAS, 5)):
            vcases.append((sc, t, rng.choice("01n"), rng.choice(FEATURES)))
    vlines = ["V\t%s\t%s\t%s\t%s" % (sc.encode().hex(), t.encode().hex(), h, f) for sc, t, h, f in vcases]
    vout = common.run_tool(drv, vlines)
    vsplit, vmsg, per_schema = {}, {"same": 0, "different": 0}, {}
    for (sc, t, h, f), o in zip(vcases, vout):
        m = re.match(r"csv=(\S+) json=(\S+) same_msg=(\d)", o)
        if not m:
            res.violation("validation tie: driver answered %r for schema %r text %r" % (o, sc, t[:60]),
                          {"cmd": "V", "schema": sc, "text_hex": t.encode().hex(), "header": h, "features": f, "impl": o})
            continue
        cv, jv, same = m.groups()
        vsplit[cv] = vsplit.get(cv, 0) + 1
        ps = per_schema.setdefault(sc, {"OK": 0, "ERR": 0})
        ps["OK" if cv == "OK" else "ERR"] += 1
        vmsg["same" if same == "1" else "different"] += 1
        if cv != jv:
            res.violation("validate_csv_from_str says %s but validate_json_from_str of the mapped document says %s: schema %r text %r header=%s features=%s"
                          % (cv, jv, sc, t[:80], h, f),
                          {"cmd": "V", "schema": sc, "text_hex": t.encode().hex(), "header": h, "features": f, "impl": o})
    ok_share = vsplit.get("OK", 0) / max(1, len(vcases))
    if not (0.15 <= ok_share <= 0.85):
        res.violation("generator degenerate: validation tie verdict split OK=%.2f" % ok_share, {"kind": "generator"}, no_input=True)

    mark("validation tie")
    # ---- vm_compute slice: guards extraction
    small = [c for c in cases if len(c[1].encode()) <= 60 and not c[0].startswith("exhaustive")]
    sl = rng.sample(small, 100) + [c for c in cases if c[0] == "numeric-catalogue"][:30]
    vm = vm_batch([(c[1], c[2]) for c in sl])
    orc_sl = common.run_tool(orc, [p_line(c[1], c[2]) for c in sl], shards=1)
    vm_bad = [(c[1], x, y) for c, x, y in zip(sl, vm, orc_sl) if x != y]
    if vm_bad:
        res.violation("extracted oracle and vm_compute disagree on %r: %s vs %s" % vm_bad[0], {"kind": "extraction", "case": list(vm_bad[0])}, no_input=True)

    mark("vm_compute slice")
    if not proved and not res.violations:
        res.violation(res.proof_broken, {"kind": "proof-obligation", "detail": res.proof_broken}, no_input=True)

    samples = []
    for want in ("rfc4180", "numeric-catalogue", "number-grammar", "number-mutant", "malformed-random"):
        k = [i for i, c in enumerate(cases) if c[0].startswith(want)][:3]
        samples += [{"class": cases[i][0], "text": cases[i][1][:120], "header": cases[i][2], "impl": impl[i][:200]} for i in k]
    samples += [{"class": "validation-tie", "schema": sc, "text": t[:80], "header": h, "features": f, "impl": o}
                for (sc, t, h, f), o in list(zip(vcases, vout))[:4]]
    res.coverage.update({
        "evaluations": len(cases) + len(conf) + len(vcases),
        "distinct_nontrivial": len(distinct) + len(set(vcases)),
        "rule": "mapping: each (text, header) is parsed by the real parse_csv_to_json and by the extracted Coq model and the documents must be equal "
                "(floats by bit pattern); distinct_nontrivial = distinct (text, header) pairs of at least 4 bytes outside the enumerated scopes, "
                "plus distinct (schema, text, header, features) tuples of the validation tie",
        "exhaustive": True,
        "exhaustive_scope": ["all texts over {DQUOTE , CR LF a 1} of length <= %d, header flag 0 and 1" % n_reader,
                             "all fields over {0 7 + - . e E i} of length <= %d as the last record (no trailing line break)" % n_number],
        "number_spelling_grammar": NUMBER_GRAMMAR,
        "class_histogram": hist,
        "field_class_histogram": {"text": kinds["s"], "uint": kinds["u"], "negative int": kinds["i"], "float": kinds["f"]},
        "roundtrip_texts": len(conf), "roundtrip_excluded_classes_hit": dev_seen,
        "validation_tie": {"cases": len(vcases), "verdict_split": vsplit, "messages": vmsg, "schemas": len(SCHEMAS),
                           "per_schema": {k: v for k, v in per_schema.items()}},
        "vm_compute_slice": len(sl),
        "phase_seconds": phases,
        "samples": samples,
    })
    res.assumptions = [
        "f64::from_str is correctly rounded (round to nearest even): finite iff |D*10^e| < (2^54-1)*2^970 (Csv/Spec.v dec_finite); checked at the boundary every run, values compared bit for bit with Python float()",
        "dec2flt's exponent accumulator saturates at 65536; the model keeps the exact exponent (same class for fields shorter than 60 kB)",
        "csv 1.4.0 / csv-core 0.1.13 buffering (8 KiB BufReader, output buffer growth, scan_and_copy) does not change the records (abstracted in Csv/Reader.v run); exercised beyond 8 KiB in the thorough tier",
        "the JSON validator is a parameter of the model's validate_csv (C01 covers it); the tie to the code is the differential run (b)",
        "parse_csv_to_json takes &str: inputs are valid UTF-8",
    ]
    return res.finish()


def replay(path):
    r = json.load(open(path))["replay"]
    drv = common.build_harness("c13")
    common.coq_build([EXTRACT])
    orc = common.build_oracle("csv", ["csv_model"])
    cmd = r.get("cmd")
    if cmd == "V":
        line = "V\t%s\t%s\t%s\t%s" % (r["schema"].encode().hex(), r["text_hex"], r["header"], r["features"])
        print("impl  :", common.run_tool(drv, [line])[0])
        j = common.run_tool(drv, ["J\t%s\t%s" % (r["text_hex"], r["header"])])[0]
        try:
            print("mapped:", bytes.fromhex(j).decode())
        except ValueError:
            print("mapped:", j)
        return 0
    if cmd == "R":
        print("rows  :", r.get("rows"))
        print("model :", common.run_tool(orc, ["R\t" + r["text_hex"]])[0])
        print("impl  :", common.run_tool(drv, ["P\t%s\t0" % r["text_hex"]])[0])
        return 0
    if cmd == "P":
        line = "P\t%s\t%s" % (r["text_hex"], r["header"])
        print("impl  :", common.run_tool(drv, [line])[0])
        mo = common.run_tool(orc, [line])[0]
        print("model :", canon_model(mo), "  raw:", mo)
        text = bytes.fromhex(r["text_hex"])
        if len(text) <= 200:
            vm = vm_batch([(text.decode(), r["header"])])[0]
            print("vm    :", canon_model(vm))
        return 0
    print("nothing to replay:", r)
    return 0
