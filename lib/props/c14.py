"""C14 - validation failures are reported faithfully and deterministically (DESIGN.md 6, C14; design.d/C14.md).

What is run against the real crate (driver harness/src/bin/c14.rs):
  (a) Err(Validation(l)) => l non-empty; documents that conform by construction (and by a small reference validator over the
      generated fragment) give Ok, non-conforming ones give Err(Validation(..)) - this is what exposes an error that survives
      a successful alternative, a verdict that ignores the recorded errors, or an emptied list;
  (b) error kind per failure class (malformed schema / malformed document / non-conforming document) equals the table
      translated from validator/mod.rs into Coq (Generated/ErrorKinds.v) and the classes are kept apart;
  (c) every json_location (and, for plain-key documents, every cbor_location) resolves in the document per the Coq
      definitions Err.Loc.resolves_string / resolves_amb executed by the extracted oracle;
  (d) the same call gives the same rendering 3 times in a row, again in another process after >= 100 unrelated calls in a
      different order, and from 16 threads concurrently;
  (d') history groups: schemas sharing their literals and differing in one operator or flag, run in one process in every order and
      concurrently into a cold process, each call compared with its result alone in a fresh process;
  (e) src/ is scanned for process-global mutable state; a static outside the reviewed baseline is a broken obligation.
"""
import json, os, random, re, struct
from concurrent.futures import ThreadPoolExecutor
from .. import common
from ..common import Result

PROP = "C14"
PROP_FILE = "theories/Props/C14.v"
EXTRACT = "theories/Extract/ExtractErr.vo"

# ---------------------------------------------------------------------------
# schema fragment, reference semantics, inhabitants, mutants
# ---------------------------------------------------------------------------

KEYS_PLAIN = ["a", "b", "c", "d", "k1", "name", "id", "v"]
KEYS_ODD = ["x/y", "a/b", "/", "a/", "/a", "a//b", "~0", "~1", "~", "", "é", "日本", "ключ", "0", "1", "10", "-1", "a b", "a.b"]
TEXTS = ["", "s", "abc", "é", "x/y", "lit", "0"]


def is_int(v):
    return isinstance(v, int) and not isinstance(v, bool)


class Gen:
    """one schema = rules {name: type}; root rule is r0"""

    def __init__(self, rng, odd_keys):
        self.rng, self.rules, self.odd, self.in_group = rng, [], odd_keys, False

    def key(self):
        return self.rng.choice(KEYS_ODD if (self.odd and self.rng.random() < 0.6) else KEYS_PLAIN)

    def scalar(self):
        r = self.rng
        k = r.choice(["int", "uint", "tstr", "bool", "nil", "float", "int", "tstr", "lit_int", "lit_text", "range", "size", "lt", "ge", "any"])
        if k == "lit_int":
            return ("lit_int", r.choice([0, 1, 7, 42, 1000]))
        if k == "lit_text":
            return ("lit_text", r.choice(["lit", "x", "ok"]))
        if k == "range":
            lo = r.choice([0, 1, 5, 10])
            return ("range", lo, lo + r.choice([0, 1, 4, 90]))
        if k == "size":
            return ("size", r.choice([0, 1, 2, 3, 5]))
        if k in ("lt", "ge"):
            return (k, r.choice([1, 3, 10, 256]))
        return (k,)

    def typ(self, depth):
        r = self.rng
        x = r.random()
        if depth <= 0 or x < 0.3:
            return self.scalar()
        if x < 0.58:
            y = r.random()
            if y < 0.15:
                return ("wmap", self.typ(depth - 1))
            if y < 0.3 and not self.in_group:
                # group choice inside a map: { m1 // m2 }. Kept to the shape on which the crate's verdicts are sound
                # (pairwise different keys, no optional member, no group choice nested in an alternative).
                n1, n2 = r.choice([1, 1, 2]), r.choice([1, 1, 2])
                keys = []
                while len(keys) < n1 + n2:
                    k = self.key()
                    if k not in keys:
                        keys.append(k)
                self.in_group = True
                alts = [[(k, False, self.typ(depth - 1)) for k in keys[:n1]], [(k, False, self.typ(depth - 1)) for k in keys[n1:]]]
                self.in_group = False
                return ("gmap", alts)
            n = r.choice([1, 2, 2, 3, 4])
            keys = []
            while len(keys) < n:
                k = self.key()
                if k not in keys:
                    keys.append(k)
            return ("map", [(k, r.random() < 0.25, self.typ(depth - 1)) for k in keys])
        if x < 0.8:
            if r.random() < 0.5:
                occ = r.choice([(0, None), (1, None), (0, 3), (2, 3), (1, 4), (2, 2)])
                return ("harr", occ, self.typ(depth - 1))
            n = r.choice([1, 2, 3])
            if r.random() < 0.2 and not self.in_group:
                # group choice inside an array, alternatives of equal length: [ a, b // c, d ]
                self.in_group = True
                alts = [[self.typ(depth - 1) for _ in range(n)] for _ in range(2)]
                self.in_group = False
                return ("gtuple", alts)
            items = [self.typ(depth - 1) for _ in range(n)]
            opt = self.typ(depth - 1) if r.random() < 0.3 else None
            return ("tuple", items, opt)
        if x < 0.9:
            return ("choice", [self.typ(depth - 1), self.typ(depth - 1)])
        name = "t%d" % (len(self.rules) + 1)
        self.rules.append((name, None))
        idx = len(self.rules) - 1
        self.rules[idx] = (name, self.typ(depth - 1))
        return ("ref", name)


def occ_text(occ):
    lo, hi = occ
    if (lo, hi) == (0, None):
        return "*"
    if (lo, hi) == (1, None):
        return "+"
    return "%d*%s" % (lo, "" if hi is None else hi)


def qtext(s):
    return '"' + s + '"'


def show(t, nested=True):
    k = t[0]
    if k in ("int", "uint", "tstr", "bool", "nil", "float", "any"):
        return k
    if k == "lit_int":
        return str(t[1])
    if k == "lit_text":
        return qtext(t[1])
    if k == "range":
        return "%d..%d" % (t[1], t[2])
    if k == "size":
        return "tstr .size %d" % t[1]
    if k == "lt":
        return "uint .lt %d" % t[1]
    if k == "ge":
        return "uint .ge %d" % t[1]
    if k == "map":
        return "{ " + ", ".join("%s%s: %s" % ("? " if o else "", qtext(key), show(ty)) for key, o, ty in t[1]) + " }"
    if k == "wmap":
        return "{ * tstr => %s }" % show(t[1])
    if k == "gmap":
        return "{ " + " // ".join(", ".join("%s%s: %s" % ("? " if o else "", qtext(key), show(ty)) for key, o, ty in ms) for ms in t[1]) + " }"
    if k == "gtuple":
        return "[ " + " // ".join(", ".join(show(x) for x in items) for items in t[1]) + " ]"
    if k == "harr":
        return "[ %s %s ]" % (occ_text(t[1]), show(t[2]))
    if k == "tuple":
        items = [show(x) for x in t[1]] + (["? " + show(t[2])] if t[2] is not None else [])
        return "[ " + ", ".join(items) + " ]"
    if k == "choice":
        s = " / ".join(show(x) for x in t[1])
        return "( " + s + " )" if nested else s
    if k == "ref":
        return t[1]
    raise ValueError(k)


def schema_text(root, rules):
    return "r0 = " + show(root, nested=False) + "\n" + "".join("%s = %s\n" % (n, show(t, nested=False)) for n, t in rules)


def valid(t, v, rules):
    """reference semantics of the fragment (RFC 8610; arrays are tuples with one optional tail or homogeneous)"""
    k = t[0]
    if k == "int":
        return is_int(v)
    if k == "uint":
        return is_int(v) and v >= 0
    if k == "tstr":
        return isinstance(v, str)
    if k == "bool":
        return isinstance(v, bool)
    if k == "nil":
        return v is None
    if k == "float":
        return isinstance(v, float)
    if k == "any":
        return True
    if k == "lit_int":
        return is_int(v) and v == t[1]
    if k == "lit_text":
        return isinstance(v, str) and v == t[1]
    if k == "range":
        return is_int(v) and t[1] <= v <= t[2]
    if k == "size":
        return isinstance(v, str) and len(v.encode()) == t[1]
    if k == "lt":
        return is_int(v) and 0 <= v < t[1]
    if k == "ge":
        return is_int(v) and v >= t[1] and v >= 0
    if k == "map":
        if not isinstance(v, dict):
            return False
        names = [m[0] for m in t[1]]
        if any(key not in names for key in v):
            return False
        for key, opt, ty in t[1]:
            if key in v:
                if not valid(ty, v[key], rules):
                    return False
            elif not opt:
                return False
        return True
    if k == "wmap":
        return isinstance(v, dict) and all(valid(t[1], x, rules) for x in v.values())
    if k == "gmap":
        return any(valid(("map", ms), v, rules) for ms in t[1])
    if k == "gtuple":
        return any(valid(("tuple", items, None), v, rules) for items in t[1])
    if k == "harr":
        lo, hi = t[1]
        return isinstance(v, list) and lo <= len(v) and (hi is None or len(v) <= hi) and all(valid(t[2], x, rules) for x in v)
    if k == "tuple":
        if not isinstance(v, list):
            return False
        n = len(t[1])
        if len(v) == n or (t[2] is not None and len(v) == n + 1):
            return all(valid(ty, x, rules) for ty, x in zip(t[1], v)) and (len(v) == n or valid(t[2], v[n], rules))
        return False
    if k == "choice":
        return any(valid(x, v, rules) for x in t[1])
    if k == "ref":
        return valid(dict(rules)[t[1]], v, rules)
    raise ValueError(k)


def trusted(t, v, rules):
    """False where the label of the reference semantics is not used as an expectation: inside a map with a group choice the
    crate does not report members that belong to another alternative (a verdict defect outside C14, see design.d/C14.md)"""
    k = t[0]
    if k == "map" and isinstance(v, dict):
        return all(trusted(ty, v[key], rules) for key, _, ty in t[1] if key in v)
    if k == "wmap" and isinstance(v, dict):
        return all(trusted(t[1], x, rules) for x in v.values())
    if k == "gmap" and isinstance(v, dict):
        hit = [ms for ms in t[1] if any(key in v for key, _, _ in ms)]
        if len(hit) > 1:
            return False
        return all(trusted(("map", ms), v, rules) for ms in hit)
    if k == "harr" and isinstance(v, list):
        return all(trusted(t[2], x, rules) for x in v)
    if k == "tuple" and isinstance(v, list):
        tys = list(t[1]) + ([t[2]] if t[2] is not None else [])
        return all(trusted(ty, x, rules) for ty, x in zip(tys, v))
    if k == "gtuple" and isinstance(v, list):
        return all(trusted(ty, x, rules) for items in t[1] for ty, x in zip(items, v))
    if k == "choice":
        return all(trusted(x, v, rules) for x in t[1])
    if k == "ref":
        return trusted(dict(rules)[t[1]], v, rules)
    return True


def rand_scalar(rng):
    return rng.choice([0, 1, -3, 7, 300, "s", "", "é", True, False, None, 1.5, -0.25])


def inhabit(rng, t, rules):
    k = t[0]
    if k == "int":
        return rng.choice([0, 1, -1, 42, -300, 65536])
    if k == "uint":
        return rng.choice([0, 1, 23, 24, 255, 70000])
    if k == "tstr":
        return rng.choice(TEXTS)
    if k == "bool":
        return rng.random() < 0.5
    if k == "nil":
        return None
    if k == "float":
        return rng.choice([1.5, -0.25, 3.75, 1e10 + 0.5])
    if k == "any":
        return rng.choice([rand_scalar(rng), [1, "s"], {"q": None}])
    if k == "lit_int" or k == "lit_text":
        return t[1]
    if k == "range":
        return rng.choice([t[1], t[2], rng.randint(t[1], t[2])])
    if k == "size":
        return "abcde"[:t[1]]
    if k == "lt":
        return rng.choice([0, t[1] - 1])
    if k == "ge":
        return rng.choice([t[1], t[1] + 1, t[1] + 1000])
    if k == "map":
        return {key: inhabit(rng, ty, rules) for key, opt, ty in t[1] if not opt or rng.random() < 0.6}
    if k == "wmap":
        keys = rng.sample(KEYS_PLAIN + KEYS_ODD[:6], rng.choice([0, 1, 2, 3]))
        return {key: inhabit(rng, t[1], rules) for key in keys}
    if k == "gmap":
        return inhabit(rng, ("map", rng.choice(t[1])), rules)
    if k == "gtuple":
        return inhabit(rng, ("tuple", rng.choice(t[1]), None), rules)
    if k == "harr":
        lo, hi = t[1]
        n = rng.randint(lo, hi if hi is not None else lo + 3)
        return [inhabit(rng, t[2], rules) for _ in range(n)]
    if k == "tuple":
        v = [inhabit(rng, ty, rules) for ty in t[1]]
        if t[2] is not None and rng.random() < 0.5:
            v.append(inhabit(rng, t[2], rules))
        return v
    if k == "choice":
        return inhabit(rng, rng.choice(t[1]), rules)
    if k == "ref":
        return inhabit(rng, dict(rules)[t[1]], rules)
    raise ValueError(k)


def paths(v, p=()):
    out = [p]
    if isinstance(v, dict):
        for k, x in v.items():
            out += paths(x, p + (k,))
    elif isinstance(v, list):
        for i, x in enumerate(v):
            out += paths(x, p + (i,))
    return out


def get(v, p):
    for s in p:
        v = v[s]
    return v


def put(v, p, new):
    """functional update"""
    if not p:
        return new
    if isinstance(v, dict):
        return {k: (put(x, p[1:], new) if k == p[0] else x) for k, x in v.items()}
    return [put(x, p[1:], new) if i == p[0] else x for i, x in enumerate(v)]


def other_kind(rng, old):
    cands = [0, -1, 9999, "s", "zzz", True, None, 1.5, [], [1], {}, {"zz": 1}, [[]], {"a": {"b": 1}}]
    def kind(x):
        return "int" if is_int(x) else type(x).__name__
    cs = [c for c in cands if kind(c) != kind(old)]
    return rng.choice(cs)


def mutate(rng, doc):
    """returns (mutation name, path of the mutated node, mutant) - a single-point mutation"""
    ps = paths(doc)
    # bias towards deep nodes and towards the last element of arrays
    ps.sort(key=len)
    op = rng.choice(["kind", "kind", "kind", "drop", "extra", "shorter", "longer", "value"])
    objs = [p for p in ps if isinstance(get(doc, p), dict)]
    arrs = [p for p in ps if isinstance(get(doc, p), list)]
    if op == "drop" and any(get(doc, p) for p in objs):
        p = rng.choice([p for p in objs if get(doc, p)])
        o = get(doc, p)
        k = rng.choice(list(o))
        return "missing-member", p, put(doc, p, {a: b for a, b in o.items() if a != k})
    if op == "extra" and objs:
        p = rng.choice(objs)
        o = dict(get(doc, p))
        k = rng.choice(["zz", "extra", "x/y", "~", "", "9", "é"])
        if k not in o:
            o[k] = rand_scalar(rng)
            return "extra-member", p, put(doc, p, o)
    if op == "shorter" and any(get(doc, p) for p in arrs):
        p = rng.choice([p for p in arrs if get(doc, p)])
        return "array-shorter", p, put(doc, p, get(doc, p)[:-1])
    if op == "longer" and arrs:
        p = rng.choice(arrs)
        a = get(doc, p)
        return "array-longer", p, put(doc, p, a + [a[-1] if a and rng.random() < 0.5 else rand_scalar(rng)])
    if op == "value":
        leaves = [p for p in ps if is_int(get(doc, p)) or isinstance(get(doc, p), str)]
        if leaves:
            p = rng.choice(leaves)
            old = get(doc, p)
            new = (old + rng.choice([1, -1, 1000, -1000])) if is_int(old) else old + rng.choice(["x", "é/"])
            return "other-value", p, put(doc, p, new)
    # wrong kind at depth; half of the time at one of the deepest nodes / the last element
    deep = [p for p in ps if len(p) == len(ps[-1])]
    last = [p for p in ps if p and isinstance(p[-1], int) and p[-1] == len(get(doc, p[:-1])) - 1]
    x = rng.random()
    p = rng.choice(deep) if x < 0.35 else (rng.choice(last) if last and x < 0.6 else rng.choice(ps))
    return "wrong-kind", p, put(doc, p, other_kind(rng, get(doc, p)))


def depth_of(v):
    if isinstance(v, dict):
        return 1 + max([depth_of(x) for x in v.values()] + [0])
    if isinstance(v, list):
        return 1 + max([depth_of(x) for x in v] + [0])
    return 0


# ---------------------------------------------------------------------------
# renderings of a document: JSON text, CBOR bytes, oracle tree, Coq term
# ---------------------------------------------------------------------------

def json_text(v):
    return json.dumps(v, ensure_ascii=False)


def cbor_head(m, n):
    if n < 24:
        return bytes([m << 5 | n])
    for ai, w in ((24, 1), (25, 2), (26, 4), (27, 8)):
        if n < 1 << (8 * w):
            return bytes([m << 5 | ai]) + n.to_bytes(w, "big")
    raise ValueError(n)


def cbor_enc(v):
    if v is None:
        return b"\xf6"
    if v is True:
        return b"\xf5"
    if v is False:
        return b"\xf4"
    if is_int(v):
        return cbor_head(0, v) if v >= 0 else cbor_head(1, -1 - v)
    if isinstance(v, float):
        return b"\xfb" + struct.pack(">d", v)
    if isinstance(v, str):
        b = v.encode()
        return cbor_head(3, len(b)) + b
    if isinstance(v, list):
        return cbor_head(4, len(v)) + b"".join(cbor_enc(x) for x in v)
    return cbor_head(5, len(v)) + b"".join(cbor_enc(k) + cbor_enc(x) for k, x in v.items())


def tree(v):
    if v is None:
        return "n"
    if v is True:
        return "t"
    if v is False:
        return "f"
    if isinstance(v, (int, float)):
        return "#"
    if isinstance(v, str):
        return "s" + v.encode().hex() + "."
    if isinstance(v, list):
        return "[" + "".join(tree(x) for x in v) + "]"
    return "{" + "".join("k" + k.encode().hex() + "." + tree(x) for k, x in v.items()) + "}"


def coq_str(s):
    return "[" + "; ".join(str(b) for b in s.encode()) + "]"


def coq_json(v):
    if v is None:
        return "JNull"
    if v is True:
        return "(JBool true)"
    if v is False:
        return "(JBool false)"
    if isinstance(v, (int, float)):
        return "JNum"
    if isinstance(v, str):
        return "(JStr %s)" % coq_str(v)
    if isinstance(v, list):
        return "(JArr [" + "; ".join(coq_json(x) for x in v) + "])"
    return "(JObj [" + "; ".join("(%s, %s)" % (coq_str(k), coq_json(x)) for k, x in v.items()) + "])"


PLAIN_KEY = re.compile(r"^[A-Za-z][A-Za-z0-9]*$")


def all_keys_plain(v):
    if isinstance(v, dict):
        return all(PLAIN_KEY.match(k) and all_keys_plain(x) for k, x in v.items())
    if isinstance(v, list):
        return all(all_keys_plain(x) for x in v)
    return True


def cbor_loc_to_json_loc(loc):
    """cbor_location renders keys with {:?} (cbor.rs:283, :4157): /"key"/3/"k2". For plain keys this is the JSON-style
    location with the quotes removed; returns None when the shape is not recognised."""
    if loc == "":
        return ""
    if not loc.startswith("/"):
        return None
    out = []
    for piece in loc[1:].split("/"):
        m = re.match(r'^"([A-Za-z][A-Za-z0-9]*)"$', piece)
        if m:
            out.append(m.group(1))
        elif re.match(r"^[0-9]+$", piece):
            out.append(piece)
        else:
            return None
    return "/" + "/".join(out)


# ---------------------------------------------------------------------------
# malformed schemas and documents (malformed by construction)
# ---------------------------------------------------------------------------

def break_schema(rng, text):
    c = rng.randrange(7)
    if c == 0:
        return "@@ " + text
    if c == 1:
        return text + "zz = \n"
    if c == 2:
        return text + 'zz = "unterminated\n'
    if c == 3:
        return text.replace("r0 = ", "r0 = [ ", 1)              # unbalanced bracket
    if c == 4:
        return text.replace("r0 = ", "r0 == ", 1)
    if c == 5:
        return text.replace("r0 = ", "r0 = { ", 1) + "zz = int\n"  # unbalanced brace
    return text + "= int\n"


BAD_JSON = ["", "{", "[1,", '{"a":}', "[1,]", "tru", "'s'", '{"a" 1}', '"unterminated', "{} x", "[] []", "1 2", "\x01", '{"a":1,}', "nul", "+1", "01"]


def break_json(rng, text):
    c = rng.randrange(4)
    if c == 0 and len(text) > 1 and text[0] in "[{\"":
        return text[:-1]                                          # truncated container / string
    if c == 1:
        return text + rng.choice([" x", ",", "]", "}", " 1"])      # trailing garbage
    if c == 2 and text[0] in "[{":
        return text[0] + "," + text[1:]
    return rng.choice(BAD_JSON)


def break_cbor(rng, enc):
    """returns (class, bytes): truncated and reserved/break bytes are not well-formed CBOR (an encoding is prefix-free:
    Coq C11_Enc_prefix_free); 'trailing' = a well-formed item followed by extra bytes"""
    c = rng.randrange(5)
    if c == 0 and len(enc) > 1:
        return "doc-malformed", enc[:rng.randrange(0, len(enc))]
    if c == 1:
        return "doc-malformed", rng.choice([b"\xff", b"\x1c", b"\x3e", b"\x5c", b"\x81", b"\xa1\x01", b"\x9f\x01", b"\x7f\x61", b"\xf8", b"\x62\xc3\x28", b"", b"\x5f\x01\xff"])
    if c == 2:
        return "cbor-trailing", enc + rng.choice([b"\x00", b"\xff", b"\xf6\xf6", enc])
    if c == 3 and len(enc) > 1:
        return "doc-malformed", enc[:-1]
    return "doc-malformed", bytes([enc[0] | 0x1f]) if (enc[0] >> 5) in (0, 1, 6) else enc[:max(0, len(enc) - 1)] if len(enc) > 1 else b"\x1f"


# ---------------------------------------------------------------------------
# cases
# ---------------------------------------------------------------------------

NOOBJ = object()


def mk(entry, cls, label, schema, doc_bytes, doc=NOOBJ, mpath=None):
    """doc = the document as a Python value when it is well-formed (None is JSON null)"""
    return {"entry": entry, "class": cls, "label": label, "schema": schema, "doc": doc_bytes,
            "obj": None if doc is NOOBJ else doc, "has_obj": doc is not NOOBJ, "mpath": mpath}


def line_of(c):
    return "%s\t%s\t%s" % (c["entry"], c["schema"].encode().hex(), c["doc"].hex())


def gen_cases(rng, n_schemas):
    cases = []
    for si in range(n_schemas):
        g = Gen(rng, odd_keys=(si % 3 == 0))
        root = g.typ(rng.choice([1, 2, 2, 3, 3, 4]))
        rules = g.rules
        text = schema_text(root, rules)
        docs = []
        v0 = inhabit(rng, root, rules)
        docs.append(("valid", None, v0))
        for _ in range(rng.choice([3, 5, 7])):
            base = inhabit(rng, root, rules) if rng.random() < 0.5 else v0
            name, p, m = mutate(rng, base)
            docs.append((name, p, m))
            if rng.random() < 0.15:                     # a second, independent mutation: several errors in one list
                name2, p2, m2 = mutate(rng, m)
                docs.append((name + "+" + name2, None, m2))
        docs.append(("unrelated", None, rng.choice([rand_scalar(rng), [rand_scalar(rng)], {rng.choice(KEYS_PLAIN + KEYS_ODD): rand_scalar(rng)}, [], {}])))
        do_cbor = si % 2 == 0
        for cls, p, d in docs:
            label = ("valid" if valid(root, d, rules) else "invalid") if trusted(root, d, rules) else "unlabelled"
            cases.append(mk("J", cls, label, text, json_text(d).encode(), d, p))
            if do_cbor:
                cases.append(mk("C", cls, label, text, cbor_enc(d), d, p))
        # malformed schema / document / both
        if si % 4 == 0:
            bad = break_schema(rng, text)
            cases.append(mk("J", "schema-malformed", "schema-malformed", bad, json_text(v0).encode()))
            cases.append(mk("C", "schema-malformed", "schema-malformed", bad, cbor_enc(v0)))
            bj = break_json(rng, json_text(rng.choice(docs)[2])).encode()
            cases.append(mk("J", "doc-malformed", "doc-malformed", text, bj))
            cl, bc = break_cbor(rng, cbor_enc(rng.choice(docs)[2]))
            cases.append(mk("C", cl, cl, text, bc))
            if si % 16 == 0:
                cases.append(mk("J", "both-malformed", "both-malformed", bad, bj))
                cases.append(mk("C", "both-malformed", "both-malformed", bad, b"\xff"))
    return cases


def parse_out(s):
    f = s.split("\t")
    if f[0] == "OK":
        return {"v": "OK", "kind": None, "errs": []}
    if f[0] == "ERR" and len(f) >= 4 and f[1] == "Validation":
        errs = []
        if f[3]:
            for it in f[3].split(";"):
                a, b = it.split(":")
                errs.append((bytes.fromhex(a).decode("utf-8", "replace"), bytes.fromhex(b).decode("utf-8", "replace")))
        return {"v": "ERR", "kind": "Validation", "errs": errs, "n": int(f[2])}
    if f[0] == "ERR" and len(f) >= 3:
        return {"v": "ERR", "kind": f[1], "errs": [], "msg": bytes.fromhex(f[2]).decode("utf-8", "replace")}
    return {"v": f[0], "kind": None, "errs": [], "raw": s[:300]}   # PANIC / UNSTABLE / CRASH / ?


def replay_dict(c, **kw):
    d = {"entry": c["entry"], "class": c["class"], "label": c["label"], "schema": c["schema"], "doc_hex": c["doc"].hex()}
    if c["entry"] == "J":
        d["doc_text"] = c["doc"].decode("utf-8", "replace")
    if c["has_obj"]:
        d["doc_json"] = json_text(c["obj"])
    d.update(kw)
    return d


ENTRY_NAME = {"J": "validate_json_from_str", "C": "validate_cbor_from_slice"}
CLASS_CODE = {"schema-malformed": 0, "doc-malformed": 1, "invalid": 2}

# ---------------------------------------------------------------------------
# (e) process-global mutable state: the purity assumption behind C14_model_deterministic
# ---------------------------------------------------------------------------
# A `static` whose type allows mutation after start-up (static mut, or interior mutability / lazy initialisation:
# OnceLock, OnceCell, LazyLock, Lazy, Mutex, RwLock, Atomic*, RefCell, Cell, UnsafeCell), and the macros lazy_static! /
# thread_local!. Declarations may span lines and may sit inside functions. Everything under src/ except src/bin/ is
# linked into the validation entry points (parser, lexer, validators), so all of it counts as reachable.
STATIC_DECL = re.compile(r"\bstatic\s+(?:ref\s+)?(mut\s+)?([A-Za-z_][A-Za-z0-9_]*)\s*:\s*([^=;]+?)\s*(?:=|;)", re.S)
MUTABLE_TYPE = re.compile(r"\b(OnceLock|OnceCell|LazyLock|LazyCell|Lazy|Mutex|RwLock|Atomic[A-Za-z0-9]*|RefCell|Cell|UnsafeCell|Condvar)\b")
STATE_MACRO = re.compile(r"\b(lazy_static|thread_local)\s*!")

# committed baseline (reviewed): the alias-cycle guard added by /repo d9284e7 - a per-thread stack of rule names that is
# pushed and popped by an RAII guard inside one call and is empty between calls.
GLOBAL_STATE_BASELINE = [
    "src/validator/mod.rs: static ACTIVE_ALIASES: std::cell::RefCell<Vec<String>>",
    "src/validator/mod.rs: thread_local!",
]


def strip_rust_comments(txt):
    """drop // and /* */ comments (string literals containing // are rare in this crate and only make the scan stricter)"""
    txt = re.sub(r"/\*.*?\*/", lambda m: "\n" * m.group(0).count("\n"), txt, flags=re.S)
    return re.sub(r"//[^\n]*", "", txt)


def scan_global_state():
    hits = []
    src = os.path.join(common.REPO, "src")
    for root, _, files in os.walk(src):
        for f in sorted(files):
            if not f.endswith(".rs"):
                continue
            rel = os.path.relpath(os.path.join(root, f), common.REPO)
            if rel.startswith("src/bin/"):
                continue
            txt = strip_rust_comments(open(os.path.join(root, f), encoding="utf-8", errors="replace").read())
            for m in STATIC_DECL.finditer(txt):
                ty = re.sub(r"\s+", " ", m.group(3)).strip()
                if m.group(1) or MUTABLE_TYPE.search(ty) or "static ref" in re.sub(r"\s+", " ", m.group(0)):
                    hits.append("%s: static %s%s: %s" % (rel, "mut " if m.group(1) else "", m.group(2), ty[:160]))
            for m in STATE_MACRO.finditer(txt):
                hits.append("%s: %s!" % (rel, m.group(1)))
    return sorted(set(hits))


def own_findings():
    """open findings of this property: the assembled known_findings.json, else the fragment findings.d/C14.json"""
    kfs = common.known_findings(PROP)
    if kfs:
        return kfs
    p = os.path.join(common.VERIF, "findings.d", "C14.json")
    if os.path.exists(p):
        return [e for e in json.load(open(p)).get("findings", []) if e["status"] == "open"]
    return []


# ---------------------------------------------------------------------------
# (d') histories: "after other calls in the same process"
# ---------------------------------------------------------------------------
# A group = schemas that share every literal string / number and differ in ONE operator or flag, documents that tell the
# members apart, both entry points. Anything memoised per process under a key that forgets the differing operator (a regex
# cache keyed by the pattern text, a rule cache keyed by the rule name, ...) makes a later member answer like an earlier one.

REGEX_PATTERNS = [   # (pattern, full match, matches only unanchored, no match)
    ("[a-c]+x", "abcx", "--abcx--", "zzz"),
    ("a.c", "abc", "xabcx", "ac"),
    ("[0-9]+", "2024", "id-2024!", "none"),
    ("(foo|bar)", "foo", "a foo b", "baz"),
    ("x*y", "xxy", "xxyz", "xxz"),
    ("[A-Z][a-z]+", "Abc", "anAbc", "abc"),
    ("ab?c", "ac", "zacz", "ab"),
    ("q", "q", "aqa", "a"),
]
TEXT_LITS = ["lit", "x/y", "ok", "é", ""]
NUMS = [0, 1, 5, 10, 255]

CONTEXTS = [   # (schema text around the type T, document around the value v, name)
    (lambda T: "r0 = %s\n" % T, lambda v: v, "root"),
    (lambda T: 'r0 = { "k": %s }\n' % T, lambda v: {"k": v}, "member"),
    (lambda T: "r0 = [ %s, int ]\n" % T, lambda v: [v, 7], "element"),
    (lambda T: 'r0 = { "a": { "b": [ * t1 ] } }\nt1 = %s\n' % T, lambda v: {"a": {"b": [v, v]}}, "nested"),
    (lambda T: 'r0 = { "x/y": %s, ? "n": int }\n' % T, lambda v: {"x/y": v}, "slash-member"),
]


# alias histories: schemas whose alias rules form a cycle (walked by the shared is_ident_* / unwrap / literal helpers, which keep
# per-thread bookkeeping) followed by ordinary schemas that reuse the SAME rule names. The pool is tiny on purpose.
ALIAS_NAMES = ["label", "count", "blob", "item"]


def alias_group(rng):
    n = rng.choice(ALIAS_NAMES)
    m = rng.choice([x for x in ALIAS_NAMES if x != n])
    cyc = "%s = %s\n%s = %s\n" % (n, m, m, n)
    cyc3 = "%s = %s\n%s = link\nlink = %s\n" % (n, m, m, n)
    self1 = "%s = %s\n" % (n, n)
    poison = [   # (name, schema, documents): the cyclic name as control target / controller, unwrap target, range bound, member key
        ("cyc.size", "r0 = %s .size 2\n" % n + cyc, ["ab", 3]),
        ("cyc.lt", "r0 = %s .lt 3\n" % n + cyc, [1, 5]),
        ("cyc.eq", 'r0 = %s .eq "ab"\n' % n + cyc3, ["ab", "zz"]),
        ("cyc.ne", "r0 = %s .ne 3\n" % n + cyc, [3, 4]),
        ("cyc.ctl-arg", "r0 = tstr .size %s\n" % n + cyc, ["ab", "abc"]),
        ("cyc.regexp", "r0 = %s .regexp \"a+\"\n" % n + cyc, ["aa", "b"]),
        ("cyc.unwrap", "r0 = [ ~%s, bool ]\n" % n + cyc, [["a", 1, True], [True]]),
        ("cyc.range-lo", "r0 = %s..10\n" % n + cyc, [3, 30]),
        ("cyc.range-hi", "r0 = 1..%s\n" % n + cyc3, [3, 30]),
        ("cyc.key", "r0 = { %s => int }\n" % n + cyc, [{"a": 1}, {"a": "s"}]),
        ("cyc.key-member", 'r0 = { "n": %s .size 2 }\n' % n + cyc, [{"n": "ab"}, {"n": 1}]),
        ("cyc.self", "r0 = %s .size 2\n" % n + self1, ["ab", 3]),
        ("cyc.partner", "r0 = %s .size 2\n" % m + cyc, ["ab", 3]),
        ("cyc.choice", "r0 = ( %s / int ) .lt 3\n" % n + cyc, [1, 5]),
    ]
    def probes(x):
        return [   # ordinary schemas that reuse the rule name x
            ("use.size:" + x, "r0 = %s .size 2\n%s = tstr\n" % (x, x), ["ab", "abc"]),
            ("use.lt:" + x, 'r0 = { "n": %s .lt 3 }\n%s = int\n' % (x, x), [{"n": 1}, {"n": 5}]),
            ("use.eq:" + x, 'r0 = %s .eq "ab"\n%s = tstr\n' % (x, x), ["ab", "zz"]),
            ("use.unwrap:" + x, "r0 = [ ~%s, bool ]\n%s = [ tstr, int ]\n" % (x, x), [["a", 1, True], ["a", True]]),
            ("use.range:" + x, "r0 = 1..%s\n%s = 10\n" % (x, x), [5, 30]),
            ("use.key:" + x, "r0 = { %s => int }\n%s = tstr\n" % (x, x), [{"a": 1}, {"a": "s"}]),
            ("use.chain:" + x, "r0 = %s .size 2\n%s = inner\ninner = tstr\n" % (x, x), ["ab", "abc"]),
            ("use.ctl-arg:" + x, "r0 = tstr .size %s\n%s = 2\n" % (x, x), ["ab", "abc"]),
            ("use.plain:" + x, 'r0 = { "v": %s }\n%s = [ * int ]\n' % (x, x), [{"v": [1, 2]}, {"v": ["s"]}]),
        ]
    chosen = rng.sample(poison, 5) + rng.sample(probes(n), 5) + rng.sample(probes(m), 2)
    members = []
    for name, schema, values in chosen:
        for entry in ("J", "C"):
            members.append(("%s/%s" % (name, entry),
                            [(entry, schema, json_text(v).encode() if entry == "J" else cbor_enc(v)) for v in values]))
    return {"kind": "alias@%s-%s" % (n, m), "members": members}


def history_group(rng, kind=None):
    """returns {"kind", "members": [(member name, [(entry, schema text, doc bytes)])]}: one member = one operator variant at one
    entry point with all the distinguishing documents"""
    kind = kind or rng.choice(["regex", "regex", "regex", "eqne-text", "eqne-int", "cmp", "cut", "range", "occur", "type", "alias"])
    if kind == "alias":
        return alias_group(rng)
    ctx_s, ctx_d, ctx_n = rng.choice(CONTEXTS)
    if kind == "regex":
        pat, full, infix, none = rng.choice(REGEX_PATTERNS)
        variants = [(op, 'tstr %s "%s"' % (op, pat)) for op in (".regexp", ".pcre", ".iregexp")]
        values = [full, infix, none]
    elif kind == "eqne-text":
        lit = rng.choice(TEXT_LITS)
        variants = [(op, 'tstr %s "%s"' % (op, lit)) for op in (".eq", ".ne")] + [("lit", '"%s"' % lit)]
        values = [lit, lit + "z"]
    elif kind == "eqne-int":
        n = rng.choice(NUMS)
        variants = [(op, "int %s %d" % (op, n)) for op in (".eq", ".ne")] + [("lit", "%d" % n)]
        values = [n, n + 1]
    elif kind == "cmp":
        n = rng.choice(NUMS[1:])
        variants = [(op, "uint %s %d" % (op, n)) for op in (".lt", ".le", ".gt", ".ge")]
        values = [n - 1, n, n + 1]
    elif kind == "cut":
        k = rng.choice(["a", "name", "x/y"])
        variants = [("cut", '{ ? "%s" ^ => int, * tstr => any }' % k), ("arrow", '{ ? "%s" => int, * tstr => any }' % k),
                    ("colon", '{ ? "%s": int, * tstr => any }' % k), ("nokey", "{ * tstr => any }")]
        values = [{k: "s"}, {k: 1}, {"zz": 1}]
    elif kind == "range":
        lo = rng.choice(NUMS)
        hi = lo + rng.choice([1, 4, 90])
        variants = [("..", "%d..%d" % (lo, hi)), ("...", "%d...%d" % (lo, hi))]
        values = [lo, hi - 1, hi]
    elif kind == "occur":
        variants = [(o, "[ %s int ]" % o) for o in ("*", "+", "?", "1*2")]
        values = [[], [1], [1, 2], [1, 2, 3]]
    else:
        variants = [("int", "int"), ("uint", "uint"), ("float", "float"), ("tstr", "tstr")]
        values = [-1, 1, 1.5, "1"]
    members = []
    for name, T in variants:
        for entry in ("J", "C"):
            calls = []
            for v in values:
                d = ctx_d(v)
                calls.append((entry, ctx_s(T), json_text(d).encode() if entry == "J" else cbor_enc(d)))
            members.append(("%s/%s" % (name, entry), calls))
    return {"kind": kind + "@" + ctx_n, "members": members}


def call_line(c):
    return "%s\t%s\t%s" % (c[0], c[1].encode().hex(), c[2].hex())


def isolated(drv, lines):
    """every line in a fresh process of its own (the baseline: no earlier call in the process)"""
    import subprocess

    def one(l):
        p = subprocess.run([drv], input=l + "\n", stdout=subprocess.PIPE, stderr=subprocess.DEVNULL, text=True, timeout=120)
        out = p.stdout.split("\n")
        return out[0] if out and out[0] else "CRASH rc=%s" % p.returncode
    with ThreadPoolExecutor(max_workers=common.NPROC) as ex:
        return list(ex.map(one, lines))


def group_orders(rng, n_members, extra):
    """orders of the members: all permutations when there are at most 3, otherwise every member first once (followed by a
    random arrangement of the others) plus `extra` random permutations"""
    import itertools
    idx = list(range(n_members))
    if n_members <= 3:
        return [list(p) for p in itertools.permutations(idx)]
    orders = []
    if n_members > 8:
        # large groups (alias histories): random arrangements together with their reversals, so that every ordered pair of
        # members (in particular every "poisoning" schema before every "probe" schema) occurs in some history
        for _ in range(max(2, (extra + 1) // 2 + 1)):
            o = idx[:]
            rng.shuffle(o)
            orders += [o, o[::-1]]
        return orders
    for f in idx:
        rest = [i for i in idx if i != f]
        rng.shuffle(rest)
        orders.append([f] + rest)
    for _ in range(extra):
        o = idx[:]
        rng.shuffle(o)
        orders.append(o)
    return orders


def run_histories(res, drv, rng, n_groups, extra_orders, forced_kinds=()):
    """returns statistics; reports a violation (with a two-call history when one suffices) for every call whose result in a
    history differs from its isolated baseline"""
    groups = [history_group(rng, k) for k in forced_kinds] + [history_group(rng) for _ in range(n_groups)]
    all_lines = sorted({call_line(c) for g in groups for _, calls in g["members"] for c in calls})
    base = dict(zip(all_lines, isolated(drv, all_lines)))
    jobs = []          # (group index, order, lines)
    for gi, g in enumerate(groups):
        for o in group_orders(rng, len(g["members"]), extra_orders):
            jobs.append((gi, o, [call_line(c) for mi in o for c in g["members"][mi][1]]))
    with ThreadPoolExecutor(max_workers=common.NPROC) as ex:
        outs = list(ex.map(lambda j: common.run_tool(drv, j[2], shards=1), jobs))
    stats = {"groups": len(groups), "kinds": {}, "isolated_calls": len(all_lines), "histories": len(jobs), "calls_in_histories": 0,
             "concurrent_groups": 0, "concurrent_calls": 0, "baseline_verdicts_distinguishing_members": 0}
    for g in groups:
        k = g["kind"].split("@")[0]
        stats["kinds"][k] = stats["kinds"].get(k, 0) + 1
        # the group is only informative when its members do not all answer alike
        sigs = {tuple(base[call_line(c)].split("\t")[0] for c in calls) for _, calls in g["members"]}
        if len(sigs) > 1:
            stats["baseline_verdicts_distinguishing_members"] += 1
    reported = set()
    for (gi, o, lines), out in zip(jobs, outs):
        g = groups[gi]
        stats["calls_in_histories"] += len(lines)
        for pos, (l, got) in enumerate(zip(lines, out)):
            if got == base[l] or (gi, l) in reported:
                continue
            reported.add((gi, l))
            if len(reported) > 40:
                continue                     # enough concrete histories; res.finish prints at most 20
            # shrink: one earlier call that is enough
            hist = lines[:pos]
            for h in (hist if len(reported) <= 12 else []):
                two = common.run_tool(drv, [h, l], shards=1)
                if len(two) == 2 and two[1] != base[l]:
                    hist = [h]
                    break
            e, sc, dc = l.split("\t")
            res.violation("%s: the result depends on earlier calls in the same process (group %s, order %s): alone in a fresh process %s ; "
                          "after %d other call(s) %s ; schema %r" % (ENTRY_NAME[e], g["kind"], [g["members"][m][0] for m in o], base[l][:200],
                                                                   len(hist), got[:200], bytes.fromhex(sc).decode()),
                          {"history": hist + [l], "isolated": base[l], "in_history": got, "entry": e, "schema": bytes.fromhex(sc).decode(), "doc_hex": dc})
    # concurrently, cold: no call before the threads start
    tc_lines, tc_calls = [], []
    for g in groups:
        calls = [c for _, cs in g["members"] for c in cs]
        rng.shuffle(calls)
        tc_calls.append(calls)
        tc_lines.append("TC\t16\t2\t" + "\t".join("%s:%s:%s" % (c[0], c[1].encode().hex(), c[2].hex()) for c in calls))
    with ThreadPoolExecutor(max_workers=4) as ex:
        tc_out = list(ex.map(lambda l: common.run_tool(drv, [l], shards=1, multi=True), tc_lines))
    for g, calls, out in zip(groups, tc_calls, tc_out):
        f = out[0].split("\t||\t") if out else ["CRASH"]
        if f[0] != "SETS" or len(f) != len(calls) + 1:
            res.violation("history group %s: concurrent run did not finish: %s" % (g["kind"], (out[0] if out else "")[:200]), {"kind": "threads"}, no_input=True)
            continue
        stats["concurrent_groups"] += 1
        stats["concurrent_calls"] += 32 * len(calls)
        for c, sec in zip(calls, f[1:]):
            l = call_line(c)
            seen = sec.split("\t&&\t")
            if seen != [base[l]] and ("T", l) not in reported:
                reported.add(("T", l))
                res.violation("%s: with the calls of group %s issued concurrently from 16 threads in a fresh process, this call returned %d different result(s) %s ; alone in a fresh process %s ; schema %r"
                              % (ENTRY_NAME[c[0]], g["kind"], len(seen), [x[:120] for x in seen[:3]], base[l][:200], c[1]),
                              {"history": [call_line(x) for x in calls], "concurrent": True, "isolated": base[l], "seen": seen[:4], "entry": c[0], "schema": c[1], "doc_hex": c[2].hex()})
    return stats


# ---------------------------------------------------------------------------
# the check
# ---------------------------------------------------------------------------

def run(tier, seed):
    import time
    res = Result(PROP, tier, seed)
    phases, t_last = {}, [time.time()]

    def phase(name):
        now = time.time()
        phases[name] = round(now - t_last[0], 1)
        t_last[0] = now
    proved = common.prove(res, PROP, PROP_FILE, [EXTRACT])
    phase("prove")
    if not proved:
        common.coq_build([EXTRACT])           # the models do not depend on the proofs: keep the oracle runnable
    # VERIF_C14_DRIVER: a pre-built driver binary (used only to test this check against mutated copies of the crate)
    drv = os.environ.get("VERIF_C14_DRIVER") or common.build_harness("c14")
    orc = common.build_oracle("err", ["err_model"])
    rng = random.Random(seed)
    n_schemas = 320 if tier == "quick" else 30000
    if not proved:
        n_schemas *= 2
    kfs = {k["id"]: k for k in own_findings()}
    KF_SLASH = "kf-c14-slash-key-location"

    # ---- corpus (runs first): witnesses of the _refuted theorems, of the open finding and of the fixed finding
    # kf-c14-cbor-docparse-as-cddlparsing (repaired in /repo 58416f1: a recurrence - the malformed CBOR document 18 reported with
    # the constructor of the malformed schema "r0 = [ int" - is a VIOLATION of check (b)), fixed shapes ----
    corpus = [
        mk("C", "corpus", "doc-malformed", "r0 = int\n", b"\x18"),
        mk("C", "corpus", "schema-malformed", "r0 = [ int\n", b"\x01"),
        mk("J", "corpus", "invalid", 'r0 = { "x/y": int }\n', b'{"x/y": "s"}', {"x/y": "s"}),
        mk("J", "corpus", "invalid", 'r0 = { "x/y": { "z": int } }\n', b'{"x/y": {"z": "s"}}', {"x/y": {"z": "s"}}),
        mk("J", "corpus", "invalid", 'r0 = { "": { "z": int } }\n', b'{"": {"z": "s"}}', {"": {"z": "s"}}),
        mk("J", "corpus", "invalid", 'r0 = { "a": int, "b": tstr }\n', b'{"a": "s", "b": 2}', {"a": "s", "b": 2}),
        mk("J", "corpus", "invalid", 'r0 = { "a": { "p": int, "q": [ int, tstr ] }, "b": tstr }\n', b'{"a": {"p": 1, "q": [1, 2]}, "b": 5}', {"a": {"p": 1, "q": [1, 2]}, "b": 5}),
        mk("J", "corpus", "valid", 'r0 = { "a": ( int / tstr ) }\n', b'{"a": "s"}', {"a": "s"}),
        mk("J", "corpus", "valid", 'r0 = { "a": int } / { "b": tstr }\n', b'{"b": "s"}', {"b": "s"}),
        mk("J", "corpus", "invalid", 'r0 = [ int, { "k": [ bool, bool ] } ]\n', b'[1, {"k": [true, 3]}]', [1, {"k": [True, 3]}]),
        mk("C", "corpus", "invalid", 'r0 = { "a": { "p": int, "q": [ int, tstr ] }, "b": tstr }\n', cbor_enc({"a": {"p": 1, "q": [1, 2]}, "b": 5}), {"a": {"p": 1, "q": [1, 2]}, "b": 5}),
        mk("J", "corpus", "doc-malformed", "r0 = int\n", b"{"),
        mk("J", "corpus", "schema-malformed", "r0 = [ int\n", b"1"),
    ]
    phase("build")
    cases = corpus + gen_cases(rng, n_schemas)
    lines = [line_of(c) for c in cases]
    phase("generate")

    # ---- pass A: generation order ----
    out_a = common.run_tool(drv, lines)

    phase("pass_a")
    # ---- pass B: every case again in another process, reversed order, after >= 100 unrelated calls ----
    order = list(range(len(cases)))[::-1]
    nchunk = max(1, min(common.NPROC, len(order) // 150))
    size = (len(order) + nchunk - 1) // nchunk
    chunks = [order[i:i + size] for i in range(0, len(order), size)]

    rng_w = random.Random(seed + 1)
    warm_sets = [[lines[j] for j in rng_w.sample(range(len(cases)), min(100, len(cases)))] for _ in chunks]

    def run_chunk2(k):
        out = common.run_tool(drv, warm_sets[k] + [lines[j] for j in chunks[k]], shards=1)
        return out[len(warm_sets[k]):]
    with ThreadPoolExecutor(max_workers=common.NPROC) as ex:
        parts = list(ex.map(run_chunk2, range(len(chunks))))
    out_b = [None] * len(cases)
    for ix, part in zip(chunks, parts):
        for j, o in zip(ix, part):
            out_b[j] = o

    phase("pass_b")
    # ---- threads: batches of 25 calls, 16 threads x 2 rounds against single-threaded baselines; sample rich in multi-error lists ----
    multi = [i for i, o in enumerate(out_a) if o.startswith("ERR\tValidation") and not o.startswith("ERR\tValidation\t1\t")]
    multi_set = set(multi)
    others = [i for i in range(len(cases)) if i not in multi_set]
    n_thr = 250 if tier == "quick" else 12000
    t_ix = list(range(len(corpus))) + rng.sample(multi, min(len(multi), n_thr * 2 // 3))
    t_ix += rng.sample(others, min(len(others), n_thr - len(t_ix) + len(corpus)))
    BATCH = 25
    t_batches = [t_ix[i:i + BATCH] for i in range(0, len(t_ix), BATCH)]
    t_lines = ["TB\t16\t2\t" + "\t".join("%s:%s:%s" % (cases[i]["entry"], cases[i]["schema"].encode().hex(), cases[i]["doc"].hex()) for i in bt)
               for bt in t_batches]
    out_t = common.run_tool(drv, t_lines, shards=4, multi=True)
    phase("threads")
    # ---- the generated table, as Coq has it ----
    ktab = common.run_tool(orc, ["K\t%d\t%d" % (e, c) for e in (0, 1) for c in (0, 1, 2)] + ["KD\t0", "KD\t1"], shards=1)
    table = {"J": {0: ktab[0], 1: ktab[1], 2: ktab[2]}, "C": {0: ktab[3], 1: ktab[4], 2: ktab[5]}}
    table_distinct = {"J": ktab[6] == "1", "C": ktab[7] == "1"}

    # ---- evaluate ----
    evaluations = 0
    class_hist, label_hist, kind_hist, verdicts = {}, {}, {}, {"OK": 0, "ERR": 0}
    depth_hist, loc_depth_hist = {}, {}
    distinct = set()
    observed = {"J": {0: {}, 1: {}, 2: {}}, "C": {0: {}, 1: {}, 2: {}}}      # entry -> class -> kind -> example case index
    loc_queries, loc_meta = [], []
    n_multi, max_list = 0, 0
    trailing_accepted = 0
    comparable = [0, 0]

    def viol(text, c, **kw):
        res.violation(text, replay_dict(c, **kw))

    for i, (c, a, b) in enumerate(zip(cases, out_a, out_b)):
        evaluations += 2
        en = ENTRY_NAME[c["entry"]]
        key = c["entry"] + "/" + c["class"]
        class_hist[key] = class_hist.get(key, 0) + 1
        label_hist[c["entry"] + "/" + c["label"]] = label_hist.get(c["entry"] + "/" + c["label"], 0) + 1
        r = parse_out(a)
        if c["has_obj"]:
            d = depth_of(c["obj"])
            depth_hist[d] = depth_hist.get(d, 0) + 1
            if d >= 1:
                distinct.add((c["entry"], c["schema"], c["doc"]))
        else:
            distinct.add((c["entry"], c["schema"], c["doc"]))
        # (d) stability
        if r["v"] == "UNSTABLE":
            viol("%s: three consecutive identical calls gave different results: %s" % (en, a[:400]), c, impl=a)
            continue
        if a != b:
            viol("%s: the same call gave a different result in another process after >= 100 other calls (different order): first %s ; later %s" % (en, a[:300], (b or "")[:300]), c, impl=a, impl_later=b)
            continue
        if r["v"] not in ("OK", "ERR"):
            viol("%s did not return: %s" % (en, a[:200]), c, impl=a)
            continue
        verdicts[r["v"]] += 1
        kind_hist[c["entry"] + "/" + str(r["kind"])] = kind_hist.get(c["entry"] + "/" + str(r["kind"]), 0) + 1
        # (a) list / verdict
        if r["kind"] == "Validation":
            if r["n"] == 0 or not r["errs"]:
                viol("%s returned Err(Validation(l)) with an empty l" % en, c, impl=a)
                continue
            if len(r["errs"]) > 1:
                n_multi += 1
            max_list = max(max_list, len(r["errs"]))
        lab = c["label"]
        if lab == "valid" and r["v"] != "OK":
            viol("%s: the document conforms to the schema (by construction and by the reference semantics of the generated fragment) but errors were recorded: %s %s"
                 % (en, r["kind"], r["errs"][:3] or r.get("msg", "")), c, impl=a)
            continue
        if lab == "invalid" and r["v"] == "OK":
            viol("%s returned Ok for a non-conforming document (%s): an error had to be recorded" % (en, c["class"]), c, impl=a)
            continue
        # (b) kinds
        if lab in CLASS_CODE and r["v"] == "ERR":
            cc = CLASS_CODE[lab]
            observed[c["entry"]][cc].setdefault(r["kind"], i)
            if r["kind"] != table[c["entry"]][cc]:
                viol("%s: failure class '%s' is reported as Error::%s, the table translated from validator/mod.rs (Generated/ErrorKinds.v) says Error::%s"
                     % (en, lab, r["kind"], table[c["entry"]][cc]), c, impl=a)
                continue
        if lab in ("schema-malformed", "doc-malformed") and r["v"] == "OK":
            viol("%s returned Ok for a %s input" % (en, lab), c, impl=a)
            continue
        if lab == "both-malformed" and (r["v"] == "OK" or r["kind"] not in (table[c["entry"]][0], table[c["entry"]][1])):
            viol("%s: malformed schema and malformed document reported as %s" % (en, r["kind"] or "Ok"), c, impl=a)
            continue
        if lab == "unlabelled" and r["v"] == "ERR" and r["kind"] != "Validation":
            viol("%s: a well-formed schema and a well-formed document are reported as Error::%s" % (en, r["kind"]), c, impl=a)
            continue
        if lab == "cbor-trailing" and r["v"] == "OK":
            trailing_accepted += 1
        # (c) locations
        if r["kind"] == "Validation" and c["has_obj"]:
            t = tree(c["obj"])
            if c["entry"] == "J":
                for loc, reason in r["errs"]:
                    loc_queries.append("R\t%s\t%s" % (t, loc.encode().hex()))
                    loc_meta.append((i, loc, reason, loc))
            elif all_keys_plain(c["obj"]):
                for loc, reason in r["errs"]:
                    jl = cbor_loc_to_json_loc(loc)
                    if jl is None:
                        viol("%s: cbor_location %r is not of the form /\"key\"/index/... although every key of the document is a plain text key" % (en, loc), c, impl=a)
                        continue
                    loc_queries.append("R\t%s\t%s" % (t, jl.encode().hex()))
                    loc_meta.append((i, loc, reason, jl))
            if c["mpath"] is not None:
                mp = "".join("/" + str(s) for s in c["mpath"])
                for loc, _ in r["errs"]:
                    jl = loc if c["entry"] == "J" else (cbor_loc_to_json_loc(loc) or "")
                    comparable[1] += 1
                    if mp.startswith(jl) or jl.startswith(mp):
                        comparable[0] += 1

    phase("evaluate")
    loc_res = common.run_tool(orc, loc_queries)
    phase("oracle")
    evaluations += len(loc_res)
    slash_seen, n_strict = 0, 0
    for (i, loc, reason, jl), rr in zip(loc_meta, loc_res):
        c = cases[i]
        dseg = 0 if jl == "" else jl.count("/")
        loc_depth_hist[dseg] = loc_depth_hist.get(dseg, 0) + 1
        if rr == "11":
            n_strict += 1
            continue
        if rr == "01" and "/" in "".join(k for k in all_keys(c["obj"])):
            # classifier of kf-c14-slash-key-location: resolves_string = false, resolves_amb = true (a key containing '/'
            # lies on the path; Coq: C14_loc_invariant_string_refuted / C14_resolves_amb_render)
            slash_seen += 1
            if KF_SLASH in kfs:
                res.known(kfs[KF_SLASH])
                continue
        viol("%s: error location %r (reason %r) does not resolve to a node of the validated document (Coq Err.Loc.check_render = %s)"
             % (ENTRY_NAME[c["entry"]], loc, reason, rr), c, location=loc, oracle=rr)

    # (b) classes kept apart, on what the implementation returned
    for e in ("J", "C"):
        for x, y in ((0, 1), (0, 2), (1, 2)):
            common_k = set(observed[e][x]) & set(observed[e][y])
            for k in sorted(common_k):
                ca, cb = cases[observed[e][x][k]], cases[observed[e][y][k]]
                res.violation("%s reports two failure classes (%s and %s) through the same constructor Error::%s"
                              % (ENTRY_NAME[e], ["malformed schema", "malformed document", "non-conforming document"][x],
                                 ["malformed schema", "malformed document", "non-conforming document"][y], k),
                              {"first": replay_dict(ca), "second": replay_dict(cb), **replay_dict(cb)})
        for cc in (0, 1, 2):
            if not observed[e][cc]:
                res.violation("generator degenerate: no %s case of class %d reached an error" % (e, cc), {"kind": "generator"}, no_input=True)

    # (d) threads: batches of 25 different calls, 16 threads x 2 rounds each, all compared with single-threaded baselines
    thread_runs, thread_calls = 0, 0
    if len(out_t) != len(t_batches):
        res.violation("thread test: %d result lines for %d batches (the driver died?)" % (len(out_t), len(t_batches)), {"kind": "threads"}, no_input=True)
    for bt, o in zip(t_batches, out_t):
        f = o.split("\t||\t")
        head = f[0].split("\t")
        if head[0] == "SAME" and len(f) == len(bt) + 1:
            thread_runs += len(bt)
            thread_calls += int(head[1])
            for i, base in zip(bt, f[1:]):
                if base != out_a[i].replace("UNSTABLE\t", ""):
                    viol("%s: the call made on the main thread of the thread test differs from the earlier call: %s vs %s"
                         % (ENTRY_NAME[cases[i]["entry"]], base[:300], out_a[i][:300]), cases[i], impl=out_a[i], impl_later=base)
        elif head[0] == "DIFF":
            i = bt[int(head[1])]
            viol("%s: with 16 threads calling concurrently, a thread got a result different from the single-threaded baseline: %s"
                 % (ENTRY_NAME[cases[i]["entry"]], o[:600]), cases[i], impl=o)
        else:
            res.violation("thread test: unexpected driver output %s" % o[:200], {"kind": "threads"}, no_input=True)
    evaluations += thread_calls

    # known findings: replay the witnesses
    replay_findings(res, kfs, drv, orc, table)
    phase("threads_eval")

    # (e) global state: a static that can change after start-up and is not in the reviewed baseline breaks the purity
    # assumption behind C14_model_deterministic; it is treated like a broken proof obligation: the history search is widened
    # and, if no concrete failing history is found, the run still fails naming the static.
    gs = scan_global_state()
    new_gs = [h for h in gs if h not in GLOBAL_STATE_BASELINE]
    gone_gs = [h for h in GLOBAL_STATE_BASELINE if h not in gs]
    if gone_gs:
        res.notes.append("baseline entries of the global-state scan no longer present: " + "; ".join(gone_gs))
    # (d') histories
    wide = bool(new_gs) or not proved
    n_groups = (36 if tier == "quick" else 600) * (4 if wide else 1)
    hstats = run_histories(res, drv, rng, n_groups, extra_orders=(12 if wide else 3) if tier == "quick" else 12,
                           forced_kinds=["regex", "eqne-text", "eqne-int", "cmp", "cut", "range", "occur", "type", "alias", "alias", "alias"])
    evaluations += hstats["isolated_calls"] + hstats["calls_in_histories"] + hstats["concurrent_calls"]
    phase("histories")
    if new_gs and res.violations:
        res.notes.append("process-global mutable state not in the reviewed baseline: " + "; ".join(new_gs[:10]))
    if new_gs and not res.violations:
        res.violation("process-global mutable state that is not in the reviewed baseline: %s - the purity assumption behind C14_model_deterministic "
                      "(a call is a function of schema and document only) is no longer justified; %d history groups (%d histories, %d concurrent runs) "
                      "found no call whose result depends on other calls" % ("; ".join(new_gs[:6]), hstats["groups"], hstats["histories"], hstats["concurrent_groups"]),
                      {"kind": "purity-assumption", "new_global_state": new_gs}, no_input=True)

    # vm_compute slice of the location queries: guards extraction and the OCaml tree parser
    if loc_queries:
        k = min(len(loc_queries), 100)
        sl = rng.sample(range(len(loc_queries)), k)
        exprs = []
        for j in sl:
            i, loc, reason, jl = loc_meta[j]
            exprs.append("check_render %s %s" % (coq_json(cases[i]["obj"]), coq_str(jl)))
        exprs += ["kind_codes %d %d" % (e, c) for e in (0, 1) for c in (0, 1, 2)]
        try:
            vm = common.vm_compute_slice(PROP, "From Coq Require Import List NArith. Import ListNotations. Open Scope N_scope.\nFrom Cddl Require Import Err.Loc Err.Oracle.", exprs)
            want = [loc_res[j] for j in sl] + ktab[:6]
            bad = [(e, x, y) for e, x, y in zip(exprs, vm, want) if x != y]
            if bad:
                res.violation("extracted oracle and vm_compute disagree on %s: %s vs %s" % (bad[0][0][:200], bad[0][1], bad[0][2]), {"kind": "extraction", "case": list(bad[0])}, no_input=True)
        except RuntimeError as e:
            res.violation("vm_compute slice failed: %s" % str(e)[-300:], {"kind": "extraction"}, no_input=True)
    else:
        k = 0

    phase("vm_slice")
    split = verdicts["OK"] / max(1, verdicts["OK"] + verdicts["ERR"])
    if not (0.15 <= split <= 0.85):
        res.violation("generator degenerate: verdict split %.2f" % split, {"kind": "generator"}, no_input=True)
    if not proved and not res.violations:
        res.violation(res.proof_broken, {"kind": "proof-obligation", "detail": res.proof_broken}, no_input=True)

    res.coverage.update({
        "evaluations": evaluations,
        "distinct_nontrivial": len(distinct),
        "rule": "cases = (entry point, schema, document); schemas generated over maps with literal keys (plain and '/', '~', empty, unicode, "
                "numeric-looking keys), optional members, wildcard maps, nested maps/arrays, tuples with an optional tail, homogeneous arrays with "
                "* + n*m, type choices, ranges, .size/.lt/.ge, literals, rule references; documents = inhabitants, single-point mutants (wrong kind "
                "at depth, missing/extra member, array shorter/longer, other value), double mutants, unrelated values; plus malformed schemas, "
                "malformed JSON texts, malformed / trailing CBOR. Every case is called 3x in a row, again in another process in reverse order after "
                "100 other calls; a sample from 16 threads. distinct_nontrivial = distinct cases whose document is a container or malformed.",
        "class_histogram": class_hist, "label_histogram": label_hist, "kind_histogram": kind_hist, "verdict_split": verdicts,
        "document_depth_histogram": {str(k): v for k, v in sorted(depth_hist.items())},
        "locations_checked": len(loc_res), "locations_strictly_resolving": n_strict, "locations_slash_ambiguous": slash_seen,
        "location_depth_histogram": {str(k): v for k, v in sorted(loc_depth_hist.items())},
        "error_lists_with_more_than_one_entry": n_multi, "longest_error_list": max_list,
        "locations_comparable_with_mutation_path": "%d/%d (statistic only)" % tuple(comparable),
        "thread_runs": thread_runs, "thread_calls": thread_calls, "threads_per_run": 16, "thread_batch": "25 different calls per batch, each thread runs the batch twice from its own offset",
        "calls_repeated_in_second_process": len(cases), "warmup_calls_per_process": 100,
        "cbor_trailing_bytes_accepted": trailing_accepted,
        "kind_table_from_code": {ENTRY_NAME[e]: {n: table[e][c] for n, c in CLASS_CODE.items()} for e in ("J", "C")},
        "kind_table_distinct": {ENTRY_NAME[e]: table_distinct[e] for e in ("J", "C")},
        "global_state_scan": {"static_pattern": STATIC_DECL.pattern, "mutable_types": MUTABLE_TYPE.pattern, "macros": STATE_MACRO.pattern,
                              "hits": gs, "baseline": GLOBAL_STATE_BASELINE, "new": new_gs},
        "histories": hstats, "history_search_widened": wide,
        "vm_compute_slice": k + 6, "phase_seconds": phases,
        "samples": [{"entry": c["entry"], "class": c["class"], "label": c["label"], "schema": c["schema"], "doc": c["doc"].decode("utf-8", "replace") if c["entry"] == "J" else c["doc"].hex(),
                     "impl": str(parse_out(a))[:300]} for c, a in list(zip(cases, out_a))[len(corpus):len(corpus) + 40:5]],
    })
    res.assumptions = [
        "the reference semantics of the generated fragment (lib/props/c14.py: valid) labels documents conforming / non-conforming; it is ordinary RFC 8610 on maps with literal keys, tuples, homogeneous arrays, choices, ranges, .size/.lt/.ge",
        "thread schedules are only run (batches of 25 calls; 16 threads each making every call of the batch twice, overlapping different calls), not enumerated",
        "cbor_location is compared only for documents whose keys are plain ASCII identifiers (Debug rendering of the key = the key in quotes)",
        "the walk model (Err/Walk.v) abstracts the validators' descent; the code's locations are checked per run, not proven",
    ]
    return res.finish()


def all_keys(v):
    if isinstance(v, dict):
        for k, x in v.items():
            yield k
            yield from all_keys(x)
    elif isinstance(v, list):
        for x in v:
            yield from all_keys(x)


def replay_findings(res, kfs, drv, orc, table):
    for kid, kf in kfs.items():
        w = kf["witness"]
        if kid == "kf-c14-slash-key-location":
            doc = json.loads(w["document"])
            a = common.run_tool(drv, ["J\t%s\t%s" % (w["schema"].encode().hex(), w["document"].encode().hex())], shards=1)[0]
            ra = parse_out(a)
            locs = [l for l, _ in ra["errs"]]
            rr = common.run_tool(orc, ["R\t%s\t%s" % (tree(doc), l.encode().hex()) for l in locs], shards=1) if locs else []
            if "01" in rr:
                res.known(kf)
            else:
                res.notes.append("finding %s apparently repaired: locations %s resolve as %s" % (kid, locs, rr))


def replay(path):
    r = json.load(open(path))["replay"]
    drv = os.environ.get("VERIF_C14_DRIVER") or common.build_harness("c14")
    common.coq_build([EXTRACT])
    orc = common.build_oracle("err", ["err_model"])
    if "history" in r:
        tgt = r["history"][-1]
        alone = isolated(drv, [tgt])[0]
        print("entry :", ENTRY_NAME[r["entry"]])
        print("schema:", r["schema"].rstrip())
        print("doc   :", r["doc_hex"])
        print("alone in a fresh process          :", parse_out(alone))
        if r.get("concurrent"):
            line = "TC\t16\t2\t" + "\t".join(":".join(l.split("\t")) for l in r["history"])
            out = common.run_tool(drv, [line], shards=1, multi=True)[0].split("\t||\t")
            secs = out[1:]
            i = len(r["history"]) - 1 - r["history"][::-1].index(tgt)
            i = r["history"].index(call_line((r["entry"], r["schema"], bytes.fromhex(r["doc_hex"]))))
            print("from 16 threads, cold process     :", [parse_out(x) for x in secs[i].split("\t&&\t")])
        else:
            out = common.run_tool(drv, r["history"], shards=1)
            print("after %d earlier call(s), same process:" % (len(r["history"]) - 1), parse_out(out[-1]))
            for h in r["history"][:-1]:
                e, sc, dc = h.split("\t")
                print("   earlier call:", ENTRY_NAME[e], repr(bytes.fromhex(sc).decode()), dc)
        return 0
    todo = [r["first"], r["second"]] if "first" in r else [r]
    for c in todo:
        if "schema" not in c:
            print("nothing to replay:", c)
            continue
        line = "%s\t%s\t%s" % (c["entry"], c["schema"].encode().hex(), c["doc_hex"])
        out = common.run_tool(drv, [line], shards=1)[0]
        p = parse_out(out)
        print("entry :", ENTRY_NAME[c["entry"]])
        print("schema:", c["schema"].rstrip())
        print("doc   :", c.get("doc_text", c["doc_hex"]))
        print("impl  :", p)
        tline = "T\t%s\t%s\t%s\t16\t4" % (c["entry"], c["schema"].encode().hex(), c["doc_hex"])
        print("threads:", common.run_tool(drv, [tline], shards=1)[0].split("\t")[0])
        if "doc_json" in c and p["errs"]:
            doc = json.loads(c["doc_json"])
            for loc, reason in p["errs"]:
                jl = loc if c["entry"] == "J" else cbor_loc_to_json_loc(loc)
                if jl is None:
                    print("  location %r: not comparable" % loc)
                    continue
                q = "R\t%s\t%s" % (tree(doc), jl.encode().hex())
                m = common.run_tool(orc, [q], shards=1)[0]
                vm = common.vm_compute_slice(PROP, "From Coq Require Import List NArith. Import ListNotations. Open Scope N_scope.\nFrom Cddl Require Import Err.Loc Err.Oracle.",
                                             ["check_render %s %s" % (coq_json(doc), coq_str(jl))])[0]
                print("  location %r reason %r: model (strict, tolerant) = %s ; vm_compute = %s" % (loc, reason, m, vm))
    return 0
